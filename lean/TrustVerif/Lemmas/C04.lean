import TrustVerif.Model.C04

/-! Helper lemmas for C04 (property theorems live in `Props/C04.lean`). -/
namespace TrustVerif.C04

/-! ## Generic: invariants of a fold over a trace, indexed by the history (most recent first) -/

theorem foldl_inv {σ α : Type} (f : σ → α → σ) (Inv : σ → List α → Prop)
    (hstep : ∀ s h c, Inv s h → Inv (f s c) (c :: h)) :
    ∀ (tr : List α) (s : σ) (h : List α), Inv s h → Inv (tr.foldl f s) (tr.reverse ++ h) := by
  intro tr
  induction tr with
  | nil => intro s h hi; simpa using hi
  | cons c tr ih =>
    intro s h hi
    have := ih (f s c) (c :: h) (hstep s h c hi)
    simpa [List.foldl_cons, List.reverse_cons, List.append_assoc] using this

theorem foldl_inv0 {σ α : Type} (f : σ → α → σ) (Inv : σ → List α → Prop) (s0 : σ)
    (h0 : Inv s0 [])
    (hstep : ∀ s h c, Inv s h → Inv (f s c) (c :: h)) (tr : List α) :
    Inv (tr.foldl f s0) tr.reverse := by
  simpa using foldl_inv f Inv hstep tr s0 [] h0

/-- Pointwise refinement on every prefix gives equality of the whole output sequence. -/
theorem outputs_eq_map_prefixes {σ α β : Type} (step : σ → α → σ × β) :
    ∀ (tr : List α) (init : σ) (spec : List α → β),
      (∀ pre c, (step (pre.foldl (fun s c => (step s c).1) init) c).2 = spec (pre ++ [c])) →
      outputs step init tr = (prefixes tr).map spec := by
  intro tr
  induction tr with
  | nil => intro init spec _; simp [outputs, prefixes]
  | cons c tr ih =>
    intro init spec h
    have h0 := h [] c
    have ih' := ih (step init c).1 (fun l => spec (c :: l)) (by
      intro pre c'
      have := h (c :: pre) c'
      simpa using this)
    simp only [outputs, prefixes, List.map_cons, List.map_map]
    simp only [List.foldl_nil, List.nil_append] at h0
    rw [h0, ih']
    simp [Function.comp_def]

theorem length_prefixes {α : Type} : ∀ tr : List α, (prefixes tr).length = tr.length
  | [] => rfl
  | c :: tr => by simp [prefixes, length_prefixes tr]

/-! ## TON -/

theorem normPt_nonneg (pt : Int) : 0 ≤ normPt pt := by
  unfold normPt; split <;> omega

/-- Struct route: the private accumulator is the spec's accumulated time. -/
theorem tonRun_et (tr : List TCall) : (tonRun tr).et = Spec.tonAcc tr.reverse := by
  unfold tonRun
  refine foldl_inv0 (fun s c => (tonStep s c).1) (fun s h => s.et = Spec.tonAcc h) {} rfl ?_ tr
  intro s h c hi
  simp only [tonStep, Spec.tonAcc]
  split <;> simp [hi]

theorem tonStep_out (s : TonS) (h : List TCall) (c : TCall) (hi : s.et = Spec.tonAcc h) :
    (tonStep s c).2 = Spec.tonR (c :: h) := by
  simp only [tonStep, Spec.tonR, Spec.tonAcc]
  have := normPt_nonneg c.pt
  by_cases hc : c.inp = true
  · simp [hc, hi]
  · simp [hc]


/-! ## TOF -/

/-- Time accumulated since IN fell, if the off-delay is still running after the calls `h`. -/
def Spec.tofTiming (h : List TCall) : Option Int :=
  match Spec.sinceFall h with
  | some (c :: r) => if Spec.allBelow (c :: r) then some (Spec.sumDt (c :: r)) else none
  | _ => none

theorem sinceFall_nil_iff (h : List TCall) : Spec.sinceFall h = some [] ↔ Spec.lastIn h = true := by
  cases h with
  | nil => simp [Spec.sinceFall, Spec.lastIn]
  | cons c h =>
    simp only [Spec.sinceFall, Spec.lastIn]
    by_cases hc : c.inp = true
    · simp [hc]
    · simp only [hc]
      cases Spec.sinceFall h <;> simp

theorem ite_zero_normPt (pt : Int) : (if (0 : Int) ≥ normPt pt then normPt pt else 0) = 0 := by
  have := normPt_nonneg pt
  split <;> omega

/-- `Tof::step`, IN = TRUE. -/
theorem tofStep_in (s : TofS) (c : TCall) (hc : c.inp = true) :
    tofStep s c = ({ et := 0, q := true, prevIn := true, timing := false }, { q := true, et := 0 }) := by
  simp [tofStep, hc, ite_zero_normPt]

/-- `Tof::step`, IN = FALSE while the delay starts or runs. -/
theorem tofStep_run (s : TofS) (c : TCall) (hc : c.inp = false) (ht : (s.prevIn || s.timing) = true) :
    tofStep s c =
      (if (if s.prevIn then 0 else s.et) + c.dt ≥ normPt c.pt then
        ({ et := (if s.prevIn then 0 else s.et) + c.dt, q := false, prevIn := false, timing := false },
         { q := false, et := normPt c.pt })
      else
        ({ et := (if s.prevIn then 0 else s.et) + c.dt, q := true, prevIn := false, timing := true },
         { q := true, et := (if s.prevIn then 0 else s.et) + c.dt })) := by
  simp only [tofStep, hc, ht, Bool.false_eq_true, if_false, if_true]
  by_cases hge : (if s.prevIn = true then 0 else s.et) + c.dt ≥ normPt c.pt
  · simp only [hge, if_true]
  · simp only [hge, if_false]

/-- `Tof::step`, IN = FALSE and nothing running. -/
theorem tofStep_idle (s : TofS) (c : TCall) (hc : c.inp = false) (hp : s.prevIn = false)
    (ht : s.timing = false) :
    tofStep s c = ({ et := 0, q := false, prevIn := false, timing := false }, { q := false, et := 0 }) := by
  simp [tofStep, hc, hp, ht, ite_zero_normPt]

theorem tofSpec_in (c : TCall) (h : List TCall) (hc : c.inp = true) :
    Spec.tofR (c :: h) = { q := true, et := 0 } ∧ Spec.tofTiming (c :: h) = none := by
  simp [Spec.tofR, Spec.tofTiming, Spec.sinceFall, hc]

theorem tofSpec_fall (c : TCall) (h : List TCall) (hc : c.inp = false) (hl : Spec.lastIn h = true) :
    Spec.tofR (c :: h) =
        (if c.dt ≥ normPt c.pt then { q := false, et := normPt c.pt } else { q := true, et := c.dt }) ∧
      Spec.tofTiming (c :: h) = (if c.dt ≥ normPt c.pt then none else some c.dt) := by
  have hsf := (sinceFall_nil_iff h).2 hl
  simp only [Spec.tofR, Spec.tofTiming, Spec.sinceFall, hc, hsf, Option.map_some, Bool.false_eq_true,
    if_false]
  simp only [Spec.allBelow, Spec.sumDt, Bool.and_true, Int.zero_add]
  by_cases hge : c.dt ≥ normPt c.pt
  · have : ¬ (c.dt < normPt c.pt) := by omega
    simp [hge, this]
  · have : c.dt < normPt c.pt := by omega
    simp [hge, this]

theorem tofSpec_cont (c : TCall) (h : List TCall) (a : Int) (hc : c.inp = false)
    (_hl : Spec.lastIn h = false) (ht : Spec.tofTiming h = some a) :
    Spec.tofR (c :: h) =
        (if a + c.dt ≥ normPt c.pt then { q := false, et := normPt c.pt } else { q := true, et := a + c.dt }) ∧
      Spec.tofTiming (c :: h) = (if a + c.dt ≥ normPt c.pt then none else some (a + c.dt)) := by
  unfold Spec.tofTiming at ht
  cases hsf : Spec.sinceFall h with
  | none => rw [hsf] at ht; cases ht
  | some l =>
    cases l with
    | nil => rw [hsf] at ht; cases ht
    | cons p r =>
      rw [hsf] at ht
      simp only at ht
      by_cases hab : Spec.allBelow (p :: r) = true
      · simp only [hab, if_true, Option.some.injEq] at ht
        have hsum : Spec.sumDt (c :: p :: r) = a + c.dt := by
          rw [Spec.sumDt, ht]
        simp only [Spec.tofR, Spec.tofTiming, Spec.sinceFall, hc, hsf, Option.map_some,
          Bool.false_eq_true, if_false]
        rw [Spec.allBelow, hab, hsum]
        by_cases hge : a + c.dt ≥ normPt c.pt
        · have : ¬ (a + c.dt < normPt c.pt) := by omega
          simp [hge, this]
        · have : a + c.dt < normPt c.pt := by omega
          simp [hge, this]
      · simp [hab] at ht

theorem tofSpec_idle (c : TCall) (h : List TCall) (hc : c.inp = false)
    (hl : Spec.lastIn h = false) (ht : Spec.tofTiming h = none) :
    Spec.tofR (c :: h) = { q := false, et := 0 } ∧ Spec.tofTiming (c :: h) = none := by
  have hne : Spec.sinceFall h ≠ some [] := fun e => by
    have := (sinceFall_nil_iff h).1 e
    rw [hl] at this
    cases this
  unfold Spec.tofTiming at ht
  cases hsf : Spec.sinceFall h with
  | none => simp [Spec.tofR, Spec.tofTiming, Spec.sinceFall, hc, hsf]
  | some l =>
    cases l with
    | nil => exact absurd hsf hne
    | cons p r =>
      rw [hsf] at ht
      simp only at ht
      have hab : Spec.allBelow (p :: r) = false := by
        cases hb : Spec.allBelow (p :: r) with
        | false => rfl
        | true => simp [hb] at ht
      have hab' : Spec.allBelow (c :: p :: r) = false := by
        rw [Spec.allBelow, hab]; simp
      simp [Spec.tofR, Spec.tofTiming, Spec.sinceFall, hc, hsf, hab, hab']

/-- The relation between the state of `Tof` and the history. -/
def TofInv (s : TofS) (h : List TCall) : Prop :=
  s.prevIn = Spec.lastIn h ∧ Spec.tofTiming h = (if s.timing then some s.et else none)

theorem tofInv_init : TofInv {} [] := by
  simp [TofInv, Spec.lastIn, Spec.tofTiming, Spec.sinceFall]

theorem tofStep_spec (s : TofS) (h : List TCall) (c : TCall) (hi : TofInv s h) :
    TofInv (tofStep s c).1 (c :: h) ∧ (tofStep s c).2 = Spec.tofR (c :: h) := by
  obtain ⟨hp, ht⟩ := hi
  by_cases hc : c.inp = true
  · obtain ⟨h1, h2⟩ := tofSpec_in c h hc
    rw [tofStep_in s c hc, h1]
    simp [TofInv, Spec.lastIn, hc, h2]
  · have hc' : c.inp = false := by simpa using hc
    by_cases hprev : s.prevIn = true
    · obtain ⟨h1, h2⟩ := tofSpec_fall c h hc' (by rw [← hp]; exact hprev)
      rw [tofStep_run s c hc' (by simp [hprev]), h1]
      simp only [hprev, if_true, Int.zero_add]
      split <;> simp [TofInv, Spec.lastIn, *]
    · have hprev' : s.prevIn = false := by simpa using hprev
      have hl : Spec.lastIn h = false := by rw [← hp]; exact hprev'
      by_cases htm : s.timing = true
      · simp only [htm, if_true] at ht
        obtain ⟨h1, h2⟩ := tofSpec_cont c h s.et hc' hl ht
        rw [tofStep_run s c hc' (by simp [htm]), h1]
        simp only [hprev', Bool.false_eq_true, if_false]
        split <;> simp [TofInv, Spec.lastIn, *]
      · have htm' : s.timing = false := by simpa using htm
        simp only [htm', Bool.false_eq_true, if_false] at ht
        obtain ⟨h1, h2⟩ := tofSpec_idle c h hc' hl ht
        rw [tofStep_idle s c hc' hprev' htm', h1]
        simp [TofInv, Spec.lastIn, hc', h2]

/-! ## TP -/

/-- Proof device, NOT the code: a pulse step that restarts ET on every rising edge of IN, also while a
pulse is running (this is what `Tp::step` did before commit b46c61d).  `tpStep_eq` expresses the code's
step through it; its own lemmas need the guard "no rising edge while a pulse runs". -/
def tpStepRetrig (s : TpS) (c : TCall) : TpS × TOut :=
  let pt := normPt c.pt
  let rising := !s.prevIn && c.inp
  let active0 := rising || s.active
  let et0 := if rising then 0 else s.et
  let s2 : TpS :=
    if active0 then
      if et0 + c.dt ≥ pt then { s with active := false, et := pt }
      else { s with active := true, et := et0 + c.dt }
    else { s with active := false, et := et0 }
  let s3 : TpS := { s2 with q := s2.active, prevIn := c.inp }
  (s3, { q := s3.q, et := if s3.active then s3.et else 0 })

/-- The auxiliary step while a pulse starts, restarts or runs. -/
theorem tpStepRetrig_run (s : TpS) (c : TCall) (ha : ((!s.prevIn && c.inp) || s.active) = true) :
    tpStepRetrig s c =
      (if (if (!s.prevIn && c.inp) = true then 0 else s.et) + c.dt ≥ normPt c.pt then
        ({ et := normPt c.pt, q := false, prevIn := c.inp, active := false }, { q := false, et := 0 })
      else
        ({ et := (if (!s.prevIn && c.inp) = true then 0 else s.et) + c.dt, q := true, prevIn := c.inp,
           active := true },
         { q := true, et := (if (!s.prevIn && c.inp) = true then 0 else s.et) + c.dt })) := by
  simp only [tpStepRetrig, ha, if_true]
  by_cases hge : (if (!s.prevIn && c.inp) = true then 0 else s.et) + c.dt ≥ normPt c.pt
  · simp only [hge, if_true, Bool.false_eq_true, if_false]
  · simp only [hge, if_false, if_true]

/-- The auxiliary step with no pulse and no rising edge. -/
theorem tpStepRetrig_idle (s : TpS) (c : TCall) (ha : ((!s.prevIn && c.inp) || s.active) = false) :
    tpStepRetrig s c = ({ et := s.et, q := false, prevIn := c.inp, active := false }, { q := false, et := 0 }) := by
  have hr : (!s.prevIn && c.inp) = false := by
    cases h1 : (!s.prevIn && c.inp) <;> simp [h1] at ha ⊢
  have hact : s.active = false := by
    cases h1 : s.active <;> simp [h1] at ha ⊢
  simp only [tpStepRetrig, hr, hact, Bool.or_self, Bool.false_eq_true, if_false]

theorem lastIn_cons (c : TCall) (h : List TCall) : Spec.lastIn (c :: h) = c.inp := rfl

/-- The relation between the state of `Tp` and the history. -/
def TpInv (s : TpS) (h : List TCall) : Prop :=
  s.prevIn = Spec.lastIn h ∧ Spec.tpRunning h = (if s.active then some s.et else none)

theorem tpInv_init : TpInv {} [] := by
  simp [TpInv, Spec.lastIn, Spec.tpRunning]

theorem tpStepRetrig_spec (s : TpS) (h : List TCall) (c : TCall) (hi : TpInv s h)
    (hg : ¬ (c.inp = true ∧ Spec.lastIn h = false ∧ (Spec.tpRunning h).isSome = true)) :
    TpInv (tpStepRetrig s c).1 (c :: h) ∧ (tpStepRetrig s c).2 = Spec.tpR (c :: h) := by
  obtain ⟨hp, ht⟩ := hi
  by_cases hact : s.active = true
  · -- a pulse is running; the guard excludes a rising edge
    simp only [hact, if_true] at ht
    have hr : (!s.prevIn && c.inp) = false := by
      cases hin : c.inp with
      | false => simp
      | true =>
        cases hpi : s.prevIn with
        | true => simp
        | false =>
          exfalso
          apply hg
          refine ⟨hin, ?_, ?_⟩
          · rw [← hp]; exact hpi
          · rw [ht]; rfl
    rw [tpStepRetrig_run s c (by simp [hact])]
    simp only [hr, Bool.false_eq_true, if_false]
    simp only [TpInv, Spec.tpR, Spec.tpRunning, lastIn_cons, ht]
    split <;> simp [*]
  · have hact' : s.active = false := by simpa using hact
    simp only [hact', Bool.false_eq_true, if_false] at ht
    by_cases hr : (!s.prevIn && c.inp) = true
    · -- a pulse starts
      have hr' : (c.inp && !Spec.lastIn h) = true := by
        rw [← hp]; simpa [Bool.and_comm] using hr
      rw [tpStepRetrig_run s c (by simp [hr])]
      simp only [hr, if_true, Int.zero_add]
      simp only [TpInv, Spec.tpR, Spec.tpRunning, lastIn_cons, ht, hr', if_true]
      split <;> simp [*]
    · have hr0 : (!s.prevIn && c.inp) = false := by simpa using hr
      have hr' : (c.inp && !Spec.lastIn h) = false := by
        rw [← hp]; simpa [Bool.and_comm] using hr0
      rw [tpStepRetrig_idle s c (by simp [hr0, hact'])]
      simp [TpInv, Spec.tpR, Spec.tpRunning, lastIn_cons, ht, hr']

/-- While a pulse is running the reported ET is the accumulator. -/
theorem tpStepRetrig_active_et (s : TpS) (c : TCall) (h : (tpStepRetrig s c).1.active = true) :
    (tpStepRetrig s c).2.et = (tpStepRetrig s c).1.et := by
  by_cases ha : ((!s.prevIn && c.inp) || s.active) = true
  · rw [tpStepRetrig_run s c ha] at h ⊢
    by_cases hge : (if (!s.prevIn && c.inp) = true then 0 else s.et) + c.dt ≥ normPt c.pt
    · simp only [hge, if_true] at h
      simp at h
    · simp only [hge, if_false]
  · have ha' : ((!s.prevIn && c.inp) || s.active) = false := by simpa using ha
    rw [tpStepRetrig_idle s c ha'] at h
    simp at h

/-- `Tp::step` ignores IN while a pulse runs: it is the auxiliary step on a state that remembers
"IN was TRUE" whenever a pulse is active. -/
theorem tpStep_eq (s : TpS) (c : TCall) :
    tpStep s c = tpStepRetrig { s with prevIn := s.prevIn || s.active } c := by
  cases hp : s.prevIn <;> cases ha : s.active <;> cases hc : c.inp <;>
    simp [tpStep, tpStepRetrig, hp, ha, hc] <;> split <;> simp

theorem tpStep_spec (s : TpS) (h : List TCall) (c : TCall) (hi : TpInv s h) :
    TpInv (tpStep s c).1 (c :: h) ∧ (tpStep s c).2 = Spec.tpR (c :: h) := by
  by_cases hact : s.active = true
  · obtain ⟨hp, ht⟩ := hi
    simp only [hact, if_true] at ht
    rw [tpStep_eq, tpStepRetrig_run _ c (by simp [hact])]
    simp only [hact, Bool.or_true, Bool.not_true, Bool.false_and, Bool.false_eq_true, if_false]
    simp only [TpInv, Spec.tpR, Spec.tpRunning, lastIn_cons, ht]
    split <;> simp [*]
  · have hact' : s.active = false := by simpa using hact
    have hs : ({ s with prevIn := s.prevIn || s.active } : TpS) = s := by
      cases s; simp_all
    rw [tpStep_eq, hs]
    refine tpStepRetrig_spec s h c hi ?_
    rintro ⟨_, _, h3⟩
    rw [hi.2, hact'] at h3
    simp at h3

theorem tpStep_active_et (s : TpS) (c : TCall) (h : (tpStep s c).1.active = true) :
    (tpStep s c).2.et = (tpStep s c).1.et := by
  rw [tpStep_eq] at h ⊢
  exact tpStepRetrig_active_et _ c h

/-! ## The `exec_*` route of the timers -/

theorem elapsed_nonneg (last : Option Int) (now : Int) : 0 ≤ elapsed last now := by
  unfold elapsed
  simp only
  split <;> omega

theorem toT_cons (c : XCall) (hx : List XCall) :
    Spec.toT (c :: hx) = c.toT (Spec.lastNow hx) :: Spec.toT hx := rfl

theorem lastNow_cons (c : XCall) (hx : List XCall) : Spec.lastNow (c :: hx) = some c.now := rfl

/-- A `Ton` rebuilt from the *reported* ET answers like the closed form as long as PT does not rise
inside a run. -/
theorem tonStep_clamped (s : TonS) (h : List TCall) (c : TCall) (hd : 0 ≤ c.dt)
    (hs : Spec.ptSteady (c :: h) = true) (he : s.et = (Spec.tonR h).et) :
    (tonStep s c).2 = Spec.tonR (c :: h) := by
  have hpc := normPt_nonneg c.pt
  cases h with
  | nil =>
    simp only [Spec.tonR] at he
    simp only [tonStep, Spec.tonR, Spec.tonAcc, he]
    by_cases hc : c.inp = true
    · simp [hc]
    · simp [hc]
  | cons p h' =>
    have hpp := normPt_nonneg p.pt
    have hA : p.inp = false → Spec.tonAcc (p :: h') = 0 := by
      intro hp; simp [Spec.tonAcc, hp]
    simp only [Spec.tonR] at he
    simp only [Spec.ptSteady, Bool.and_eq_true, Bool.or_eq_true, Bool.not_eq_true',
      Bool.and_eq_false_imp, decide_eq_true_eq] at hs
    have hs1 := hs.1
    simp only [tonStep, Spec.tonR]
    rw [show Spec.tonAcc (c :: p :: h') = if c.inp = true then Spec.tonAcc (p :: h') + c.dt else 0 from rfl]
    generalize Spec.tonAcc (p :: h') = A at *
    by_cases hc : c.inp = true
    · simp only [hc, if_true, Bool.true_and]
      by_cases hp : p.inp = true
      · have hle : normPt c.pt ≤ normPt p.pt := by
          rcases hs1 with h1 | h1
          · exact absurd hp (by simpa [hc] using h1)
          · exact h1
        by_cases hsat : A ≥ normPt p.pt
        · simp only [hsat, if_true] at he
          have h1 : s.et + c.dt ≥ normPt c.pt := by omega
          have h2 : A + c.dt ≥ normPt c.pt := by omega
          simp [h1, h2]
        · simp only [hsat, if_false] at he
          rw [he]
      · have hp' : p.inp = false := by simpa using hp
        have hA0 := hA hp'
        rw [hA0] at he
        have : s.et = 0 := by
          rw [he]; split <;> omega
        rw [this, hA0]
    · simp [hc]


/-- The relation between the instance variables of a TON and its history of runtime calls. -/
def TonXInv (i : TimerInst) (hx : List XCall) : Prop :=
  i.last = Spec.lastNow hx ∧
    (Spec.ptSteady (Spec.toT hx) = true → i.et = (Spec.tonR (Spec.toT hx)).et)

theorem ptSteady_tail (c : TCall) (h : List TCall) (hs : Spec.ptSteady (c :: h) = true) :
    Spec.ptSteady h = true := by
  cases h with
  | nil => rfl
  | cons p h' =>
    simp only [Spec.ptSteady, Bool.and_eq_true] at hs
    exact hs.2

theorem execTon_spec (i : TimerInst) (hx : List XCall) (c : XCall) (hi : TonXInv i hx) :
    TonXInv (execTon i c).1 (c :: hx) ∧
      (Spec.ptSteady (Spec.toT (c :: hx)) = true → (execTon i c).2 = Spec.tonR (Spec.toT (c :: hx))) := by
  obtain ⟨hl, he⟩ := hi
  have key : Spec.ptSteady (Spec.toT (c :: hx)) = true →
      (execTon i c).2 = Spec.tonR (Spec.toT (c :: hx)) := by
    intro hs
    rw [toT_cons] at hs ⊢
    have hs' := ptSteady_tail _ _ hs
    simp only [execTon, hl]
    exact tonStep_clamped _ _ _ (elapsed_nonneg _ _) hs (he hs')
  refine ⟨⟨rfl, ?_⟩, key⟩
  intro hs
  have := key hs
  simp only [execTon] at this ⊢
  rw [← this]

theorem tonXInv_init : TonXInv {} [] := by
  simp [TonXInv, Spec.lastNow, Spec.toT, Spec.tonR]

/-- While the delay is running the reported ET is the accumulator itself (no clamping). -/
theorem tofStep_timing_et (s : TofS) (c : TCall) (h : (tofStep s c).1.timing = true) :
    (tofStep s c).2.et = (tofStep s c).1.et := by
  by_cases hc : c.inp = true
  · rw [tofStep_in s c hc] at h
    simp at h
  · have hc' : c.inp = false := by simpa using hc
    by_cases ht : (s.prevIn || s.timing) = true
    · rw [tofStep_run s c hc' ht] at h ⊢
      by_cases hge : (if s.prevIn = true then 0 else s.et) + c.dt ≥ normPt c.pt
      · simp only [hge, if_true] at h
        simp at h
      · simp only [hge, if_false]
    · have hp : s.prevIn = false := by
        cases h1 : s.prevIn <;> simp [h1] at ht ⊢
      have htm : s.timing = false := by
        cases h1 : s.timing <;> simp [h1] at ht ⊢
      rw [tofStep_idle s c hc' hp htm] at h
      simp at h

/-- The relation between the instance variables of a TOF and its history of runtime calls. -/
def TofXInv (i : TimerInst) (hx : List XCall) : Prop :=
  i.last = Spec.lastNow hx ∧
    TofInv { et := i.et, q := i.q, prevIn := i.prevIn, timing := i.timing } (Spec.toT hx)

theorem execTof_spec (i : TimerInst) (hx : List XCall) (c : XCall) (hi : TofXInv i hx) :
    TofXInv (execTof i c).1 (c :: hx) ∧ (execTof i c).2 = Spec.tofR (Spec.toT (c :: hx)) := by
  obtain ⟨hl, hinv⟩ := hi
  obtain ⟨h1, h2⟩ := tofStep_spec _ _ (c.toT i.last) hinv
  unfold TofXInv
  rw [toT_cons, ← hl]
  refine ⟨⟨rfl, ?_⟩, h2⟩
  simp only [execTof]
  obtain ⟨h1a, h1b⟩ := h1
  refine ⟨h1a, ?_⟩
  rw [h1b]
  simp only
  by_cases ht : (tofStep { et := i.et, q := i.q, prevIn := i.prevIn, timing := i.timing } (c.toT i.last)).1.timing = true
  · simp only [ht, if_true]
    rw [tofStep_timing_et _ _ ht]
  · simp [ht]

theorem tofXInv_init : TofXInv {} [] := by
  refine ⟨rfl, ?_⟩
  exact tofInv_init

/-- The relation between the instance variables of a TP and its history of runtime calls. -/
def TpXInv (i : TimerInst) (hx : List XCall) : Prop :=
  i.last = Spec.lastNow hx ∧
    TpInv { et := i.et, q := i.q, prevIn := i.prevIn, active := i.active } (Spec.toT hx)

theorem execTp_spec (i : TimerInst) (hx : List XCall) (c : XCall) (hi : TpXInv i hx) :
    TpXInv (execTp i c).1 (c :: hx) ∧ (execTp i c).2 = Spec.tpR (Spec.toT (c :: hx)) := by
  obtain ⟨hl, hinv⟩ := hi
  obtain ⟨h1, h2⟩ := tpStep_spec _ _ (c.toT i.last) hinv
  unfold TpXInv
  rw [toT_cons, ← hl]
  refine ⟨⟨rfl, ?_⟩, h2⟩
  simp only [execTp]
  obtain ⟨h1a, h1b⟩ := h1
  refine ⟨h1a, ?_⟩
  rw [h1b]
  simp only
  by_cases ht : (tpStep { et := i.et, q := i.q, prevIn := i.prevIn, active := i.active }
      (c.toT i.last)).1.active = true
  · simp only [ht, if_true]
    rw [tpStep_active_et _ _ ht]
  · simp [ht]

theorem tpXInv_init : TpXInv {} [] := by
  refine ⟨rfl, ?_⟩
  exact tpInv_init

/-! ## Bounds on ET, no overflow -/

theorem tonStep_bounds (s : TonS) (c : TCall) (h0 : 0 ≤ s.et) (hd : 0 ≤ c.dt) :
    0 ≤ (tonStep s c).1.et ∧ (tonStep s c).1.et ≤ s.et + c.dt ∧
      0 ≤ (tonStep s c).2.et ∧ (tonStep s c).2.et ≤ (tonStep s c).1.et := by
  have hp := normPt_nonneg c.pt
  simp only [tonStep]
  by_cases hc : c.inp = true
  · simp only [hc, if_true]
    refine ⟨by omega, by omega, ?_, ?_⟩ <;> split <;> omega
  · simp only [hc, Bool.false_eq_true, if_false]
    refine ⟨by omega, by omega, ?_, ?_⟩ <;> split <;> omega

theorem tofStep_bounds (s : TofS) (c : TCall) (h0 : 0 ≤ s.et) (hd : 0 ≤ c.dt) :
    0 ≤ (tofStep s c).1.et ∧ (tofStep s c).1.et ≤ s.et + c.dt ∧
      0 ≤ (tofStep s c).2.et ∧ (tofStep s c).2.et ≤ (tofStep s c).1.et := by
  have hp := normPt_nonneg c.pt
  by_cases hc : c.inp = true
  · rw [tofStep_in s c hc]
    simp only
    omega
  · have hc' : c.inp = false := by simpa using hc
    by_cases ht : (s.prevIn || s.timing) = true
    · rw [tofStep_run s c hc' ht]
      have he : 0 ≤ (if s.prevIn = true then 0 else s.et) ∧ (if s.prevIn = true then 0 else s.et) ≤ s.et := by
        split <;> omega
      generalize (if s.prevIn = true then 0 else s.et) = e0 at *
      by_cases hge : e0 + c.dt ≥ normPt c.pt
      · simp only [hge, if_true]; refine ⟨?_, ?_, ?_, ?_⟩ <;> first | trivial | omega
      · simp only [hge, if_false]; refine ⟨?_, ?_, ?_, ?_⟩ <;> first | trivial | omega
    · have hpi : s.prevIn = false := by
        cases h1 : s.prevIn <;> simp [h1] at ht ⊢
      have htm : s.timing = false := by
        cases h1 : s.timing <;> simp [h1] at ht ⊢
      rw [tofStep_idle s c hc' hpi htm]
      simp only
      omega

theorem tpStepRetrig_bounds (s : TpS) (c : TCall) (h0 : 0 ≤ s.et) (hd : 0 ≤ c.dt) :
    0 ≤ (tpStepRetrig s c).1.et ∧ (tpStepRetrig s c).1.et ≤ s.et + c.dt ∧
      0 ≤ (tpStepRetrig s c).2.et ∧ (tpStepRetrig s c).2.et ≤ (tpStepRetrig s c).1.et := by
  have hp := normPt_nonneg c.pt
  by_cases ha : ((!s.prevIn && c.inp) || s.active) = true
  · rw [tpStepRetrig_run s c ha]
    have he : 0 ≤ (if (!s.prevIn && c.inp) = true then 0 else s.et) ∧
        (if (!s.prevIn && c.inp) = true then 0 else s.et) ≤ s.et := by
      split <;> omega
    generalize (if (!s.prevIn && c.inp) = true then 0 else s.et) = e0 at *
    by_cases hge : e0 + c.dt ≥ normPt c.pt
    · simp only [hge, if_true]; refine ⟨?_, ?_, ?_, ?_⟩ <;> first | trivial | omega
    · simp only [hge, if_false]; refine ⟨?_, ?_, ?_, ?_⟩ <;> first | trivial | omega
  · have ha' : ((!s.prevIn && c.inp) || s.active) = false := by simpa using ha
    rw [tpStepRetrig_idle s c ha']
    simp only
    omega

theorem tpStep_bounds (s : TpS) (c : TCall) (h0 : 0 ≤ s.et) (hd : 0 ≤ c.dt) :
    0 ≤ (tpStep s c).1.et ∧ (tpStep s c).1.et ≤ s.et + c.dt ∧
      0 ≤ (tpStep s c).2.et ∧ (tpStep s c).2.et ≤ (tpStep s c).1.et := by
  rw [tpStep_eq]
  exact tpStepRetrig_bounds { s with prevIn := s.prevIn || s.active } c h0 hd

theorem inI64_of (x : Int) (h0 : 0 ≤ x) (h1 : x ≤ i64Max) : inI64 x = true := by
  unfold inI64 i64Min i64Max
  unfold i64Max at h1
  simp only [Bool.and_eq_true, decide_eq_true_eq]
  omega

theorem tonOvf_false (s : TonS) (c : TCall) (h0 : 0 ≤ s.et) (hd : 0 ≤ c.dt)
    (hm : s.et + c.dt ≤ i64Max) : tonOvf s c = false := by
  simp [tonOvf, inI64_of (s.et + c.dt) (by omega) hm]

theorem tofOvf_false (s : TofS) (c : TCall) (h0 : 0 ≤ s.et) (hd : 0 ≤ c.dt)
    (hm : s.et + c.dt ≤ i64Max) : tofOvf s c = false := by
  have : inI64 ((if s.prevIn = true then 0 else s.et) + c.dt) = true := by
    apply inI64_of <;> split <;> omega
  simp only [tofOvf, this]; simp

theorem tpOvf_false (s : TpS) (c : TCall) (h0 : 0 ≤ s.et) (hd : 0 ≤ c.dt)
    (hm : s.et + c.dt ≤ i64Max) : tpOvf s c = false := by
  have : inI64 ((if (!s.prevIn && c.inp && !s.active) = true then 0 else s.et) + c.dt) = true := by
    apply inI64_of <;> split <;> omega
  simp only [tpOvf, this]; simp

/-- Clock invariant of a timer instance: the stored ET is non-negative and not larger than the
clock value of the last call. -/
def XClockInv (i : TimerInst) : Prop := 0 ≤ i.et ∧ i.et ≤ i.last.getD 0

/-- The clock value of the next call is a non-negative `i64` not before the previous call. -/
def ClockStep (i : TimerInst) (c : XCall) : Prop :=
  0 ≤ c.now ∧ c.now ≤ i64Max ∧ i.last.getD 0 ≤ c.now

theorem elapsed_le (i : TimerInst) (c : XCall) (hi : XClockInv i) (hc : ClockStep i c) :
    0 ≤ elapsed i.last c.now ∧ i.et + elapsed i.last c.now ≤ c.now ∧ elapsedOvf i.last c.now = false := by
  obtain ⟨h0, h1⟩ := hi
  obtain ⟨c0, c1, c2⟩ := hc
  cases hl : i.last with
  | none =>
    rw [hl] at h1
    simp only [Option.getD_none] at h1
    have : inI64 (c.now - c.now) = true := inI64_of _ (by omega) (by unfold i64Max; omega)
    simp only [elapsed, elapsedOvf, Option.getD_none, this]
    refine ⟨by split <;> omega, by split <;> omega, by simp⟩
  | some l =>
    rw [hl] at h1 c2
    simp only [Option.getD_some] at h1 c2
    have : inI64 (c.now - l) = true := inI64_of _ (by omega) (by omega)
    simp only [elapsed, elapsedOvf, Option.getD_some, this]
    refine ⟨by split <;> omega, by split <;> omega, by simp⟩

theorem execTon_clock (i : TimerInst) (c : XCall) (hi : XClockInv i) (hc : ClockStep i c) :
    execTonOvf i c = false ∧ XClockInv (execTon i c).1 := by
  obtain ⟨e0, e1, e2⟩ := elapsed_le i c hi hc
  have hb := tonStep_bounds { et := i.et, q := i.q } (c.toT i.last) hi.1 e0
  have ho := tonOvf_false { et := i.et, q := i.q } (c.toT i.last) hi.1 e0
    (by simp only [XCall.toT]; have := hc.2.1; omega)
  refine ⟨by simp [execTonOvf, e2, ho], ?_⟩
  simp only [XClockInv, execTon, Option.getD_some]
  simp only [XCall.toT] at hb e1
  simp only [XCall.toT]
  omega

theorem execTof_clock (i : TimerInst) (c : XCall) (hi : XClockInv i) (hc : ClockStep i c) :
    execTofOvf i c = false ∧ XClockInv (execTof i c).1 := by
  obtain ⟨e0, e1, e2⟩ := elapsed_le i c hi hc
  have hb := tofStep_bounds { et := i.et, q := i.q, prevIn := i.prevIn, timing := i.timing }
    (c.toT i.last) hi.1 e0
  have ho := tofOvf_false { et := i.et, q := i.q, prevIn := i.prevIn, timing := i.timing }
    (c.toT i.last) hi.1 e0 (by simp only [XCall.toT]; have := hc.2.1; omega)
  refine ⟨by simp [execTofOvf, e2, ho], ?_⟩
  simp only [XClockInv, execTof, Option.getD_some]
  simp only [XCall.toT] at hb e1
  simp only [XCall.toT]
  omega

theorem execTp_clock (i : TimerInst) (c : XCall) (hi : XClockInv i) (hc : ClockStep i c) :
    execTpOvf i c = false ∧ XClockInv (execTp i c).1 := by
  obtain ⟨e0, e1, e2⟩ := elapsed_le i c hi hc
  have hb := tpStep_bounds { et := i.et, q := i.q, prevIn := i.prevIn, active := i.active }
    (c.toT i.last) hi.1 e0
  have ho := tpOvf_false { et := i.et, q := i.q, prevIn := i.prevIn, active := i.active }
    (c.toT i.last) hi.1 e0 (by simp only [XCall.toT]; have := hc.2.1; omega)
  refine ⟨by simp [execTpOvf, e2, ho], ?_⟩
  simp only [XClockInv, execTp, Option.getD_some]
  simp only [XCall.toT] at hb e1
  simp only [XCall.toT]
  omega

theorem clockOk_cons (c : XCall) (hx : List XCall) (h : Spec.clockOk (c :: hx) = true) :
    (0 ≤ c.now ∧ c.now ≤ i64Max ∧ (Spec.lastNow hx).getD 0 ≤ c.now) ∧ Spec.clockOk hx = true := by
  simp only [Spec.clockOk, Bool.and_eq_true, decide_eq_true_eq] at h
  exact ⟨⟨h.1.1.1, h.1.1.2, h.1.2⟩, h.2⟩

/-! ## Counters -/

/-- Well-formed integer kind: zero lies in the range, unsigned kinds start at zero. -/
def IntKind.Wf (k : IntKind) : Prop := k.lo ≤ 0 ∧ 0 ≤ k.hi ∧ (k.signed = false → k.lo = 0)

theorem IntKind.all_wf : ∀ k ∈ IntKind.all, k.Wf := by
  intro k hk
  simp only [IntKind.all, List.mem_cons, List.mem_nil_iff, or_false] at hk
  rcases hk with rfl | rfl | rfl | rfl | rfl | rfl | rfl | rfl <;>
    simp [IntKind.Wf, IntKind.sint, IntKind.int, IntKind.dint, IntKind.lint, IntKind.usint,
      IntKind.uint, IntKind.udint, IntKind.ulint]

theorem IntKind.floor_eq (k : IntKind) (hk : k.Wf) : k.floor = k.lo := by
  unfold IntKind.floor
  cases hs : k.signed with
  | true => simp
  | false => simp [hk.2.2 hs]

theorem IntKind.atZero_eq (k : IntKind) (hk : k.Wf) (cv : Int) (hcv : k.lo ≤ cv) :
    k.atZero cv = decide (cv ≤ 0) := by
  unfold IntKind.atZero
  cases hs : k.signed with
  | true => simp
  | false =>
    have := hk.2.2 hs
    simp only [Bool.false_eq_true, if_false]
    by_cases h0 : cv = 0
    · simp [h0]
    · have : ¬ cv ≤ 0 := by omega
      simp [h0, this]

theorem lastCu_cons (c : CtuCall) (h : List CtuCall) : Spec.lastCu (c :: h) = c.cu := rfl
theorem lastCd_cons (c : CtdCall) (h : List CtdCall) : Spec.lastCd (c :: h) = c.cd := rfl

/-- CTU: edge memory and saturated count. -/
def CtuInv (k : IntKind) (s : CState) (h : List CtuCall) : Prop :=
  s.prevCu = Spec.lastCu h ∧
    s.cv = (if Spec.risingSinceReset h ≥ k.hi then k.hi else Spec.risingSinceReset h)

theorem ctuStep_spec (k : IntKind) (hk : 0 ≤ k.hi) (s : CState) (h : List CtuCall) (c : CtuCall)
    (hi : CtuInv k s h) :
    CtuInv k (ctuStep k s c).1 (c :: h) ∧ (ctuStep k s c).2 = Spec.ctuR k (c :: h) := by
  obtain ⟨hp, hcv⟩ := hi
  have hcv' : (ctuStep k s c).1.cv =
      (if Spec.risingSinceReset (c :: h) ≥ k.hi then k.hi else Spec.risingSinceReset (c :: h)) := by
    simp only [ctuStep, Spec.risingSinceReset, ← hp]
    generalize Spec.risingSinceReset h = n at *
    by_cases hr : c.r = true
    · simp only [hr, if_true]
      split <;> omega
    · simp only [hr, Bool.false_eq_true, if_false]
      by_cases hrise : (c.cu && !s.prevCu) = true
      · simp only [hrise, Bool.true_and, if_true, decide_eq_true_eq]
        rw [hcv]
        repeat' split
        all_goals omega
      · have hrise' : (c.cu && !s.prevCu) = false := by simpa using hrise
        simp only [hrise', Bool.false_and, Bool.false_eq_true, if_false, Int.add_zero]
        exact hcv
  refine ⟨⟨rfl, hcv'⟩, ?_⟩
  have : (ctuStep k s c).2 = { q := decide ((ctuStep k s c).1.cv ≥ c.pv), cv := (ctuStep k s c).1.cv } := rfl
  rw [this, hcv']
  rfl

theorem ctuInv_init (k : IntKind) (hk : 0 ≤ k.hi) : CtuInv k {} [] := by
  refine ⟨rfl, ?_⟩
  show (0 : Int) = if (0 : Int) ≥ k.hi then k.hi else 0
  split <;> omega

/-- CTD: edge memory and saturated difference. -/
def CtdInv (k : IntKind) (s : CState) (h : List CtdCall) : Prop :=
  s.prevCd = Spec.lastCd h ∧
    s.cv = (if Spec.loaded h - Spec.risingSinceLoad h ≤ k.lo then k.lo
            else Spec.loaded h - Spec.risingSinceLoad h)

theorem ctdStep_spec (k : IntKind) (hk : k.Wf) (s : CState) (h : List CtdCall) (c : CtdCall)
    (hpv : k.lo ≤ c.pv) (hi : CtdInv k s h) :
    CtdInv k (ctdStep k s c).1 (c :: h) ∧ (ctdStep k s c).2 = Spec.ctdR k (c :: h) := by
  obtain ⟨hp, hcv⟩ := hi
  have hcv' : (ctdStep k s c).1.cv =
      (if Spec.loaded (c :: h) - Spec.risingSinceLoad (c :: h) ≤ k.lo then k.lo
       else Spec.loaded (c :: h) - Spec.risingSinceLoad (c :: h)) := by
    simp only [ctdStep, Spec.risingSinceLoad, Spec.loaded, ← hp, k.floor_eq hk]
    generalize Spec.risingSinceLoad h = n at *
    generalize Spec.loaded h = l at *
    by_cases hr : c.ld = true
    · simp only [hr, if_true]
      split <;> omega
    · simp only [hr, Bool.false_eq_true, if_false]
      by_cases hrise : (c.cd && !s.prevCd) = true
      · simp only [hrise, Bool.true_and, if_true, decide_eq_true_eq]
        rw [hcv]
        repeat' split
        all_goals omega
      · have hrise' : (c.cd && !s.prevCd) = false := by simpa using hrise
        simp only [hrise', Bool.false_and, Bool.false_eq_true, if_false, Int.add_zero]
        exact hcv
  refine ⟨⟨rfl, hcv'⟩, ?_⟩
  have hlo : k.lo ≤ (ctdStep k s c).1.cv := by
    rw [hcv']; split <;> omega
  have : (ctdStep k s c).2 = { q := k.atZero (ctdStep k s c).1.cv, cv := (ctdStep k s c).1.cv } := rfl
  rw [this, k.atZero_eq hk _ hlo, hcv']
  rfl

theorem ctdInv_init (k : IntKind) (hk : k.Wf) : CtdInv k {} [] := by
  refine ⟨rfl, ?_⟩
  have := hk.1
  show (0 : Int) = if (0 : Int) - 0 ≤ k.lo then k.lo else (0 : Int) - 0
  split <;> omega

/-- Splits a three-part conjunction, all `if`s, and closes the linear-arithmetic leaves. -/
macro "fin3" : tactic =>
  `(tactic| (refine ⟨?_, ?_, ?_⟩ <;> (repeat' split) <;> first | trivial | rfl | omega))

theorem lastCuUd_cons (c : CtudCall) (h : List CtudCall) : Spec.lastCuUd (c :: h) = c.cu := rfl
theorem lastCdUd_cons (c : CtudCall) (h : List CtudCall) : Spec.lastCdUd (c :: h) = c.cd := rfl

/-- CTUD: edge memories, value and range. -/
def CtudInv (k : IntKind) (s : CState) (h : List CtudCall) : Prop :=
  s.prevCu = Spec.lastCuUd h ∧ s.prevCd = Spec.lastCdUd h ∧ s.cv = Spec.ctudCv k h ∧
    k.lo ≤ s.cv ∧ s.cv ≤ k.hi

theorem ctudStep_spec (k : IntKind) (hk : k.Wf) (s : CState) (h : List CtudCall) (c : CtudCall)
    (hpv : k.lo ≤ c.pv ∧ c.pv ≤ k.hi) (hi : CtudInv k s h) :
    CtudInv k (ctudStep k s c).1 (c :: h) ∧ (ctudStep k s c).2 = Spec.ctudR k (c :: h) := by
  obtain ⟨hpu, hpd, hcv, hlo, hhi⟩ := hi
  obtain ⟨k0, k1, k2⟩ := hk
  have hcv' : (ctudStep k s c).1.cv = Spec.ctudCv k (c :: h) ∧
      k.lo ≤ (ctudStep k s c).1.cv ∧ (ctudStep k s c).1.cv ≤ k.hi := by
    simp only [ctudStep, Spec.ctudCv, ← hpu, ← hpd, ← hcv, k.floor_eq ⟨k0, k1, k2⟩, Spec.clamp]
    by_cases hr : c.r = true
    · simp only [hr, if_true]; fin3
    · simp only [hr, Bool.false_eq_true, if_false]
      by_cases hl : c.ld = true
      · simp only [hl, if_true]; fin3
      · simp only [hl, Bool.false_eq_true, if_false]
        cases hu : (c.cu && !s.prevCu) <;> cases hd : (c.cd && !s.prevCd) <;>
          simp only [Bool.and_self, Bool.and_true, Bool.and_false, Bool.not_true, Bool.not_false,
            Bool.true_and, Bool.false_and, Bool.false_eq_true, if_true, if_false, decide_eq_true_eq]
        all_goals fin3
  refine ⟨⟨rfl, rfl, hcv'.1, hcv'.2.1, hcv'.2.2⟩, ?_⟩
  have : (ctudStep k s c).2 =
      CudOut.mk (decide ((ctudStep k s c).1.cv ≥ c.pv)) (k.atZero (ctudStep k s c).1.cv)
        (ctudStep k s c).1.cv := rfl
  rw [this, k.atZero_eq ⟨k0, k1, k2⟩ _ hcv'.2.1, hcv'.1]
  rfl

theorem ctudInv_init (k : IntKind) (hk : k.Wf) : CtudInv k {} [] :=
  ⟨rfl, rfl, rfl, hk.1, hk.2.1⟩

/-! ## Edge detectors, bistables -/

theorem rtrigRun_eq (tr : List Bool) : rtrigRun tr = tr.reverse.headD false := by
  unfold rtrigRun
  refine foldl_inv0 (fun m c => (rtrigStep m c).1) (fun m h => m = h.headD false) false rfl ?_ tr
  intro s h c _
  simp [rtrigStep]

theorem ftrigRun_eq (tr : List Bool) : ftrigRun tr = !(tr.reverse.headD true) := by
  unfold ftrigRun
  refine foldl_inv0 (fun m c => (ftrigStep m c).1) (fun m h => m = !(h.headD true)) false rfl ?_ tr
  intro s h c _
  simp [ftrigStep]

theorem srStep_eq (q s1 r : Bool) : srStep q s1 r = (s1 || (!r && q)) := by
  cases q <;> cases s1 <;> cases r <;> rfl

theorem rsStep_eq (q s r1 : Bool) : rsStep q s r1 = (!r1 && (s || q)) := by
  cases q <;> cases s <;> cases r1 <;> rfl

theorem srRun_eq (tr : List (Bool × Bool)) : srRun tr = Spec.srR tr.reverse := by
  unfold srRun
  refine foldl_inv0 (fun q c => srStep q c.1 c.2) (fun q h => q = Spec.srR h) false rfl ?_ tr
  intro s h c hi
  simp [srStep_eq, Spec.srR, hi]

theorem rsRun_eq (tr : List (Bool × Bool)) : rsRun tr = Spec.rsR tr.reverse := by
  unfold rsRun
  refine foldl_inv0 (fun q c => rsStep q c.1 c.2) (fun q h => q = Spec.rsR h) false rfl ?_ tr
  intro s h c hi
  simp [rsStep_eq, Spec.rsR, hi]

/-! ## The instance store -/

theorem Store.get_set_ne (st : Store) (i j : Nat) (x : Inst) (hne : j ≠ i) :
    Store.get (st.set i x) j = Store.get st j := by
  unfold Store.get
  simp [List.getD_eq_getElem?_getD, List.getElem?_set_ne (Ne.symm hne)]

theorem Store.get_set_self (st : Store) (i : Nat) (x : Inst) (hi : i < st.length) :
    Store.get (st.set i x) i = x := by
  unfold Store.get
  simp [List.getD_eq_getElem?_getD, hi]

theorem Store.call_length (st : Store) (i : Nat) (c : Call) : (st.call i c).1.length = st.length := by
  simp [Store.call]

/-! ## Run-level invariants (every trace, by `foldl_inv0`) -/

theorem tofRun_inv (tr : List TCall) : TofInv (tofRun tr) tr.reverse :=
  foldl_inv0 (fun s c => (tofStep s c).1) TofInv {} tofInv_init
    (fun s h c hi => (tofStep_spec s h c hi).1) tr

theorem tpRun_inv (tr : List TCall) : TpInv (tpRun tr) tr.reverse :=
  foldl_inv0 (fun s c => (tpStep s c).1) TpInv {} tpInv_init
    (fun s h c hi => (tpStep_spec s h c hi).1) tr

theorem execTonRun_inv (tr : List XCall) : TonXInv (execTonRun tr) tr.reverse :=
  foldl_inv0 (fun i c => (execTon i c).1) TonXInv {} tonXInv_init
    (fun i h c hi => (execTon_spec i h c hi).1) tr

theorem execTofRun_inv (tr : List XCall) : TofXInv (execTofRun tr) tr.reverse :=
  foldl_inv0 (fun i c => (execTof i c).1) TofXInv {} tofXInv_init
    (fun i h c hi => (execTof_spec i h c hi).1) tr

theorem execTpRun_inv (tr : List XCall) : TpXInv (execTpRun tr) tr.reverse :=
  foldl_inv0 (fun i c => (execTp i c).1) TpXInv {} tpXInv_init
    (fun i h c hi => (execTp_spec i h c hi).1) tr

theorem ctuRun_inv (k : IntKind) (hk : 0 ≤ k.hi) (tr : List CtuCall) :
    CtuInv k (ctuRun k tr) tr.reverse :=
  foldl_inv0 (fun s c => (ctuStep k s c).1) (CtuInv k) {} (ctuInv_init k hk)
    (fun s h c hi => (ctuStep_spec k hk s h c hi).1) tr

theorem ctdRun_inv (k : IntKind) (hk : k.Wf) (tr : List CtdCall) :
    (∀ c ∈ tr.reverse, k.lo ≤ c.pv) → CtdInv k (ctdRun k tr) tr.reverse :=
  foldl_inv0 (fun s c => (ctdStep k s c).1) (fun s h => (∀ c ∈ h, k.lo ≤ c.pv) → CtdInv k s h) {}
    (fun _ => ctdInv_init k hk)
    (fun s h c hi hpv =>
      (ctdStep_spec k hk s h c (hpv c (List.mem_cons_self ..))
        (hi (fun x hx => hpv x (List.mem_cons_of_mem _ hx)))).1) tr

theorem ctudRun_inv (k : IntKind) (hk : k.Wf) (tr : List CtudCall) :
    (∀ c ∈ tr.reverse, k.lo ≤ c.pv ∧ c.pv ≤ k.hi) → CtudInv k (ctudRun k tr) tr.reverse :=
  foldl_inv0 (fun s c => (ctudStep k s c).1)
    (fun s h => (∀ c ∈ h, k.lo ≤ c.pv ∧ c.pv ≤ k.hi) → CtudInv k s h) {}
    (fun _ => ctudInv_init k hk)
    (fun s h c hi hpv =>
      (ctudStep_spec k hk s h c (hpv c (List.mem_cons_self ..))
        (hi (fun x hx => hpv x (List.mem_cons_of_mem _ hx)))).1) tr

/-! ### No overflow -/

theorem sumDt_cons (c : TCall) (h : List TCall) : Spec.sumDt (c :: h) = Spec.sumDt h + c.dt := rfl

theorem tonRun_bounds (tr : List TCall) :
    (∀ c ∈ tr.reverse, 0 ≤ c.dt) → 0 ≤ (tonRun tr).et ∧ (tonRun tr).et ≤ Spec.sumDt tr.reverse :=
  foldl_inv0 (fun s c => (tonStep s c).1)
    (fun s h => (∀ c ∈ h, 0 ≤ c.dt) → 0 ≤ s.et ∧ s.et ≤ Spec.sumDt h) {}
    (fun _ => ⟨Int.le_refl 0, Int.le_refl 0⟩)
    (fun s h c hi hd => by
      obtain ⟨h0, h1⟩ := hi (fun x hx => hd x (List.mem_cons_of_mem _ hx))
      have hb := tonStep_bounds s c h0 (hd c (List.mem_cons_self ..))
      rw [sumDt_cons]
      omega) tr

theorem tofRun_bounds (tr : List TCall) :
    (∀ c ∈ tr.reverse, 0 ≤ c.dt) → 0 ≤ (tofRun tr).et ∧ (tofRun tr).et ≤ Spec.sumDt tr.reverse :=
  foldl_inv0 (fun s c => (tofStep s c).1)
    (fun s h => (∀ c ∈ h, 0 ≤ c.dt) → 0 ≤ s.et ∧ s.et ≤ Spec.sumDt h) {}
    (fun _ => ⟨Int.le_refl 0, Int.le_refl 0⟩)
    (fun s h c hi hd => by
      obtain ⟨h0, h1⟩ := hi (fun x hx => hd x (List.mem_cons_of_mem _ hx))
      have hb := tofStep_bounds s c h0 (hd c (List.mem_cons_self ..))
      rw [sumDt_cons]
      omega) tr

theorem tpRun_bounds (tr : List TCall) :
    (∀ c ∈ tr.reverse, 0 ≤ c.dt) → 0 ≤ (tpRun tr).et ∧ (tpRun tr).et ≤ Spec.sumDt tr.reverse :=
  foldl_inv0 (fun s c => (tpStep s c).1)
    (fun s h => (∀ c ∈ h, 0 ≤ c.dt) → 0 ≤ s.et ∧ s.et ≤ Spec.sumDt h) {}
    (fun _ => ⟨Int.le_refl 0, Int.le_refl 0⟩)
    (fun s h c hi hd => by
      obtain ⟨h0, h1⟩ := hi (fun x hx => hd x (List.mem_cons_of_mem _ hx))
      have hb := tpStep_bounds s c h0 (hd c (List.mem_cons_self ..))
      rw [sumDt_cons]
      omega) tr

theorem xClockInv_init : XClockInv {} := ⟨Int.le_refl 0, Int.le_refl 0⟩

theorem clockStep_of (i : TimerInst) (c : XCall) (hx : List XCall) (hl : i.last = Spec.lastNow hx)
    (hc : Spec.clockOk (c :: hx) = true) : ClockStep i c := by
  obtain ⟨⟨h1, h2, h3⟩, _⟩ := clockOk_cons c hx hc
  exact ⟨h1, h2, by rw [hl]; exact h3⟩

theorem execTonRun_clock (tr : List XCall) :
    Spec.clockOk tr.reverse = true →
      (execTonRun tr).last = Spec.lastNow tr.reverse ∧ XClockInv (execTonRun tr) :=
  foldl_inv0 (fun i c => (execTon i c).1)
    (fun i h => Spec.clockOk h = true → i.last = Spec.lastNow h ∧ XClockInv i) {}
    (fun _ => ⟨rfl, xClockInv_init⟩)
    (fun i h c hi hc => by
      obtain ⟨hl, hinv⟩ := hi (clockOk_cons c h hc).2
      exact ⟨rfl, (execTon_clock i c hinv (clockStep_of i c h hl hc)).2⟩) tr

theorem execTofRun_clock (tr : List XCall) :
    Spec.clockOk tr.reverse = true →
      (execTofRun tr).last = Spec.lastNow tr.reverse ∧ XClockInv (execTofRun tr) :=
  foldl_inv0 (fun i c => (execTof i c).1)
    (fun i h => Spec.clockOk h = true → i.last = Spec.lastNow h ∧ XClockInv i) {}
    (fun _ => ⟨rfl, xClockInv_init⟩)
    (fun i h c hi hc => by
      obtain ⟨hl, hinv⟩ := hi (clockOk_cons c h hc).2
      exact ⟨rfl, (execTof_clock i c hinv (clockStep_of i c h hl hc)).2⟩) tr

theorem execTpRun_clock (tr : List XCall) :
    Spec.clockOk tr.reverse = true →
      (execTpRun tr).last = Spec.lastNow tr.reverse ∧ XClockInv (execTpRun tr) :=
  foldl_inv0 (fun i c => (execTp i c).1)
    (fun i h => Spec.clockOk h = true → i.last = Spec.lastNow h ∧ XClockInv i) {}
    (fun _ => ⟨rfl, xClockInv_init⟩)
    (fun i h c hi hc => by
      obtain ⟨hl, hinv⟩ := hi (clockOk_cons c h hc).2
      exact ⟨rfl, (execTp_clock i c hinv (clockStep_of i c h hl hc)).2⟩) tr

/-! ### Counter range -/

theorem ctuStep_range (k : IntKind) (hk : k.Wf) (s : CState) (c : CtuCall)
    (h : k.lo ≤ s.cv ∧ s.cv ≤ k.hi) : k.lo ≤ (ctuStep k s c).1.cv ∧ (ctuStep k s c).1.cv ≤ k.hi := by
  obtain ⟨k0, k1, _⟩ := hk
  simp only [ctuStep]
  by_cases hr : c.r = true
  · simp only [hr, if_true]; omega
  · simp only [hr, Bool.false_eq_true, if_false]
    by_cases h1 : (c.cu && !s.prevCu && decide (s.cv < k.hi)) = true
    · simp only [h1, if_true]
      simp only [Bool.and_eq_true, decide_eq_true_eq] at h1
      omega
    · simp only [h1, Bool.false_eq_true, if_false]; omega

theorem ctdStep_range (k : IntKind) (hk : k.Wf) (s : CState) (c : CtdCall)
    (hpv : k.lo ≤ c.pv ∧ c.pv ≤ k.hi)
    (h : k.lo ≤ s.cv ∧ s.cv ≤ k.hi) : k.lo ≤ (ctdStep k s c).1.cv ∧ (ctdStep k s c).1.cv ≤ k.hi := by
  simp only [ctdStep, k.floor_eq hk]
  by_cases hr : c.ld = true
  · simp only [hr, if_true]; omega
  · simp only [hr, Bool.false_eq_true, if_false]
    by_cases h1 : (c.cd && !s.prevCd && decide (s.cv > k.lo)) = true
    · simp only [h1, if_true]
      simp only [Bool.and_eq_true, decide_eq_true_eq] at h1
      omega
    · simp only [h1, Bool.false_eq_true, if_false]; omega

/-! ## Independence of instances -/

theorem Store.call_get_ne (st : Store) (i j : Nat) (c : Call) (hne : j ≠ i) :
    (st.call i c).1.get j = st.get j := by
  simp only [Store.call]
  exact Store.get_set_ne st i j _ hne

theorem Store.call_get_self (st : Store) (i : Nat) (c : Call) (hi : i < st.length) :
    (st.call i c).1.get i = (execStep (st.get i) c).1 := by
  simp only [Store.call]
  exact Store.get_set_self st i _ hi

theorem Store.run_length (g : List (Nat × Call)) : ∀ st : Store, (st.run g).length = st.length := by
  induction g with
  | nil => intro st; rfl
  | cons p g ih =>
    intro st
    simp only [Store.run, List.foldl_cons] at ih ⊢
    rw [ih]
    exact Store.call_length st p.1 p.2

theorem Store.run_get (g : List (Nat × Call)) :
    ∀ (st : Store) (j : Nat), j < st.length → (st.run g).get j = instRun (st.get j) (subTrace g j) := by
  induction g with
  | nil => intro st j _; rfl
  | cons p g ih =>
    intro st j hj
    have hlen : j < (st.call p.1 p.2).1.length := by rw [Store.call_length]; exact hj
    have := ih (st.call p.1 p.2).1 j hlen
    simp only [Store.run, List.foldl_cons] at this ⊢
    rw [this]
    by_cases hp : p.1 = j
    · subst hp
      simp only [subTrace, List.filter_cons, beq_self_eq_true, if_true, List.map_cons, instRun,
        List.foldl_cons]
      rw [Store.call_get_self st p.1 p.2 hj]
    · have hne : j ≠ p.1 := fun e => hp e.symm
      have hb : (p.1 == j) = false := by simpa using hp
      simp only [subTrace, List.filter_cons, hb, Bool.false_eq_true, if_false]
      rw [Store.call_get_ne st p.1 j p.2 hne]

/-! ### An instance called with one kind of call behaves as that kind's run -/

theorem instRun_ton (tr : List XCall) : ∀ i : Inst,
    (instRun i (tr.map Call.ton)).timer = tr.foldl (fun t c => (execTon t c).1) i.timer := by
  induction tr with
  | nil => intro i; rfl
  | cons c tr ih => intro i; simp only [List.map_cons, instRun, List.foldl_cons] at ih ⊢; rw [ih]; rfl

theorem instRun_tof (tr : List XCall) : ∀ i : Inst,
    (instRun i (tr.map Call.tof)).timer = tr.foldl (fun t c => (execTof t c).1) i.timer := by
  induction tr with
  | nil => intro i; rfl
  | cons c tr ih => intro i; simp only [List.map_cons, instRun, List.foldl_cons] at ih ⊢; rw [ih]; rfl

theorem instRun_tp (tr : List XCall) : ∀ i : Inst,
    (instRun i (tr.map Call.tp)).timer = tr.foldl (fun t c => (execTp t c).1) i.timer := by
  induction tr with
  | nil => intro i; rfl
  | cons c tr ih => intro i; simp only [List.map_cons, instRun, List.foldl_cons] at ih ⊢; rw [ih]; rfl

theorem instRun_ctu (k : IntKind) (tr : List CtuCall) : ∀ i : Inst,
    (instRun i (tr.map (Call.ctu k))).ctr = tr.foldl (fun s c => (ctuStep k s c).1) i.ctr := by
  induction tr with
  | nil => intro i; rfl
  | cons c tr ih => intro i; simp only [List.map_cons, instRun, List.foldl_cons] at ih ⊢; rw [ih]; rfl

theorem instRun_ctd (k : IntKind) (tr : List CtdCall) : ∀ i : Inst,
    (instRun i (tr.map (Call.ctd k))).ctr = tr.foldl (fun s c => (ctdStep k s c).1) i.ctr := by
  induction tr with
  | nil => intro i; rfl
  | cons c tr ih => intro i; simp only [List.map_cons, instRun, List.foldl_cons] at ih ⊢; rw [ih]; rfl

theorem instRun_ctud (k : IntKind) (tr : List CtudCall) : ∀ i : Inst,
    (instRun i (tr.map (Call.ctud k))).ctr = tr.foldl (fun s c => (ctudStep k s c).1) i.ctr := by
  induction tr with
  | nil => intro i; rfl
  | cons c tr ih => intro i; simp only [List.map_cons, instRun, List.foldl_cons] at ih ⊢; rw [ih]; rfl

theorem instRun_rtrig (tr : List Bool) : ∀ i : Inst,
    (instRun i (tr.map Call.rtrig)).m = tr.foldl (fun m c => (rtrigStep m c).1) i.m := by
  induction tr with
  | nil => intro i; rfl
  | cons c tr ih => intro i; simp only [List.map_cons, instRun, List.foldl_cons] at ih ⊢; rw [ih]; rfl

theorem instRun_ftrig (tr : List Bool) : ∀ i : Inst,
    (instRun i (tr.map Call.ftrig)).m = tr.foldl (fun m c => (ftrigStep m c).1) i.m := by
  induction tr with
  | nil => intro i; rfl
  | cons c tr ih => intro i; simp only [List.map_cons, instRun, List.foldl_cons] at ih ⊢; rw [ih]; rfl

theorem instRun_sr (tr : List (Bool × Bool)) : ∀ i : Inst,
    (instRun i (tr.map fun p => Call.sr p.1 p.2)).q1 = tr.foldl (fun q c => srStep q c.1 c.2) i.q1 := by
  induction tr with
  | nil => intro i; rfl
  | cons c tr ih => intro i; simp only [List.map_cons, instRun, List.foldl_cons] at ih ⊢; rw [ih]; rfl

theorem instRun_rs (tr : List (Bool × Bool)) : ∀ i : Inst,
    (instRun i (tr.map fun p => Call.rs p.1 p.2)).q1 = tr.foldl (fun q c => rsStep q c.1 c.2) i.q1 := by
  induction tr with
  | nil => intro i; rfl
  | cons c tr ih => intro i; simp only [List.map_cons, instRun, List.foldl_cons] at ih ⊢; rw [ih]; rfl

/-! ## ET does not decrease while timing -/

theorem tofStep_prevIn (s : TofS) (c : TCall) : (tofStep s c).1.prevIn = c.inp := by
  simp [tofStep]

theorem tofStep_timing_in (s : TofS) (c : TCall) (h : (tofStep s c).1.timing = true) : c.inp = false := by
  cases hc : c.inp with
  | false => rfl
  | true => rw [tofStep_in s c hc] at h; simp at h

theorem tof_mono_core (s : TofS) (c : TCall) (ht : s.timing = true) (hp : s.prevIn = false)
    (hc : c.inp = false) (hd : 0 ≤ c.dt) (hpt : s.et ≤ normPt c.pt) : s.et ≤ (tofStep s c).2.et := by
  rw [tofStep_run s c hc (by simp [ht])]
  simp only [hp, Bool.false_eq_true, if_false]
  by_cases hge : s.et + c.dt ≥ normPt c.pt
  · simp only [hge, if_true]; exact hpt
  · simp only [hge, if_false]; omega

theorem tpStep_prevIn (s : TpS) (c : TCall) : (tpStep s c).1.prevIn = c.inp := by
  simp [tpStep]

theorem tpRetrig_mono_core (s : TpS) (c : TCall) (ha : s.active = true)
    (hnr : (!s.prevIn && c.inp) = false) (hd : 0 ≤ c.dt) (h2 : (tpStepRetrig s c).1.active = true) :
    s.et ≤ (tpStepRetrig s c).2.et := by
  rw [tpStepRetrig_run s c (by simp [ha])] at h2 ⊢
  simp only [hnr, Bool.false_eq_true, if_false] at h2 ⊢
  by_cases hge : s.et + c.dt ≥ normPt c.pt
  · simp only [hge, if_true] at h2
    simp at h2
  · simp only [hge, if_false]; omega

/-- While a pulse keeps running, the reported ET does not fall below the accumulator — whatever IN does. -/
theorem tp_mono_core (s : TpS) (c : TCall) (ha : s.active = true) (hd : 0 ≤ c.dt)
    (h2 : (tpStep s c).1.active = true) : s.et ≤ (tpStep s c).2.et := by
  rw [tpStep_eq] at h2 ⊢
  exact tpRetrig_mono_core { s with prevIn := s.prevIn || s.active } c ha (by simp [ha]) hd h2

end TrustVerif.C04
