import TrustVerif.Model.C05

/-!
Helper lemmas for C05: association lists with distinct keys under permutation, the simulation
between `run` (hash tables laid out by an arbitrary `Layout`) and `den` (order-free maps), and the
closed forms of the interner and of `PouIdMap`.
-/
namespace TrustVerif.C05

section Maps
variable {ι κ ν α β : Type} [DecidableEq ι] [DecidableEq κ]

/-- Distinct keys: the representation invariant of a hash table. -/
def NodupKeys (l : List (κ × ν)) : Prop := (l.map Prod.fst).Nodup

theorem nodupKeys_nil : NodupKeys ([] : List (κ × ν)) := by simp [NodupKeys]

theorem lookup_eq_some_iff {l : List (κ × ν)} (h : NodupKeys l) (k : κ) (v : ν) :
    lookup k l = some v ↔ (k, v) ∈ l := by
  induction l with
  | nil => simp [lookup]
  | cons p l ih =>
    obtain ⟨k', v'⟩ := p
    simp only [NodupKeys, List.map_cons, List.nodup_cons] at h
    by_cases hk : k' = k
    · subst hk
      simp only [lookup, if_true, List.mem_cons, Prod.mk.injEq, true_and, Option.some.injEq]
      constructor
      · intro e; exact Or.inl e.symm
      · rintro (e | m)
        · exact e.symm
        · exact absurd (List.mem_map.mpr ⟨(k', v), m, rfl⟩) h.1
    · simp only [lookup, hk, if_false, List.mem_cons, Prod.mk.injEq]
      rw [ih h.2]
      constructor
      · intro m; exact Or.inr m
      · rintro (⟨e, _⟩ | m)
        · exact absurd e.symm hk
        · exact m

theorem lookup_eq_none_iff (l : List (κ × ν)) (k : κ) :
    lookup k l = none ↔ ∀ v, (k, v) ∉ l := by
  induction l with
  | nil => simp [lookup]
  | cons p l ih =>
    obtain ⟨k', v'⟩ := p
    by_cases hk : k' = k
    · subst hk
      simp only [lookup, if_true, List.mem_cons, Prod.mk.injEq, true_and, not_or]
      constructor
      · intro e; cases e
      · intro e; exact absurd rfl (e v').1
    · simp only [lookup, hk, if_false, List.mem_cons, Prod.mk.injEq, not_or, ih]
      constructor
      · intro m v; exact ⟨fun e => hk e.1.symm, m v⟩
      · intro m v; exact (m v).2

/-- `get` does not see the internal order. -/
theorem lookup_perm {l₁ l₂ : List (κ × ν)} (p : l₁.Perm l₂) (h : NodupKeys l₁) (k : κ) :
    lookup k l₁ = lookup k l₂ := by
  have h₂ : NodupKeys l₂ := (p.map Prod.fst).nodup_iff.mp h
  cases e : lookup k l₂ with
  | none =>
    rw [lookup_eq_none_iff] at e ⊢
    intro v m; exact e v (p.mem_iff.mp m)
  | some v =>
    rw [lookup_eq_some_iff h₂] at e
    rw [lookup_eq_some_iff h]
    exact p.mem_iff.mpr e

theorem lookup_eraseKey (l : List (κ × ν)) (k k' : κ) :
    lookup k' (eraseKey k l) = if k = k' then none else lookup k' l := by
  induction l with
  | nil => simp [lookup, eraseKey]
  | cons p l ih =>
    obtain ⟨a, b⟩ := p
    by_cases ha : a = k
    · subst ha
      have : eraseKey a ((a, b) :: l) = eraseKey a l := by simp [eraseKey]
      rw [this, ih]
      by_cases hk : a = k'
      · simp [hk]
      · simp [hk, lookup]
    · have : eraseKey k ((a, b) :: l) = (a, b) :: eraseKey k l := by simp [eraseKey, ha]
      rw [this]
      simp only [lookup]
      by_cases hk : a = k'
      · subst hk
        have : ¬ k = a := fun e => ha e.symm
        simp [this]
      · simp only [hk, if_false]
        exact ih

theorem mem_eraseKey {l : List (κ × ν)} {k : κ} {p : κ × ν} :
    p ∈ eraseKey k l ↔ p ∈ l ∧ p.1 ≠ k := by
  simp [eraseKey]

theorem nodupKeys_eraseKey {l : List (κ × ν)} (h : NodupKeys l) (k : κ) :
    NodupKeys (eraseKey k l) := by
  unfold NodupKeys eraseKey at *
  exact List.Nodup.sublist (List.Sublist.map _ List.filter_sublist) h

theorem nodupKeys_cons_eraseKey {l : List (κ × ν)} (h : NodupKeys l) (k : κ) (v : ν) :
    NodupKeys ((k, v) :: eraseKey k l) := by
  have h' := nodupKeys_eraseKey h k
  unfold NodupKeys at *
  simp only [List.map_cons, List.nodup_cons]
  refine ⟨?_, h'⟩
  intro m
  obtain ⟨p, hp, e⟩ := List.mem_map.mp m
  exact (mem_eraseKey.mp hp).2 e

theorem nodupKeys_perm {l₁ l₂ : List (κ × ν)} (p : l₁.Perm l₂) (h : NodupKeys l₂) : NodupKeys l₁ :=
  (p.map Prod.fst).nodup_iff.mpr h

theorem length_pos_of_lookup_isSome {l : List (κ × ν)} {k : κ} (h : (lookup k l).isSome = true) :
    0 < l.length := by
  cases l with
  | nil => simp [lookup] at h
  | cons _ _ => simp

/-- Length of a table after removing a key. -/
theorem length_eraseKey {l : List (κ × ν)} (h : NodupKeys l) (k : κ) :
    (eraseKey k l).length = if (lookup k l).isSome then l.length - 1 else l.length := by
  induction l with
  | nil => simp [eraseKey, lookup]
  | cons p l ih =>
    obtain ⟨a, b⟩ := p
    have hl : NodupKeys l := by
      simp only [NodupKeys, List.map_cons, List.nodup_cons] at h; exact h.2
    by_cases ha : a = k
    · subst ha
      have e1 : eraseKey a ((a, b) :: l) = eraseKey a l := by simp [eraseKey]
      have e2 : lookup a l = none := by
        rw [lookup_eq_none_iff]
        intro v m
        simp only [NodupKeys, List.map_cons, List.nodup_cons] at h
        exact h.1 (List.mem_map.mpr ⟨(a, v), m, rfl⟩)
      rw [e1, ih hl, e2]
      simp [lookup]
    · have e1 : eraseKey k ((a, b) :: l) = (a, b) :: eraseKey k l := by simp [eraseKey, ha]
      rw [e1]
      simp only [List.length_cons, lookup, ha, if_false, ih hl]
      by_cases e : (lookup k l).isSome = true
      · have := length_pos_of_lookup_isSome e
        simp only [e, if_true]; omega
      · simp [e]

/-- All tables of a heap have distinct keys. -/
def Heap.Wf (h : Heap ι κ ν) : Prop := ∀ i, NodupKeys (h.tbl i)

theorem Heap.wf_empty : (Heap.empty : Heap ι κ ν).Wf := fun _ => nodupKeys_nil

theorem Heap.abs_empty : (Heap.empty : Heap ι κ ν).abs = AMap.empty := rfl

theorem Heap.wf_set {h : Heap ι κ ν} (w : h.Wf) (i : ι) {l : List (κ × ν)} (hl : NodupKeys l) :
    (h.set i l).Wf := by
  intro j
  by_cases e : j = i
  · simp [Heap.set, e, hl]
  · simp [Heap.set, e, w j]

/-- **Simulation.**  On well-formed heaps, executing lookup-only client code on hash tables laid
out by *any* `Layout` gives the result of the order-free semantics, keeps the heap well formed,
and the final heap abstracts to the final order-free state. -/
theorem run_den (L : Layout κ ν) (p : Prog ι κ ν α) :
    ∀ h : Heap ι κ ν, h.Wf →
      (run L p h).1 = (den p h.abs).1 ∧ (run L p h).2.Wf ∧ (run L p h).2.abs = (den p h.abs).2 := by
  induction p with
  | ret a => intro h w; exact ⟨rfl, w, rfl⟩
  | get i k c ih => intro h w; exact ih _ h w
  | len i c ih => intro h w; exact ih _ h w
  | insert i k v c ih =>
    intro h w
    have hp := L.perm h.step ((k, v) :: eraseKey k (h.tbl i))
    have hn : NodupKeys (L.shuffle h.step ((k, v) :: eraseKey k (h.tbl i))) :=
      nodupKeys_perm hp (nodupKeys_cons_eraseKey (w i) k v)
    have w' := Heap.wf_set w i hn
    have habs : (h.set i (L.shuffle h.step ((k, v) :: eraseKey k (h.tbl i)))).abs =
        h.abs.put i k (some v)
          (if (lookup k (h.tbl i)).isSome then (h.tbl i).length else (h.tbl i).length + 1) := by
      simp only [Heap.abs, Heap.set, AMap.put]
      congr 1
      · funext j k'
        by_cases e : j = i
        · subst e
          simp only [if_true]
          rw [lookup_perm hp hn]
          simp only [lookup]
          by_cases e2 : k = k'
          · simp [e2]
          · simp [e2, lookup_eraseKey]
        · simp [e]
      · funext j
        by_cases e : j = i
        · subst e
          simp only [if_true]
          rw [hp.length_eq, List.length_cons, length_eraseKey (w j)]
          by_cases e3 : (lookup k (h.tbl j)).isSome = true
          · have := length_pos_of_lookup_isSome e3
            simp only [e3, if_true]; omega
          · simp [e3]
        · simp [e]
    have := ih (lookup k (h.tbl i)) _ w'
    simp only [run, den]
    rw [habs] at this
    exact this
  | remove i k c ih =>
    intro h w
    have hp := L.perm h.step (eraseKey k (h.tbl i))
    have hn : NodupKeys (L.shuffle h.step (eraseKey k (h.tbl i))) :=
      nodupKeys_perm hp (nodupKeys_eraseKey (w i) k)
    have w' := Heap.wf_set w i hn
    have habs : (h.set i (L.shuffle h.step (eraseKey k (h.tbl i)))).abs =
        h.abs.put i k none
          (if (lookup k (h.tbl i)).isSome then (h.tbl i).length - 1 else (h.tbl i).length) := by
      simp only [Heap.abs, Heap.set, AMap.put]
      congr 1
      · funext j k'
        by_cases e : j = i
        · subst e
          simp only [if_true]
          rw [lookup_perm hp hn, lookup_eraseKey]
        · simp [e]
      · funext j
        by_cases e : j = i
        · subst e
          simp only [if_true]
          rw [hp.length_eq, length_eraseKey (w j)]
        · simp [e]
    have := ih (lookup k (h.tbl i)) _ w'
    simp only [run, den]
    rw [habs] at this
    exact this

/-- Started on empty maps, the result is the order-free denotation. -/
theorem exec_eq_den (L : Layout κ ν) (p : Prog ι κ ν α) :
    exec L p = (den p (AMap.empty : AMap ι κ ν)).1 := by
  have := (run_den L p Heap.empty Heap.wf_empty).1
  rw [Heap.abs_empty] at this
  exact this

theorem den_bind (p : Prog ι κ ν α) (f : α → Prog ι κ ν β) :
    ∀ m : AMap ι κ ν, den (p.bind f) m = den (f (den p m).1) (den p m).2 := by
  induction p with
  | ret a => intro m; rfl
  | get i k c ih => intro m; simp only [Prog.bind, den]; exact ih _ m
  | len i c ih => intro m; simp only [Prog.bind, den]; exact ih _ m
  | insert i k v c ih => intro m; simp only [Prog.bind, den]; exact ih _ _
  | remove i k c ih => intro m; simp only [Prog.bind, den]; exact ih _ _

end Maps

/-! ### Interner -/

section Interner
variable {σ : Type} [DecidableEq σ]

theorem idxOf?_eq_none_iff (x : σ) (l : List σ) : idxOf? x l = none ↔ x ∉ l := by
  induction l with
  | nil => simp [idxOf?]
  | cons y ys ih =>
    by_cases h : y = x
    · simp [idxOf?, h]
    · have h' : ¬ x = y := fun e => h e.symm
      simp [idxOf?, h, h', ih]

theorem idxOf?_append_of_mem {x : σ} {l : List σ} (h : x ∈ l) (t : List σ) :
    idxOf? x (l ++ t) = idxOf? x l := by
  induction l with
  | nil => cases h
  | cons y ys ih =>
    by_cases e : y = x
    · simp [idxOf?, e]
    · have : x ∈ ys := by
        rcases List.mem_cons.mp h with h | h
        · exact absurd h.symm e
        · exact h
      simp [idxOf?, e, ih this]

theorem idxOf?_append_singleton_self {x : σ} {l : List σ} (h : x ∉ l) :
    idxOf? x (l ++ [x]) = some l.length := by
  induction l with
  | nil => simp [idxOf?]
  | cons y ys ih =>
    have e : ¬ y = x := fun e => h (by simp [e])
    have : x ∉ ys := fun m => h (List.mem_cons_of_mem _ m)
    simp [idxOf?, e, ih this]

theorem idxOf?_append_singleton_ne {x k : σ} (l : List σ) (h : x ≠ k) :
    idxOf? k (l ++ [x]) = idxOf? k l := by
  induction l with
  | nil => simp [idxOf?, h]
  | cons y ys ih =>
    by_cases e : y = k
    · simp [idxOf?, e]
    · simp [idxOf?, e, ih]

theorem dedupFrom_prefix (acc rs : List σ) : ∃ t, dedupFrom acc rs = acc ++ t := by
  induction rs generalizing acc with
  | nil => exact ⟨[], by simp [dedupFrom]⟩
  | cons r rs ih =>
    by_cases h : r ∈ acc
    · simp only [dedupFrom, h, if_true]; exact ih acc
    · simp only [dedupFrom, h, if_false]
      obtain ⟨t, ht⟩ := ih (acc ++ [r])
      exact ⟨r :: t, by rw [ht]; simp⟩

/-- The interner's representation invariant: the map sends every entry to its position. -/
def InternInv (entries : List σ) (m : AMap Unit σ Nat) : Prop :=
  ∀ k, m.f () k = idxOf? k entries

theorem den_internP (entries : List σ) (v : σ) (m : AMap Unit σ Nat) (hinv : InternInv entries m) :
    (den (internP entries v) m).1.2 = (if v ∈ entries then entries else entries ++ [v]) ∧
    some (den (internP entries v) m).1.1 = idxOf? v (den (internP entries v) m).1.2 ∧
    InternInv (den (internP entries v) m).1.2 (den (internP entries v) m).2 := by
  by_cases hv : v ∈ entries
  · have hs : ∃ i, idxOf? v entries = some i := by
      cases e : idxOf? v entries with
      | none => exact absurd hv ((idxOf?_eq_none_iff v entries).mp e)
      | some i => exact ⟨i, rfl⟩
    obtain ⟨i, hi⟩ := hs
    have hm : m.f () v = some i := by rw [hinv v, hi]
    simp only [internP, den, hm, hv, if_true]
    exact ⟨trivial, hi.symm, hinv⟩
  · have hn : idxOf? v entries = none := (idxOf?_eq_none_iff v entries).mpr hv
    have hm : m.f () v = none := by rw [hinv v, hn]
    simp only [internP, den, hm, hv, if_false]
    refine ⟨trivial, (idxOf?_append_singleton_self hv).symm, ?_⟩
    intro k
    by_cases e : v = k
    · subst e
      simp [AMap.put, idxOf?_append_singleton_self hv]
    · simp [AMap.put, e, idxOf?_append_singleton_ne entries e, hinv k]

/-- Closed form of a sequence of `intern` calls in the order-free semantics. -/
theorem den_internAllP (reqs : List σ) :
    ∀ (entries : List σ) (m : AMap Unit σ Nat), InternInv entries m →
      (den (internAllP entries reqs) m).1.2 = dedupFrom entries reqs ∧
      (den (internAllP entries reqs) m).1.1.map some =
        reqs.map (fun r => idxOf? r (dedupFrom entries reqs)) := by
  induction reqs with
  | nil => intro entries m _; simp [internAllP, den, dedupFrom]
  | cons r rs ih =>
    intro entries m hinv
    obtain ⟨h1, h2, h3⟩ := den_internP entries r m hinv
    have hstep : dedupFrom entries (r :: rs) = dedupFrom (den (internP entries r) m).1.2 rs := by
      rw [h1]; by_cases hr : r ∈ entries <;> simp [dedupFrom, hr]
    obtain ⟨ih1, ih2⟩ := ih _ _ h3
    have hmem : r ∈ (den (internP entries r) m).1.2 := by
      rw [h1]; by_cases hr : r ∈ entries <;> simp [hr]
    obtain ⟨t, ht⟩ := dedupFrom_prefix (den (internP entries r) m).1.2 rs
    simp only [internAllP, den_bind, den]
    refine ⟨by rw [hstep]; exact ih1, ?_⟩
    simp only [List.map_cons]
    rw [hstep, ih2, h2]
    congr 1
    rw [ht, idxOf?_append_of_mem hmem]

theorem dedupFrom_nodup (acc rs : List σ) (h : acc.Nodup) : (dedupFrom acc rs).Nodup := by
  induction rs generalizing acc with
  | nil => simpa [dedupFrom] using h
  | cons r rs ih =>
    by_cases hr : r ∈ acc
    · simp only [dedupFrom, hr, if_true]; exact ih acc h
    · simp only [dedupFrom, hr, if_false]
      apply ih
      rw [List.nodup_append]
      refine ⟨h, by simp, ?_⟩
      intro a ha b hb
      simp only [List.mem_singleton] at hb
      subst hb
      intro e; subst e; exact hr ha

theorem dedupFirstSeen_nodup (reqs : List σ) : (dedupFirstSeen reqs).Nodup :=
  dedupFrom_nodup [] reqs List.nodup_nil

end Interner

/-! ### Reviewed order-exposing uses -/

section Reviewed

/-- A left fold visits a permutation of the list with the same result when the steps commute. -/
theorem foldl_perm_of_comm {α β : Type} (f : β → α → β) {l₁ l₂ : List α} (p : l₁.Perm l₂) :
    (∀ a ∈ l₁, ∀ b ∈ l₁, ∀ s, f (f s a) b = f (f s b) a) → ∀ s, l₁.foldl f s = l₂.foldl f s := by
  induction p with
  | nil => intro _ s; rfl
  | cons x _ ih =>
    intro hc s
    simp only [List.foldl_cons]
    exact ih (fun a ha b hb => hc a (List.mem_cons_of_mem _ ha) b (List.mem_cons_of_mem _ hb)) _
  | swap x y l =>
    intro hc s
    simp only [List.foldl_cons]
    rw [hc y (by simp) x (by simp) s]
  | trans p₁ _ ih₁ ih₂ =>
    intro hc s
    rw [ih₁ hc s]
    exact ih₂ (fun a ha b hb => hc a (p₁.mem_iff.mpr ha) b (p₁.mem_iff.mpr hb)) s

theorem inj_of_nodup_map {α β : Type} (g : α → β) :
    ∀ {l : List α}, (l.map g).Nodup → ∀ a ∈ l, ∀ b ∈ l, g a = g b → a = b := by
  intro l
  induction l with
  | nil => intro _ a ha; cases ha
  | cons x xs ih =>
    intro h a ha b hb e
    simp only [List.map_cons, List.nodup_cons] at h
    rcases List.mem_cons.mp ha with ha' | ha' <;> rcases List.mem_cons.mp hb with hb' | hb'
    · rw [ha', hb']
    · have : g x ∈ xs.map g := List.mem_map.mpr ⟨b, hb', by rw [← e, ha']⟩
      exact absurd this h.1
    · have : g x ∈ xs.map g := List.mem_map.mpr ⟨a, ha', by rw [e, hb']⟩
      exact absurd this h.1
    · exact ih h.2 a ha' b hb' e

theorem applyRetain_comm (norm : String → String) (d : String → Option (List (Option Nat)))
    (a b : String × Nat) (h : a = b ∨ norm a.1 ≠ norm b.1) :
    applyRetain norm (applyRetain norm d a) b = applyRetain norm (applyRetain norm d b) a := by
  rcases h with h | h
  · rw [h]
  · funext key
    simp only [applyRetain]
    by_cases ka : key = norm a.1 <;> by_cases kb : key = norm b.1
    · exact absurd (ka.symm.trans kb) h
    · simp [ka, h]
    · have : ¬ norm b.1 = norm a.1 := fun e => h e.symm
      simp [kb, this]
    · simp [ka, kb]

end Reviewed

/-! ### PouIdMap -/

section Pou

theorem allocId_of_le {next : Nat} (h : next + 1 ≤ u32Max) : allocId next = (next, next + 1) := by
  unfold allocId
  have : ¬ next + 1 > u32Max := by omega
  simp [this]

/-- The map contents after inserting `ks` with consecutive ids starting at `next`. -/
def keysF (ks : List (PouMap × PouKey)) (next : Nat) (f : PouMap → PouKey → Option Nat) :
    PouMap → PouKey → Option Nat :=
  fun m k => match idxOf? (m, k) ks with
    | some j => some (next + j)
    | none => f m k

theorem den_insertAllP (ks : List (PouMap × PouKey)) :
    ∀ (next : Nat) (A : AMap PouMap PouKey Nat), ks.Nodup → next + ks.length ≤ u32Max →
      (den (insertAllP ks next) A).1 = next + ks.length ∧
      (den (insertAllP ks next) A).2.f = keysF ks next A.f := by
  induction ks with
  | nil =>
    intro next A _ _
    refine ⟨by simp [insertAllP, den], ?_⟩
    funext m k
    simp [insertAllP, den, keysF, idxOf?]
  | cons p ks ih =>
    obtain ⟨m, k⟩ := p
    intro next A hnd hlen
    simp only [List.length_cons] at hlen
    have hnd' := List.nodup_cons.mp hnd
    have ha : allocId next = (next, next + 1) := allocId_of_le (by omega)
    obtain ⟨ih1, ih2⟩ := ih (next + 1)
      (A.put m k (some next) (if (A.f m k).isSome then A.n m else A.n m + 1)) hnd'.2 (by omega)
    simp only [insertAllP, ha, den]
    refine ⟨by rw [ih1]; simp only [List.length_cons]; omega, ?_⟩
    rw [ih2]
    funext m' k'
    simp only [keysF, idxOf?]
    by_cases e : (m, k) = (m', k')
    · have em : m = m' := (Prod.mk.inj e).1
      have ek : k = k' := (Prod.mk.inj e).2
      subst em; subst ek
      have hnone : idxOf? (m, k) ks = none := by
        rw [idxOf?_eq_none_iff]; exact hnd'.1
      simp [hnone, AMap.put]
    · cases hj : idxOf? (m', k') ks with
      | some j => simp [e, Nat.add_assoc, Nat.add_comm 1 j]
      | none =>
        have : ¬ (m' = m ∧ k = k') := fun ⟨a, b⟩ => e (by rw [a, b])
        simp only [e, if_false, Option.map_none, AMap.put]
        by_cases em : m' = m
        · have ek : ¬ k = k' := fun b => this ⟨em, b⟩
          simp [em, ek]
        · simp [em]

theorem den_insertAllP_append (xs ys : List (PouMap × PouKey)) :
    ∀ (next : Nat) (A : AMap PouMap PouKey Nat),
      den (insertAllP (xs ++ ys) next) A =
        den (insertAllP ys (den (insertAllP xs next) A).1) (den (insertAllP xs next) A).2 := by
  induction xs with
  | nil => intro next A; simp [insertAllP, den]
  | cons p xs ih =>
    obtain ⟨m, k⟩ := p
    intro next A
    simp only [List.cons_append, insertAllP, den]
    exact ih _ _

theorem insertNamesP_eq (norm : String → String) (m : PouMap) (ns : List String) :
    ∀ next, insertNamesP norm m ns next = insertAllP (ns.map fun n => (m, ("", norm n))) next := by
  induction ns with
  | nil => intro next; rfl
  | cons n ns ih => intro next; simp only [insertNamesP, List.map_cons, insertAllP, ih]

theorem insertMethodsP_eq (norm : String → String) (owner : String) (ms : List String) :
    ∀ next, insertMethodsP norm owner ms next =
      insertAllP (ms.map fun n => (PouMap.methods, (norm owner, norm n))) next := by
  induction ms with
  | nil => intro next; rfl
  | cons n ns ih => intro next; simp only [insertMethodsP, List.map_cons, insertAllP, ih]

theorem den_insertOwnersP (norm : String → String) (os : List (String × List String)) :
    ∀ (next : Nat) (A : AMap PouMap PouKey Nat),
      den (insertOwnersP norm os next) A =
        den (insertAllP (os.flatMap fun o => o.2.map fun n => (PouMap.methods, (norm o.1, norm n))) next) A := by
  induction os with
  | nil => intro next A; rfl
  | cons o os ih =>
    obtain ⟨owner, ms⟩ := o
    intro next A
    simp only [insertOwnersP, den_bind, List.flatMap_cons, den_insertAllP_append, insertMethodsP_eq, ih]

theorem den_buildP (norm : String → String) (r : PouNames) (A : AMap PouMap PouKey Nat) :
    den (buildP norm r) A = den (insertAllP (allKeys norm r) 0) A := by
  simp only [buildP, allKeys, den_bind, den_insertAllP_append, insertNamesP_eq, den_insertOwnersP,
    List.map_map]
  rfl

theorem den_rowsNamesP (norm : String → String) (kind : Nat) (m : PouMap) (ns : List String)
    (A : AMap PouMap PouKey Nat) :
    den (rowsNamesP norm kind m ns) A =
      (ns.map fun n => (⟨kind, n, A.f m ("", norm n), none⟩ : PouRow), A) := by
  induction ns with
  | nil => rfl
  | cons n ns ih => simp [rowsNamesP, den_bind, nameIdP, den, ih]

theorem den_rowsMethodsP (norm : String → String) (ownerMap : PouMap) (owner : String)
    (ms : List String) (A : AMap PouMap PouKey Nat) :
    den (rowsMethodsP norm ownerMap owner ms) A =
      (ms.map fun n =>
        (⟨4, n, A.f .methods (norm owner, norm n), A.f ownerMap ("", norm owner)⟩ : PouRow), A) := by
  induction ms with
  | nil => rfl
  | cons n ns ih => simp [rowsMethodsP, den_bind, nameIdP, methodIdP, den, ih]

theorem den_rowsOwnersP (norm : String → String) (ownerMap : PouMap)
    (os : List (String × List String)) (A : AMap PouMap PouKey Nat) :
    den (rowsOwnersP norm ownerMap os) A =
      (os.flatMap fun o => o.2.map fun n =>
        (⟨4, n, A.f .methods (norm o.1, norm n), A.f ownerMap ("", norm o.1)⟩ : PouRow), A) := by
  induction os with
  | nil => rfl
  | cons o os ih =>
    obtain ⟨owner, ms⟩ := o
    simp [rowsOwnersP, den_bind, den_rowsMethodsP, den, ih]

/-- The POU index in the order-free semantics. -/
theorem den_pouIndexP (norm : String → String) (r : PouNames)
    (hnd : (allKeys norm r).Nodup) (hlen : (allKeys norm r).length ≤ u32Max) :
    (den (pouIndexP norm r) AMap.empty).1 =
      rowsPure norm r (fun m k => idxOf? (m, k) (allKeys norm r)) := by
  obtain ⟨_, hf⟩ := den_insertAllP (allKeys norm r) 0 AMap.empty hnd (by omega)
  have hf' : (den (insertAllP (allKeys norm r) 0) (AMap.empty : AMap PouMap PouKey Nat)).2.f =
      fun m k => idxOf? (m, k) (allKeys norm r) := by
    rw [hf]
    funext m k
    simp only [keysF, AMap.empty]
    cases idxOf? (m, k) (allKeys norm r) <;> simp
  simp only [pouIndexP, den_bind, den_buildP, den_rowsNamesP, den_rowsOwnersP, den, hf', rowsPure]

end Pou

section UsingArgs
variable {σ : Type} [DecidableEq σ]

/-- First-match lookups do not see the removal of later duplicates. -/
theorem find?_dedupFrom (p : σ → Bool) (acc rs : List σ) :
    (dedupFrom acc rs).find? p = (acc ++ rs).find? p := by
  induction rs generalizing acc with
  | nil => simp [dedupFrom]
  | cons r rs ih =>
    by_cases h : r ∈ acc
    · simp only [dedupFrom, h, if_true]
      rw [ih acc, List.find?_append, List.find?_append]
      cases hf : acc.find? p with
      | some x => simp
      | none =>
        have hr : p r = false := by
          have := List.find?_eq_none.mp hf r h
          simpa using this
        simp [hr]
    · simp only [dedupFrom, h, if_false]
      rw [ih (acc ++ [r])]
      simp [List.append_assoc]

theorem find?_dedupFirstSeen (p : σ → Bool) (rs : List σ) :
    (dedupFirstSeen rs).find? p = rs.find? p := by
  simpa [dedupFirstSeen] using find?_dedupFrom p [] rs

end UsingArgs

section NamedArgs
variable {σ ε ν : Type}

theorem den_readSlotsK_state {α : Type} (proj : α → σ) (s : σ) (n i : Nat)
    (k : List (Option ν) → Prog Unit Nat ν α) (m : AMap Unit Nat ν)
    (hk : ∀ vs m', proj (den (k vs) m').1 = s) :
    proj (den (readSlotsK n i k) m).1 = s := by
  induction n generalizing i k m with
  | zero => simpa [readSlotsK] using hk [] m
  | succ n ih =>
    simp only [readSlotsK, den]
    exact ih (i + 1) _ m (fun vs m' => hk _ m')

theorem den_bindNamedArgsP_state (count : Nat) (args : List (NArg σ ε ν)) (s : σ)
    (m : AMap Unit Nat ν) :
    (den (bindNamedArgsP count args s) m).1.2 = effectsInWrittenOrder args s := by
  induction args generalizing s m with
  | nil =>
    simp only [bindNamedArgsP, effectsInWrittenOrder]
    exact den_readSlotsK_state (fun r : Except ε (List (Option ν)) × σ => r.2) s count 0 _ m
      (fun vs m' => by simp [den])
  | cons a rest ih =>
    simp only [bindNamedArgsP, effectsInWrittenOrder]
    cases h : a.eval s with
    | mk r s' =>
      cases r with
      | error e => simp [den]
      | ok v => simp only [den]; exact ih s' _

end NamedArgs

end TrustVerif.C05
