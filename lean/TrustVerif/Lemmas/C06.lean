import TrustVerif.Model.C06

/-! Helper lemmas for C06 (property theorems live in `Props/C06.lean`). -/
namespace TrustVerif.C06

theorem sat64_id {x : Int} (h1 : i64Min ≤ x) (h2 : x ≤ i64Max) : sat64 x = x := by
  unfold sat64
  have : ¬ x > i64Max := by omega
  have : ¬ x < i64Min := by omega
  simp [*]

/-- Timeline hypothesis: every clock value is a non-negative `i64`. -/
def Spec.TimesOk (sp : Spec) : Prop :=
  (0 ≤ sp.t0 ∧ sp.t0 ≤ i64Max) ∧ ∀ k, 0 ≤ sp.t k ∧ sp.t k ≤ i64Max

theorem Spec.lastP_range (sp : Spec) (h : sp.TimesOk) : ∀ k, 0 ≤ sp.lastP k ∧ sp.lastP k ≤ i64Max
  | 0 => h.1
  | k + 1 => by
    unfold Spec.lastP
    split
    · exact h.2 k
    · exact Spec.lastP_range sp h k

theorem Spec.overrunsBefore_le (sp : Spec) : ∀ k, sp.overrunsBefore k ≤ u64Max
  | 0 => by simp [Spec.overrunsBefore]
  | k + 1 => by simp only [Spec.overrunsBefore]; exact Nat.min_le_right _ _

theorem keyLe_total (a b : Ready) : (keyLe a b || keyLe b a) = true := by
  unfold keyLe
  simp only [Bool.or_eq_true, Bool.and_eq_true, decide_eq_true_eq, beq_iff_eq]
  omega

theorem keyLe_trans (a b c : Ready) (h1 : keyLe a b = true) (h2 : keyLe b c = true) :
    keyLe a c = true := by
  unfold keyLe at *
  simp only [Bool.or_eq_true, Bool.and_eq_true, decide_eq_true_eq, beq_iff_eq] at *
  omega

/-- The sort key is injective on `Ready` records: two entries that compare `≤` both ways are equal.
Together with totality and transitivity this makes the sorted permutation unique. -/
theorem keyLe_antisymm (a b : Ready) (h1 : keyLe a b = true) (h2 : keyLe b a = true) : a = b := by
  cases a; cases b
  unfold keyLe at *
  simp only [Bool.or_eq_true, Bool.and_eq_true, decide_eq_true_eq, beq_iff_eq] at *
  simp only [Ready.mk.injEq]
  omega

theorem collectAux_states (sv : Nat → Bool) (now : Int) (i : Nat) (l : List (Task × TState)) :
    (collectAux sv now i l).1 =
      l.map (fun p => (stepTask p.1.interval p.2 now (singleNow p.1 sv)).st) := by
  induction l generalizing i with
  | nil => simp [collectAux]
  | cons p rest ih =>
    obtain ⟨tk, st⟩ := p
    simp [collectAux, ih]

/-- Every ready entry comes from a task at its own index whose step reported that due time. -/
theorem collectAux_mem (sv : Nat → Bool) (now : Int) (i : Nat) (l : List (Task × TState))
    (r : Ready) :
    r ∈ (collectAux sv now i l).2 ↔
      ∃ j, ∃ h : j < l.length, r.index = i + j ∧ r.priority = (l[j]).1.priority ∧
        (stepTask (l[j]).1.interval (l[j]).2 now (singleNow (l[j]).1 sv)).due = some r.dueAt := by
  induction l generalizing i with
  | nil => simp [collectAux]
  | cons p rest ih =>
    obtain ⟨tk, st⟩ := p
    simp only [collectAux]
    constructor
    · intro hm
      cases hd : (stepTask tk.interval st now (singleNow tk sv)).due with
      | none =>
        rw [hd] at hm
        obtain ⟨j, hj, h1, h2, h3⟩ := (ih (i + 1)).1 hm
        exact ⟨j + 1, by simp; omega, by omega, by simpa using h2, by simpa using h3⟩
      | some d =>
        rw [hd] at hm
        rcases List.mem_cons.1 hm with rfl | hm
        · exact ⟨0, by simp, by simp, by simp, by simpa using hd⟩
        · obtain ⟨j, hj, h1, h2, h3⟩ := (ih (i + 1)).1 hm
          exact ⟨j + 1, by simp; omega, by omega, by simpa using h2, by simpa using h3⟩
    · rintro ⟨j, hj, h1, h2, h3⟩
      cases j with
      | zero =>
        simp at h2 h3
        rw [h3]
        apply List.mem_cons.2
        left
        cases r
        simp_all
      | succ j =>
        have : r ∈ (collectAux sv now (i + 1) rest).2 :=
          (ih (i + 1)).2 ⟨j, by simpa using hj, by omega, by simpa using h2, by simpa using h3⟩
        cases (stepTask tk.interval st now (singleNow tk sv)).due with
        | none => exact this
        | some d => exact List.mem_cons_of_mem _ this

/-- Ready entries are produced in strictly increasing index order, all ≥ the start index. -/
theorem collectAux_sorted (sv : Nat → Bool) (now : Int) (i : Nat) (l : List (Task × TState)) :
    ((collectAux sv now i l).2.map (·.index)).Pairwise (· < ·) ∧
      ∀ x ∈ (collectAux sv now i l).2.map (·.index), i ≤ x := by
  induction l generalizing i with
  | nil => simp [collectAux]
  | cons p rest ih =>
    obtain ⟨tk, st⟩ := p
    obtain ⟨ih1, ih2⟩ := ih (i + 1)
    simp only [collectAux]
    cases (stepTask tk.interval st now (singleNow tk sv)).due with
    | none =>
      exact ⟨ih1, fun x hx => by have := ih2 x hx; omega⟩
    | some d =>
      refine ⟨?_, ?_⟩
      · simp only [List.map_cons, List.pairwise_cons]
        exact ⟨fun x hx => by have := ih2 x hx; omega, ih1⟩
      · intro x hx
        simp only [List.map_cons, List.mem_cons] at hx
        rcases hx with rfl | hx
        · omega
        · have := ih2 x hx; omega

theorem map_zip_map_right {α β γ : Type} (l : List α) (f : α → β) (g : α × β → γ) :
    (l.zip (l.map f)).map g = l.map (fun a => g (a, f a)) := by
  induction l with
  | nil => rfl
  | cons a l ih => simp [ih]

end TrustVerif.C06
