import TrustVerif.Model.C07

/-!
Helper lemmas for C07 (core Lean only).
-/
namespace TrustVerif.C07

/-! ### `getB`, `set`, `ensureLen` -/

theorem getB_set_eq (img : List Nat) (i b : Nat) (h : i < img.length) : getB (img.set i b) i = b := by
  simp [getB, List.getD, h]

theorem getB_set_ne (img : List Nat) (i j b : Nat) (h : j ≠ i) : getB (img.set i b) j = getB img j := by
  simp [getB, List.getD, List.getElem?_set_ne (Ne.symm h)]

theorem getB_ensureLen (img : List Nat) (k j : Nat) : getB (ensureLen img k) j = getB img j := by
  unfold ensureLen getB
  split
  · by_cases hj : j < img.length
    · simp [List.getD, List.getElem?_append_left hj]
    · have hj' : img.length ≤ j := Nat.le_of_not_lt hj
      simp only [List.getD, List.getElem?_append_right hj']
      rw [List.getElem?_eq_none_iff.2 hj']
      cases h : (List.replicate (k + 1 - img.length) 0)[j - img.length]? with
      | none => rfl
      | some x =>
        have := List.mem_of_getElem? h
        simp at this
        simp [this.2]
  · rfl

theorem length_ensureLen (img : List Nat) (k : Nat) :
    (ensureLen img k).length = max img.length (k + 1) := by
  unfold ensureLen
  split
  · simp; omega
  · omega

theorem lt_length_ensureLen (img : List Nat) (k : Nat) : k < (ensureLen img k).length := by
  rw [length_ensureLen]; omega

/-! ### `writeSpan`, `readSpan`, `putBytes` -/

theorem length_writeSpan (bs : List Nat) : ∀ (img : List Nat) (off : Nat),
    (writeSpan img off bs).length = img.length := by
  induction bs with
  | nil => intro img off; rfl
  | cons b bs ih => intro img off; simp [writeSpan, ih]

theorem getB_writeSpan_outside (bs : List Nat) : ∀ (img : List Nat) (off j : Nat),
    (j < off ∨ off + bs.length ≤ j) → getB (writeSpan img off bs) j = getB img j := by
  induction bs with
  | nil => intro img off j _; rfl
  | cons b bs ih =>
    intro img off j h
    simp only [writeSpan]
    rw [ih _ _ _ (by simp only [List.length_cons] at h; omega)]
    exact getB_set_ne _ _ _ _ (by simp only [List.length_cons] at h; omega)

theorem getB_writeSpan_inside (bs : List Nat) : ∀ (img : List Nat) (off i : Nat),
    off + bs.length ≤ img.length → i < bs.length →
    getB (writeSpan img off bs) (off + i) = bs.getD i 0 := by
  induction bs with
  | nil => intro img off i _ hi; simp at hi
  | cons b bs ih =>
    intro img off i hlen hi
    simp only [writeSpan]
    cases i with
    | zero =>
      rw [getB_writeSpan_outside _ _ _ _ (Or.inl (by omega))]
      simp only [Nat.add_zero]
      rw [getB_set_eq _ _ _ (by simp only [List.length_cons] at hlen; omega)]
      rfl
    | succ i =>
      have := ih (img.set off b) (off + 1) i (by simp only [List.length_cons] at hlen; simp; omega)
        (by simp only [List.length_cons] at hi; omega)
      rw [show off + (i + 1) = off + 1 + i by omega, this]
      rfl

theorem length_readSpan (img : List Nat) : ∀ (k off : Nat), (readSpan img off k).length = k := by
  intro k
  induction k with
  | zero => intro off; rfl
  | succ k ih => intro off; simp [readSpan, ih]

theorem readSpan_getD (img : List Nat) : ∀ (k off i : Nat), i < k →
    (readSpan img off k).getD i 0 = getB img (off + i) := by
  intro k
  induction k with
  | zero => intro off i h; omega
  | succ k ih =>
    intro off i h
    cases i with
    | zero => simp [readSpan]
    | succ i =>
      simp only [readSpan, List.getD_cons_succ]
      rw [ih (off + 1) i (by omega)]
      congr 1; omega

/-- Two images that agree (as `getB`) on a span give the same `readSpan`. -/
theorem readSpan_congr (img img' : List Nat) : ∀ (k off : Nat),
    (∀ j, off ≤ j → j < off + k → getB img' j = getB img j) →
    readSpan img' off k = readSpan img off k := by
  intro k
  induction k with
  | zero => intro off _; rfl
  | succ k ih =>
    intro off h
    simp only [readSpan]
    rw [h off (Nat.le_refl _) (by omega), ih (off + 1) (fun j h1 h2 => h j (by omega) (by omega))]

theorem readSpan_writeSpan (bs : List Nat) : ∀ (img : List Nat) (off : Nat),
    off + bs.length ≤ img.length → readSpan (writeSpan img off bs) off bs.length = bs := by
  intro img off h
  apply List.ext_getElem
  · simp [length_readSpan]
  · intro i h1 h2
    have h3 : i < bs.length := h2
    have := readSpan_getD (writeSpan img off bs) bs.length off i h3
    rw [getB_writeSpan_inside bs img off i h h3] at this
    simp only [List.getD_eq_getElem?_getD, List.getElem?_eq_getElem h1, List.getElem?_eq_getElem h2,
      Option.getD_some] at this
    exact this

theorem length_putBytes (img : List Nat) (off : Nat) (bs : List Nat) (hbs : bs ≠ []) :
    (putBytes img off bs).length = max img.length (off + bs.length) := by
  unfold putBytes
  rw [length_writeSpan, length_ensureLen]
  have : 0 < bs.length := List.length_pos_iff.2 hbs
  omega

theorem getB_putBytes_outside (img : List Nat) (off : Nat) (bs : List Nat) (j : Nat)
    (h : j < off ∨ off + bs.length ≤ j) : getB (putBytes img off bs) j = getB img j := by
  unfold putBytes
  rw [getB_writeSpan_outside _ _ _ _ h, getB_ensureLen]

theorem readSpan_putBytes (img : List Nat) (off : Nat) (bs : List Nat) (hbs : bs ≠ []) :
    readSpan (putBytes img off bs) off bs.length = bs := by
  unfold putBytes
  apply readSpan_writeSpan
  rw [length_ensureLen]
  have : 0 < bs.length := List.length_pos_iff.2 hbs
  omega

theorem getB_putBytes_inside (img : List Nat) (off : Nat) (bs : List Nat) (i : Nat) (hbs : bs ≠ [])
    (hi : i < bs.length) : getB (putBytes img off bs) (off + i) = bs.getD i 0 := by
  unfold putBytes
  apply getB_writeSpan_inside _ _ _ _ _ hi
  rw [length_ensureLen]
  have : 0 < bs.length := List.length_pos_iff.2 hbs
  omega

/-! ### little-endian codec -/

theorem length_toLe : ∀ (k v : Nat), (toLe k v).length = k := by
  intro k
  induction k with
  | zero => intro v; rfl
  | succ k ih => intro v; simp [toLe, ih]

theorem toLe_ne_nil (k v : Nat) (h : 0 < k) : toLe k v ≠ [] := by
  intro hn
  have := length_toLe k v
  rw [hn] at this
  simp at this
  omega

theorem toLe_lt : ∀ (k v : Nat), ∀ b ∈ toLe k v, b < 256 := by
  intro k
  induction k with
  | zero => intro v b h; simp [toLe] at h
  | succ k ih =>
    intro v b h
    simp only [toLe, List.mem_cons] at h
    rcases h with h | h
    · omega
    · exact ih _ _ h

theorem fromLe_toLe : ∀ (k v : Nat), fromLe (toLe k v) = v % 256 ^ k := by
  intro k
  induction k with
  | zero => intro v; simp [toLe, fromLe, Nat.mod_one]
  | succ k ih =>
    intro v
    simp only [toLe, fromLe, ih]
    rw [Nat.pow_succ, Nat.mul_comm (256 ^ k) 256, Nat.mod_mul]

theorem fromLe_lt : ∀ (bs : List Nat), (∀ b ∈ bs, b < 256) → fromLe bs < 256 ^ bs.length := by
  intro bs
  induction bs with
  | nil => intro _; simp [fromLe]
  | cons b bs ih =>
    intro h
    have hb : b < 256 := h b (by simp)
    have := ih (fun x hx => h x (by simp [hx]))
    simp only [fromLe, List.length_cons, Nat.pow_succ]
    omega

theorem toLe_fromLe : ∀ (bs : List Nat), (∀ b ∈ bs, b < 256) → toLe bs.length (fromLe bs) = bs := by
  intro bs
  induction bs with
  | nil => intro _; rfl
  | cons b bs ih =>
    intro h
    have hb : b < 256 := h b (by simp)
    have := ih (fun x hx => h x (by simp [hx]))
    simp only [fromLe, List.length_cons, toLe]
    rw [show (b + 256 * fromLe bs) % 256 = b by omega, show (b + 256 * fromLe bs) / 256 = fromLe bs by omega,
      this]

theorem toLe_getD : ∀ (k v i : Nat), i < k → (toLe k v).getD i 0 = v / 256 ^ i % 256 := by
  intro k
  induction k with
  | zero => intro v i h; omega
  | succ k ih =>
    intro v i h
    cases i with
    | zero => simp [toLe]
    | succ i =>
      simp only [toLe, List.getD_cons_succ]
      rw [ih _ _ (by omega), Nat.div_div_eq_div_mul, Nat.pow_succ, Nat.mul_comm]

theorem readSpan_lt (img : List Nat) (himg : ∀ b ∈ img, b < 256) : ∀ (k off : Nat),
    ∀ b ∈ readSpan img off k, b < 256 := by
  intro k
  induction k with
  | zero => intro off b h; simp [readSpan] at h
  | succ k ih =>
    intro off b h
    simp only [readSpan, List.mem_cons] at h
    rcases h with h | h
    · subst h
      unfold getB
      cases hg : img[off]? with
      | none => simp [List.getD, hg]
      | some x => simp [List.getD, hg]; exact himg x (List.mem_of_getElem? hg)
    · exact ih _ _ h


/-! ### bit operations on a byte (complete finite tables) -/

theorem bit_table1 : ∀ b < 256, ∀ n < 8,
    bitOf (setBit b n) n = true ∧ bitOf (clearBit b n) n = false ∧ setBit b n < 256 ∧ clearBit b n < 256 ∧
    bitOf b n = (b / 2 ^ n % 2 == 1) := by
  decide +kernel

theorem bitOf_eq_testBit (b n : Nat) : bitOf b n = b.testBit n := by
  rw [Nat.testBit_eq_decide_div_mod_eq]
  simp only [bitOf, Nat.shiftRight_eq_div_pow, Nat.and_one_is_mod]
  cases h : decide (b / 2 ^ n % 2 = 1) <;> simp_all

theorem bitOf_eq_div (b n : Nat) : bitOf b n = (b / 2 ^ n % 2 == 1) := by
  simp only [bitOf, Nat.shiftRight_eq_div_pow, Nat.and_one_is_mod]

theorem testBit_setBit (b n m : Nat) : (setBit b n).testBit m = (b.testBit m || decide (n = m)) := by
  simp [setBit, Nat.one_shiftLeft, Nat.testBit_two_pow]

theorem testBit_clearBit (b n m : Nat) (hn : n < 8) :
    (clearBit b n).testBit m = (b.testBit m && (decide (m < 8) && !decide (n = m))) := by
  have : 255 - 1 <<< n = 2 ^ 8 - (2 ^ n + 1) := by rw [Nat.one_shiftLeft]; omega
  have h2 : 2 ^ n < 2 ^ 8 := Nat.pow_lt_pow_right (by omega) hn
  simp only [clearBit, this, Nat.testBit_and, Nat.testBit_two_pow_sub_succ h2, Nat.testBit_two_pow]

theorem bitOf_setBit_self (b n : Nat) : bitOf (setBit b n) n = true := by
  simp [bitOf_eq_testBit, testBit_setBit]

theorem bitOf_clearBit_self (b n : Nat) (hn : n < 8) : bitOf (clearBit b n) n = false := by
  simp [bitOf_eq_testBit, testBit_clearBit _ _ _ hn]

theorem bitOf_setBit_ne (b n m : Nat) (h : m ≠ n) : bitOf (setBit b n) m = bitOf b m := by
  simp [bitOf_eq_testBit, testBit_setBit, Ne.symm h]

theorem bitOf_clearBit_ne (b n m : Nat) (hn : n < 8) (hm : m < 8) (h : m ≠ n) :
    bitOf (clearBit b n) m = bitOf b m := by
  simp [bitOf_eq_testBit, testBit_clearBit _ _ _ hn, hm, Ne.symm h]

/-! ### images of an `Io` -/

@[simp] theorem area_setArea_same (io : Io) (a : Area) (img : List Nat) : (io.setArea a img).area a = img := by
  cases a <;> rfl

theorem area_setArea_ne (io : Io) (a ar : Area) (img : List Nat) (h : ar ≠ a) :
    (io.setArea a img).area ar = io.area ar := by
  cases a <;> cases ar <;> first | rfl | exact absurd rfl h

@[simp] theorem hier_setArea (io : Io) (a : Area) (img : List Nat) : (io.setArea a img).hier = io.hier := by
  cases a <;> rfl

theorem getB_lt (img : List Nat) (h : ∀ b ∈ img, b < 256) (j : Nat) : getB img j < 256 := by
  unfold getB
  cases hg : img[j]? with
  | none => simp [List.getD, hg]
  | some x => simp [List.getD, hg]; exact h x (List.mem_of_getElem? hg)

theorem mem_set_lt (img : List Nat) (i b : Nat) (h : ∀ x ∈ img, x < 256) (hb : b < 256) :
    ∀ x ∈ img.set i b, x < 256 := by
  intro x hx
  rcases List.mem_or_eq_of_mem_set hx with h1 | h1
  · exact h x h1
  · omega

theorem ensureLen_lt (img : List Nat) (k : Nat) (h : ∀ x ∈ img, x < 256) : ∀ x ∈ ensureLen img k, x < 256 := by
  intro x hx
  unfold ensureLen at hx
  split at hx
  · simp only [List.mem_append, List.mem_replicate] at hx
    rcases hx with h1 | h1
    · exact h x h1
    · omega
  · exact h x hx

theorem writeSpan_lt (bs : List Nat) : ∀ (img : List Nat) (off : Nat), (∀ x ∈ img, x < 256) →
    (∀ x ∈ bs, x < 256) → ∀ x ∈ writeSpan img off bs, x < 256 := by
  induction bs with
  | nil => intro img off h _; exact h
  | cons b bs ih =>
    intro img off h hb
    simp only [writeSpan]
    exact ih _ _ (mem_set_lt _ _ _ h (hb b (by simp))) (fun x hx => hb x (by simp [hx]))

theorem putBytes_lt (img : List Nat) (off : Nat) (bs : List Nat) (h : ∀ x ∈ img, x < 256)
    (hb : ∀ x ∈ bs, x < 256) : ∀ x ∈ putBytes img off bs, x < 256 :=
  writeSpan_lt _ _ _ (ensureLen_lt _ _ h) hb

/-! ### `read` / `write` on flat addresses -/

theorem flat_iff (a : Addr) : a.flat = true ↔ a.wildcard = false ∧ a.path.length ≤ 1 := by
  simp [Addr.flat]

/-- A flat non-bit write stores `storedBytes` with `putBytes`, or is a type mismatch. -/
theorem write_nonbit (io : Io) (a : Addr) (v : Value) (hf : a.flat = true) (hs : a.size ≠ .bit) :
    write io a v =
      match storedBytes a.size v with
      | some bs => .ok (io.setArea a.area (putBytes (io.area a.area) a.byte bs))
      | none => .error .typeMismatch := by
  obtain ⟨hw, hp⟩ := (flat_iff a).1 hf
  have hp' : ¬ a.path.length > 1 := by omega
  unfold write
  simp only [hw, hp', if_false, Bool.false_eq_true]
  cases hsz : a.size <;> cases v <;> simp_all [storedBytes]

/-- A flat bit write sets or clears one bit of one byte, or is a type mismatch / the shift panic. -/
theorem write_bit (io : Io) (a : Addr) (v : Value) (hf : a.flat = true) (hs : a.size = .bit) :
    write io a v =
      match v with
      | .bool flag =>
        if a.bit > 7 then .error .shiftPanic else
        .ok (io.setArea a.area ((ensureLen (io.area a.area) a.byte).set a.byte
          (if flag then setBit (getB (ensureLen (io.area a.area) a.byte) a.byte) a.bit
           else clearBit (getB (ensureLen (io.area a.area) a.byte) a.byte) a.bit)))
      | _ => .error .typeMismatch := by
  obtain ⟨hw, hp⟩ := (flat_iff a).1 hf
  have hp' : ¬ a.path.length > 1 := by omega
  unfold write
  simp only [hw, hp', if_false, Bool.false_eq_true, hs]
  cases v <;> simp

/-- A flat non-bit read decodes the span little-endian. -/
theorem read_nonbit (io : Io) (a : Addr) (hf : a.flat = true) (hs : a.size ≠ .bit) :
    read io a = .ok (a.size.mk (fromLe (readSpan (io.area a.area) a.byte a.size.bytes))) := by
  obtain ⟨hw, hp⟩ := (flat_iff a).1 hf
  have hp' : ¬ a.path.length > 1 := by omega
  unfold read
  simp only [hw, hp', if_false, Bool.false_eq_true]
  cases hsz : a.size <;> simp_all [Size.mk, Size.bytes, readSpan, fromLe]

/-- A flat bit read tests one bit of one byte. -/
theorem read_bit (io : Io) (a : Addr) (hf : a.flat = true) (hs : a.size = .bit) :
    read io a = if a.bit > 7 then .error .shiftPanic else .ok (.bool (bitOf (getB (io.area a.area) a.byte) a.bit)) := by
  obtain ⟨hw, hp⟩ := (flat_iff a).1 hf
  have hp' : ¬ a.path.length > 1 := by omega
  unfold read
  simp only [hw, hp', if_false, Bool.false_eq_true, hs]

theorem storedBytes_length (sz : Size) (v : Value) (bs : List Nat) (h : storedBytes sz v = some bs) :
    bs.length = sz.bytes ∧ bs ≠ [] := by
  cases sz <;> cases v <;> simp [storedBytes] at h <;> subst h <;> simp [Size.bytes, length_toLe] <;>
    exact toLe_ne_nil _ _ (by omega)

theorem storedBytes_lt (sz : Size) (v : Value) (bs : List Nat) (h : storedBytes sz v = some bs)
    (hv : v.WF) : ∀ b ∈ bs, b < 256 := by
  cases sz <;> cases v <;> simp [storedBytes] at h <;> subst h
  · simpa [Value.WF] using hv
  all_goals exact toLe_lt _ _

theorem storedBytes_fromLe (sz : Size) (v : Value) (bs : List Nat) (h : storedBytes sz v = some bs)
    (hv : v.WF) : sz.mk (fromLe bs) = v := by
  cases sz <;> cases v <;> simp [storedBytes] at h <;> subst h <;>
    simp only [Value.WF] at hv <;> simp only [Size.mk, fromLe_toLe, fromLe]
  · simp
  all_goals (congr 1; omega)


/-! ### frame, locality, non-interference (stated again as property theorems in `Props/C07.lean`) -/

theorem write_frame (io io' : Io) (a : Addr) (v : Value) (hf : a.flat = true)
    (h : write io a v = .ok io') :
    (∀ ar, ar ≠ a.area → io'.area ar = io.area ar) ∧
    io'.hier = io.hier ∧
    (∀ j, a.inSpan j = false → getB (io'.area a.area) j = getB (io.area a.area) j) ∧
    (io'.area a.area).length = max (io.area a.area).length (a.byte + a.size.bytes) ∧
    (a.size = .bit → ∀ m, m < 8 → m ≠ a.bit →
      bitOf (getB (io'.area a.area) a.byte) m = bitOf (getB (io.area a.area) a.byte) m) := by
  by_cases hs : a.size = .bit
  · rw [write_bit io a v hf hs] at h
    cases v with
    | bool flag =>
      simp only at h
      split at h
      · cases h
      · rename_i hbit
        injection h with h
        subst h
        refine ⟨fun ar har => area_setArea_ne _ _ _ _ har, hier_setArea _ _ _, ?_, ?_, ?_⟩
        · intro j hj
          simp only [area_setArea_same]
          have : j ≠ a.byte := by
            simp [Addr.inSpan, hs, Size.bytes] at hj
            omega
          rw [getB_set_ne _ _ _ _ this, getB_ensureLen]
        · simp [length_ensureLen, hs, Size.bytes]
        · intro _ m hm hne
          simp only [area_setArea_same]
          rw [getB_set_eq _ _ _ (lt_length_ensureLen _ _), getB_ensureLen]
          cases flag
          · simp [bitOf_clearBit_ne _ _ _ (by omega) hm hne]
          · simp [bitOf_setBit_ne _ _ _ hne]
    | _ => simp at h
  · rw [write_nonbit io a v hf hs] at h
    cases hb : storedBytes a.size v with
    | none => simp [hb] at h
    | some bs =>
      simp only [hb] at h
      injection h with h
      subst h
      obtain ⟨hlen, hne⟩ := storedBytes_length _ _ _ hb
      refine ⟨fun ar har => area_setArea_ne _ _ _ _ har, hier_setArea _ _ _, ?_, ?_, fun h => absurd h hs⟩
      · intro j hj
        simp only [area_setArea_same]
        apply getB_putBytes_outside
        simp [Addr.inSpan] at hj
        omega
      · simp only [area_setArea_same]
        rw [length_putBytes _ _ _ hne, hlen]

theorem read_local (io io' : Io) (a : Addr) (hf : a.flat = true)
    (h : ∀ j, a.inSpan j = true → getB (io'.area a.area) j = getB (io.area a.area) j) :
    read io' a = read io a := by
  by_cases hs : a.size = .bit
  · rw [read_bit _ a hf hs, read_bit _ a hf hs, h a.byte (by simp [Addr.inSpan, hs, Size.bytes])]
  · rw [read_nonbit _ a hf hs, read_nonbit _ a hf hs]
    rw [readSpan_congr (io.area a.area) (io'.area a.area) a.size.bytes a.byte
      (fun j h1 h2 => h j (by simp [Addr.inSpan]; omega))]

theorem write_disjoint_read (io io' : Io) (a b : Addr) (v : Value) (ha : a.flat = true)
    (hb : b.valid = true) (hd : a.disjoint b = true) (h : write io a v = .ok io') :
    read io' b = read io b := by
  have hbf : b.flat = true := by simp [Addr.valid] at hb; exact hb.1
  obtain ⟨h1, _, h3, _, h5⟩ := write_frame io io' a v ha h
  by_cases har : b.area = a.area
  · by_cases hsp : a.byte + a.size.bytes ≤ b.byte ∨ b.byte + b.size.bytes ≤ a.byte
    · apply read_local _ _ _ hbf
      intro j hj
      rw [har]
      apply h3
      simp [Addr.inSpan] at hj ⊢
      omega
    · -- two bits of the same byte
      have hd' : a.size = .bit ∧ b.size = .bit ∧ a.byte = b.byte ∧ a.bit ≠ b.bit := by
        simp [Addr.disjoint, har] at hd
        rcases hd with (hd | hd) | hd
        · omega
        · omega
        · exact ⟨hd.1.1.1, hd.1.1.2, hd.1.2, hd.2⟩
      obtain ⟨hsa, hsb, hbyte, hbits⟩ := hd'
      have hb7 : ¬ b.bit > 7 := by simp [Addr.valid, hsb] at hb; omega
      rw [read_bit _ b hbf hsb, read_bit _ b hbf hsb]
      simp only [hb7, if_false]
      rw [har, ← hbyte, h5 hsa b.bit (by omega) (Ne.symm hbits)]
  · apply read_local _ _ _ hbf
    intro j _
    rw [h1 b.area har]


/-! ### `write` on any address -/

theorem area_hier_update (io : Io) (h : List (HKey × Value)) (ar : Area) :
    ({ io with hier := h } : Io).area ar = io.area ar := by
  cases ar <;> rfl

/-- Whatever the address, a successful write leaves the other two areas alone. -/
theorem write_other_area (io io' : Io) (a : Addr) (v : Value) (h : write io a v = .ok io') (ar : Area)
    (har : ar ≠ a.area) : io'.area ar = io.area ar := by
  by_cases hf : a.flat = true
  · exact (write_frame io io' a v hf h).1 ar har
  · unfold write at h
    by_cases hw : a.wildcard = true
    · simp [hw] at h
    · have hp : a.path.length > 1 := by
        simp [Addr.flat] at hf
        have := hf (by simpa using hw)
        omega
      simp only [hw, hp, if_true, if_false, Bool.false_eq_true] at h
      injection h with h
      subst h
      exact area_hier_update _ _ _

/-- A write to a hierarchical address changes no image. -/
theorem write_hier_area (io io' : Io) (a : Addr) (v : Value) (h : write io a v = .ok io')
    (hp : a.path.length > 1) (ar : Area) : io'.area ar = io.area ar := by
  unfold write at h
  by_cases hw : a.wildcard = true
  · simp [hw] at h
  · simp only [hw, hp, if_true, if_false, Bool.false_eq_true] at h
    injection h with h
    subst h
    exact area_hier_update _ _ _

/-! ### `latch` (`read_inputs`) -/

theorem latch_append (io : Io) (pre rest : List Binding) : ∀ (s : Store),
    latch io (pre ++ rest) s =
      match latch io pre s with
      | (s1, some e) => (s1, some e)
      | (s1, none) => latch io rest s1 := by
  induction pre with
  | nil => intro s; simp [latch]
  | cons b pre ih =>
    intro s
    simp only [List.cons_append, latch]
    split
    · exact ih s
    · split
      · rfl
      · split
        · exact ih _
        · split
          · exact ih _
          · rfl

/-- Variables that no in-binding of the list targets keep their value (also when the latch fails). -/
theorem latch_frame (io : Io) (bs : List Binding) (x : Nat) : ∀ (s : Store),
    (∀ b ∈ bs, b.isIn = true → b.target.var ≠ x) → (latch io bs s).1 x = s x := by
  induction bs with
  | nil => intro s _; rfl
  | cons b bs ih =>
    intro s h
    have hrest : ∀ b' ∈ bs, b'.isIn = true → b'.target.var ≠ x := fun b' hb' => h b' (by simp [hb'])
    simp only [latch]
    split
    · exact ih s hrest
    · rename_i hin
      have hin' : b.isIn = true := by simpa using hin
      have hne := h b (by simp) hin'
      split
      · rfl
      · split
        · rename_i y hy
          rw [ih _ hrest]
          simp only [Target.var, hy] at hne
          simp [Store.set, Ne.symm hne]
        · rename_i y hy
          simp only [Target.var, hy] at hne
          split
          · rw [ih _ hrest]
            simp [Store.set, Ne.symm hne]
          · rfl

/-- One step of a successful latch. -/
theorem latch_cons_ok (io : Io) (b : Binding) (bs : List Binding) (s s' : Store) (hin : b.isIn = true)
    (h : latch io (b :: bs) s = (s', none)) :
    ∃ v, latchValue io b = .ok v ∧ latch io bs (s.set b.target.var v) = (s', none) := by
  simp only [latch, hin, Bool.not_true, Bool.false_eq_true, if_false] at h
  cases hv : latchValue io b with
  | error e => simp [hv] at h
  | ok v =>
    simp only [hv] at h
    refine ⟨v, rfl, ?_⟩
    cases ht : b.target with
    | name y => simpa [ht, Target.var] using h
    | ref y =>
      simp only [ht] at h
      split at h
      · simpa [Target.var] using h
      · simp at h

/-! ### `collect` (`write_outputs`) -/

theorem collect_append (s : Store) (pre rest : List Binding) : ∀ (io : Io),
    collect s (pre ++ rest) io =
      match collect s pre io with
      | (io1, some e) => (io1, some e)
      | (io1, none) => collect s rest io1 := by
  induction pre with
  | nil => intro io; simp [collect]
  | cons b pre ih =>
    intro io
    simp only [List.cons_append, collect]
    split
    · exact ih io
    · split
      · rfl
      · split
        · rfl
        · exact ih _

/-- One step of a successful collect. -/
theorem collect_cons_ok (s : Store) (b : Binding) (bs : List Binding) (io io' : Io) (hout : b.isOut = true)
    (h : collect s (b :: bs) io = (io', none)) :
    ∃ v io1, publishValue s b = .ok v ∧ write io b.addr v = .ok io1 ∧ collect s bs io1 = (io', none) := by
  simp only [collect, hout, Bool.not_true, Bool.false_eq_true, if_false] at h
  cases hv : publishValue s b with
  | error e => simp [hv] at h
  | ok v =>
    simp only [hv] at h
    cases hw : write io b.addr v with
    | error e => simp [hw] at h
    | ok io1 =>
      simp only [hw] at h
      exact ⟨v, io1, rfl, hw, h⟩

/-- `write_outputs` never touches the input image (also when it fails). -/
theorem collect_inputs (s : Store) (bs : List Binding) : ∀ (io : Io), (collect s bs io).1.inputs = io.inputs := by
  induction bs with
  | nil => intro io; rfl
  | cons b bs ih =>
    intro io
    simp only [collect]
    split
    · exact ih io
    · rename_i hout
      split
      · rfl
      · split
        · rfl
        · rename_i io1 hw
          rw [ih io1]
          have hne : Area.input ≠ b.addr.area := by
            intro hc
            simp [Binding.isOut, ← hc] at hout
          exact write_other_area io io1 b.addr _ hw .input hne

/-- Collecting bindings that do not clash with `a` leaves the value read at `a` unchanged
(also when the collect fails part-way). -/
theorem collect_read_unchanged (s : Store) (a : Addr) (ha : a.valid = true) (bs : List Binding) :
    ∀ (io : Io), (∀ b ∈ bs, b.noClash a = true) → read (collect s bs io).1 a = read io a := by
  have haf : a.flat = true := by simp [Addr.valid] at ha; exact ha.1
  induction bs with
  | nil => intro io _; rfl
  | cons b bs ih =>
    intro io h
    have hrest : ∀ b' ∈ bs, b'.noClash a = true := fun b' hb' => h b' (by simp [hb'])
    simp only [collect]
    split
    · exact ih io hrest
    · rename_i hout
      split
      · rfl
      · split
        · rfl
        · rename_i io1 hw
          rw [ih io1 hrest]
          have hb := h b (by simp)
          simp only [Binding.noClash, Addr.noClash, Bool.or_eq_true, Bool.not_eq_true', decide_eq_true_eq,
            Bool.and_eq_true] at hb
          rcases hb with hb | hb | hb
          · simp [hb] at hout
          · apply read_local _ _ _ haf
            intro j _
            rw [write_hier_area io io1 b.addr _ hw hb]
          · exact write_disjoint_read io io1 b.addr a _ hb.1 ha hb.2 hw


/-! ### coercions -/

theorem scale_ne_zero (k : TKind) : k.scale ≠ 0 := by cases k <;> simp [TKind.scale]

theorem tick_encode_decode (k : TKind) (n : Int) (sz : Size) (hwf : (Value.tick k n).WF)
    (hex : (Value.tick k n).ioExact) (hsz : expectedSize (.tick k) = some sz) :
    ∃ w, coerceToIo (.tick k n) (.tick k) sz = .ok w ∧ w.WF ∧ w.ioSize = some sz ∧
      coerceFromIo w (.tick k) = .ok (.tick k n) := by
  simp only [expectedSize, Option.some.injEq] at hsz
  subst hsz
  simp only [Value.WF] at hwf
  simp only [Value.ioExact] at hex
  by_cases hl : k.long = true
  · simp [coerceToIo, expectedSize, enumToLint, tickToIo, hl, coerceFromIo, Value.WF, Value.ioSize, asSigned,
      asUnsigned]
    omega
  · rcases hex with hl' | ⟨c, rfl, h1, h2⟩
    · exact absurd hl' hl
    have hback : asSigned 32 (asUnsigned 32 c) = c := by simp [asSigned, asUnsigned]; omega
    have hlt : asUnsigned 32 c < 4294967296 := by simp [asUnsigned]; omega
    simp [coerceToIo, expectedSize, enumToLint, tickToIo, hl, coerceFromIo, Value.WF, Value.ioSize,
      Int.mul_tdiv_cancel_left _ (scale_ne_zero k), h1, h2, hback, hlt]

theorem coerce_encode_decode (v : Value) (t : Ty) (sz : Size) (hty : v.hasTy t = true) (hwf : v.WF)
    (hex : v.ioExact) (hsz : expectedSize t = some sz) :
    ∃ w, coerceToIo v t sz = .ok w ∧ w.WF ∧ w.ioSize = some sz ∧ coerceFromIo w t = .ok v := by
  cases t with
  | tick k =>
    cases v <;> simp [Value.hasTy] at hty
    subst hty
    exact tick_encode_decode _ _ sz hwf hex hsz
  | _ =>
    cases v <;> simp [Value.hasTy] at hty <;>
      simp only [expectedSize, Option.some.injEq] at hsz <;> subst hsz <;>
      simp only [Value.WF] at hwf <;>
      simp [coerceToIo, expectedSize, enumToLint, coerceFromIo, Value.WF, Value.ioSize, asSigned, asUnsigned] <;>
      omega

theorem tick_decode_encode (w : Value) (k : TKind) (sz : Size) (hw : w.ioSize = some sz) (hwf : w.WF)
    (hsz : expectedSize (.tick k) = some sz) :
    ∃ v, coerceFromIo w (.tick k) = .ok v ∧ v.hasTy (.tick k) = true ∧ v.WF ∧ v.ioExact ∧
      coerceToIo v (.tick k) sz = .ok w := by
  simp only [expectedSize, Option.some.injEq] at hsz
  subst hsz
  by_cases hl : k.long = true
  · cases w <;> simp [Value.ioSize, hl] at hw
    simp only [Value.WF] at hwf
    simp [coerceToIo, expectedSize, enumToLint, tickToIo, hl, coerceFromIo, Value.WF, Value.hasTy, Value.ioExact,
      asSigned, asUnsigned]
    omega
  · cases w <;> simp [Value.ioSize, hl] at hw
    simp only [Value.WF] at hwf
    rename_i x
    have hs := scale_ne_zero k
    have hc : -2147483648 ≤ asSigned 32 x ∧ asSigned 32 x < 2147483648 := by
      simp [asSigned]; omega
    have hback : asUnsigned 32 (asSigned 32 x) = x := by
      simp [asSigned, asUnsigned]; omega
    have hrange : -9223372036854775808 ≤ k.scale * asSigned 32 x ∧ k.scale * asSigned 32 x < 9223372036854775808 := by
      cases k <;> simp [TKind.scale] <;> omega
    simp [coerceToIo, expectedSize, enumToLint, tickToIo, hl, coerceFromIo, Value.WF, Value.hasTy, Value.ioExact,
      Int.mul_tdiv_cancel_left _ hs, hc, hback, hrange]
    exact ⟨asSigned 32 x, rfl, hc.1, hc.2⟩

theorem coerce_decode_encode (w : Value) (t : Ty) (sz : Size) (hw : w.ioSize = some sz) (hwf : w.WF)
    (hsz : expectedSize t = some sz) :
    ∃ v, coerceFromIo w t = .ok v ∧ v.hasTy t = true ∧ v.WF ∧ v.ioExact ∧ coerceToIo v t sz = .ok w := by
  cases t with
  | tick k => exact tick_decode_encode w k sz hw hwf hsz
  | _ =>
    simp only [expectedSize, Option.some.injEq, reduceCtorEq] at hsz <;> subst hsz <;>
      cases w <;> simp [Value.ioSize] at hw <;>
      simp only [Value.WF] at hwf <;>
      simp [coerceToIo, expectedSize, enumToLint, coerceFromIo, Value.WF, Value.hasTy, Value.ioExact, asSigned,
        asUnsigned] <;>
      omega

/-- An enum whose numeric value is a value of the integer type `t` publishes exactly what that integer
publishes (`Value::Enum(e) => Value::LInt(e.numeric_value)` followed by the integer arm). -/
theorem enum_publish (n : Int) (t : Ty) (sz : Size) (hty : ((Value.enum n).plain t).hasTy t = true)
    (hwf : ((Value.enum n).plain t).WF) :
    coerceToIo (.enum n) t sz = coerceToIo ((Value.enum n).plain t) t sz := by
  by_cases hn : 0 ≤ n
  · have hn' : ¬ n < 0 := by omega
    cases t <;> simp [Value.plain, Value.hasTy, hn] at hty hwf ⊢ <;>
      simp only [Value.WF] at hwf <;>
      simp [coerceToIo, expectedSize, enumToLint, signedToIo, unsignedToIo, toI64, toU64, Except.map, hwf, hn']
  · cases t <;> simp [Value.plain, Value.hasTy, hn] at hty hwf ⊢ <;>
      simp only [Value.WF] at hwf <;>
      simp [coerceToIo, expectedSize, enumToLint, signedToIo, toI64, Except.map, hwf]

/-- Reading a valid address of a well-formed image yields an in-range I/O value of the address size. -/
theorem read_valid (io : Io) (a : Addr) (hv : a.valid = true) (hio : io.WF) :
    ∃ w, read io a = .ok w ∧ w.ioSize = some a.size ∧ w.WF := by
  have hf : a.flat = true := by simp [Addr.valid] at hv; exact hv.1
  by_cases hs : a.size = .bit
  · have hbit : ¬ a.bit > 7 := by simp [Addr.valid, hs] at hv; omega
    rw [read_bit _ a hf hs]
    simp [hbit, Value.ioSize, hs, Value.WF]
  · rw [read_nonbit _ a hf hs]
    refine ⟨_, rfl, ?_, ?_⟩
    · cases hsz : a.size <;> simp_all [Size.mk, Value.ioSize]
    · have hlt := fromLe_lt _ (readSpan_lt _ (hio a.area) a.size.bytes a.byte)
      rw [length_readSpan] at hlt
      cases hsz : a.size <;> simp_all [Size.mk, Value.WF, Size.bytes]

/-- Writing an I/O value of the address size to a valid address succeeds. -/
theorem write_valid_ok (io : Io) (a : Addr) (w : Value) (hv : a.valid = true) (hw : w.ioSize = some a.size) :
    ∃ io', write io a w = .ok io' := by
  have hf : a.flat = true := by simp [Addr.valid] at hv; exact hv.1
  by_cases hs : a.size = .bit
  · have hbit : ¬ a.bit > 7 := by simp [Addr.valid, hs] at hv; omega
    rw [write_bit io a w hf hs]
    cases w <;> simp [Value.ioSize, hs] at hw
    simp [hbit]
  · rw [write_nonbit io a w hf hs]
    cases hsz : a.size <;> cases w <;> simp_all [Value.ioSize, storedBytes]


/-! ### driver phases -/

theorem length_applyPokes (ps : List (Nat × Nat)) : ∀ (img : List Nat), (applyPokes ps img).length = img.length := by
  induction ps with
  | nil => intro img; rfl
  | cons p ps ih => intro img; obtain ⟨o, b⟩ := p; simp [applyPokes, ih]

/-- The slice a driver is handed cannot change its length. -/
theorem length_readPhase (drv : List DrvIn) : ∀ (d : Nat) (inp : List Nat),
    (readPhase drv d inp).1.length = inp.length := by
  induction drv with
  | nil => intro d inp; rfl
  | cons x xs ih =>
    intro d inp
    simp only [readPhase]
    split
    · simp [length_applyPokes]
    · simp [ih, length_applyPokes]

theorem readPhase_isRead (drv : List DrvIn) : ∀ (d : Nat) (inp : List Nat),
    ∀ e ∈ (readPhase drv d inp).2.1, e.isRead = true := by
  induction drv with
  | nil => intro d inp e h; simp [readPhase] at h
  | cons x xs ih =>
    intro d inp e h
    simp only [readPhase] at h
    split at h
    · simp at h; subst h; rfl
    · simp only [List.mem_cons] at h
      rcases h with h | h
      · subst h; rfl
      · exact ih _ _ e h

/-- A successful read phase asked every driver exactly once, in registration order. -/
theorem readPhase_ok (drv : List DrvIn) : ∀ (d : Nat) (inp : List Nat), (readPhase drv d inp).2.2 = none →
    (readPhase drv d inp).2.1.length = drv.length ∧
    ∀ i, i < drv.length → ∃ entry, (readPhase drv d inp).2.1[i]? = some (.read (d + i) entry) := by
  induction drv with
  | nil => intro d inp _; simp [readPhase]
  | cons x xs ih =>
    intro d inp h
    simp only [readPhase] at h ⊢
    split at h
    · simp at h
    · rename_i hf
      simp only [hf, if_false, Bool.false_eq_true]
      obtain ⟨h1, h2⟩ := ih (d + 1) _ h
      refine ⟨by simp [h1], ?_⟩
      intro i hi
      cases i with
      | zero => exact ⟨inp, by simp⟩
      | succ i =>
        obtain ⟨entry, he⟩ := h2 i (by simp at hi; omega)
        refine ⟨entry, ?_⟩
        simp only [List.getElem?_cons_succ, he]
        congr 2; omega

/-- A successful write phase gave every driver the same bytes exactly once, in registration order. -/
theorem writePhase_ok (drv : List DrvIn) (out : List Nat) : ∀ (d : Nat), (writePhase drv d out).2 = none →
    (writePhase drv d out).1 = (List.range drv.length).map (fun i => Ev.write (d + i) out) := by
  induction drv with
  | nil => intro d _; simp [writePhase]
  | cons x xs ih =>
    intro d h
    simp only [writePhase] at h ⊢
    split at h
    · simp at h
    · rename_i hf
      simp only [hf, if_false, Bool.false_eq_true]
      rw [ih (d + 1) h, List.length_cons, List.range_succ_eq_map, List.map_cons, List.map_map]
      simp only [Nat.add_zero, List.cons.injEq, true_and]
      apply List.map_congr_left
      intro i _
      simp only [Function.comp]
      congr 1; omega

/-- A failing write phase gave the bytes to the drivers up to and including the failing one. -/
theorem writePhase_err (drv : List DrvIn) (out : List Nat) : ∀ (d : Nat) (e : Err), (writePhase drv d out).2 = some e →
    ∃ k, k < drv.length ∧ (writePhase drv d out).1 = (List.range (k + 1)).map (fun i => Ev.write (d + i) out) := by
  induction drv with
  | nil => intro d e h; simp [writePhase] at h
  | cons x xs ih =>
    intro d e h
    simp only [writePhase] at h ⊢
    split at h
    · rename_i hf
      exact ⟨0, by simp, by simp [hf]⟩
    · rename_i hf
      obtain ⟨k, hk, hev⟩ := ih (d + 1) e h
      refine ⟨k + 1, by simp; omega, ?_⟩
      simp only [hf, if_false, Bool.false_eq_true]
      rw [hev, List.range_succ_eq_map (n := k + 1), List.map_cons, List.map_map]
      simp only [Nat.add_zero, List.cons.injEq, true_and]
      apply List.map_congr_left
      intro i _
      simp only [Function.comp]
      congr 1; omega

/-! ### program phases -/

theorem execProgs_not_driver (ps : List Prog) : ∀ (s : Store), ∀ e ∈ (execProgs ps s).2.1, e.isDriver = false := by
  induction ps with
  | nil => intro s e h; simp [execProgs] at h
  | cons p ps ih =>
    intro s e h
    simp only [execProgs] at h
    split at h
    · simp at h; subst h; rfl
    · simp only [List.mem_cons] at h
      rcases h with h | h
      · subst h; rfl
      · exact ih _ e h

theorem execTasks_not_driver (ts : List Task) : ∀ (s : Store), ∀ e ∈ (execTasks ts s).2.1, e.isDriver = false := by
  induction ts with
  | nil => intro s e h; simp [execTasks] at h
  | cons t ts ih =>
    intro s e h
    simp only [execTasks] at h
    split at h
    · rename_i s' evs err heq
      simp only [List.mem_cons] at h
      rcases h with h | h
      · subst h; rfl
      · have := execProgs_not_driver t.progs s e
        rw [heq] at this
        exact this h
    · rename_i s' evs heq
      simp only [List.mem_cons, List.mem_append] at h
      rcases h with (h | h) | h | h
      · subst h; rfl
      · have := execProgs_not_driver t.progs s e
        rw [heq] at this
        exact this h
      · subst h; rfl
      · exact ih _ e h

/-- The bodies start one after the other, each on the storage the previous one left: the `prog`
events are always a prefix of `entries`, and all of it (with final storage `runAll`) on success. -/
theorem execProgs_entries (ps : List Prog) : ∀ (s : Store),
    (execProgs ps s).2.1 <+: entries ps s ∧
    ((execProgs ps s).2.2 = none → (execProgs ps s).2.1 = entries ps s ∧ (execProgs ps s).1 = runAll ps s) := by
  induction ps with
  | nil => intro s; simp [execProgs, entries, runAll]
  | cons p ps ih =>
    intro s
    simp only [execProgs, entries, runAll]
    split
    · rename_i s' e heq
      refine ⟨?_, by simp⟩
      exact ⟨entries ps (p.run s).1, by simp⟩
    · rename_i s' heq
      have hs : (p.run s).1 = s' := by rw [heq]
      obtain ⟨h1, h2⟩ := ih s'
      rw [hs]
      refine ⟨?_, ?_⟩
      · obtain ⟨t, ht⟩ := h1
        exact ⟨t, by simp [ht]⟩
      · intro h
        obtain ⟨h3, h4⟩ := h2 h
        exact ⟨by simp [h3], h4⟩

theorem entries_isProg (ps : List Prog) : ∀ (s : Store), ∀ e ∈ entries ps s, e.isProg = true := by
  induction ps with
  | nil => intro s e h; simp [entries] at h
  | cons p ps ih =>
    intro s e h
    simp only [entries, List.mem_cons] at h
    rcases h with h | h
    · subst h; rfl
    · exact ih _ e h

theorem filter_isProg_entries (ps : List Prog) (s : Store) : (entries ps s).filter Ev.isProg = entries ps s :=
  List.filter_eq_self.2 (entries_isProg ps s)

theorem filter_isProg_execProgs (ps : List Prog) (s : Store) :
    (execProgs ps s).2.1.filter Ev.isProg = (execProgs ps s).2.1 := by
  apply List.filter_eq_self.2
  intro e he
  exact entries_isProg ps s e ((execProgs_entries ps s).1.subset he)

theorem entries_append (ps qs : List Prog) : ∀ (s : Store),
    entries (ps ++ qs) s = entries ps s ++ entries qs (runAll ps s) := by
  induction ps with
  | nil => intro s; simp [entries, runAll]
  | cons p ps ih => intro s; simp [entries, runAll, ih]

theorem runAll_append (ps qs : List Prog) : ∀ (s : Store), runAll (ps ++ qs) s = runAll qs (runAll ps s) := by
  induction ps with
  | nil => intro s; simp [runAll]
  | cons p ps ih => intro s; simp [runAll, ih]

/-- The same for the ready tasks: the `prog` events of the task phase are a prefix of the `entries`
of all their programs in order; all of it on success. -/
theorem execTasks_entries (ts : List Task) : ∀ (s : Store),
    (execTasks ts s).2.1.filter Ev.isProg <+: entries (allProgs ts) s ∧
    ((execTasks ts s).2.2 = none →
      (execTasks ts s).2.1.filter Ev.isProg = entries (allProgs ts) s ∧ (execTasks ts s).1 = runAll (allProgs ts) s) := by
  induction ts with
  | nil => intro s; simp [execTasks, entries, runAll, allProgs]
  | cons t ts ih =>
    intro s
    have hall : allProgs (t :: ts) = t.progs ++ allProgs ts := by simp [allProgs]
    rw [hall, entries_append, runAll_append]
    obtain ⟨p1, p2⟩ := execProgs_entries t.progs s
    have pf := filter_isProg_execProgs t.progs s
    simp only [execTasks]
    split
    · rename_i s' evs e heq
      rw [heq] at p1 pf
      simp only at p1 pf
      refine ⟨?_, by simp⟩
      simp only [List.filter_cons, Ev.isProg, Bool.false_eq_true, if_false, pf]
      obtain ⟨t1, ht1⟩ := p1
      exact ⟨t1 ++ entries (allProgs ts) (runAll t.progs s), by rw [← ht1]; simp⟩
    · rename_i s' evs heq
      rw [heq] at p2 pf
      simp only at p2 pf
      obtain ⟨h3, h4⟩ := p2 trivial
      obtain ⟨q1, q2⟩ := ih s'
      subst h4
      subst h3
      simp only [List.filter_cons, List.filter_append, Ev.isProg, Bool.false_eq_true, if_false,
        filter_isProg_entries]
      refine ⟨?_, ?_⟩
      · obtain ⟨t1, ht1⟩ := q1
        exact ⟨t1, by rw [← ht1]; simp⟩
      · intro h
        obtain ⟨h5, h6⟩ := q2 h
        exact ⟨by rw [h5], h6⟩

/-- Bodies that all preserve variable `x` all start on a storage with the initial value of `x`. -/
theorem entries_preserved (x : Nat) (ps : List Prog) (hp : ∀ p ∈ ps, ∀ s, (p.run s).1 x = s x) :
    ∀ (s : Store), ∀ e ∈ entries ps s, ∀ p entry, e = .prog p entry → entry x = s x := by
  induction ps with
  | nil => intro s e h; simp [entries] at h
  | cons q ps ih =>
    intro s e h p entry he
    simp only [entries, List.mem_cons] at h
    rcases h with h | h
    · subst h
      injection he with _ h2
      rw [← h2]
    · rw [ih (fun p' hp' => hp p' (List.mem_cons_of_mem _ hp')) _ e h p entry he]
      exact hp q (by simp) s

/-! ### `read_cycle_inputs` / `write_cycle_outputs` -/

theorem readCycleInputs_evs (bs : List Binding) (io : Io) (s : Store) (drv : List DrvIn) (dbg : Dbg) :
    (readCycleInputs bs io s drv dbg).evs = (readPhase drv 0 io.inputs).2.1 := by
  unfold readCycleInputs
  repeat' split
  all_goals simp_all

theorem readCycleInputs_ok (bs : List Binding) (io : Io) (s : Store) (drv : List DrvIn) (dbg : Dbg)
    (h : (readCycleInputs bs io s drv dbg).err = none) : (readPhase drv 0 io.inputs).2.2 = none := by
  unfold readCycleInputs at h
  repeat' split at h
  all_goals simp_all

/-- On success the latched store is `latch` of the image the input phase produced. -/
theorem readCycleInputs_store (bs : List Binding) (io : Io) (s : Store) (drv : List DrvIn) (dbg : Dbg)
    (h : (readCycleInputs bs io s drv dbg).err = none) :
    latch (readCycleInputs bs io s drv dbg).io bs s = ((readCycleInputs bs io s drv dbg).store, none) := by
  unfold readCycleInputs at h ⊢
  repeat' split at h
  all_goals simp_all

theorem writeCycleOutputs_ok (bs : List Binding) (io : Io) (s : Store) (drv : List DrvIn) (dbg : Dbg)
    (h : (writeCycleOutputs bs io s drv dbg).err = none) :
    (writePhase drv 0 (writeCycleOutputs bs io s drv dbg).io.outputs).2 = none ∧
    (writeCycleOutputs bs io s drv dbg).evs = (writePhase drv 0 (writeCycleOutputs bs io s drv dbg).io.outputs).1 ∧
    ∃ io4, collect s bs io = (io4, none) ∧ applyWrites dbg.forced io4 = ((writeCycleOutputs bs io s drv dbg).io, none) := by
  unfold writeCycleOutputs at h ⊢
  repeat' split at h
  all_goals simp_all

theorem writeCycleOutputs_err (bs : List Binding) (io : Io) (s : Store) (drv : List DrvIn) (dbg : Dbg)
    (ph : Phase) (e : Err) (h : (writeCycleOutputs bs io s drv dbg).err = some (ph, e)) :
    (ph ≠ .driverWrite → (writeCycleOutputs bs io s drv dbg).evs = []) ∧
    (ph = .driverWrite →
      (writeCycleOutputs bs io s drv dbg).evs = (writePhase drv 0 (writeCycleOutputs bs io s drv dbg).io.outputs).1 ∧
      (writePhase drv 0 (writeCycleOutputs bs io s drv dbg).io.outputs).2 = some e) ∧
    (ph = .collect ∨ ph = .forcedOut ∨ ph = .driverWrite) := by
  unfold writeCycleOutputs at h ⊢
  repeat' split at h
  all_goals simp_all
  all_goals (obtain ⟨h1, h2⟩ := h; subst h1; simp_all)


/-! ### the program phase -/

theorem programPhase_not_driver (tasks : List Task) (bg : List Prog) (s : Store) :
    ∀ e ∈ (programPhase tasks bg s).evs, e.isDriver = false := by
  intro e he
  have h1 := execTasks_not_driver tasks s e
  unfold programPhase at he
  cases ht : execTasks tasks s with
  | mk s2 r2 =>
    obtain ⟨ev2, e2⟩ := r2
    rw [ht] at h1 he
    cases e2 with
    | some err => exact h1 he
    | none =>
      have h2 := execProgs_not_driver bg s2 e
      cases hb : execProgs bg s2 with
      | mk s3 r3 =>
        obtain ⟨ev3, e3⟩ := r3
        rw [hb] at h2
        simp only [hb] at he
        cases e3 <;> simp only [List.mem_append] at he <;> rcases he with he | he <;> first | exact h1 he | exact h2 he

/-- The `prog` events of the program phase are a prefix of `entries` of all programs (ready tasks'
programs, then background programs); on success they are all of it and the final storage is `runAll`;
a failing phase names `tasks` or `background`. -/
theorem programPhase_entries (tasks : List Task) (bg : List Prog) (s : Store) :
    (programPhase tasks bg s).evs.filter Ev.isProg <+: entries (allProgs tasks ++ bg) s ∧
    ((programPhase tasks bg s).err = none →
      (programPhase tasks bg s).evs.filter Ev.isProg = entries (allProgs tasks ++ bg) s ∧
      (programPhase tasks bg s).store = runAll (allProgs tasks ++ bg) s) ∧
    (∀ ph e, (programPhase tasks bg s).err = some (ph, e) → ph = .tasks ∨ ph = .background) := by
  have t1 := execTasks_entries tasks s
  unfold programPhase
  rw [entries_append, runAll_append]
  cases ht : execTasks tasks s with
  | mk s2 r2 =>
    obtain ⟨ev2, e2⟩ := r2
    rw [ht] at t1
    simp only at t1
    cases e2 with
    | some err =>
      refine ⟨t1.1.trans (List.prefix_append _ _), by simp, ?_⟩
      intro ph e h
      simp at h
      exact Or.inl h.1.symm
    | none =>
      obtain ⟨t2, t3⟩ := t1.2 rfl
      subst t3
      have b1 := execProgs_entries bg (runAll (allProgs tasks) s)
      have hb4 := filter_isProg_execProgs bg (runAll (allProgs tasks) s)
      dsimp only
      cases hb : execProgs bg (runAll (allProgs tasks) s) with
      | mk s3 r3 =>
        obtain ⟨ev3, e3⟩ := r3
        rw [hb] at b1 hb4
        simp only at b1 hb4
        have hpre : (ev2 ++ ev3).filter Ev.isProg <+:
            entries (allProgs tasks) s ++ entries bg (runAll (allProgs tasks) s) := by
          rw [List.filter_append, t2, hb4]
          exact (List.prefix_append_right_inj _).2 b1.1
        cases e3 with
        | some err =>
          refine ⟨hpre, by simp, ?_⟩
          intro ph e h
          simp at h
          exact Or.inr h.1.symm
        | none =>
          obtain ⟨b2, b3⟩ := b1.2 rfl
          refine ⟨hpre, fun _ => ⟨?_, b3⟩, by simp⟩
          rw [List.filter_append, t2, hb4, b2]

theorem writeCycleOutputs_not_prog (bs : List Binding) (io : Io) (s : Store) (drv : List DrvIn) (dbg : Dbg) :
    ∀ e ∈ (writeCycleOutputs bs io s drv dbg).evs, e.isWrite = true := by
  have hw : ∀ (drv : List DrvIn) (d : Nat) (out : List Nat), ∀ e ∈ (writePhase drv d out).1, e.isWrite = true := by
    intro drv
    induction drv with
    | nil => intro d out e h; simp [writePhase] at h
    | cons x xs ih =>
      intro d out e h
      simp only [writePhase] at h
      split at h
      · simp at h; subst h; rfl
      · simp only [List.mem_cons] at h
        rcases h with h | h
        · subst h; rfl
        · exact ih _ _ e h
  intro e he
  unfold writeCycleOutputs at he
  repeat' split at he
  all_goals first
    | (simp at he; done)
    | (rename_i heq; exact hw drv 0 _ e (by rw [heq]; exact he))


/-- Applying writes that do not clash with `a` leaves the value read at `a` unchanged. -/
theorem applyWrites_read_unchanged (a : Addr) (ha : a.valid = true) (ws : List (Addr × Value)) :
    ∀ (io : Io), (∀ w ∈ ws, w.1.noClash a = true) → read (applyWrites ws io).1 a = read io a := by
  have haf : a.flat = true := by simp [Addr.valid] at ha; exact ha.1
  induction ws with
  | nil => intro io _; rfl
  | cons w ws ih =>
    intro io h
    obtain ⟨a', v⟩ := w
    have hrest : ∀ w' ∈ ws, w'.1.noClash a = true := fun w' hw' => h w' (by simp [hw'])
    simp only [applyWrites]
    split
    · rfl
    · rename_i io1 hw
      rw [ih io1 hrest]
      have hb := h (a', v) (by simp)
      simp only [Addr.noClash, Bool.or_eq_true, decide_eq_true_eq, Bool.and_eq_true] at hb
      rcases hb with hb | hb
      · apply read_local _ _ _ haf
        intro j _
        rw [write_hier_area io io1 a' v hw hb]
      · exact write_disjoint_read io io1 a' a v hb.1 ha hb.2 hw

theorem writePhase_isWrite (drv : List DrvIn) : ∀ (d : Nat) (out : List Nat),
    ∀ e ∈ (writePhase drv d out).1, e.isWrite = true := by
  induction drv with
  | nil => intro d out e h; simp [writePhase] at h
  | cons x xs ih =>
    intro d out e h
    simp only [writePhase] at h
    split at h
    · simp at h; subst h; rfl
    · simp only [List.mem_cons] at h
      rcases h with h | h
      · subst h; rfl
      · exact ih _ _ e h


/-! ### partial access -/

theorem mask_lt (tw aw sh : Nat) (h : sh + aw ≤ tw) : (2 ^ aw - 1) <<< sh < 2 ^ tw := by
  apply Nat.lt_pow_two_of_testBit
  intro j hj
  simp only [Nat.testBit_shiftLeft, Nat.testBit_two_pow_sub_one]
  have : ¬ (j - sh < aw) := by omega
  simp [this]

/-- Bit `j` of `(w & !(mask << sh)) | (x << sh)` on a `tw`-bit word. -/
theorem partial_testBit (w x tw aw sh : Nat) (h : sh + aw ≤ tw) (hx : x < 2 ^ aw) (j : Nat) :
    ((w &&& (2 ^ tw - 1 - ((2 ^ aw - 1) <<< sh))) ||| (x <<< sh)).testBit j =
      if sh ≤ j ∧ j < sh + aw then x.testBit (j - sh) else (w.testBit j && decide (j < tw)) := by
  have hm := mask_lt tw aw sh h
  have e1 : 2 ^ tw - 1 - ((2 ^ aw - 1) <<< sh) = 2 ^ tw - ((2 ^ aw - 1) <<< sh + 1) := by omega
  rw [e1]
  simp only [Nat.testBit_or, Nat.testBit_and, Nat.testBit_two_pow_sub_succ hm, Nat.testBit_shiftLeft,
    Nat.testBit_two_pow_sub_one]
  by_cases h1 : sh ≤ j
  · by_cases h2 : j < sh + aw
    · have h3 : j - sh < aw := by omega
      simp [h1, h2, h3]
    · have h3 : ¬ (j - sh < aw) := by omega
      have h4 : x.testBit (j - sh) = false := by
        apply Nat.testBit_lt_two_pow
        exact Nat.lt_of_lt_of_le hx (Nat.pow_le_pow_right (by omega) (by omega))
      simp [h1, h2, h3, h4]
  · have h2 : ¬ (j ≥ sh) := by omega
    simp [h1]

theorem bitWidth_cases (t : Value) (tw : Nat) (h : t.bitWidth = some tw) :
    (tw = 8 ∨ tw = 16 ∨ tw = 32 ∨ tw = 64) ∧ t = mkBits tw t.bitsVal := by
  cases t <;> simp [Value.bitWidth] at h <;> subst h <;> simp [mkBits, Value.bitsVal]

theorem mkBits_props (tw n : Nat) (h : tw = 8 ∨ tw = 16 ∨ tw = 32 ∨ tw = 64) :
    (mkBits tw n).bitWidth = some tw ∧ (mkBits tw n).bitsVal = n ∧ ((mkBits tw n).WF ↔ n < 2 ^ tw) := by
  rcases h with h | h | h | h <;> subst h <;> simp [mkBits, Value.bitWidth, Value.bitsVal, Value.WF]

theorem partPayload_props (acc : PAccess) (v : Value) (x : Nat) (h : partPayload acc v = some x) (hv : v.WF) :
    x < 2 ^ acc.width ∧ mkPart acc x = v := by
  cases acc <;> cases v <;> simp [partPayload] at h <;> subst h <;>
    simp_all [PAccess.width, mkPart, Value.WF]
  rename_i b
  cases b <;> simp

/-- The index check of the partial-access functions means the part lies inside the target. -/
theorem part_inside (tw aw i : Nat) (h1 : ¬ aw ≥ tw) (h2 : ¬ i > tw / aw - 1) (haw : 0 < aw) :
    i * aw + aw ≤ tw := by
  have h3 : tw / aw ≥ 1 := (Nat.one_le_div_iff haw).2 (by omega)
  have h4 : (i + 1) * aw ≤ tw / aw * aw := Nat.mul_le_mul_right aw (by omega)
  have h5 := Nat.div_mul_le_self tw aw
  rw [Nat.add_mul] at h4
  omega

theorem width_pos (acc : PAccess) : 0 < acc.width := by cases acc <;> simp [PAccess.width]


/-! ### `execute_cycle` -/

/-- Unfolding of a successful cycle. -/
theorem cycle_ok (bs : List Binding) (rt : Rt) (drv : List DrvIn) (dbg : Dbg) (tasks : List Task)
    (bg : List Prog) (h : (cycle bs rt drv dbg tasks bg).err = none) :
    rt.faulted = false ∧ (readCycleInputs bs rt.io rt.store drv dbg).err = none ∧
    (programPhase tasks bg (readCycleInputs bs rt.io rt.store drv dbg).store).err = none ∧
    (writeCycleOutputs bs (readCycleInputs bs rt.io rt.store drv dbg).io
      (programPhase tasks bg (readCycleInputs bs rt.io rt.store drv dbg).store).store drv dbg).err = none ∧
    cycle bs rt drv dbg tasks bg =
      { rt := { io := (writeCycleOutputs bs (readCycleInputs bs rt.io rt.store drv dbg).io
                  (programPhase tasks bg (readCycleInputs bs rt.io rt.store drv dbg).store).store drv dbg).io,
                store := (programPhase tasks bg (readCycleInputs bs rt.io rt.store drv dbg).store).store,
                faulted := false },
        log := .cycleStart :: (readCycleInputs bs rt.io rt.store drv dbg).evs ++
          (programPhase tasks bg (readCycleInputs bs rt.io rt.store drv dbg).store).evs ++
          (writeCycleOutputs bs (readCycleInputs bs rt.io rt.store drv dbg).io
            (programPhase tasks bg (readCycleInputs bs rt.io rt.store drv dbg).store).store drv dbg).evs ++ [.cycleEnd],
        err := none } := by
  unfold cycle at h ⊢
  by_cases hf : rt.faulted = true
  · simp [hf] at h
  · simp only [hf, if_false, Bool.false_eq_true] at h ⊢
    cases hie : (readCycleInputs bs rt.io rt.store drv dbg).err with
    | some pe => simp [hie, failWith] at h
    | none =>
      simp only [hie] at h ⊢
      cases hpe : (programPhase tasks bg (readCycleInputs bs rt.io rt.store drv dbg).store).err with
      | some pe => simp [hpe, failWith] at h
      | none =>
        simp only [hpe] at h ⊢
        cases hoe : (writeCycleOutputs bs (readCycleInputs bs rt.io rt.store drv dbg).io
            (programPhase tasks bg (readCycleInputs bs rt.io rt.store drv dbg).store).store drv dbg).err with
        | some pe => simp [hoe, failWith] at h
        | none => exact ⟨by simp, trivial, trivial, rfl, rfl⟩


/-! ### `AT` declarations: layout of the leaves -/

theorem array_leaves (t : Ty) : ∀ (len off : Nat),
    (List.range len).map (fun k => (off + k * t.bytes, t)) = fieldOffsets (List.replicate len t) off := by
  intro len
  induction len with
  | zero => intro off; rfl
  | succ n ih =>
    intro off
    rw [List.range_succ_eq_map, List.map_cons, List.map_map, List.replicate_succ, fieldOffsets]
    simp only [Nat.zero_mul, Nat.add_zero, List.cons.injEq, true_and]
    rw [← ih (off + t.bytes)]
    apply List.map_congr_left
    intro k _
    simp only [Function.comp, Nat.succ_eq_add_one, Nat.add_mul, Nat.one_mul]
    congr 1
    omega

/-- Every covered shape lays its leaves out one after the other. -/
theorem leaves_eq (sh : Shape) : sh.leaves = fieldOffsets sh.tys 0 := by
  cases sh with
  | elem t => rfl
  | array len t =>
    have := array_leaves t len 0
    simp only [Nat.zero_add] at this
    exact this
  | struct fs => rfl

theorem ioSize_of_expected (t : Ty) (h : (expectedSize t).isSome = true) :
    ∃ sz, t.ioSize? = some sz ∧ expectedSize t = some sz ∧ sz.bytes = t.bytes := by
  cases t <;> simp [expectedSize] at h <;> simp [Ty.ioSize?, expectedSize, Size.bytes, Ty.bytes]
  rename_i k
  cases k <;> rfl

theorem offsetAddress_props (base : Addr) (off : Nat) (sz : Size) (hbit : base.bit ≤ 7) :
    (offsetAddress base off sz).valid = true ∧ (offsetAddress base off sz).size = sz ∧
    (offsetAddress base off sz).area = base.area ∧ (offsetAddress base off sz).byte = base.byte + off := by
  unfold offsetAddress
  split
  · rename_i h
    subst h
    refine ⟨?_, rfl, rfl, ?_⟩
    · simp only [Addr.valid, Addr.flat, List.length_cons, List.length_nil]
      simp
      omega
    · simp only
      omega
  · rename_i h
    refine ⟨?_, rfl, rfl, rfl⟩
    cases sz <;> simp_all [Addr.valid, Addr.flat]

/-- Bindings of consecutively laid out leaves: well typed, in the base's area, starting at or after
`base.byte + off`, pairwise disjoint, targets `first + k, first + k + 1, …`. -/
theorem expandLeaves_props (first : Nat) (base : Addr) (hbit : base.bit ≤ 7) (tys : List Ty) :
    ∀ (off k : Nat) (bs : List Binding), (∀ t ∈ tys, (expectedSize t).isSome = true) →
    expandLeaves first base (fieldOffsets tys off) k = some bs →
    (∀ b ∈ bs, b.wellTyped = true ∧ b.addr.area = base.area ∧ base.byte + off ≤ b.addr.byte) ∧
    bs.Pairwise (fun b b' => b.addr.disjoint b'.addr = true) ∧
    bs.map (·.target) = (List.range tys.length).map (fun j => Target.ref (first + (k + j))) := by
  induction tys with
  | nil =>
    intro off k bs _ h
    simp only [fieldOffsets, expandLeaves, Option.some.injEq] at h
    subst h
    simp
  | cons t tys ih =>
    intro off k bs h17 h
    obtain ⟨sz, hsz, hexp, hbytes⟩ := ioSize_of_expected t (h17 t (by simp))
    simp only [fieldOffsets, expandLeaves, hsz] at h
    cases hrest : expandLeaves first base (fieldOffsets tys (off + t.bytes)) (k + 1) with
    | none => simp [hrest] at h
    | some bs' =>
      simp only [hrest, Option.some.injEq] at h
      subst h
      obtain ⟨h1, h2, h3⟩ := ih (off + t.bytes) (k + 1) bs' (fun t' ht' => h17 t' (by simp [ht'])) hrest
      obtain ⟨p1, p2, p3, p4⟩ := offsetAddress_props base off sz hbit
      refine ⟨?_, ?_, ?_⟩
      · intro b hb
        simp only [List.mem_cons] at hb
        rcases hb with hb | hb
        · subst hb
          refine ⟨?_, p3, by rw [p4]; exact Nat.le_refl _⟩
          simp [Binding.wellTyped, hexp, p2, p1]
        · obtain ⟨q1, q2, q3⟩ := h1 b hb
          exact ⟨q1, q2, by omega⟩
      · rw [List.pairwise_cons]
        refine ⟨?_, h2⟩
        intro b' hb'
        obtain ⟨_, _, q3⟩ := h1 b' hb'
        simp only [Addr.disjoint, p2, p4, Bool.or_eq_true, decide_eq_true_eq]
        left; left; right
        omega
      · rw [List.map_cons, h3, List.length_cons, List.range_succ_eq_map, List.map_cons, List.map_map]
        simp only [Nat.add_zero, List.cons.injEq, true_and]
        apply List.map_congr_left
        intro j _
        simp only [Function.comp, Nat.succ_eq_add_one]
        congr 2
        omega

/-- `io_size_for_type` (compiler) and `expected_size_for_type` (coercions) agree on every type. -/
theorem ioSize_eq_expected (t : Ty) : t.ioSize? = expectedSize t := by cases t <;> rfl

/-- Every leaf type of an accepted `AT` declaration is a type the coercions know. -/
theorem expandLeaves_some_expected (first : Nat) (base : Addr) (tys : List Ty) :
    ∀ (off k : Nat) (bs : List Binding), expandLeaves first base (fieldOffsets tys off) k = some bs →
    ∀ t ∈ tys, (expectedSize t).isSome = true := by
  induction tys with
  | nil => intro _ _ _ _ t ht; cases ht
  | cons t tys ih =>
    intro off k bs h t' ht'
    simp only [fieldOffsets, expandLeaves] at h
    cases hsz : t.ioSize? with
    | none => simp [hsz] at h
    | some sz =>
      cases hrest : expandLeaves first base (fieldOffsets tys (off + t.bytes)) (k + 1) with
      | none => simp [hsz, hrest] at h
      | some bs' =>
        simp only [List.mem_cons] at ht'
        rcases ht' with rfl | ht'
        · rw [← ioSize_eq_expected, hsz]; rfl
        · exact ih _ _ _ hrest t' ht'

/-- A value that is not an enum stands for itself. -/
theorem plain_publish (v : Value) (t : Ty) (sz : Size) (hty : (v.plain t).hasTy t = true) (hwf : (v.plain t).WF) :
    coerceToIo v t sz = coerceToIo (v.plain t) t sz := by
  cases v with
  | enum n => exact enum_publish n t sz hty hwf
  | _ => rfl

/-- `coerce_from_io` never yields an enum value. -/
theorem coerceFromIo_not_enum (w : Value) (t : Ty) (v : Value) (h : coerceFromIo w t = .ok v) (n : Int) :
    v ≠ .enum n := by
  cases t <;> cases w <;> simp [coerceFromIo] at h <;> (try split at h) <;> simp_all <;>
    (subst_vars; simp)

end TrustVerif.C07
