import TrustVerif.Model.C07

/-!
Helper lemmas for C07 (core Lean only).
-/
namespace TrustVerif.C07

/-! ### `getB`, `set`, `ensureLen` -/

theorem getB_set_eq (img : List Nat) (i b : Nat) (h : i < img.length) : getB (img.set i b) i = b := by
  simp [getB, List.getD, h]

theorem getB_set_ne (img : List Nat) (i j b : Nat) (h : j ≠ i) : getB (img.set i b) j = getB img j := by
  simp [getB, List.getD, List.getElem?_set_ne (Ne.symm h)]

theorem getB_ensureLen (img : List Nat) (k j : Nat) : getB (ensureLen img k) j = getB img j := by
  unfold ensureLen getB
  split
  · by_cases hj : j < img.length
    · simp [List.getD, List.getElem?_append_left hj]
    · have hj' : img.length ≤ j := Nat.le_of_not_lt hj
      simp only [List.getD, List.getElem?_append_right hj']
      rw [List.getElem?_eq_none_iff.2 hj']
      cases h : (List.replicate (k + 1 - img.length) 0)[j - img.length]? with
      | none => rfl
      | some x =>
        have := List.mem_of_getElem? h
        simp at this
        simp [this.2]
  · rfl

theorem length_ensureLen (img : List Nat) (k : Nat) :
    (ensureLen img k).length = max img.length (k + 1) := by
  unfold ensureLen
  split
  · simp; omega
  · omega

theorem lt_length_ensureLen (img : List Nat) (k : Nat) : k < (ensureLen img k).length := by
  rw [length_ensureLen]; omega

/-! ### `writeSpan`, `readSpan`, `putBytes` -/

theorem length_writeSpan (bs : List Nat) : ∀ (img : List Nat) (off : Nat),
    (writeSpan img off bs).length = img.length := by
  induction bs with
  | nil => intro img off; rfl
  | cons b bs ih => intro img off; simp [writeSpan, ih]

theorem getB_writeSpan_outside (bs : List Nat) : ∀ (img : List Nat) (off j : Nat),
    (j < off ∨ off + bs.length ≤ j) → getB (writeSpan img off bs) j = getB img j := by
  induction bs with
  | nil => intro img off j _; rfl
  | cons b bs ih =>
    intro img off j h
    simp only [writeSpan]
    rw [ih _ _ _ (by simp only [List.length_cons] at h; omega)]
    exact getB_set_ne _ _ _ _ (by simp only [List.length_cons] at h; omega)

theorem getB_writeSpan_inside (bs : List Nat) : ∀ (img : List Nat) (off i : Nat),
    off + bs.length ≤ img.length → i < bs.length →
    getB (writeSpan img off bs) (off + i) = bs.getD i 0 := by
  induction bs with
  | nil => intro img off i _ hi; simp at hi
  | cons b bs ih =>
    intro img off i hlen hi
    simp only [writeSpan]
    cases i with
    | zero =>
      rw [getB_writeSpan_outside _ _ _ _ (Or.inl (by omega))]
      simp only [Nat.add_zero]
      rw [getB_set_eq _ _ _ (by simp only [List.length_cons] at hlen; omega)]
      rfl
    | succ i =>
      have := ih (img.set off b) (off + 1) i (by simp only [List.length_cons] at hlen; simp; omega)
        (by simp only [List.length_cons] at hi; omega)
      rw [show off + (i + 1) = off + 1 + i by omega, this]
      rfl

theorem length_readSpan (img : List Nat) : ∀ (k off : Nat), (readSpan img off k).length = k := by
  intro k
  induction k with
  | zero => intro off; rfl
  | succ k ih => intro off; simp [readSpan, ih]

theorem readSpan_getD (img : List Nat) : ∀ (k off i : Nat), i < k →
    (readSpan img off k).getD i 0 = getB img (off + i) := by
  intro k
  induction k with
  | zero => intro off i h; omega
  | succ k ih =>
    intro off i h
    cases i with
    | zero => simp [readSpan]
    | succ i =>
      simp only [readSpan, List.getD_cons_succ]
      rw [ih (off + 1) i (by omega)]
      congr 1; omega

/-- Two images that agree (as `getB`) on a span give the same `readSpan`. -/
theorem readSpan_congr (img img' : List Nat) : ∀ (k off : Nat),
    (∀ j, off ≤ j → j < off + k → getB img' j = getB img j) →
    readSpan img' off k = readSpan img off k := by
  intro k
  induction k with
  | zero => intro off _; rfl
  | succ k ih =>
    intro off h
    simp only [readSpan]
    rw [h off (Nat.le_refl _) (by omega), ih (off + 1) (fun j h1 h2 => h j (by omega) (by omega))]

theorem readSpan_writeSpan (bs : List Nat) : ∀ (img : List Nat) (off : Nat),
    off + bs.length ≤ img.length → readSpan (writeSpan img off bs) off bs.length = bs := by
  intro img off h
  apply List.ext_getElem
  · simp [length_readSpan]
  · intro i h1 h2
    have h3 : i < bs.length := h2
    have := readSpan_getD (writeSpan img off bs) bs.length off i h3
    rw [getB_writeSpan_inside bs img off i h h3] at this
    simp only [List.getD_eq_getElem?_getD, List.getElem?_eq_getElem h1, List.getElem?_eq_getElem h2,
      Option.getD_some] at this
    exact this

theorem length_putBytes (img : List Nat) (off : Nat) (bs : List Nat) (hbs : bs ≠ []) :
    (putBytes img off bs).length = max img.length (off + bs.length) := by
  unfold putBytes
  rw [length_writeSpan, length_ensureLen]
  have : 0 < bs.length := List.length_pos_iff.2 hbs
  omega

theorem getB_putBytes_outside (img : List Nat) (off : Nat) (bs : List Nat) (j : Nat)
    (h : j < off ∨ off + bs.length ≤ j) : getB (putBytes img off bs) j = getB img j := by
  unfold putBytes
  rw [getB_writeSpan_outside _ _ _ _ h, getB_ensureLen]

theorem readSpan_putBytes (img : List Nat) (off : Nat) (bs : List Nat) (hbs : bs ≠ []) :
    readSpan (putBytes img off bs) off bs.length = bs := by
  unfold putBytes
  apply readSpan_writeSpan
  rw [length_ensureLen]
  have : 0 < bs.length := List.length_pos_iff.2 hbs
  omega

theorem getB_putBytes_inside (img : List Nat) (off : Nat) (bs : List Nat) (i : Nat) (hbs : bs ≠ [])
    (hi : i < bs.length) : getB (putBytes img off bs) (off + i) = bs.getD i 0 := by
  unfold putBytes
  apply getB_writeSpan_inside _ _ _ _ _ hi
  rw [length_ensureLen]
  have : 0 < bs.length := List.length_pos_iff.2 hbs
  omega

/-! ### little-endian codec -/

theorem length_toLe : ∀ (k v : Nat), (toLe k v).length = k := by
  intro k
  induction k with
  | zero => intro v; rfl
  | succ k ih => intro v; simp [toLe, ih]

theorem toLe_ne_nil (k v : Nat) (h : 0 < k) : toLe k v ≠ [] := by
  intro hn
  have := length_toLe k v
  rw [hn] at this
  simp at this
  omega

theorem toLe_lt : ∀ (k v : Nat), ∀ b ∈ toLe k v, b < 256 := by
  intro k
  induction k with
  | zero => intro v b h; simp [toLe] at h
  | succ k ih =>
    intro v b h
    simp only [toLe, List.mem_cons] at h
    rcases h with h | h
    · omega
    · exact ih _ _ h

theorem fromLe_toLe : ∀ (k v : Nat), fromLe (toLe k v) = v % 256 ^ k := by
  intro k
  induction k with
  | zero => intro v; simp [toLe, fromLe, Nat.mod_one]
  | succ k ih =>
    intro v
    simp only [toLe, fromLe, ih]
    rw [Nat.pow_succ, Nat.mul_comm (256 ^ k) 256, Nat.mod_mul]

theorem fromLe_lt : ∀ (bs : List Nat), (∀ b ∈ bs, b < 256) → fromLe bs < 256 ^ bs.length := by
  intro bs
  induction bs with
  | nil => intro _; simp [fromLe]
  | cons b bs ih =>
    intro h
    have hb : b < 256 := h b (by simp)
    have := ih (fun x hx => h x (by simp [hx]))
    simp only [fromLe, List.length_cons, Nat.pow_succ]
    omega

theorem toLe_fromLe : ∀ (bs : List Nat), (∀ b ∈ bs, b < 256) → toLe bs.length (fromLe bs) = bs := by
  intro bs
  induction bs with
  | nil => intro _; rfl
  | cons b bs ih =>
    intro h
    have hb : b < 256 := h b (by simp)
    have := ih (fun x hx => h x (by simp [hx]))
    simp only [fromLe, List.length_cons, toLe]
    rw [show (b + 256 * fromLe bs) % 256 = b by omega, show (b + 256 * fromLe bs) / 256 = fromLe bs by omega,
      this]

theorem toLe_getD : ∀ (k v i : Nat), i < k → (toLe k v).getD i 0 = v / 256 ^ i % 256 := by
  intro k
  induction k with
  | zero => intro v i h; omega
  | succ k ih =>
    intro v i h
    cases i with
    | zero => simp [toLe]
    | succ i =>
      simp only [toLe, List.getD_cons_succ]
      rw [ih _ _ (by omega), Nat.div_div_eq_div_mul, Nat.pow_succ, Nat.mul_comm]

theorem readSpan_lt (img : List Nat) (himg : ∀ b ∈ img, b < 256) : ∀ (k off : Nat),
    ∀ b ∈ readSpan img off k, b < 256 := by
  intro k
  induction k with
  | zero => intro off b h; simp [readSpan] at h
  | succ k ih =>
    intro off b h
    simp only [readSpan, List.mem_cons] at h
    rcases h with h | h
    · subst h
      unfold getB
      cases hg : img[off]? with
      | none => simp [List.getD, hg]
      | some x => simp [List.getD, hg]; exact himg x (List.mem_of_getElem? hg)
    · exact ih _ _ h


/-! ### bit operations on a byte (complete finite tables) -/

theorem bit_table1 : ∀ b < 256, ∀ n < 8,
    bitOf (setBit b n) n = true ∧ bitOf (clearBit b n) n = false ∧ setBit b n < 256 ∧ clearBit b n < 256 ∧
    bitOf b n = (b / 2 ^ n % 2 == 1) := by
  decide +kernel

theorem bit_table2 : ∀ b < 256, ∀ n < 8, ∀ m < 8,
    (m = n ∨ (bitOf (setBit b n) m = bitOf b m ∧ bitOf (clearBit b n) m = bitOf b m)) := by
  decide +kernel

/-! ### images of an `Io` -/

@[simp] theorem area_setArea_same (io : Io) (a : Area) (img : List Nat) : (io.setArea a img).area a = img := by
  cases a <;> rfl

theorem area_setArea_ne (io : Io) (a ar : Area) (img : List Nat) (h : ar ≠ a) :
    (io.setArea a img).area ar = io.area ar := by
  cases a <;> cases ar <;> first | rfl | exact absurd rfl h

@[simp] theorem hier_setArea (io : Io) (a : Area) (img : List Nat) : (io.setArea a img).hier = io.hier := by
  cases a <;> rfl

theorem getB_lt (img : List Nat) (h : ∀ b ∈ img, b < 256) (j : Nat) : getB img j < 256 := by
  unfold getB
  cases hg : img[j]? with
  | none => simp [List.getD, hg]
  | some x => simp [List.getD, hg]; exact h x (List.mem_of_getElem? hg)

theorem mem_set_lt (img : List Nat) (i b : Nat) (h : ∀ x ∈ img, x < 256) (hb : b < 256) :
    ∀ x ∈ img.set i b, x < 256 := by
  intro x hx
  rcases List.mem_or_eq_of_mem_set hx with h1 | h1
  · exact h x h1
  · omega

theorem ensureLen_lt (img : List Nat) (k : Nat) (h : ∀ x ∈ img, x < 256) : ∀ x ∈ ensureLen img k, x < 256 := by
  intro x hx
  unfold ensureLen at hx
  split at hx
  · simp only [List.mem_append, List.mem_replicate] at hx
    rcases hx with h1 | h1
    · exact h x h1
    · omega
  · exact h x hx

theorem writeSpan_lt (bs : List Nat) : ∀ (img : List Nat) (off : Nat), (∀ x ∈ img, x < 256) →
    (∀ x ∈ bs, x < 256) → ∀ x ∈ writeSpan img off bs, x < 256 := by
  induction bs with
  | nil => intro img off h _; exact h
  | cons b bs ih =>
    intro img off h hb
    simp only [writeSpan]
    exact ih _ _ (mem_set_lt _ _ _ h (hb b (by simp))) (fun x hx => hb x (by simp [hx]))

theorem putBytes_lt (img : List Nat) (off : Nat) (bs : List Nat) (h : ∀ x ∈ img, x < 256)
    (hb : ∀ x ∈ bs, x < 256) : ∀ x ∈ putBytes img off bs, x < 256 :=
  writeSpan_lt _ _ _ (ensureLen_lt _ _ h) hb

/-! ### `read` / `write` on flat addresses -/

theorem flat_iff (a : Addr) : a.flat = true ↔ a.wildcard = false ∧ a.path.length ≤ 1 := by
  simp [Addr.flat]

/-- A flat non-bit write stores `storedBytes` with `putBytes`, or is a type mismatch. -/
theorem write_nonbit (io : Io) (a : Addr) (v : Value) (hf : a.flat = true) (hs : a.size ≠ .bit) :
    write io a v =
      match storedBytes a.size v with
      | some bs => .ok (io.setArea a.area (putBytes (io.area a.area) a.byte bs))
      | none => .error .typeMismatch := by
  obtain ⟨hw, hp⟩ := (flat_iff a).1 hf
  have hp' : ¬ a.path.length > 1 := by omega
  unfold write
  simp only [hw, hp', if_false, Bool.false_eq_true]
  cases hsz : a.size <;> cases v <;> simp_all [storedBytes]

/-- A flat bit write sets or clears one bit of one byte, or is a type mismatch / the shift panic. -/
theorem write_bit (io : Io) (a : Addr) (v : Value) (hf : a.flat = true) (hs : a.size = .bit) :
    write io a v =
      match v with
      | .bool flag =>
        if a.bit > 7 then .error .shiftPanic else
        .ok (io.setArea a.area ((ensureLen (io.area a.area) a.byte).set a.byte
          (if flag then setBit (getB (ensureLen (io.area a.area) a.byte) a.byte) a.bit
           else clearBit (getB (ensureLen (io.area a.area) a.byte) a.byte) a.bit)))
      | _ => .error .typeMismatch := by
  obtain ⟨hw, hp⟩ := (flat_iff a).1 hf
  have hp' : ¬ a.path.length > 1 := by omega
  unfold write
  simp only [hw, hp', if_false, Bool.false_eq_true, hs]
  cases v <;> simp

/-- A flat non-bit read decodes the span little-endian. -/
theorem read_nonbit (io : Io) (a : Addr) (hf : a.flat = true) (hs : a.size ≠ .bit) :
    read io a = .ok (a.size.mk (fromLe (readSpan (io.area a.area) a.byte a.size.bytes))) := by
  obtain ⟨hw, hp⟩ := (flat_iff a).1 hf
  have hp' : ¬ a.path.length > 1 := by omega
  unfold read
  simp only [hw, hp', if_false, Bool.false_eq_true]
  cases hsz : a.size <;> simp_all [Size.mk, Size.bytes, readSpan, fromLe]

/-- A flat bit read tests one bit of one byte. -/
theorem read_bit (io : Io) (a : Addr) (hf : a.flat = true) (hs : a.size = .bit) :
    read io a = if a.bit > 7 then .error .shiftPanic else .ok (.bool (bitOf (getB (io.area a.area) a.byte) a.bit)) := by
  obtain ⟨hw, hp⟩ := (flat_iff a).1 hf
  have hp' : ¬ a.path.length > 1 := by omega
  unfold read
  simp only [hw, hp', if_false, Bool.false_eq_true, hs]

theorem storedBytes_length (sz : Size) (v : Value) (bs : List Nat) (h : storedBytes sz v = some bs) :
    bs.length = sz.bytes ∧ bs ≠ [] := by
  cases sz <;> cases v <;> simp [storedBytes] at h <;> subst h <;> simp [Size.bytes, length_toLe] <;>
    exact toLe_ne_nil _ _ (by omega)

theorem storedBytes_lt (sz : Size) (v : Value) (bs : List Nat) (h : storedBytes sz v = some bs)
    (hv : v.WF) : ∀ b ∈ bs, b < 256 := by
  cases sz <;> cases v <;> simp [storedBytes] at h <;> subst h
  · simpa [Value.WF] using hv
  all_goals exact toLe_lt _ _

theorem storedBytes_fromLe (sz : Size) (v : Value) (bs : List Nat) (h : storedBytes sz v = some bs)
    (hv : v.WF) : sz.mk (fromLe bs) = v := by
  cases sz <;> cases v <;> simp [storedBytes] at h <;> subst h <;>
    simp only [Value.WF] at hv <;> simp only [Size.mk, fromLe_toLe, fromLe]
  · simp
  all_goals (congr 1; omega)

end TrustVerif.C07
