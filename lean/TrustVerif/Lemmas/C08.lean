import TrustVerif.Model.C08

/-! Helper lemmas for C08: byte images, little-endian codec, read/write frame lemmas, the phases of
the cycle. -/
namespace TrustVerif.C08

/-! ### Byte images -/

theorem getByte_ensureLen (buf : List Nat) (m j : Nat) : getByte (ensureLen buf m) j = getByte buf j := by
  unfold ensureLen getByte
  split
  · simp only [List.getD_eq_getElem?_getD, List.getElem?_append]
    split
    · rfl
    · rename_i h
      have : buf[j]? = none := by simp; omega
      simp [this, List.getElem?_replicate]
      split <;> rfl
  · rfl

theorem lt_length_ensureLen (buf : List Nat) (m : Nat) : m < (ensureLen buf m).length := by
  unfold ensureLen
  split
  · simp; omega
  · omega

theorem le_length_ensureLen (buf : List Nat) (m : Nat) : buf.length ≤ (ensureLen buf m).length := by
  unfold ensureLen
  split
  · simp
  · omega

theorem getByte_set (buf : List Nat) (i b j : Nat) (h : i < buf.length) :
    getByte (buf.set i b) j = if j = i then b else getByte buf j := by
  unfold getByte
  simp only [List.getD_eq_getElem?_getD, List.getElem?_set]
  by_cases hji : j = i
  · subst hji; simp [h]
  · have : ¬ i = j := fun h => hji h.symm
    simp [this, hji]

theorem length_setMany (buf : List Nat) (i : Nat) (bs : List Nat) : (setMany buf i bs).length = buf.length := by
  induction bs generalizing buf i with
  | nil => rfl
  | cons b bs ih => simp [setMany, ih]

theorem getByte_setMany (buf : List Nat) (i : Nat) (bs : List Nat) (j : Nat) (h : i + bs.length ≤ buf.length) :
    getByte (setMany buf i bs) j =
      if i ≤ j ∧ j < i + bs.length then bs.getD (j - i) 0 else getByte buf j := by
  induction bs generalizing buf i with
  | nil => simp [setMany]; omega
  | cons b bs ih =>
    simp only [setMany, List.length_cons] at *
    rw [ih (buf.set i b) (i + 1) (by simp; omega)]
    by_cases h1 : i + 1 ≤ j ∧ j < i + 1 + bs.length
    · have h2 : i ≤ j ∧ j < i + (bs.length + 1) := by omega
      simp only [h1, h2, and_self, if_true]
      have : j - i = (j - (i + 1)) + 1 := by omega
      rw [this]; simp
    · simp only [h1, if_false]
      rw [getByte_set _ _ _ _ (by omega)]
      by_cases hji : j = i
      · subst hji; simp
      · have h2 : ¬ (i ≤ j ∧ j < i + (bs.length + 1)) := by omega
        simp [hji, h2]

theorem getMany_congr (b1 b2 : List Nat) (j k : Nat)
    (h : ∀ t, j ≤ t → t < j + k → getByte b1 t = getByte b2 t) : getMany b1 j k = getMany b2 j k := by
  induction k generalizing j with
  | zero => rfl
  | succ k ih =>
    simp only [getMany]
    rw [h j (by omega) (by omega), ih (j + 1) (fun t h1 h2 => h t (by omega) (by omega))]

theorem getMany_setMany_same (buf : List Nat) (i : Nat) (bs : List Nat) (h : i + bs.length ≤ buf.length) :
    getMany (setMany buf i bs) i bs.length = bs := by
  induction bs generalizing buf i with
  | nil => rfl
  | cons b bs ih =>
    simp only [List.length_cons, getMany]
    have hb : getByte (setMany buf i (b :: bs)) i = b := by
      rw [getByte_setMany _ _ _ _ h]; simp
    rw [hb]
    simp only [setMany]
    rw [ih (buf.set i b) (i + 1) (by simp at *; omega)]

theorem length_encodeLE (k n : Nat) : (encodeLE k n).length = k := by
  induction k generalizing n with
  | zero => rfl
  | succ k ih => simp [encodeLE, ih]

theorem decodeLE_encodeLE (k n : Nat) : decodeLE (encodeLE k n) = n % 256 ^ k := by
  induction k generalizing n with
  | zero => simp [encodeLE, decodeLE, Nat.mod_one]
  | succ k ih =>
    simp only [encodeLE, decodeLE, ih]
    rw [Nat.pow_succ, Nat.mul_comm (256 ^ k) 256, Nat.mod_mul]

/-! ### Bit operations on a `u8` -/

theorem testBit_255 (j : Nat) : (255 : Nat).testBit j = decide (j < 8) := Nat.testBit_two_pow_sub_one 8 j

theorem testBit_setBit_same (b k : Nat) : (setBit b k).testBit k = true := by
  simp [setBit, Nat.testBit_or, Nat.one_shiftLeft]

theorem testBit_setBit_other (b k j : Nat) (h : j ≠ k) : (setBit b k).testBit j = b.testBit j := by
  simp [setBit, Nat.testBit_or, Nat.one_shiftLeft, Nat.testBit_two_pow]; omega

theorem testBit_clearBit_same (b k : Nat) (hk : k < 8) : (clearBit b k).testBit k = false := by
  simp [clearBit, Nat.testBit_and, Nat.testBit_xor, Nat.one_shiftLeft, testBit_255, hk]

theorem testBit_clearBit_other (b k j : Nat) (hj : j < 8) (h : j ≠ k) :
    (clearBit b k).testBit j = b.testBit j := by
  simp [clearBit, Nat.testBit_and, Nat.testBit_xor, Nat.one_shiftLeft, Nat.testBit_two_pow, testBit_255, hj]; omega

/-! ### Flat reads and writes -/

theorem readFlat_congr (b1 b2 : List Nat) (a : Addr)
    (h : ∀ t, a.byte ≤ t → t < a.byte + a.size.width → getByte b1 t = getByte b2 t) :
    readFlat b1 a = readFlat b2 a := by
  unfold readFlat
  cases hs : a.size <;> simp only [hs, Size.width] at h ⊢
  · rw [h a.byte (by omega) (by omega)]
  all_goals rw [getMany_congr b1 b2 a.byte _ h]

theorem getByte_setMany_ensure (buf : List Nat) (i k m n t : Nat) (hm : i + k ≤ m + 1)
    (ht : t < i ∨ i + k ≤ t) :
    getByte (setMany (ensureLen buf m) i (encodeLE k n)) t = getByte buf t := by
  rw [getByte_setMany _ _ _ _ (by have := lt_length_ensureLen buf m; simp [length_encodeLE]; omega)]
  have : ¬ (i ≤ t ∧ t < i + (encodeLE k n).length) := by simp [length_encodeLE]; omega
  simp only [this, if_false, getByte_ensureLen]

theorem getMany_setMany_ensure (buf : List Nat) (i k m n : Nat) (hm : i + k ≤ m + 1) :
    getMany (setMany (ensureLen buf m) i (encodeLE k n)) i k = encodeLE k n := by
  have h := getMany_setMany_same (ensureLen buf m) i (encodeLE k n)
    (by have := lt_length_ensureLen buf m; simp [length_encodeLE]; omega)
  rw [length_encodeLE] at h
  exact h

/-- Bytes outside the written span keep their value. -/
theorem writeFlat_getByte (buf buf' : List Nat) (b : Addr) (v : Value) (hw : writeFlat buf b v = .ok buf')
    (t : Nat) (ht : t < b.byte ∨ b.byte + b.size.width ≤ t) : getByte buf' t = getByte buf t := by
  cases hs : b.size <;> cases v <;> simp only [writeFlat, hs] at hw <;> try (cases hw; done)
  all_goals (injection hw with hw; subst hw; simp only [hs, Size.width] at ht)
  · rw [getByte_set _ _ _ _ (lt_length_ensureLen _ _)]
    have : t ≠ b.byte := by omega
    simp [this, getByte_ensureLen]
  · exact getByte_setMany_ensure _ _ _ _ _ _ (by omega) ht
  · exact getByte_setMany_ensure _ _ _ _ _ _ (by omega) ht
  · exact getByte_setMany_ensure _ _ _ _ _ _ (by omega) ht
  · exact getByte_setMany_ensure _ _ _ _ _ _ (by omega) ht

/-- Read after write returns the written value (flat addresses). -/
theorem readFlat_writeFlat (buf buf' : List Nat) (a : Addr) (v : Value) (hw : writeFlat buf a v = .ok buf')
    (hf : fits a v = true) (hflat : ¬ a.path.length > 1) : readFlat buf' a = v := by
  simp only [fits, hflat, decide_false, Bool.false_or, Bool.and_eq_true] at hf
  cases hs : a.size <;> cases v <;> simp only [writeFlat, hs] at hw <;> try (cases hw; done)
  all_goals (injection hw with hw; subst hw; simp only [hs, decide_eq_true_eq] at hf; simp only [readFlat, hs])
  · rw [getByte_set _ _ _ _ (lt_length_ensureLen _ _)]
    simp only [if_true]
    rename_i flag
    cases flag
    · simp [testBit_clearBit_same _ _ (by omega : a.bit < 8)]
    · simp [testBit_setBit_same]
  · rw [getMany_setMany_ensure _ _ _ _ _ (by omega), decodeLE_encodeLE]; congr 1; omega
  · rw [getMany_setMany_ensure _ _ _ _ _ (by omega), decodeLE_encodeLE]; congr 1; omega
  · rw [getMany_setMany_ensure _ _ _ _ _ (by omega), decodeLE_encodeLE]; congr 1; omega
  · rw [getMany_setMany_ensure _ _ _ _ _ (by omega), decodeLE_encodeLE]; congr 1; omega

/-- A write to a non-overlapping flat address of the same area does not change a read. -/
theorem readFlat_writeFlat_indep (buf buf' : List Nat) (a b : Addr) (v : Value)
    (hw : writeFlat buf b v = .ok buf') (hi : flatIndep a b = true) (ha : a.size = .bit → a.bit ≤ 7) :
    readFlat buf' a = readFlat buf a := by
  simp only [flatIndep, Bool.or_eq_true, decide_eq_true_eq, Bool.and_eq_true, beq_iff_eq, bne_iff_ne] at hi
  rcases hi with (hi | hi) | ⟨⟨⟨hsa, hsb⟩, hbyte⟩, hbit⟩
  · exact readFlat_congr _ _ _ (fun t h1 h2 => writeFlat_getByte _ _ _ _ hw t (by omega))
  · exact readFlat_congr _ _ _ (fun t h1 h2 => writeFlat_getByte _ _ _ _ hw t (by omega))
  · cases v <;> simp only [writeFlat, hsb] at hw <;> try (cases hw; done)
    injection hw with hw; subst hw
    simp only [readFlat, hsa]
    rw [getByte_set _ _ _ _ (lt_length_ensureLen _ _), hbyte]
    simp only [if_true, getByte_ensureLen]
    have ha := ha hsa
    rename_i flag
    cases flag
    · simp [testBit_clearBit_other _ _ _ (by omega : a.bit < 8) hbit]
    · simp [testBit_setBit_other _ _ _ hbit]

/-! ### The hierarchical side map -/

theorem hierGet_insert_same (h : List (HKey × Value)) (k : HKey) (v : Value) :
    hierGet (hierInsert h k v) k = some v := by
  simp [hierGet, hierInsert]

theorem hierGet_insert_other (h : List (HKey × Value)) (k k' : HKey) (v : Value) (hk : k ≠ k') :
    hierGet (hierInsert h k' v) k = hierGet h k := by
  have hne : (k' == k) = false := by simp; exact fun h => hk h.symm
  simp only [hierGet, hierInsert, List.find?_cons, hne]
  congr 1
  induction h with
  | nil => rfl
  | cons p ps ih =>
    simp only [List.filter_cons]
    by_cases hp : p.1 = k'
    · have h1 : (p.1 == k') = true := by simp [hp]
      have h2 : (p.1 == k) = false := by simp [hp]; exact fun h => hk h.symm
      simp [h1, h2, ih]
    · have h1 : (p.1 == k') = false := by simp [hp]
      simp only [h1, Bool.not_false, if_true, List.find?_cons]
      split
      · rfl
      · exact ih

/-! ### `IoInterface::read` / `write` -/

theorem area_setArea (io : Io) (ar ar' : Area) (buf : List Nat) :
    (io.setArea ar buf).area ar' = if ar = ar' then buf else io.area ar' := by
  cases ar <;> cases ar' <;> simp [Io.setArea, Io.area]

theorem hier_setArea (io : Io) (ar : Area) (buf : List Nat) : (io.setArea ar buf).hier = io.hier := by
  cases ar <;> rfl

theorem fits_writable (a : Addr) (v : Value) (h : fits a v = true) : writable a v = true := by
  simp only [fits, writable, Bool.and_eq_true, Bool.or_eq_true] at h ⊢
  refine ⟨h.1, ?_⟩
  rcases h.2 with h2 | h2
  · exact Or.inl h2
  · right
    cases hs : a.size <;> cases v <;> simp_all

theorem write_ok_of_writable (io : Io) (a : Addr) (v : Value) (h : writable a v = true) :
    ∃ io', io.write a v = .ok io' := by
  simp only [writable, Bool.and_eq_true, Bool.or_eq_true, Bool.not_eq_true', decide_eq_true_eq] at h
  unfold Io.write
  simp only [h.1, Bool.false_eq_true, if_false]
  by_cases hp : a.path.length > 1
  · simp [hp]
  · simp only [hp, if_false]
    have h2 := h.2.resolve_left hp
    cases hs : a.size <;> cases v <;> simp_all [writeFlat]

theorem write_error_of_not_writable (io : Io) (a : Addr) (v : Value) (h : writable a v = false) :
    ∃ e, io.write a v = .error e := by
  unfold Io.write
  by_cases hw : a.wildcard = true
  · simp [hw]
  · by_cases hp : a.path.length > 1
    · simp [writable, hw, hp] at h
    · simp only [hw, hp, if_false, Bool.false_eq_true]
      simp only [writable, hp, decide_false, Bool.false_or, Bool.and_eq_false_iff] at h
      have h2 := h.resolve_left (by simp [hw])
      cases hs : a.size <;> cases v <;> simp_all [writeFlat]

/-- Read after write returns the written value. -/
theorem read_write_same (io io' : Io) (a : Addr) (v : Value) (hw : io.write a v = .ok io')
    (hf : fits a v = true) : io'.read a = .ok v := by
  have hwc : a.wildcard = false := by simp [fits] at hf; exact hf.1
  unfold Io.write at hw
  unfold Io.read
  simp only [hwc, Bool.false_eq_true, if_false] at hw ⊢
  by_cases hp : a.path.length > 1
  · simp only [hp, if_true] at hw ⊢
    injection hw with hw; subst hw
    simp [hierGet_insert_same]
  · simp only [hp, if_false] at hw ⊢
    cases hwf : writeFlat (io.area a.area) a v with
    | error e => simp [hwf] at hw
    | ok buf =>
      simp only [hwf] at hw
      injection hw with hw; subst hw
      simp only [area_setArea, if_true]
      rw [readFlat_writeFlat _ _ _ _ hwf hf hp]

/-- A write to an independent address does not change a read. -/
theorem read_write_indep (io io' : Io) (a b : Addr) (v va : Value) (hw : io.write b v = .ok io')
    (hi : indep a b = true) (hf : fits a va = true) : io'.read a = io.read a := by
  unfold Io.write at hw
  by_cases hbw : b.wildcard = true
  · simp [hbw] at hw
  · simp only [hbw, if_false] at hw
    simp only [indep, hbw, Bool.false_or] at hi
    unfold Io.read
    by_cases haw : a.wildcard = true
    · simp [haw]
    · simp only [haw]
      by_cases hbp : b.path.length > 1
      · simp only [hbp, if_true] at hw
        injection hw with hw; subst hw
        by_cases hap : a.path.length > 1
        · simp only [hap, if_true, hbp, decide_true, Bool.not_true, Bool.false_or, bne_iff_ne] at hi ⊢
          rw [hierGet_insert_other _ _ _ _ hi]
        · simp only [hap, if_false]
          rfl
      · simp only [hbp, if_false] at hw
        cases hwf : writeFlat (io.area b.area) b v with
        | error e => simp [hwf] at hw
        | ok buf =>
          simp only [hwf] at hw
          injection hw with hw; subst hw
          by_cases hap : a.path.length > 1
          · simp only [hap, if_true, hier_setArea]
          · simp only [hap, if_false, hbp, decide_false, Bool.false_or, Bool.or_eq_true, bne_iff_ne] at hi ⊢
            simp only [area_setArea]
            by_cases har : b.area = a.area
            · simp only [har, if_true]
              rw [har] at hwf
              rcases hi with hi | hi
              · exact absurd har.symm hi
              · rw [readFlat_writeFlat_indep _ _ _ _ _ hwf hi]
                intro hsa
                simp only [fits, hap, decide_false, Bool.false_or, hsa, Bool.and_eq_true] at hf
                cases va <;> simp_all
            · simp [har]

/-! ### `IoSafeState::apply` -/

/-- Entries that are harmless for `a` leave the value read at `a` alone. -/
theorem applySafeEntries_preserves (S : List (Addr × Value)) (io : Io) (a : Addr) (va : Value)
    (hf : fits a va = true) (h : ∀ e ∈ S, harmless a e = true) :
    (applySafeEntries S io).1.read a = io.read a := by
  induction S generalizing io with
  | nil => rfl
  | cons e rest ih =>
    obtain ⟨b, v⟩ := e
    have hrest : ∀ e ∈ rest, harmless a e = true := fun e he => h e (List.mem_cons_of_mem _ he)
    have hb := h (b, v) (List.mem_cons_self ..)
    simp only [applySafeEntries]
    cases hw : io.write b v with
    | error err => simp only [ih io hrest]
    | ok io' =>
      simp only []
      rw [ih io' hrest]
      simp only [harmless, Bool.or_eq_true, Bool.not_eq_true'] at hb
      rcases hb with hb | hb
      · exact read_write_indep io io' a b v va hw hb hf
      · obtain ⟨err, herr⟩ := write_error_of_not_writable io b v hb
        rw [herr] at hw; cases hw

/-- Every fitting entry that no later entry disturbs reads back its configured value. -/
theorem applySafeEntries_read (S : List (Addr × Value)) (io : Io) (i : Nat) (hi : i < S.length)
    (hf : fits S[i].1 S[i].2 = true)
    (hl : ∀ j (hj : j < S.length), i < j → harmless S[i].1 S[j] = true) :
    (applySafeEntries S io).1.read S[i].1 = .ok S[i].2 := by
  induction S generalizing io i with
  | nil => simp at hi
  | cons e rest ih =>
    obtain ⟨b, v⟩ := e
    cases i with
    | zero =>
      simp only [List.getElem_cons_zero] at hf hl ⊢
      obtain ⟨io', hw⟩ := write_ok_of_writable io b v (fits_writable _ _ hf)
      simp only [applySafeEntries, hw]
      rw [applySafeEntries_preserves rest io' b v hf]
      · exact read_write_same io io' b v hw hf
      · intro e he
        obtain ⟨j, hj, rfl⟩ := List.getElem_of_mem he
        have := hl (j + 1) (by simp; omega) (by omega)
        simpa using this
    | succ i =>
      simp only [List.getElem_cons_succ] at hf hl ⊢
      have hi' : i < rest.length := by simpa using hi
      have hl' : ∀ j (hj : j < rest.length), i < j → harmless rest[i].1 rest[j] = true := by
        intro j hj hij
        have := hl (j + 1) (by simp; omega) (by omega)
        simpa using this
      simp only [applySafeEntries]
      cases hw : io.write b v with
      | error err => exact ih io i hi' hf hl'
      | ok io' => exact ih io' i hi' hf hl'

/-! ### Driver loops and event lists -/

theorem deliver_evs (sem : Sem σ δ) (ds : List Nat) (env : δ) (img : List Nat) :
    (deliver sem ds env img).evs = ds.map (fun d => Ev.drvWrite d img) := by
  induction ds generalizing env with
  | nil => rfl
  | cons d ds ih => simp [deliver, ih]

theorem lastWrite_append (d : Nat) (pre post : List Ev) :
    lastWrite d (pre ++ post) =
      match lastWrite d post with
      | some i => some i
      | none => lastWrite d pre := by
  induction pre with
  | nil => simp [lastWrite]; cases lastWrite d post <;> rfl
  | cons ev pre ih =>
    cases ev <;> simp only [List.cons_append, lastWrite, ih]
    case drvWrite d' img =>
      cases lastWrite d post <;> simp

theorem lastWrite_deliveries_eq (d : Nat) (ds : List Nat) (img : List Nat) :
    lastWrite d (ds.map (fun d => Ev.drvWrite d img)) = if d ∈ ds then some img else none := by
  induction ds with
  | nil => simp [lastWrite]
  | cons x xs ih =>
    simp only [List.map_cons, lastWrite, ih, List.mem_cons]
    by_cases hx : d ∈ xs
    · simp [hx]
    · by_cases hxd : x = d
      · simp [hx, hxd]
      · have : ¬ d = x := fun h => hxd h.symm
        simp [hx, hxd, this]

theorem lastWrite_deliveries (d : Nat) (ds : List Nat) (img : List Nat) (h : d ∈ ds) :
    lastWrite d (ds.map (fun d => Ev.drvWrite d img)) = some img := by
  simp [lastWrite_deliveries_eq, h]

/-- Events of a best-effort delivery followed by the fault event: every driver's last image is `img`. -/
theorem lastWrite_tail (d n : Nat) (hd : d < n) (img : List Nat) (pre : List Ev) (e : Err) :
    lastWrite d (pre ++ ((List.range n).map (fun d => Ev.drvWrite d img) ++ [Ev.fault e])) = some img := by
  rw [lastWrite_append]
  have : lastWrite d ((List.range n).map (fun d => Ev.drvWrite d img) ++ [Ev.fault e]) = some img := by
    rw [lastWrite_append]
    simp only [lastWrite]
    exact lastWrite_deliveries d _ img (List.mem_range.2 hd)
  simp [this]

/-! ### Control fields are touched by nobody but `apply_fault`, `restart` and the setters -/

/-- The fields the phases of a cycle never write. -/
structure SameCtl (s s' : RState σ δ) : Prop where
  faulted : s'.faulted = s.faulted
  lastFault : s'.lastFault = s.lastFault
  policy : s'.policy = s.policy
  wdAction : s'.wdAction = s.wdAction
  safe : s'.safe = s.safe
  now : s'.now = s.now
  cycles : s'.cycles = s.cycles

theorem SameCtl.refl (s : RState σ δ) : SameCtl s s := ⟨rfl, rfl, rfl, rfl, rfl, rfl, rfl⟩

theorem SameCtl.trans {s1 s2 s3 : RState σ δ} (h1 : SameCtl s1 s2) (h2 : SameCtl s2 s3) : SameCtl s1 s3 :=
  ⟨h2.faulted.trans h1.faulted, h2.lastFault.trans h1.lastFault, h2.policy.trans h1.policy,
   h2.wdAction.trans h1.wdAction, h2.safe.trans h1.safe, h2.now.trans h1.now, h2.cycles.trans h1.cycles⟩

theorem phaseTasks_sameCtl (sem : Sem σ δ) (s : RState σ δ) : SameCtl s (phaseTasks sem s).st := by
  cases h : (sem.plan s.now s.store).2.2 <;> simp only [phaseTasks, h] <;>
    exact ⟨rfl, rfl, rfl, rfl, rfl, rfl, rfl⟩

theorem phaseForce_sameCtl (sem : Sem σ δ) (s : RState σ δ) : SameCtl s (phaseForce sem s).st := by
  cases h : (applyWrites s.forced s.io).2 <;> simp only [phaseForce, h] <;>
    exact ⟨rfl, rfl, rfl, rfl, rfl, rfl, rfl⟩

theorem cyclePhases_sameCtl (sem : Sem σ δ) (p : Phase σ δ) (hp : p ∈ cyclePhases sem) (s : RState σ δ) :
    SameCtl s (p s).st := by
  simp only [cyclePhases, List.mem_cons, List.not_mem_nil, or_false] at hp
  rcases hp with rfl | rfl | rfl | rfl | rfl | rfl | rfl | rfl | rfl | rfl
  · exact ⟨rfl, rfl, rfl, rfl, rfl, rfl, rfl⟩
  · exact ⟨rfl, rfl, rfl, rfl, rfl, rfl, rfl⟩
  · exact ⟨rfl, rfl, rfl, rfl, rfl, rfl, rfl⟩
  · exact phaseForce_sameCtl sem s
  · exact ⟨rfl, rfl, rfl, rfl, rfl, rfl, rfl⟩
  · exact phaseTasks_sameCtl sem s
  · exact ⟨rfl, rfl, rfl, rfl, rfl, rfl, rfl⟩
  · exact phaseForce_sameCtl sem s
  · exact ⟨rfl, rfl, rfl, rfl, rfl, rfl, rfl⟩
  · exact ⟨rfl, rfl, rfl, rfl, rfl, rfl, rfl⟩

theorem runPhases_sameCtl (ps : List (Phase σ δ)) (h : ∀ p ∈ ps, ∀ s, SameCtl s (p s).st) (s : RState σ δ) :
    SameCtl s (runPhases ps s).st := by
  induction ps generalizing s with
  | nil => exact SameCtl.refl s
  | cons p ps ih =>
    simp only [runPhases]
    have hp := h p (List.mem_cons_self ..) s
    split
    · exact hp
    · exact hp.trans (ih (fun q hq => h q (List.mem_cons_of_mem _ hq)) _)

/-! ### The pending debugger writes are drained by the first phase and by nothing else -/

/-- Both pending-write queues are empty. -/
def QEmpty (s : RState σ δ) : Prop := s.varQ = [] ∧ s.lvalQ = []

theorem runPhases_preserves (P : RState σ δ → Prop) (ps : List (Phase σ δ))
    (h : ∀ p ∈ ps, ∀ s, P s → P (p s).st) (s : RState σ δ) (hs : P s) : P (runPhases ps s).st := by
  induction ps generalizing s with
  | nil => exact hs
  | cons p ps ih =>
    simp only [runPhases]
    have hp := h p (List.mem_cons_self ..) s hs
    split
    · exact hp
    · exact ih (fun q hq => h q (List.mem_cons_of_mem _ hq)) _ hp

theorem cyclePhases_qempty (sem : Sem σ δ) (s : RState σ δ) : QEmpty (runPhases (cyclePhases sem) s).st := by
  have htail : ∀ p ∈ [phaseRead sem, phaseDebug, phaseForce sem, phaseLatch sem, phaseTasks sem,
      phasePublish sem, phaseForce sem, phaseWrite sem, phasePersist sem], ∀ s : RState σ δ,
      QEmpty s → QEmpty (p s).st := by
    intro p hp s hs
    simp only [List.mem_cons, List.not_mem_nil, or_false] at hp
    rcases hp with rfl | rfl | rfl | rfl | rfl | rfl | rfl | rfl | rfl
    · exact hs
    · exact hs
    · cases h : (applyWrites s.forced s.io).2 <;> simp only [phaseForce, h] <;> exact hs
    · exact hs
    · cases h : (sem.plan s.now s.store).2.2 <;> simp only [phaseTasks, h] <;> exact hs
    · exact hs
    · cases h : (applyWrites s.forced s.io).2 <;> simp only [phaseForce, h] <;> exact hs
    · exact hs
    · exact hs
  simp only [cyclePhases, runPhases, phaseVarWrites]
  exact runPhases_preserves QEmpty _ htail _ ⟨rfl, rfl⟩

/-! ### First-failure semantics of the phase sequence -/

theorem runPhases_append (pre post : List (Phase σ δ)) (s : RState σ δ) :
    runPhases (pre ++ post) s =
      match (runPhases pre s).err with
      | some _ => runPhases pre s
      | none =>
        { st := (runPhases post (runPhases pre s).st).st,
          evs := (runPhases pre s).evs ++ (runPhases post (runPhases pre s).st).evs,
          err := (runPhases post (runPhases pre s).st).err } := by
  induction pre generalizing s with
  | nil => simp [runPhases]
  | cons p pre ih =>
    simp only [List.cons_append, runPhases]
    cases hp : (p s).err with
    | some e => simp [hp]
    | none =>
      simp only [ih]
      cases h : (runPhases pre (p s).st).err <;> simp [List.append_assoc, h]

/-- If the phases before `p` succeed and `p` fails with `e`, the sequence fails with `e` in the state
`p` left behind; the phases after `p` do not run. -/
theorem runPhases_first_failure (pre post : List (Phase σ δ)) (p : Phase σ δ) (s : RState σ δ) (e : Err)
    (hpre : (runPhases pre s).err = none) (hp : (p (runPhases pre s).st).err = some e) :
    (runPhases (pre ++ p :: post) s).err = some e ∧
    (runPhases (pre ++ p :: post) s).st = (p (runPhases pre s).st).st ∧
    (runPhases (pre ++ p :: post) s).evs = (runPhases pre s).evs ++ (p (runPhases pre s).st).evs := by
  rw [runPhases_append]
  simp only [hpre, runPhases, hp]
  exact ⟨trivial, trivial, trivial⟩

/-- Conversely a failure of the sequence is the failure of exactly one phase, reached through
successes of all earlier ones. -/
theorem runPhases_err_split (ps : List (Phase σ δ)) (s : RState σ δ) (e : Err)
    (h : (runPhases ps s).err = some e) :
    ∃ pre p post, ps = pre ++ p :: post ∧ (runPhases pre s).err = none ∧
      (p (runPhases pre s).st).err = some e := by
  induction ps generalizing s with
  | nil => simp [runPhases] at h
  | cons p ps ih =>
    simp only [runPhases] at h
    cases hp : (p s).err with
    | some e' =>
      simp only [hp] at h
      exact ⟨[], p, ps, rfl, rfl, by simpa [runPhases, hp] using h⟩
    | none =>
      simp only [hp] at h
      obtain ⟨pre, q, post, hsplit, hpre, hq⟩ := ih (p s).st h
      refine ⟨p :: pre, q, post, by simp [hsplit], ?_, ?_⟩
      · simp [runPhases, hp, hpre]
      · simpa [runPhases, hp] using hq

/-! ### First-failure semantics of the driver loops and of the program plan -/

theorem readDrivers_append (sem : Sem σ δ) (pre post : List Nat) (env : δ) (img : List Nat) :
    readDrivers sem (pre ++ post) env img =
      match (readDrivers sem pre env img).err with
      | some _ => readDrivers sem pre env img
      | none =>
        { env := (readDrivers sem post (readDrivers sem pre env img).env (readDrivers sem pre env img).img).env,
          img := (readDrivers sem post (readDrivers sem pre env img).env (readDrivers sem pre env img).img).img,
          evs := (readDrivers sem pre env img).evs ++
            (readDrivers sem post (readDrivers sem pre env img).env (readDrivers sem pre env img).img).evs,
          err := (readDrivers sem post (readDrivers sem pre env img).env (readDrivers sem pre env img).img).err } := by
  induction pre generalizing env img with
  | nil => simp [readDrivers]
  | cons d pre ih =>
    simp only [List.cons_append, readDrivers]
    cases hd : (sem.drvRead d env img).2.2 with
    | some e => simp
    | none =>
      simp only [ih]
      cases h : (readDrivers sem pre (sem.drvRead d env img).1 (sem.drvRead d env img).2.1).err <;> simp [h]

theorem readDrivers_evs_ok (sem : Sem σ δ) (ds : List Nat) (env : δ) (img : List Nat)
    (h : (readDrivers sem ds env img).err = none) : (readDrivers sem ds env img).evs = ds.map Ev.drvRead := by
  induction ds generalizing env img with
  | nil => rfl
  | cons d ds ih =>
    simp only [readDrivers] at h ⊢
    cases hd : (sem.drvRead d env img).2.2 with
    | some e => simp [hd] at h
    | none =>
      simp only [hd] at h ⊢
      simp [ih _ _ h]

theorem readDrivers_first_failure (sem : Sem σ δ) (pre post : List Nat) (d : Nat) (env : δ) (img : List Nat)
    (e : Err) (hpre : (readDrivers sem pre env img).err = none)
    (hd : (sem.drvRead d (readDrivers sem pre env img).env (readDrivers sem pre env img).img).2.2 = some e) :
    (readDrivers sem (pre ++ d :: post) env img).err = some e ∧
    (readDrivers sem (pre ++ d :: post) env img).evs = (pre ++ [d]).map Ev.drvRead := by
  rw [readDrivers_append]
  simp only [hpre, readDrivers, hd, readDrivers_evs_ok sem pre env img hpre]
  simp

theorem writeDrivers_append (sem : Sem σ δ) (pre post : List Nat) (env : δ) (img : List Nat) :
    writeDrivers sem (pre ++ post) env img =
      match (writeDrivers sem pre env img).err with
      | some _ => writeDrivers sem pre env img
      | none =>
        { env := (writeDrivers sem post (writeDrivers sem pre env img).env img).env,
          img := img,
          evs := (writeDrivers sem pre env img).evs ++ (writeDrivers sem post (writeDrivers sem pre env img).env img).evs,
          err := (writeDrivers sem post (writeDrivers sem pre env img).env img).err } := by
  induction pre generalizing env with
  | nil => cases post <;> simp [writeDrivers] <;> split <;> rfl
  | cons d pre ih =>
    simp only [List.cons_append, writeDrivers]
    cases hd : (sem.drvWrite d env img).2 with
    | some e => simp
    | none =>
      simp only [ih]
      cases h : (writeDrivers sem pre (sem.drvWrite d env img).1 img).err <;> simp [h]

theorem writeDrivers_evs_ok (sem : Sem σ δ) (ds : List Nat) (env : δ) (img : List Nat)
    (h : (writeDrivers sem ds env img).err = none) :
    (writeDrivers sem ds env img).evs = ds.map (fun d => Ev.drvWrite d img) := by
  induction ds generalizing env with
  | nil => rfl
  | cons d ds ih =>
    simp only [writeDrivers] at h ⊢
    cases hd : (sem.drvWrite d env img).2 with
    | some e => simp [hd] at h
    | none =>
      simp only [hd] at h ⊢
      simp [ih _ h]

theorem writeDrivers_first_failure (sem : Sem σ δ) (pre post : List Nat) (d : Nat) (env : δ) (img : List Nat)
    (e : Err) (hpre : (writeDrivers sem pre env img).err = none)
    (hd : (sem.drvWrite d (writeDrivers sem pre env img).env img).2 = some e) :
    (writeDrivers sem (pre ++ d :: post) env img).err = some e ∧
    (writeDrivers sem (pre ++ d :: post) env img).evs = (pre ++ [d]).map (fun d => Ev.drvWrite d img) := by
  rw [writeDrivers_append]
  simp only [hpre, writeDrivers, hd, writeDrivers_evs_ok sem pre env img hpre]
  simp

theorem runPlan_append (sem : Sem σ δ) (now : Int) (pre post : List Nat) (st : σ) :
    runPlan sem now (pre ++ post) st =
      match (runPlan sem now pre st).2.2 with
      | some _ => runPlan sem now pre st
      | none =>
        ((runPlan sem now post (runPlan sem now pre st).1).1,
         (runPlan sem now pre st).2.1 ++ (runPlan sem now post (runPlan sem now pre st).1).2.1,
         (runPlan sem now post (runPlan sem now pre st).1).2.2) := by
  induction pre generalizing st with
  | nil => simp [runPlan]
  | cons p pre ih =>
    simp only [List.cons_append, runPlan]
    cases hp : (sem.exec now p st).2.2 with
    | some e => simp
    | none =>
      simp only [ih]
      cases h : (runPlan sem now pre (sem.exec now p st).1).2.2 <;> simp [h]

/-- If the programs before `p` run to completion and `p` faults with `e`, the plan stops there:
`e` is reported, `p` is the last program that executed anything, the rest never starts. -/
theorem runPlan_first_failure (sem : Sem σ δ) (now : Int) (pre post : List Nat) (p : Nat) (st : σ) (e : Err)
    (hpre : (runPlan sem now pre st).2.2 = none)
    (hp : (sem.exec now p (runPlan sem now pre st).1).2.2 = some e) :
    (runPlan sem now (pre ++ p :: post) st).2.2 = some e ∧
    (runPlan sem now (pre ++ p :: post) st).1 = (sem.exec now p (runPlan sem now pre st).1).1 ∧
    (runPlan sem now (pre ++ p :: post) st).2.1 =
      (runPlan sem now pre st).2.1 ++ [Ev.prog p (sem.exec now p (runPlan sem now pre st).1).2.1] := by
  rw [runPlan_append]
  simp only [hpre, runPlan, hp]
  exact ⟨trivial, trivial, trivial⟩

/-! ### Histories, `apply_fault` -/

theorem run_append (sem : Sem σ δ) (s : RState σ δ) (pre post : List Op) :
    run sem s (pre ++ post) = run sem (run sem s pre) post := by
  induction pre generalizing s with
  | nil => rfl
  | cons op pre ih => simp [run, ih]

theorem applyFault_safe (sem : Sem σ δ) (s : RState σ δ) (e : Err) (dec : FaultDecision)
    (h : dec.applySafeState = true) :
    (applyFault sem s e dec).st.io = (applySafeEntries s.safe s.io).1 ∧
    (applyFault sem s e dec).evs =
      (List.range sem.nDrivers).map (fun d => Ev.drvWrite d (applySafeEntries s.safe s.io).1.outputs) ++
        [Ev.fault e] ∧
    (applyFault sem s e dec).st.safe = s.safe := by
  simp [applyFault, h, applySafeState, deliver_evs]

/-- `apply_fault` writes the latch, the image and the driver state — nothing else. -/
theorem applyFault_ctl (sem : Sem σ δ) (s : RState σ δ) (e : Err) (dec : FaultDecision) :
    (applyFault sem s e dec).st.policy = s.policy ∧ (applyFault sem s e dec).st.wdAction = s.wdAction ∧
    (applyFault sem s e dec).st.safe = s.safe ∧ (applyFault sem s e dec).st.now = s.now ∧
    (applyFault sem s e dec).st.cycles = s.cycles ∧ (applyFault sem s e dec).st.store = s.store ∧
    (applyFault sem s e dec).st.varQ = s.varQ ∧ (applyFault sem s e dec).st.lvalQ = s.lvalQ := by
  simp only [applyFault]
  split <;> simp [applySafeState]

end TrustVerif.C08
