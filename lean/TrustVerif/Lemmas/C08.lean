import TrustVerif.Model.C08

namespace TrustVerif.C08

end TrustVerif.C08
