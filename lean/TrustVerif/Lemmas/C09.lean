import TrustVerif.Model.C09

/-!
Helper lemmas for C09: ordered maps, storage frame rules, instance creation, the five loops of
`restart`, retain snapshots.
-/
namespace TrustVerif.C09

/-! ### association lists -/

theorem aget_aset_same {α : Type} (l : List (Nat × α)) (k : Nat) (v : α) :
    aget (aset l k v) k = some v := by
  induction l with
  | nil => simp [aset, aget]
  | cons p rest ih =>
    obtain ⟨k', v'⟩ := p
    by_cases h : k' = k
    · simp [aset, aget, h]
    · simp [aset, aget, h, ih]

theorem aget_aset_ne {α : Type} (l : List (Nat × α)) (k k' : Nat) (v : α) (h : k ≠ k') :
    aget (aset l k v) k' = aget l k' := by
  induction l with
  | nil => simp [aset, aget, h]
  | cons p rest ih =>
    obtain ⟨k0, v0⟩ := p
    by_cases h0 : k0 = k
    · subst h0
      simp [aset, aget, h]
    · by_cases h1 : k0 = k'
      · subst h1
        simp [aset, aget, h0]
      · simp [aset, aget, h0, h1, ih]

theorem aget_aset {α : Type} (l : List (Nat × α)) (k k' : Nat) (v : α) :
    aget (aset l k v) k' = if k = k' then some v else aget l k' := by
  by_cases h : k = k'
  · subst h; simp [aget_aset_same]
  · simp [h, aget_aset_ne _ _ _ _ h]

/-- Keys of an ordered map. -/
def keys {α : Type} (l : List (Nat × α)) : List Nat := l.map (·.1)

theorem aget_none_of_not_mem {α : Type} (l : List (Nat × α)) (k : Nat) (h : k ∉ keys l) :
    aget l k = none := by
  induction l with
  | nil => rfl
  | cons p rest ih =>
    obtain ⟨k0, v0⟩ := p
    simp [keys] at h
    have h1 : k0 ≠ k := fun e => h.1 e.symm
    simp [aget, h1]
    exact ih (by simpa [keys] using h.2)

theorem keys_aset {α : Type} (l : List (Nat × α)) (k : Nat) (v : α) :
    keys (aset l k v) = if k ∈ keys l then keys l else keys l ++ [k] := by
  induction l with
  | nil => simp [aset, keys]
  | cons p rest ih =>
    obtain ⟨k0, v0⟩ := p
    by_cases h0 : k0 = k
    · subst h0; simp [aset, keys]
    · have h0' : ¬ k = k0 := fun e => h0 e.symm
      simp only [keys] at ih
      by_cases hm : k ∈ List.map (fun x => x.fst) rest
      · simp [aset, keys, h0, h0', ih, hm]
      · simp [aset, keys, h0, h0', ih, hm]

theorem keys_aset_nodup {α : Type} (l : List (Nat × α)) (k : Nat) (v : α) (h : (keys l).Nodup) :
    (keys (aset l k v)).Nodup := by
  rw [keys_aset]
  split
  · exact h
  · rename_i hk
    exact List.nodup_append.2 ⟨h, by simp, by
      intro a ha b hb
      simp at hb
      subst hb
      intro e
      subst e
      exact hk ha⟩

theorem nodup_map_inj {α : Type} (f : α → Nat) (l : List α) (h : (l.map f).Nodup) (a b : α)
    (ha : a ∈ l) (hb : b ∈ l) (e : f a = f b) : a = b := by
  induction l with
  | nil => cases ha
  | cons x rest ih =>
    simp only [List.map_cons, List.nodup_cons] at h
    rcases List.mem_cons.1 ha with rfl | ha'
    · rcases List.mem_cons.1 hb with rfl | hb'
      · rfl
      · exfalso; apply h.1; rw [e]; exact List.mem_map.2 ⟨b, hb', rfl⟩
    · rcases List.mem_cons.1 hb with rfl | hb'
      · exfalso; apply h.1; rw [← e]; exact List.mem_map.2 ⟨a, ha', rfl⟩
      · exact ih h.2 ha' hb'

/-! ### storage: globals and instances do not interfere -/

namespace Storage

@[simp] theorem getGlobal_setGlobal_same (s : Storage) (n : Nat) (v : Val) :
    (s.setGlobal n v).getGlobal n = some v := by
  simp [getGlobal, setGlobal, aget_aset_same]

theorem getGlobal_setGlobal_ne (s : Storage) (n n' : Nat) (v : Val) (h : n ≠ n') :
    (s.setGlobal n v).getGlobal n' = s.getGlobal n' := by
  simp [getGlobal, setGlobal, aget_aset_ne _ _ _ _ h]

theorem getGlobal_setGlobal (s : Storage) (n n' : Nat) (v : Val) :
    (s.setGlobal n v).getGlobal n' = if n = n' then some v else s.getGlobal n' := by
  simp [getGlobal, setGlobal, aget_aset]

@[simp] theorem getInstance_setGlobal (s : Storage) (n : Nat) (v : Val) (id : Nat) :
    (s.setGlobal n v).getInstance id = s.getInstance id := rfl

@[simp] theorem getInstVar_setGlobal (s : Storage) (n : Nat) (v : Val) (id m : Nat) :
    (s.setGlobal n v).getInstVar id m = s.getInstVar id m := rfl

@[simp] theorem nextId_setGlobal (s : Storage) (n : Nat) (v : Val) :
    (s.setGlobal n v).nextId = s.nextId := rfl

@[simp] theorem frames_setGlobal (s : Storage) (n : Nat) (v : Val) :
    (s.setGlobal n v).frames = s.frames := rfl

@[simp] theorem getGlobal_setInstVar (s : Storage) (id m : Nat) (v : Val) (n : Nat) :
    (s.setInstVar id m v).getGlobal n = s.getGlobal n := rfl

@[simp] theorem globals_setInstVar (s : Storage) (id m : Nat) (v : Val) :
    (s.setInstVar id m v).globals = s.globals := rfl

@[simp] theorem nextId_setInstVar (s : Storage) (id m : Nat) (v : Val) :
    (s.setInstVar id m v).nextId = s.nextId := rfl

@[simp] theorem frames_setInstVar (s : Storage) (id m : Nat) (v : Val) :
    (s.setInstVar id m v).frames = s.frames := rfl

theorem aget_updInstances (l : List (Nat × InstData)) (id id' : Nat) (f : InstData → InstData) :
    aget (updInstances l id f) id' = if id' = id then (aget l id').map f else aget l id' := by
  induction l with
  | nil => simp [updInstances, aget]
  | cons p rest ih =>
    obtain ⟨k, d⟩ := p
    simp only [updInstances, List.map_cons] at ih ⊢
    by_cases hk : k = id
    · subst hk
      by_cases h2 : k = id'
      · subst h2; simp [aget]
      · have h2' : ¬ id' = k := fun e => h2 e.symm
        simp [aget, h2, h2'] at ih ⊢
        exact ih
    · by_cases h2 : k = id'
      · subst h2
        simp [aget, hk]
      · simp [aget, hk, h2]
        exact ih

theorem getInstance_setInstVar (s : Storage) (id m : Nat) (v : Val) (id' : Nat) :
    (s.setInstVar id m v).getInstance id' =
      if id' = id then (s.getInstance id').map (fun d => { d with vars := aset d.vars m v })
      else s.getInstance id' := by
  simp [getInstance, setInstVar, aget_updInstances]

theorem getInstVar_setInstVar (s : Storage) (id m : Nat) (v : Val) (id' m' : Nat) :
    (s.setInstVar id m v).getInstVar id' m' =
      if id' = id ∧ m = m' ∧ (s.getInstance id).isSome then some v else s.getInstVar id' m' := by
  unfold getInstVar
  rw [getInstance_setInstVar]
  by_cases h : id' = id
  · subst h
    cases hg : s.getInstance id' with
    | none => simp
    | some d => simp [aget_aset]
  · simp [h]

theorem getInstVar_setInstVar_other (s : Storage) (id m : Nat) (v : Val) (id' m' : Nat)
    (h : id' ≠ id ∨ m ≠ m') : (s.setInstVar id m v).getInstVar id' m' = s.getInstVar id' m' := by
  rw [getInstVar_setInstVar]
  rcases h with h | h <;> simp [h]

theorem getInstVar_setInstVar_same (s : Storage) (id m : Nat) (v : Val)
    (h : (s.getInstance id).isSome) : (s.setInstVar id m v).getInstVar id m = some v := by
  rw [getInstVar_setInstVar]; simp [h]

theorem isSome_getInstance_setInstVar (s : Storage) (id m : Nat) (v : Val) (id' : Nat) :
    ((s.setInstVar id m v).getInstance id').isSome = (s.getInstance id').isSome := by
  rw [getInstance_setInstVar]
  split <;> simp

@[simp] theorem getGlobal_createInstance (s : Storage) (ty n : Nat) :
    (s.createInstance ty).1.getGlobal n = s.getGlobal n := rfl

@[simp] theorem globals_createInstance (s : Storage) (ty : Nat) :
    (s.createInstance ty).1.globals = s.globals := rfl

@[simp] theorem nextId_createInstance (s : Storage) (ty : Nat) :
    (s.createInstance ty).1.nextId = s.nextId + 1 := rfl

@[simp] theorem id_createInstance (s : Storage) (ty : Nat) : (s.createInstance ty).2 = s.nextId := rfl

@[simp] theorem frames_createInstance (s : Storage) (ty : Nat) :
    (s.createInstance ty).1.frames = s.frames := rfl

theorem getInstance_createInstance (s : Storage) (ty id : Nat) :
    (s.createInstance ty).1.getInstance id =
      if s.nextId = id then some { tyName := ty, vars := [] } else s.getInstance id := by
  simp [createInstance, getInstance, aget]

end Storage

open Storage

/-! ### frame relation: `s'` extends `s` by instances with ids `≥ s.nextId` only -/

/-- Everything below `s.nextId` and all globals/frames are untouched. -/
structure Ext (s s' : Storage) : Prop where
  globals : s'.globals = s.globals
  frames : s'.frames = s.frames
  next : s.nextId ≤ s'.nextId
  old : ∀ id, id < s.nextId → s'.getInstance id = s.getInstance id

theorem Ext.refl (s : Storage) : Ext s s := ⟨rfl, rfl, Nat.le_refl _, fun _ _ => rfl⟩

theorem Ext.trans {a b c : Storage} (h1 : Ext a b) (h2 : Ext b c) : Ext a c :=
  ⟨h2.globals.trans h1.globals, h2.frames.trans h1.frames, Nat.le_trans h1.next h2.next,
   fun id h => (h2.old id (Nat.lt_of_lt_of_le h h1.next)).trans (h1.old id h)⟩

theorem Ext.getGlobal {s s' : Storage} (h : Ext s s') (n : Nat) : s'.getGlobal n = s.getGlobal n := by
  simp [Storage.getGlobal, h.globals]

theorem Ext.getInstVar {s s' : Storage} (h : Ext s s') (id m : Nat) (hid : id < s.nextId) :
    s'.getInstVar id m = s.getInstVar id m := by
  simp [Storage.getInstVar, h.old id hid]

theorem Ext.createInstance (s : Storage) (ty : Nat) : Ext s (s.createInstance ty).1 :=
  ⟨rfl, rfl, by simp, fun id h => by
    rw [getInstance_createInstance]
    have : s.nextId ≠ id := by omega
    simp [this]⟩

/-- Writing a variable of an instance that is not below the old bound. -/
theorem Ext.setInstVar {s s' : Storage} (h : Ext s s') (id m : Nat) (v : Val) (hid : s.nextId ≤ id) :
    Ext s (s'.setInstVar id m v) :=
  ⟨by simp [h.globals], by simp [h.frames], by simp [h.next], fun j hj => by
    rw [getInstance_setInstVar]
    have : j ≠ id := by omega
    simp [this, h.old j hj]⟩

/-- Changing a global is not an extension in the `globals` field; separate rule for instances. -/
theorem getInstance_lt_of_ext_setGlobal {s s' : Storage} (h : Ext s s') (n : Nat) (v : Val) (id : Nat)
    (hid : id < s.nextId) : (s'.setGlobal n v).getInstance id = s.getInstance id := by
  simp [h.old id hid]

/-! ### FB instance creation -/

/-- The member map `setMembers` builds. -/
def membersMap : List (Nat × Val) → List (Nat × Val) → List (Nat × Val)
  | acc, [] => acc
  | acc, (n, v) :: rest => membersMap (aset acc n v) rest

theorem getInstance_setMembers (s : Storage) (id : Nat) (ms : List (Nat × Val)) (id' : Nat) :
    (setMembers s id ms).getInstance id' =
      if id' = id then (s.getInstance id').map (fun d => { d with vars := membersMap d.vars ms })
      else s.getInstance id' := by
  induction ms generalizing s with
  | nil =>
    simp only [setMembers, membersMap]
    split
    · cases s.getInstance id' <;> simp
    · rfl
  | cons p rest ih =>
    obtain ⟨n, v⟩ := p
    simp only [setMembers, membersMap]
    rw [ih, getInstance_setInstVar]
    by_cases h : id' = id
    · simp only [h, if_true]
      cases s.getInstance id <;> simp
    · simp [h]

theorem setMembers_globals (s : Storage) (id : Nat) (ms : List (Nat × Val)) :
    (setMembers s id ms).globals = s.globals ∧ (setMembers s id ms).nextId = s.nextId ∧
    (setMembers s id ms).frames = s.frames := by
  induction ms generalizing s with
  | nil => simp [setMembers]
  | cons p rest ih =>
    obtain ⟨n, v⟩ := p
    simp only [setMembers]
    have := ih (s.setInstVar id n v)
    simpa using this

/-- Characterisation of `create_fb_instance`. -/
theorem createFbInstance_spec (fbs : List FbDef) (s s' : Storage) (ty id : Nat)
    (h : createFbInstance fbs s ty = .ok (s', id)) :
    ∃ fb, findFb fbs ty = some fb ∧ id = s.nextId ∧ s'.nextId = s.nextId + 1 ∧ Ext s s' ∧
      s'.getInstance id = some { tyName := fb.name, vars := membersMap [] fb.members } := by
  unfold createFbInstance at h
  cases hf : findFb fbs ty with
  | none => simp [hf] at h
  | some fb =>
    simp only [hf] at h
    injection h with h
    injection h with h1 h2
    subst h2
    simp only [id_createInstance] at h1
    have hg := setMembers_globals (s.createInstance fb.name).1 s.nextId fb.members
    refine ⟨fb, rfl, rfl, ?_, ?_, ?_⟩
    · rw [← h1, hg.2.1]; simp
    · rw [← h1]
      refine ⟨by rw [hg.1]; simp, by rw [hg.2.2]; simp, by rw [hg.2.1]; simp, ?_⟩
      intro j hj
      rw [getInstance_setMembers]
      have : j ≠ s.nextId := by omega
      simp only [this, if_false]
      exact (Ext.createInstance s fb.name).old j hj
    · rw [← h1, getInstance_setMembers]
      simp [getInstance_createInstance]

/-! ### program instance creation -/

/-- What `initVars` preserves. -/
theorem initVars_preserve (fbs : List FbDef) (id : Nat) (vars : List VarDef) :
    ∀ (s s' : Storage), initVars fbs s id vars = .ok s' → id < s.nextId →
      s'.globals = s.globals ∧ s'.frames = s.frames ∧ s.nextId ≤ s'.nextId ∧
      (∀ j, j < s.nextId → j ≠ id → s'.getInstance j = s.getInstance j) ∧
      (∀ m, m ∉ vars.map (·.name) → s'.getInstVar id m = s.getInstVar id m) ∧
      ((s.getInstance id).isSome → (s'.getInstance id).isSome) := by
  induction vars with
  | nil =>
    intro s s' h _
    simp only [initVars] at h
    injection h with h
    subst h
    exact ⟨rfl, rfl, Nat.le_refl _, fun _ _ _ => rfl, fun _ _ => rfl, fun hs => hs⟩
  | cons d rest ih =>
    intro s s' h hid
    simp only [initVars] at h
    cases hd : d.init with
    | plain v =>
      simp only [hd] at h
      obtain ⟨h1, h2, h3, h4, h5, h6⟩ := ih _ _ h (by simpa using hid)
      refine ⟨by simp [h1], by simp [h2], by simpa using h3, ?_, ?_, ?_⟩
      · intro j hj hne
        rw [h4 j (by simpa using hj) hne, getInstance_setInstVar]
        simp [hne]
      · intro m hm
        simp only [List.map_cons, List.mem_cons, not_or] at hm
        rw [h5 m hm.2, getInstVar_setInstVar_other]
        exact Or.inr (fun e => hm.1 e.symm)
      · intro hs
        exact h6 (by rw [isSome_getInstance_setInstVar]; exact hs)
    | ext =>
      simp only [hd] at h
      obtain ⟨h1, h2, h3, h4, h5, h6⟩ := ih _ _ h hid
      refine ⟨h1, h2, h3, h4, ?_, h6⟩
      intro m hm
      simp only [List.map_cons, List.mem_cons, not_or] at hm
      exact h5 m hm.2
    | expr ty e =>
      simp only [hd] at h
      cases he : e.eval s id with
      | none => simp [he] at h
      | some k =>
        simp only [he] at h
        obtain ⟨h1, h2, h3, h4, h5, h6⟩ := ih _ _ h (by simpa using hid)
        refine ⟨by simp [h1], by simp [h2], by simpa using h3, ?_, ?_, ?_⟩
        · intro j hj hne
          rw [h4 j (by simpa using hj) hne, getInstance_setInstVar]
          simp [hne]
        · intro m hm
          simp only [List.map_cons, List.mem_cons, not_or] at hm
          rw [h5 m hm.2, getInstVar_setInstVar_other]
          exact Or.inr (fun e => hm.1 e.symm)
        · intro hs
          exact h6 (by rw [isSome_getInstance_setInstVar]; exact hs)
    | fb ty =>
      simp only [hd] at h
      cases hc : createFbInstance fbs s ty with
      | error e => simp [hc] at h
      | ok r =>
        obtain ⟨s1, nid⟩ := r
        simp only [hc] at h
        obtain ⟨fb, _, hnid, hnext, hext, _⟩ := createFbInstance_spec fbs s s1 ty nid hc
        obtain ⟨h1, h2, h3, h4, h5, h6⟩ := ih _ _ h (by simp; omega)
        refine ⟨by simp [h1, hext.globals], by simp [h2, hext.frames], by simp at h3; omega, ?_, ?_, ?_⟩
        · intro j hj hne
          rw [h4 j (by simp; omega) hne, getInstance_setInstVar]
          simp [hne, hext.old j hj]
        · intro m hm
          simp only [List.map_cons, List.mem_cons, not_or] at hm
          rw [h5 m hm.2, getInstVar_setInstVar_other _ _ _ _ _ _ (Or.inr (fun e => hm.1 e.symm))]
          exact hext.getInstVar id m hid
        · intro hs
          apply h6
          rw [isSome_getInstance_setInstVar, hext.old id hid]
          exact hs

/-- What `initVars` establishes for every declared variable (distinct names). -/
theorem initVars_content (fbs : List FbDef) (id : Nat) (vars : List VarDef) :
    ∀ (s s' : Storage), initVars fbs s id vars = .ok s' → id < s.nextId →
      (s.getInstance id).isSome → (vars.map (·.name)).Nodup →
      ∀ d, d ∈ vars →
        match d.init with
        | .plain v => s'.getInstVar id d.name = some v
        | .ext => True
        | .expr ty _ => ∃ k, s'.getInstVar id d.name = some (.num ty k)
        | .fb ty => ∃ j fb, s'.getInstVar id d.name = some (.inst j) ∧ s.nextId ≤ j ∧ j < s'.nextId ∧
            j ≠ id ∧ findFb fbs ty = some fb ∧
            s'.getInstance j = some { tyName := fb.name, vars := membersMap [] fb.members } := by
  induction vars with
  | nil => intro s s' _ _ _ _ d hd; cases hd
  | cons d0 rest ih =>
    intro s s' h hid hsome hnd d hd
    simp only [List.map_cons, List.nodup_cons] at hnd
    simp only [initVars] at h
    cases hd0 : d0.init with
    | plain v =>
      simp only [hd0] at h
      have hpres := initVars_preserve fbs id rest _ _ h (by simpa using hid)
      rcases List.mem_cons.1 hd with rfl | hmem
      · simp only [hd0]
        rw [hpres.2.2.2.2.1 _ hnd.1]
        exact getInstVar_setInstVar_same _ _ _ _ hsome
      · have := ih _ _ h (by simpa using hid) (by rw [isSome_getInstance_setInstVar]; exact hsome) hnd.2 d hmem
        simpa using this
    | ext =>
      simp only [hd0] at h
      rcases List.mem_cons.1 hd with rfl | hmem
      · simp [hd0]
      · exact ih _ _ h hid hsome hnd.2 d hmem
    | expr ty e =>
      simp only [hd0] at h
      cases he : e.eval s id with
      | none => simp [he] at h
      | some k =>
        simp only [he] at h
        have hpres := initVars_preserve fbs id rest _ _ h (by simpa using hid)
        rcases List.mem_cons.1 hd with rfl | hmem
        · simp only [hd0]
          refine ⟨k, ?_⟩
          rw [hpres.2.2.2.2.1 _ hnd.1]
          exact getInstVar_setInstVar_same _ _ _ _ hsome
        · have := ih _ _ h (by simpa using hid) (by rw [isSome_getInstance_setInstVar]; exact hsome) hnd.2 d hmem
          simpa using this
    | fb ty =>
      simp only [hd0] at h
      cases hc : createFbInstance fbs s ty with
      | error e => simp [hc] at h
      | ok r =>
        obtain ⟨s1, nid⟩ := r
        simp only [hc] at h
        obtain ⟨fb, hfind, hnid, hnext, hext, hinst⟩ := createFbInstance_spec fbs s s1 ty nid hc
        have hid1 : id < (s1.setInstVar id d0.name (.inst nid)).nextId := by simp; omega
        have hsome1 : ((s1.setInstVar id d0.name (.inst nid)).getInstance id).isSome := by
          rw [isSome_getInstance_setInstVar, hext.old id hid]; exact hsome
        have hpres := initVars_preserve fbs id rest _ _ h hid1
        rcases List.mem_cons.1 hd with rfl | hmem
        · simp only [hd0]
          refine ⟨nid, fb, ?_, by omega, by have := hpres.2.2.1; simp at this; omega, by omega, hfind, ?_⟩
          · rw [hpres.2.2.2.2.1 _ hnd.1]
            apply getInstVar_setInstVar_same
            rw [hext.old id hid]; exact hsome
          · rw [hpres.2.2.2.1 nid (by simp; omega) (by omega), getInstance_setInstVar]
            have : nid ≠ id := by omega
            simp [this, hinst]
        · have := ih _ _ h hid1 hsome1 hnd.2 d hmem
          cases hdi : d.init with
          | plain v => simpa [hdi] using this
          | ext => trivial
          | expr ty' e' => simpa [hdi] using this
          | fb ty' =>
            simp only [hdi] at this ⊢
            obtain ⟨j, fb', a1, a2, a3, a4, a5, a6⟩ := this
            exact ⟨j, fb', a1, by simp at a2; omega, a3, a4, a5, a6⟩

/-- Characterisation of `create_program_instance`. -/
theorem createProgramInstance_spec (fbs : List FbDef) (s s' : Storage) (p : ProgDef) (id : Nat)
    (h : createProgramInstance fbs s p = .ok (s', id)) (hnd : (p.vars.map (·.name)).Nodup) :
    id = s.nextId ∧ s.nextId < s'.nextId ∧ Ext s s' ∧ (s'.getInstance id).isSome ∧
    ∀ d, d ∈ p.vars →
      match d.init with
      | .plain v => s'.getInstVar id d.name = some v
      | .ext => True
      | .expr ty _ => ∃ k, s'.getInstVar id d.name = some (.num ty k)
      | .fb ty => ∃ j fb, s'.getInstVar id d.name = some (.inst j) ∧ s.nextId < j ∧ j < s'.nextId ∧
          findFb fbs ty = some fb ∧
          s'.getInstance j = some { tyName := fb.name, vars := membersMap [] fb.members } := by
  unfold createProgramInstance at h
  simp only [id_createInstance] at h
  cases hi : initVars fbs (s.createInstance p.name).1 s.nextId p.vars with
  | error e => rw [hi] at h; cases h
  | ok s2 =>
    rw [hi] at h
    dsimp only at h
    injection h with h
    injection h with h1 h2
    subst h1
    subst h2
    have hid : s.nextId < (s.createInstance p.name).1.nextId := by simp
    have hsome : ((s.createInstance p.name).1.getInstance s.nextId).isSome := by
      rw [getInstance_createInstance]; simp
    have hpres := initVars_preserve fbs s.nextId p.vars _ _ hi hid
    have hcont := initVars_content fbs s.nextId p.vars _ _ hi hid hsome hnd
    refine ⟨rfl, by have := hpres.2.2.1; simp at this; omega, ?_, hpres.2.2.2.2.2 hsome, ?_⟩
    · refine ⟨by rw [hpres.1]; simp, by rw [hpres.2.1]; simp, by have := hpres.2.2.1; simp at this; omega, ?_⟩
      intro j hj
      rw [hpres.2.2.2.1 j (by simp; omega) (by omega)]
      exact (Ext.createInstance s p.name).old j hj
    · intro d hd
      have := hcont d hd
      cases hdi : d.init with
      | plain v => simpa [hdi] using this
      | ext => trivial
      | expr ty e => simpa [hdi] using this
      | fb ty =>
        simp only [hdi] at this ⊢
        obtain ⟨j, fb, a1, a2, a3, a4, a5, a6⟩ := this
        exact ⟨j, fb, a1, by simp at a2; omega, a3, a5, a6⟩

/-! ### the loops of `restart` -/

/-- Instances-only frame (globals may change): ids below `s.nextId` are untouched. -/
structure IExt (s s' : Storage) : Prop where
  frames : s'.frames = s.frames
  next : s.nextId ≤ s'.nextId
  old : ∀ id, id < s.nextId → s'.getInstance id = s.getInstance id

theorem IExt.refl (s : Storage) : IExt s s := ⟨rfl, Nat.le_refl _, fun _ _ => rfl⟩

theorem IExt.trans {a b c : Storage} (h1 : IExt a b) (h2 : IExt b c) : IExt a c :=
  ⟨h2.frames.trans h1.frames, Nat.le_trans h1.next h2.next,
   fun id h => (h2.old id (Nat.lt_of_lt_of_le h h1.next)).trans (h1.old id h)⟩

theorem Ext.toIExt {s s' : Storage} (h : Ext s s') : IExt s s' := ⟨h.frames, h.next, h.old⟩

theorem IExt.setGlobal (s : Storage) (n : Nat) (v : Val) : IExt s (s.setGlobal n v) :=
  ⟨rfl, Nat.le_refl _, fun _ _ => rfl⟩

theorem IExt.getInstVar {s s' : Storage} (h : IExt s s') (id m : Nat) (hid : id < s.nextId) :
    s'.getInstVar id m = s.getInstVar id m := by
  simp [Storage.getInstVar, h.old id hid]

/-- The value `restart` keeps for a global: what the first loop stored. -/
def retainedVal (s : Storage) (ms : List GlobalMeta) (n : Nat) : Option Val :=
  if ms.any (fun m => m.name == n && retainOnWarm m.retain) then s.getGlobal n else none

theorem aget_collectRetained (s : Storage) (ms : List GlobalMeta) :
    ∀ (acc : List (Nat × Val)) (n : Nat),
      aget (collectRetained s ms acc) n =
        match retainedVal s ms n with
        | some v => some v
        | none => aget acc n := by
  induction ms with
  | nil => intro acc n; simp [collectRetained, retainedVal]
  | cons m rest ih =>
    intro acc n
    simp only [collectRetained]
    by_cases hr : retainOnWarm m.retain = true
    · simp only [hr, if_true]
      cases hg : s.getGlobal m.name with
      | none =>
        simp only
        rw [ih]
        by_cases hn : m.name = n
        · subst hn
          simp [retainedVal, hg]
        · simp [retainedVal, hn, hr]
      | some v =>
        simp only
        rw [ih]
        by_cases hn : m.name = n
        · subst hn
          simp [retainedVal, hr, hg, aget_aset_same]
          split <;> simp_all
        · simp only [retainedVal, List.any_cons, hr, Bool.and_true, aget_aset_ne _ _ _ _ hn]
          have : (m.name == n) = false := by simp [hn]
          simp [this]
    · have hr' : retainOnWarm m.retain = false := by simpa using hr
      simp only [hr', Bool.false_eq_true, if_false]
      rw [ih]
      simp [retainedVal, hr']

/-- Expected value of a declared global after the third loop. -/
def GlobalPost (fbs : List FbDef) (warm : Bool) (retained : List (Nat × Val)) (s s' : Storage)
    (m : GlobalMeta) : Prop :=
  match (if warm && retainOnWarm m.retain then aget retained m.name else none) with
  | some v => s'.getGlobal m.name = some v
  | none =>
    match m.init with
    | .value v => s'.getGlobal m.name = some v
    | .fb ty => ∃ j fb, s'.getGlobal m.name = some (.inst j) ∧ s.nextId ≤ j ∧ j < s'.nextId ∧
        findFb fbs ty = some fb ∧
        s'.getInstance j = some { tyName := fb.name, vars := membersMap [] fb.members }

theorem resetGlobals_spec (fbs : List FbDef) (warm : Bool) (retained : List (Nat × Val))
    (ms : List GlobalMeta) :
    ∀ (s s' : Storage), resetGlobals fbs warm retained s ms = .ok s' → (ms.map (·.name)).Nodup →
      IExt s s' ∧ (∀ n, n ∉ ms.map (·.name) → s'.getGlobal n = s.getGlobal n) ∧
      ∀ m, m ∈ ms → GlobalPost fbs warm retained s s' m := by
  induction ms with
  | nil =>
    intro s s' h _
    simp only [resetGlobals] at h
    injection h with h; subst h
    exact ⟨IExt.refl _, fun _ _ => rfl, fun _ hm => by cases hm⟩
  | cons m0 rest ih =>
    intro s s' h hnd
    simp only [List.map_cons, List.nodup_cons] at hnd
    simp only [resetGlobals] at h
    -- one step from `s` to `s1` (setting `m0.name`), then the tail
    have key : ∀ (s1 : Storage), IExt s s1 → s1.getGlobal m0.name = s1.getGlobal m0.name →
        (∀ n, n ≠ m0.name → s1.getGlobal n = s.getGlobal n) →
        resetGlobals fbs warm retained s1 rest = .ok s' →
        IExt s s' ∧ (∀ n, n ∉ (m0 :: rest).map (·.name) → s'.getGlobal n = s.getGlobal n) ∧
        s'.getGlobal m0.name = s1.getGlobal m0.name ∧
        (∀ m, m ∈ rest → GlobalPost fbs warm retained s1 s' m) := by
      intro s1 hext _ hother htail
      obtain ⟨h1, h2, h3⟩ := ih s1 s' htail hnd.2
      refine ⟨hext.trans h1, ?_, h2 _ hnd.1, h3⟩
      intro n hn
      simp only [List.map_cons, List.mem_cons, not_or] at hn
      rw [h2 n hn.2, hother n hn.1]
    -- weaken a tail post-condition from `s1` to `s`
    have weaken : ∀ (s1 : Storage), s.nextId ≤ s1.nextId → ∀ m,
        GlobalPost fbs warm retained s1 s' m → GlobalPost fbs warm retained s s' m := by
      intro s1 hle m hp
      unfold GlobalPost at hp ⊢
      split
      · rename_i v hv; simp only [hv] at hp; exact hp
      · rename_i hv
        simp only [hv] at hp
        cases hi : m.init with
        | value v => simpa [hi] using hp
        | fb ty =>
          simp only [hi] at hp ⊢
          obtain ⟨j, fb, a1, a2, a3, a4, a5⟩ := hp
          exact ⟨j, fb, a1, by omega, a3, a4, a5⟩
    cases hk : (if warm && retainOnWarm m0.retain then aget retained m0.name else none) with
    | some v =>
      rw [hk] at h
      dsimp only at h
      obtain ⟨k1, k2, k3, k4⟩ := key (s.setGlobal m0.name v) (IExt.setGlobal _ _ _) rfl
        (fun n hn => getGlobal_setGlobal_ne _ _ _ _ (fun e => hn e.symm)) h
      refine ⟨k1, k2, ?_⟩
      intro m hm
      rcases List.mem_cons.1 hm with rfl | hmem
      · unfold GlobalPost; rw [hk]; dsimp only; rw [k3]; simp
      · exact weaken _ (by simp) m (k4 m hmem)
    | none =>
      rw [hk] at h
      dsimp only at h
      cases hi : m0.init with
      | value v =>
        rw [hi] at h
        dsimp only at h
        obtain ⟨k1, k2, k3, k4⟩ := key (s.setGlobal m0.name v) (IExt.setGlobal _ _ _) rfl
          (fun n hn => getGlobal_setGlobal_ne _ _ _ _ (fun e => hn e.symm)) h
        refine ⟨k1, k2, ?_⟩
        intro m hm
        rcases List.mem_cons.1 hm with rfl | hmem
        · unfold GlobalPost; rw [hk]; dsimp only; rw [hi]; dsimp only; rw [k3]; simp
        · exact weaken _ (by simp) m (k4 m hmem)
      | fb ty =>
        rw [hi] at h
        dsimp only at h
        cases hc : createFbInstance fbs s ty with
        | error e => rw [hc] at h; cases h
        | ok r =>
          obtain ⟨s1, id⟩ := r
          rw [hc] at h
          dsimp only at h
          obtain ⟨fb, hfind, hid, hnext, hext, hinst⟩ := createFbInstance_spec fbs s s1 ty id hc
          obtain ⟨k1, k2, k3, k4⟩ := key (s1.setGlobal m0.name (.inst id))
            (hext.toIExt.trans (IExt.setGlobal _ _ _)) rfl
            (fun n hn => by
              rw [getGlobal_setGlobal_ne _ _ _ _ (fun e => hn e.symm)]; exact hext.getGlobal n) h
          refine ⟨k1, k2, ?_⟩
          obtain ⟨t1, _, _⟩ := ih _ s' h hnd.2
          intro m hm
          rcases List.mem_cons.1 hm with rfl | hmem
          · unfold GlobalPost; rw [hk]; dsimp only; rw [hi]; dsimp only
            refine ⟨id, fb, by rw [k3]; simp, by omega, ?_, hfind, ?_⟩
            · have := t1.next; simp at this; omega
            · rw [t1.old id (by simp; omega)]; simpa using hinst
          · exact weaken _ (by simp; omega) m (k4 m hmem)

/-- What the fourth loop establishes for one program: a NEW live instance whose variables have
their declared initial values (FB-typed variables: new FB instances with initial members). -/
def ProgPost (fbs : List FbDef) (s s' : Storage) (p : ProgDef) (id : Nat) : Prop :=
  s'.getGlobal p.name = some (.inst id) ∧ s.nextId ≤ id ∧ id < s'.nextId ∧
  (s'.getInstance id).isSome ∧
  ∀ d, d ∈ p.vars →
    match d.init with
    | .plain v => s'.getInstVar id d.name = some v
    | .ext => True
    | .expr ty _ => ∃ k, s'.getInstVar id d.name = some (.num ty k)
    | .fb ty => ∃ j fb, s'.getInstVar id d.name = some (.inst j) ∧ s.nextId ≤ j ∧ j < s'.nextId ∧
        findFb fbs ty = some fb ∧
        s'.getInstance j = some { tyName := fb.name, vars := membersMap [] fb.members }

theorem ProgPost.weaken {fbs : List FbDef} {s0 s s' : Storage} {p : ProgDef} {id : Nat}
    (h : ProgPost fbs s s' p id) (hle : s0.nextId ≤ s.nextId) : ProgPost fbs s0 s' p id := by
  obtain ⟨a1, a2, a3, a4, a5⟩ := h
  refine ⟨a1, by omega, a3, a4, ?_⟩
  intro d hd
  have := a5 d hd
  cases hi : d.init with
  | plain v => simpa [hi] using this
  | ext => trivial
  | expr ty e => simpa [hi] using this
  | fb ty =>
    simp only [hi] at this ⊢
    obtain ⟨j, fb, b1, b2, b3, b4, b5⟩ := this
    exact ⟨j, fb, b1, by omega, b3, b4, b5⟩

theorem recreatePrograms_spec (fbs : List FbDef) (ps : List ProgDef) :
    ∀ (s s' : Storage), recreatePrograms fbs s ps = .ok s' → (ps.map (·.name)).Nodup →
      (∀ p, p ∈ ps → (p.vars.map (·.name)).Nodup) →
      IExt s s' ∧ (∀ n, n ∉ ps.map (·.name) → s'.getGlobal n = s.getGlobal n) ∧
      (∀ p, p ∈ ps → ∃ id, ProgPost fbs s s' p id) := by
  induction ps with
  | nil =>
    intro s s' h _ _
    simp only [recreatePrograms] at h
    injection h with h; subst h
    exact ⟨IExt.refl _, fun _ _ => rfl, fun _ hp => by cases hp⟩
  | cons p0 rest ih =>
    intro s s' h hnd hvars
    simp only [List.map_cons, List.nodup_cons] at hnd
    simp only [recreatePrograms] at h
    cases hc : createProgramInstance fbs s p0 with
    | error e => rw [hc] at h; cases h
    | ok r =>
      obtain ⟨s1, id0⟩ := r
      rw [hc] at h
      dsimp only at h
      obtain ⟨hid, hlt, hext, hsome, hcont⟩ :=
        createProgramInstance_spec fbs s s1 p0 id0 hc (hvars p0 (by simp))
      obtain ⟨t1, t2, t3⟩ := ih _ s' h hnd.2 (fun p hp => hvars p (by simp [hp]))
      have hnext : s.nextId ≤ (s1.setGlobal p0.name (.inst id0)).nextId := by simp; omega
      refine ⟨(hext.toIExt.trans (IExt.setGlobal _ _ _)).trans t1, ?_, ?_⟩
      · intro n hn
        simp only [List.map_cons, List.mem_cons, not_or] at hn
        rw [t2 n hn.2, getGlobal_setGlobal_ne _ _ _ _ (fun e => hn.1 e.symm)]
        exact hext.getGlobal n
      · intro p hp
        rcases List.mem_cons.1 hp with rfl | hmem
        · refine ⟨id0, ?_, by omega, ?_, ?_, ?_⟩
          · rw [t2 _ hnd.1]; simp
          · have := t1.next; simp at this; omega
          · rw [t1.old id0 (by simp; omega)]; simpa using hsome
          · intro d hd
            have := hcont d hd
            cases hi : d.init with
            | plain v =>
              simp only [hi] at this ⊢
              rw [t1.getInstVar id0 d.name (by simp; omega)]; simpa using this
            | ext => trivial
            | expr ty e =>
              simp only [hi] at this ⊢
              obtain ⟨k, hk⟩ := this
              exact ⟨k, by rw [t1.getInstVar id0 d.name (by simp; omega)]; simpa using hk⟩
            | fb ty =>
              simp only [hi] at this ⊢
              obtain ⟨j, fb, b1, b2, b3, b4, b5⟩ := this
              refine ⟨j, fb, ?_, by omega, ?_, b4, ?_⟩
              · rw [t1.getInstVar id0 d.name (by simp; omega)]; simpa using b1
              · have := t1.next; simp at this; omega
              · rw [t1.old j (by simpa using b3)]; simpa using b5
        · obtain ⟨id, hpost⟩ := t3 p hmem
          exact ⟨id, hpost.weaken hnext⟩

/-- Two different programs never share the new instance. -/
theorem recreatePrograms_distinct (fbs : List FbDef) (ps : List ProgDef) :
    ∀ (s s' : Storage), recreatePrograms fbs s ps = .ok s' → (ps.map (·.name)).Nodup →
      (∀ p, p ∈ ps → (p.vars.map (·.name)).Nodup) →
      ∀ p q id, p ∈ ps → q ∈ ps → s'.getGlobal p.name = some (.inst id) →
        s'.getGlobal q.name = some (.inst id) → p.name = q.name := by
  induction ps with
  | nil => intro s s' _ _ _ p q id hp; cases hp
  | cons p0 rest ih =>
    intro s s' h hnd hvars p q id hp hq hgp hgq
    have hnd' := hnd
    simp only [List.map_cons, List.nodup_cons] at hnd
    simp only [recreatePrograms] at h
    cases hc : createProgramInstance fbs s p0 with
    | error e => rw [hc] at h; cases h
    | ok r =>
      obtain ⟨s1, id0⟩ := r
      rw [hc] at h
      dsimp only at h
      obtain ⟨hid, hlt, hext, hsome, hcont⟩ :=
        createProgramInstance_spec fbs s s1 p0 id0 hc (hvars p0 (by simp))
      obtain ⟨t1, t2, t3⟩ := recreatePrograms_spec fbs rest _ s' h hnd.2
        (fun p hp => hvars p (by simp [hp]))
      have head : s'.getGlobal p0.name = some (.inst id0) := by rw [t2 _ hnd.1]; simp
      -- ids of the tail are above `id0`
      have tail_gt : ∀ r, r ∈ rest → ∀ i, s'.getGlobal r.name = some (.inst i) → id0 < i := by
        intro r hr i hi
        obtain ⟨i', hpost⟩ := t3 r hr
        have : i' = i := by
          have := hpost.1.symm.trans hi
          injection this with this; injection this
        subst this
        have := hpost.2.1; simp at this; omega
      rcases List.mem_cons.1 hp with rfl | hp'
      · rcases List.mem_cons.1 hq with rfl | hq'
        · rfl
        · have e : id0 = id := by
            have := head.symm.trans hgp
            injection this with this; injection this
          have := tail_gt q hq' id hgq
          omega
      · rcases List.mem_cons.1 hq with rfl | hq'
        · have e : id0 = id := by
            have := head.symm.trans hgq
            injection this with this; injection this
          have := tail_gt p hp' id hgp
          omega
        · exact ih _ s' h hnd.2 (fun p hp => hvars p (by simp [hp])) p q id hp' hq' hgp hgq

/-- Instances nested in a program instance are never some program's own instance: ids are
allocated in creation order (program, then its FB variables, then the next program). -/
theorem recreatePrograms_nested_ne (fbs : List FbDef) (ps : List ProgDef) :
    ∀ (s s' : Storage), recreatePrograms fbs s ps = .ok s' → (ps.map (·.name)).Nodup →
      (∀ p, p ∈ ps → (p.vars.map (·.name)).Nodup) →
      ∀ p q d ty idp idq j, p ∈ ps → q ∈ ps → d ∈ p.vars → d.init = .fb ty →
        s'.getGlobal p.name = some (.inst idp) → s'.getGlobal q.name = some (.inst idq) →
        s'.getInstVar idp d.name = some (.inst j) → j ≠ idq := by
  induction ps with
  | nil => intro s s' _ _ _ p q d ty idp idq j hp; cases hp
  | cons p0 rest ih =>
    intro s s' h hnd hvars p q d ty idp idq j hp hq hd hi hgp hgq hj
    simp only [List.map_cons, List.nodup_cons] at hnd
    simp only [recreatePrograms] at h
    cases hc : createProgramInstance fbs s p0 with
    | error e => rw [hc] at h; cases h
    | ok r =>
      obtain ⟨s1, id0⟩ := r
      rw [hc] at h
      dsimp only at h
      obtain ⟨hid, hlt, hext, hsome, hcont⟩ :=
        createProgramInstance_spec fbs s s1 p0 id0 hc (hvars p0 (by simp))
      obtain ⟨t1, t2, t3⟩ := recreatePrograms_spec fbs rest _ s' h hnd.2
        (fun p hp => hvars p (by simp [hp]))
      have head : s'.getGlobal p0.name = some (.inst id0) := by rw [t2 _ hnd.1]; simp
      -- a program of the tail: its instance and its nested instances are above `s1.nextId`
      have tail_id : ∀ r, r ∈ rest → ∀ i, s'.getGlobal r.name = some (.inst i) → s1.nextId ≤ i := by
        intro r hr i hgi
        obtain ⟨i', hpost⟩ := t3 r hr
        have : i' = i := by
          have := hpost.1.symm.trans hgi
          injection this with this; injection this
        subst this
        have := hpost.2.1; simpa using this
      have tail_nested : ∀ r, r ∈ rest → ∀ i d' ty' j', s'.getGlobal r.name = some (.inst i) →
          d' ∈ r.vars → d'.init = .fb ty' → s'.getInstVar i d'.name = some (.inst j') →
          s1.nextId ≤ j' := by
        intro r hr i d' ty' j' hgi hd' hi' hj'
        obtain ⟨i', hpost⟩ := t3 r hr
        have : i' = i := by
          have := hpost.1.symm.trans hgi
          injection this with this; injection this
        subst this
        have := hpost.2.2.2.2 d' hd'
        simp only [hi'] at this
        obtain ⟨j2, _, a1, a2, _⟩ := this
        have : j2 = j' := by
          have := a1.symm.trans hj'
          injection this with this; injection this
        subst this
        simpa using a2
      -- the head program: its nested instances lie strictly between `id0` and `s1.nextId`
      have head_nested : ∀ d' ty' j', d' ∈ p0.vars → d'.init = .fb ty' →
          s'.getInstVar id0 d'.name = some (.inst j') → id0 < j' ∧ j' < s1.nextId := by
        intro d' ty' j' hd' hi' hj'
        have := hcont d' hd'
        simp only [hi'] at this
        obtain ⟨j2, _, a1, a2, a3, _⟩ := this
        have e : s'.getInstVar id0 d'.name = s1.getInstVar id0 d'.name := by
          rw [t1.getInstVar id0 d'.name (by simp; omega)]; rfl
        have : j2 = j' := by
          have := a1.symm.trans (e ▸ hj')
          injection this with this; injection this
        subst this
        exact ⟨by omega, a3⟩
      rcases List.mem_cons.1 hp with rfl | hp'
      · have e1 : id0 = idp := by
          have := head.symm.trans hgp
          injection this with this; injection this
        subst e1
        obtain ⟨b1, b2⟩ := head_nested d ty j hd hi hj
        rcases List.mem_cons.1 hq with rfl | hq'
        · have e2 : id0 = idq := by
            have := head.symm.trans hgq
            injection this with this; injection this
          omega
        · have := tail_id q hq' idq hgq
          omega
      · rcases List.mem_cons.1 hq with rfl | hq'
        · have e2 : id0 = idq := by
            have := head.symm.trans hgq
            injection this with this; injection this
          have := tail_nested p hp' idp d ty j hgp hd hi hj
          omega
        · exact ih _ s' h hnd.2 (fun p hp => hvars p (by simp [hp])) p q d ty idp idq j hp' hq' hd hi
            hgp hgq hj

/-! ### fifth loop -/

theorem restoreProgVars_frame (l : List (Nat × Nat × Val)) :
    ∀ (s : Storage), (restoreProgVars s l).globals = s.globals ∧
      (restoreProgVars s l).nextId = s.nextId ∧ (restoreProgVars s l).frames = s.frames ∧
      ∀ id, ((restoreProgVars s l).getInstance id).isSome = (s.getInstance id).isSome := by
  induction l with
  | nil => intro s; simp [restoreProgVars]
  | cons t rest ih =>
    intro s
    obtain ⟨prog, var, v⟩ := t
    simp only [restoreProgVars]
    split
    · rename_i id hg
      obtain ⟨a, b, c, d⟩ := ih (s.setInstVar id var v)
      refine ⟨by simpa using a, by simpa using b, by simpa using c, ?_⟩
      intro j
      rw [d j, isSome_getInstance_setInstVar]
    · exact ih s

open Classical in
/-- Value of one variable of one instance after the fifth loop, when all the triples that
address it carry the same value. -/
theorem restoreProgVars_value (id n : Nat) (v : Val) (l : List (Nat × Nat × Val)) :
    ∀ (s : Storage), (s.getInstance id).isSome →
      (∀ t, t ∈ l → s.getGlobal t.1 = some (.inst id) → t.2.1 = n → t.2.2 = v) →
      (restoreProgVars s l).getInstVar id n =
        if (∃ t, t ∈ l ∧ s.getGlobal t.1 = some (.inst id) ∧ t.2.1 = n) then some v
        else s.getInstVar id n := by
  induction l with
  | nil => intro s _ _; simp [restoreProgVars]
  | cons t rest ih =>
    intro s hsome hall
    obtain ⟨prog, var, x⟩ := t
    simp only [restoreProgVars]
    split
    · rename_i id' hg
      have hsome' : ((s.setInstVar id' var x).getInstance id).isSome := by
        rw [isSome_getInstance_setInstVar]; exact hsome
      rw [ih (s.setInstVar id' var x) hsome' (fun t ht hgt hn => hall t (by simp [ht]) (by simpa using hgt) hn)]
      simp only [getGlobal_setInstVar]
      by_cases hmatch : id' = id ∧ var = n
      · obtain ⟨rfl, rfl⟩ := hmatch
        have hx : x = v := hall (prog, var, x) (by simp) hg rfl
        subst hx
        rw [getInstVar_setInstVar_same _ _ _ _ hsome]
        have : ∃ t, t ∈ (prog, var, x) :: rest ∧ s.getGlobal t.1 = some (.inst id') ∧ t.2.1 = var :=
          ⟨(prog, var, x), by simp, hg, rfl⟩
        simp only [this, if_true]
        by_cases hc : (∃ t, t ∈ rest ∧ s.getGlobal t.1 = some (.inst id') ∧ t.2.1 = var)
        · simp only [hc, if_true]
        · simp only [hc, if_false]
      · have hne : id ≠ id' ∨ var ≠ n := by
          by_cases h1 : id' = id
          · right; intro e; exact hmatch ⟨h1, e⟩
          · left; exact fun e => h1 e.symm
        rw [getInstVar_setInstVar_other _ _ _ _ _ _ hne]
        have : (∃ t, t ∈ (prog, var, x) :: rest ∧ s.getGlobal t.1 = some (.inst id) ∧ t.2.1 = n) ↔
            (∃ t, t ∈ rest ∧ s.getGlobal t.1 = some (.inst id) ∧ t.2.1 = n) := by
          constructor
          · rintro ⟨t, ht, h1, h2⟩
            rcases List.mem_cons.1 ht with rfl | ht'
            · exfalso
              apply hmatch
              have := hg.symm.trans h1
              injection this with this; injection this with this
              exact ⟨this, h2⟩
            · exact ⟨t, ht', h1, h2⟩
          · rintro ⟨t, ht, h1, h2⟩
            exact ⟨t, by simp [ht], h1, h2⟩
        by_cases hc : (∃ t, t ∈ rest ∧ s.getGlobal t.1 = some (.inst id) ∧ t.2.1 = n)
        · have h2 := this.2 hc
          simp only [hc, h2, if_true]
        · have h2 : ¬ (∃ t, t ∈ (prog, var, x) :: rest ∧ s.getGlobal t.1 = some (.inst id) ∧ t.2.1 = n) :=
            fun h => hc (this.1 h)
          simp only [hc, h2, if_false]
    · rename_i hg
      rw [ih s hsome (fun t ht hgt hn => hall t (by simp [ht]) hgt hn)]
      have : (∃ t, t ∈ (prog, var, x) :: rest ∧ s.getGlobal t.1 = some (.inst id) ∧ t.2.1 = n) ↔
          (∃ t, t ∈ rest ∧ s.getGlobal t.1 = some (.inst id) ∧ t.2.1 = n) := by
        constructor
        · rintro ⟨t, ht, h1, h2⟩
          rcases List.mem_cons.1 ht with rfl | ht'
          · exact absurd h1 (hg id)
          · exact ⟨t, ht', h1, h2⟩
        · rintro ⟨t, ht, h1, h2⟩
          exact ⟨t, by simp [ht], h1, h2⟩
      by_cases hc : (∃ t, t ∈ rest ∧ s.getGlobal t.1 = some (.inst id) ∧ t.2.1 = n)
      · have h2 := this.2 hc
        simp only [hc, h2, if_true]
      · have h2 : ¬ (∃ t, t ∈ (prog, var, x) :: rest ∧ s.getGlobal t.1 = some (.inst id) ∧ t.2.1 = n) :=
          fun h => hc (this.1 h)
        simp only [hc, h2, if_false]

/-! ### second loop: which triples are collected -/

theorem mem_collectProgVars (s : Storage) (prog id : Nat) (vars : List VarDef) (t : Nat × Nat × Val) :
    t ∈ collectProgVars s prog id vars ↔
      t.1 = prog ∧ ∃ d, d ∈ vars ∧ d.name = t.2.1 ∧ retainOnWarm d.retain = true ∧
        s.getInstVar id d.name = some t.2.2 ∧ t.2.2.retainable = true := by
  induction vars with
  | nil => simp [collectProgVars]
  | cons d rest ih =>
    simp only [collectProgVars]
    by_cases hr : retainOnWarm d.retain = true
    · simp only [hr, if_true]
      cases hg : s.getInstVar id d.name with
      | none =>
        simp only
        rw [ih]
        constructor
        · rintro ⟨h1, d', hd', h2⟩; exact ⟨h1, d', by simp [hd'], h2⟩
        · rintro ⟨h1, d', hd', h2, h3, h4, h5⟩
          rcases List.mem_cons.1 hd' with rfl | hm
          · rw [hg] at h4; cases h4
          · exact ⟨h1, d', hm, h2, h3, h4, h5⟩
      | some v =>
        simp only
        by_cases hv : v.retainable = true
        · simp only [hv, if_true, List.mem_cons]
          rw [ih]
          constructor
          · rintro (rfl | ⟨h1, d', hd', h2⟩)
            · exact ⟨rfl, d, by simp, rfl, hr, hg, hv⟩
            · exact ⟨h1, d', by simp [hd'], h2⟩
          · rintro ⟨h1, d', hd', h2, h3, h4, h5⟩
            rcases hd' with rfl | hm
            · left
              rw [hg] at h4
              injection h4 with h4
              obtain ⟨a, b, c⟩ := t
              simp only at h1 h2 h4
              subst h1; subst h2; subst h4; rfl
            · right; exact ⟨h1, d', hm, h2, h3, h4, h5⟩
        · have hv' : v.retainable = false := by simpa using hv
          simp only [hv', Bool.false_eq_true, if_false]
          rw [ih]
          constructor
          · rintro ⟨h1, d', hd', h2⟩; exact ⟨h1, d', by simp [hd'], h2⟩
          · rintro ⟨h1, d', hd', h2, h3, h4, h5⟩
            rcases List.mem_cons.1 hd' with rfl | hm
            · rw [hg] at h4; injection h4 with h4; rw [← h4, hv'] at h5; cases h5
            · exact ⟨h1, d', hm, h2, h3, h4, h5⟩
    · have hr' : retainOnWarm d.retain = false := by simpa using hr
      simp only [hr', Bool.false_eq_true, if_false]
      rw [ih]
      constructor
      · rintro ⟨h1, d', hd', h2⟩; exact ⟨h1, d', by simp [hd'], h2⟩
      · rintro ⟨h1, d', hd', h2, h3, h4, h5⟩
        rcases List.mem_cons.1 hd' with rfl | hm
        · rw [hr'] at h3; cases h3
        · exact ⟨h1, d', hm, h2, h3, h4, h5⟩

theorem mem_collectRetainedProgVars (s : Storage) (ps : List ProgDef) (t : Nat × Nat × Val) :
    t ∈ collectRetainedProgVars s ps ↔
      ∃ p, p ∈ ps ∧ ∃ id, s.getGlobal p.name = some (.inst id) ∧
        t ∈ collectProgVars s p.name id p.vars := by
  induction ps with
  | nil => simp [collectRetainedProgVars]
  | cons p rest ih =>
    simp only [collectRetainedProgVars]
    split
    · rename_i id hg
      simp only [List.mem_append, ih]
      constructor
      · rintro (h | ⟨q, hq, h⟩)
        · exact ⟨p, by simp, id, hg, h⟩
        · exact ⟨q, by simp [hq], h⟩
      · rintro ⟨q, hq, id', hg', h⟩
        rcases List.mem_cons.1 hq with rfl | hm
        · left
          have := hg.symm.trans hg'
          injection this with this; injection this with this
          subst this; exact h
        · right; exact ⟨q, hm, id', hg', h⟩
    · rename_i hg
      rw [ih]
      constructor
      · rintro ⟨q, hq, h⟩; exact ⟨q, by simp [hq], h⟩
      · rintro ⟨q, hq, id', hg', h⟩
        rcases List.mem_cons.1 hq with rfl | hm
        · exact absurd hg' (hg id')
        · exact ⟨q, hm, id', hg', h⟩

/-! ### `restart` as a whole -/

/-- Static well-formedness of a runtime's declarations (what the compiler guarantees): distinct
global names, distinct program instance names, distinct variable names per program, and no
global named like a program instance. -/
structure WF (rt : Runtime) : Prop where
  globalsNodup : (rt.globalsMeta.map (·.name)).Nodup
  progsNodup : (rt.programs.map (·.name)).Nodup
  varsNodup : ∀ p, p ∈ rt.programs → (p.vars.map (·.name)).Nodup
  disjoint : ∀ m, m ∈ rt.globalsMeta → ∀ p, p ∈ rt.programs → m.name ≠ p.name

/-- Value of variable `v` of the LIVE instance of program `p` (what `get_output` shows). -/
def Runtime.progVar (rt : Runtime) (p v : Nat) : Option Val :=
  match rt.storage.getGlobal p with
  | some (.inst id) => rt.storage.getInstVar id v
  | _ => none

/-- The globals `restart` keeps, as a function of the mode. -/
def retainedOf (mode : Mode) (rt : Runtime) : List (Nat × Val) :=
  if mode.isWarm then collectRetained rt.storage rt.globalsMeta [] else []

def retainedPvOf (mode : Mode) (rt : Runtime) : List (Nat × Nat × Val) :=
  if mode.isWarm then collectRetainedProgVars rt.storage rt.programs else []

/-- `restart` decomposed into its loops. -/
theorem restart_decompose (mode : Mode) (rt rt' : Runtime) (h : restart mode rt = .ok rt') :
    ∃ s1 s2, resetGlobals rt.fbs mode.isWarm (retainedOf mode rt) rt.storage rt.globalsMeta = .ok s1 ∧
      recreatePrograms rt.fbs s1 rt.programs = .ok s2 ∧
      rt' = { rt with
        storage := { restoreProgVars s2 (retainedPvOf mode rt) with frames := 0 },
        time := 0,
        taskState := rt.tasks.map (fun t =>
          registerTaskState (restoreProgVars s2 (retainedPvOf mode rt)) 0 t.single),
        io := if mode.isWarm then rt.io else rt.io.zeroImages,
        fault := none,
        cycleCounter := 0 } := by
  unfold restart at h
  simp only at h
  cases h1 : resetGlobals rt.fbs mode.isWarm (retainedOf mode rt) rt.storage rt.globalsMeta with
  | error e => simp only [retainedOf] at h1; rw [h1] at h; cases h
  | ok s1 =>
    simp only [retainedOf] at h1
    rw [h1] at h
    dsimp only at h
    cases h2 : recreatePrograms rt.fbs s1 rt.programs with
    | error e => rw [h2] at h; cases h
    | ok s2 =>
      rw [h2] at h
      dsimp only at h
      injection h with h
      exact ⟨s1, s2, rfl, h2, h.symm⟩

theorem aget_retainedOf (mode : Mode) (rt : Runtime) (n : Nat) :
    aget (retainedOf mode rt) n =
      if mode.isWarm then retainedVal rt.storage rt.globalsMeta n else none := by
  unfold retainedOf
  cases mode with
  | cold => simp [Mode.isWarm, aget]
  | warm =>
    simp only [Mode.isWarm, if_true]
    rw [aget_collectRetained]
    cases retainedVal rt.storage rt.globalsMeta n <;> simp [aget]

theorem retainedVal_of_mem (s : Storage) (ms : List GlobalMeta) (m : GlobalMeta) (hm : m ∈ ms)
    (hr : retainOnWarm m.retain = true) : retainedVal s ms m.name = s.getGlobal m.name := by
  unfold retainedVal
  have : ms.any (fun x => x.name == m.name && retainOnWarm x.retain) = true := by
    rw [List.any_eq_true]
    exact ⟨m, hm, by simp [hr]⟩
  simp [this]

/-- Global values after `restart`, in terms of the storage after the third loop. -/
theorem restart_getGlobal (mode : Mode) (rt rt' : Runtime) (hwf : WF rt)
    (h : restart mode rt = .ok rt') :
    ∃ s1 s2, resetGlobals rt.fbs mode.isWarm (retainedOf mode rt) rt.storage rt.globalsMeta = .ok s1 ∧
      recreatePrograms rt.fbs s1 rt.programs = .ok s2 ∧
      rt'.storage = { restoreProgVars s2 (retainedPvOf mode rt) with frames := 0 } ∧
      (∀ n, rt'.storage.getGlobal n = s2.getGlobal n) ∧
      (∀ m, m ∈ rt.globalsMeta → rt'.storage.getGlobal m.name = s1.getGlobal m.name) := by
  obtain ⟨s1, s2, h1, h2, h3⟩ := restart_decompose mode rt rt' h
  refine ⟨s1, s2, h1, h2, by rw [h3], ?_, ?_⟩
  · intro n
    rw [h3]
    simp [Storage.getGlobal, (restoreProgVars_frame _ s2).1]
  · intro m hm
    obtain ⟨_, t2, _⟩ := recreatePrograms_spec rt.fbs rt.programs s1 s2 h2 hwf.progsNodup hwf.varsNodup
    rw [h3]
    have : m.name ∉ rt.programs.map (·.name) := by
      intro hc
      obtain ⟨p, hp, hpn⟩ := List.mem_map.1 hc
      exact hwf.disjoint m hm p hp hpn.symm
    simp only [Storage.getGlobal, (restoreProgVars_frame _ s2).1]
    exact t2 m.name this

/-- The fifth loop only writes into instances that some triple's program global points at. -/
theorem restoreProgVars_getInstance_other (j : Nat) (l : List (Nat × Nat × Val)) :
    ∀ (s : Storage), (∀ t id, t ∈ l → s.getGlobal t.1 = some (.inst id) → id ≠ j) →
      (restoreProgVars s l).getInstance j = s.getInstance j := by
  induction l with
  | nil => intro s _; rfl
  | cons t rest ih =>
    intro s hall
    obtain ⟨prog, var, x⟩ := t
    simp only [restoreProgVars]
    split
    · rename_i id hg
      rw [ih (s.setInstVar id var x) (fun t id' ht hgt => hall t id' (by simp [ht]) (by simpa using hgt))]
      rw [getInstance_setInstVar]
      have : j ≠ id := fun e => hall (prog, var, x) id (by simp) hg e.symm
      simp [this]
    · exact ih s (fun t id' ht hgt => hall t id' (by simp [ht]) hgt)

/-- No restart touches an instance that existed before it (the old program instances stay in the
table, a retained FB-typed global keeps its whole instance). -/
theorem restart_old_instances (mode : Mode) (rt rt' : Runtime) (hwf : WF rt)
    (h : restart mode rt = .ok rt') (id : Nat) (hid : id < rt.storage.nextId) :
    rt'.storage.getInstance id = rt.storage.getInstance id := by
  obtain ⟨s1, s2, h1, h2, h3⟩ := restart_decompose mode rt rt' h
  obtain ⟨i1, _, _⟩ := resetGlobals_spec rt.fbs _ _ rt.globalsMeta rt.storage s1 h1 hwf.globalsNodup
  obtain ⟨i2, _, t3⟩ := recreatePrograms_spec rt.fbs rt.programs s1 s2 h2 hwf.progsNodup hwf.varsNodup
  rw [h3]
  show (restoreProgVars s2 (retainedPvOf mode rt)).getInstance id = _
  rw [restoreProgVars_getInstance_other id _ s2, i2.old id (by have := i1.next; omega), i1.old id hid]
  intro t id' ht hg
  unfold retainedPvOf at ht
  cases hw : mode.isWarm with
  | false => simp [hw] at ht
  | true =>
    simp only [hw, if_true] at ht
    obtain ⟨q, hq, oid, _, hmem⟩ := (mem_collectRetainedProgVars _ _ _).1 ht
    obtain ⟨hq1, _⟩ := (mem_collectProgVars _ _ _ _ _).1 hmem
    obtain ⟨nid, hpost⟩ := t3 q hq
    rw [hq1, hpost.1] at hg
    injection hg with hg; injection hg with hg
    subst hg
    have := hpost.2.1
    have := i1.next
    omega

/-! ### retain snapshots -/

/-- What `retain_snapshot` stores for a name. -/
def snapVal (s : Storage) (ms : List GlobalMeta) (n : Nat) : Option Val :=
  if ms.any (fun m => m.name == n && retainOnWarm m.retain) then
    (s.getGlobal n).filter Val.retainable
  else none

theorem aget_retainSnapshotAux (s : Storage) (ms : List GlobalMeta) :
    ∀ (acc : Snapshot) (n : Nat),
      aget (retainSnapshotAux s ms acc) n =
        match snapVal s ms n with
        | some v => some v
        | none => aget acc n := by
  induction ms with
  | nil => intro acc n; simp [retainSnapshotAux, snapVal]
  | cons m rest ih =>
    intro acc n
    simp only [retainSnapshotAux]
    by_cases hr : retainOnWarm m.retain = true
    · simp only [hr, if_true]
      cases hg : s.getGlobal m.name with
      | none =>
        simp only
        rw [ih]
        by_cases hn : m.name = n
        · subst hn; simp [snapVal, hg, Option.filter]
        · simp [snapVal, hn, hr]
      | some v =>
        simp only
        by_cases hv : v.retainable = true
        · simp only [hv, if_true]
          rw [ih]
          by_cases hn : m.name = n
          · subst hn
            simp [snapVal, hr, hg, Option.filter, hv, aget_aset_same]
            split <;> simp_all
          · have : (m.name == n) = false := by simp [hn]
            simp [snapVal, this, aget_aset_ne _ _ _ _ hn]
        · have hv' : v.retainable = false := by simpa using hv
          simp only [hv', Bool.false_eq_true, if_false]
          rw [ih]
          by_cases hn : m.name = n
          · subst hn; simp [snapVal, hg, Option.filter, hv']
          · have : (m.name == n) = false := by simp [hn]
            simp [snapVal, this]
    · have hr' : retainOnWarm m.retain = false := by simpa using hr
      simp only [hr', Bool.false_eq_true, if_false]
      rw [ih]
      simp [snapVal, hr']

theorem keys_retainSnapshotAux_nodup (s : Storage) (ms : List GlobalMeta) :
    ∀ (acc : Snapshot), (keys acc).Nodup → (keys (retainSnapshotAux s ms acc)).Nodup := by
  induction ms with
  | nil => intro acc h; simpa [retainSnapshotAux] using h
  | cons m rest ih =>
    intro acc h
    simp only [retainSnapshotAux]
    split
    · split
      · split
        · exact ih _ (keys_aset_nodup _ _ _ h)
        · exact ih _ h
      · exact ih _ h
    · exact ih _ h

theorem snapVal_of_mem (s : Storage) (ms : List GlobalMeta) (m : GlobalMeta) (hm : m ∈ ms)
    (hr : retainOnWarm m.retain = true) :
    snapVal s ms m.name = (s.getGlobal m.name).filter Val.retainable := by
  unfold snapVal
  have : ms.any (fun x => x.name == m.name && retainOnWarm x.retain) = true := by
    rw [List.any_eq_true]; exact ⟨m, hm, by simp [hr]⟩
  simp [this]

theorem findMeta_of_mem (ms : List GlobalMeta) (hnd : (ms.map (·.name)).Nodup) (m : GlobalMeta)
    (hm : m ∈ ms) : findMeta ms m.name = some m := by
  induction ms with
  | nil => cases hm
  | cons x rest ih =>
    simp only [List.map_cons, List.nodup_cons] at hnd
    rcases List.mem_cons.1 hm with rfl | hm'
    · simp [findMeta]
    · have hne : x.name ≠ m.name := fun e => hnd.1 (e ▸ List.mem_map.2 ⟨m, hm', rfl⟩)
      have : (x.name == m.name) = false := by simp [hne]
      simp only [findMeta, List.find?_cons, this]
      exact ih hnd.2 hm'

theorem applySnapshotAux_frame (ms : List GlobalMeta) (snap : Snapshot) :
    ∀ (s : Storage), (applySnapshotAux ms s snap).instances = s.instances ∧
      (applySnapshotAux ms s snap).nextId = s.nextId ∧ (applySnapshotAux ms s snap).frames = s.frames := by
  induction snap with
  | nil => intro s; simp [applySnapshotAux]
  | cons p rest ih =>
    intro s
    obtain ⟨n, v⟩ := p
    simp only [applySnapshotAux]
    split
    · split
      · have := ih (s.setGlobal n v); simpa [Storage.setGlobal] using this
      · exact ih s
    · exact ih s

theorem applySnapshotAux_not_mem (ms : List GlobalMeta) (snap : Snapshot) (n : Nat) :
    ∀ (s : Storage), n ∉ keys snap → (applySnapshotAux ms s snap).getGlobal n = s.getGlobal n := by
  induction snap with
  | nil => intro s _; simp [applySnapshotAux]
  | cons p rest ih =>
    intro s hn
    obtain ⟨k, v⟩ := p
    simp only [keys, List.map_cons, List.mem_cons, not_or] at hn
    have hn2 : n ∉ keys rest := by simpa [keys] using hn.2
    simp only [applySnapshotAux]
    split
    · split
      · rw [ih _ hn2, getGlobal_setGlobal_ne _ _ _ _ (fun e => hn.1 e.symm)]
      · exact ih s hn2
    · exact ih s hn2

/-- `apply_retain_snapshot` for one name (snapshot keys are distinct). -/
theorem applySnapshotAux_spec (ms : List GlobalMeta) (snap : Snapshot) (n : Nat) :
    ∀ (s : Storage), (keys snap).Nodup →
      (applySnapshotAux ms s snap).getGlobal n =
        match aget snap n with
        | some v =>
          if (match findMeta ms n with | some m => retainOnWarm m.retain | none => false) && v.retainable
          then some v else s.getGlobal n
        | none => s.getGlobal n := by
  induction snap with
  | nil => intro s _; simp [applySnapshotAux, aget]
  | cons p rest ih =>
    intro s hnd
    obtain ⟨k, v⟩ := p
    simp only [keys, List.map_cons, List.nodup_cons] at hnd
    by_cases hk : k = n
    · subst hk
      have hn2 : k ∉ keys rest := by simpa [keys] using hnd.1
      simp only [applySnapshotAux, aget, if_true]
      cases hf : findMeta ms k with
      | none => simp [applySnapshotAux_not_mem ms rest k s hn2]
      | some m =>
        simp only
        by_cases hc : (retainOnWarm m.retain && v.retainable) = true
        · simp only [hc, if_true]
          rw [applySnapshotAux_not_mem ms rest k _ hn2]; simp
        · simp only [hc, Bool.false_eq_true, if_false]
          exact applySnapshotAux_not_mem ms rest k s hn2
    · simp only [applySnapshotAux, aget, hk, if_false]
      have hnd2 : (keys rest).Nodup := by simpa [keys] using hnd.2
      split
      · split
        · rw [ih _ hnd2]
          cases aget rest n with
          | none => simp [getGlobal_setGlobal_ne _ _ _ _ hk]
          | some w => simp [getGlobal_setGlobal_ne _ _ _ _ hk]
        · exact ih s hnd2
      · exact ih s hnd2

/-! ### cold restart versus build: observation by path is determined by the declarations -/

def Val.isInst : Val → Bool
  | .inst _ => true
  | _ => false

theorem obs_member_of_not_inst (s : Storage) (v : Val) (k : Nat) (h : v.isInst = false) :
    (match some v with
     | some (.inst j) => (s.getInstVar j k).map obsVal
     | _ => none) = none := by
  cases v <;> simp_all [Val.isInst]

/-- Storage-level `readGlobalPath`. -/
def readGP (s : Storage) (g : Nat) (member : Option Nat) : Option Val :=
  match member with
  | none => (s.getGlobal g).map obsVal
  | some m =>
    match s.getGlobal g with
    | some (.inst j) => (s.getInstVar j m).map obsVal
    | _ => none

/-- Storage-level `readProgPath`. -/
def readPP (s : Storage) (p v : Nat) (member : Option Nat) : Option Val :=
  match s.getGlobal p with
  | some (.inst id) =>
    match member with
    | none => (s.getInstVar id v).map obsVal
    | some m =>
      match s.getInstVar id v with
      | some (.inst j) => (s.getInstVar j m).map obsVal
      | _ => none
  | _ => none

theorem readGlobalPath_eq (rt : Runtime) (g : Nat) (member : Option Nat) :
    rt.readGlobalPath g member = readGP rt.storage g member := rfl

theorem readProgPath_eq (rt : Runtime) (p v : Nat) (member : Option Nat) :
    rt.readProgPath p v member = readPP rt.storage p v member := rfl

/-- What a declared global shows after initialisation, from its declaration alone. -/
def expG (fbs : List FbDef) (m : GlobalMeta) (member : Option Nat) : Option Val :=
  match m.init, member with
  | .value v, none => some (obsVal v)
  | .value _, some _ => none
  | .fb _, none => some (.inst 0)
  | .fb ty, some k =>
    match findFb fbs ty with
    | some fb => (aget (membersMap [] fb.members) k).map obsVal
    | none => none

/-- What a declared program variable shows after initialisation. -/
def expP (fbs : List FbDef) (d : VarDef) (member : Option Nat) : Option Val :=
  match d.init, member with
  | .plain v, none => some (obsVal v)
  | .plain _, some _ => none
  | .ext, _ => none
  | .expr _ _, _ => none
  | .fb _, none => some (.inst 0)
  | .fb ty, some k =>
    match findFb fbs ty with
    | some fb => (aget (membersMap [] fb.members) k).map obsVal
    | none => none

def GInit.plainOk : GInit → Bool
  | .value v => !v.isInst
  | .fb _ => true

/-- Constant initialisers only: an initialiser EXPRESSION (`.expr`) has no value that the
declarations alone determine; what a restart does with it is `restart_expr_var` /
`c09_expr_init_after_restart`. -/
def VInit.plainOk : VInit → Bool
  | .plain v => !v.isInst
  | .expr _ _ => false
  | _ => true

/-- Initial values are values, not instance handles (the compiler never produces such a
declaration). -/
structure PlainInits (metas : List GlobalMeta) (progs : List ProgDef) : Prop where
  globals : ∀ m, m ∈ metas → m.init.plainOk = true
  vars : ∀ p, p ∈ progs → ∀ d, d ∈ p.vars → d.init.plainOk = true

/-- After the third and fourth loop (cold), every path shows what the declarations say —
independently of the storage the loops started from. -/
theorem cold_paths (fbs : List FbDef) (metas : List GlobalMeta) (progs : List ProgDef)
    (s0 s1 s2 : Storage)
    (h1 : resetGlobals fbs false [] s0 metas = .ok s1) (h2 : recreatePrograms fbs s1 progs = .ok s2)
    (hg : (metas.map (·.name)).Nodup) (hp : (progs.map (·.name)).Nodup)
    (hv : ∀ p, p ∈ progs → (p.vars.map (·.name)).Nodup)
    (hdis : ∀ m, m ∈ metas → ∀ p, p ∈ progs → m.name ≠ p.name) (hpl : PlainInits metas progs) :
    (∀ m member, m ∈ metas → readGP s2 m.name member = expG fbs m member) ∧
    (∀ p d member, p ∈ progs → d ∈ p.vars → d.init ≠ .ext →
      readPP s2 p.name d.name member = expP fbs d member) := by
  obtain ⟨_, _, g3⟩ := resetGlobals_spec fbs false [] metas s0 s1 h1 hg
  obtain ⟨t1, t2, t3⟩ := recreatePrograms_spec fbs progs s1 s2 h2 hp hv
  constructor
  · intro m member hm
    have hnot : m.name ∉ progs.map (·.name) := by
      intro hc
      obtain ⟨p, hpp, hpn⟩ := List.mem_map.1 hc
      exact hdis m hm p hpp hpn.symm
    have hgl : s2.getGlobal m.name = s1.getGlobal m.name := t2 _ hnot
    have post := g3 m hm
    unfold GlobalPost at post
    simp only [Bool.false_and, Bool.false_eq_true, if_false] at post
    unfold readGP expG
    rw [hgl]
    cases hi : m.init with
    | value v =>
      simp only [hi] at post
      rw [post]
      cases member with
      | none => simp
      | some k =>
        simp only
        exact obs_member_of_not_inst s2 v k (by have := hpl.globals m hm; simpa [hi, GInit.plainOk] using this)
    | fb ty =>
      simp only [hi] at post
      obtain ⟨j, fb, a1, a2, a3, a4, a5⟩ := post
      rw [a1]
      cases member with
      | none => simp [obsVal]
      | some k =>
        simp only [a4]
        have : s2.getInstVar j k = aget (membersMap [] fb.members) k := by
          simp [Storage.getInstVar, t1.old j a3, a5]
        rw [this]
  · intro p d member hpp hd hne
    obtain ⟨id, q1, q2, q3, q4, q5⟩ := t3 p hpp
    have post := q5 d hd
    unfold readPP expP
    rw [q1]
    simp only
    cases hi : d.init with
    | plain v =>
      simp only [hi] at post
      rw [post]
      cases member with
      | none => simp
      | some k =>
        simp only
        exact obs_member_of_not_inst s2 v k (by have := hpl.vars p hpp d hd; simpa [hi, VInit.plainOk] using this)
    | ext => exact absurd hi hne
    | expr ty e => exact absurd (hpl.vars p hpp d hd) (by simp [hi, VInit.plainOk])
    | fb ty =>
      simp only [hi] at post
      obtain ⟨j, fb, a1, a2, a3, a4, a5⟩ := post
      rw [a1]
      cases member with
      | none => simp [obsVal]
      | some k =>
        simp only [a4]
        have : s2.getInstVar j k = aget (membersMap [] fb.members) k := by
          simp [Storage.getInstVar, a5]
        rw [this]

/-- After any restart an FB-typed program variable holds a NEW instance whose members have their
initial values (provided the old value was an instance handle, i.e. not retainable). -/
theorem restart_program_fb (mode : Mode) (rt rt' : Runtime) (hwf : WF rt)
    (h : restart mode rt = .ok rt') (p : ProgDef) (hp : p ∈ rt.programs) (d : VarDef)
    (hd : d ∈ p.vars) (ty : Nat) (hi : d.init = .fb ty)
    (hold : ∀ v, rt.progVar p.name d.name = some v → v.retainable = false) :
    ∃ fb, findFb rt.fbs ty = some fb ∧ readPP rt'.storage p.name d.name none = some (.inst 0) ∧
      ∀ k, readPP rt'.storage p.name d.name (some k) = (aget (membersMap [] fb.members) k).map obsVal := by
  obtain ⟨s1, s2, h1, h2, h3⟩ := restart_decompose mode rt rt' h
  obtain ⟨_, _, t3⟩ := recreatePrograms_spec rt.fbs rt.programs s1 s2 h2 hwf.progsNodup hwf.varsNodup
  obtain ⟨id, q1, q2, q3, q4, q5⟩ := t3 p hp
  have hdist := recreatePrograms_distinct rt.fbs rt.programs s1 s2 h2 hwf.progsNodup hwf.varsNodup
  have hnest := recreatePrograms_nested_ne rt.fbs rt.programs s1 s2 h2 hwf.progsNodup hwf.varsNodup
  have post := q5 d hd
  simp only [hi] at post
  obtain ⟨j, fb, a1, a2, a3, a4, a5⟩ := post
  have hst : rt'.storage = { restoreProgVars s2 (retainedPvOf mode rt) with frames := 0 } := by rw [h3]
  have hgl : ∀ n, rt'.storage.getGlobal n = s2.getGlobal n := by
    intro n; rw [hst]; simp [Storage.getGlobal, (restoreProgVars_frame _ s2).1]
  -- the programs the collected triples name
  have triple_prog : ∀ t, t ∈ retainedPvOf mode rt → ∃ q, q ∈ rt.programs ∧ t.1 = q.name ∧
      ∃ oid d', rt.storage.getGlobal q.name = some (.inst oid) ∧ d' ∈ q.vars ∧ d'.name = t.2.1 ∧
        rt.storage.getInstVar oid d'.name = some t.2.2 ∧ t.2.2.retainable = true := by
    intro t ht
    unfold retainedPvOf at ht
    cases hw : mode.isWarm with
    | false => simp [hw] at ht
    | true =>
      simp only [hw, if_true] at ht
      obtain ⟨q, hq, oid, hgo, hmem⟩ := (mem_collectRetainedProgVars _ _ _).1 ht
      obtain ⟨hq1, d', hd', hn', _, hv', hret'⟩ := (mem_collectProgVars _ _ _ _ _).1 hmem
      exact ⟨q, hq, hq1, oid, d', hgo, hd', hn', hv', hret'⟩
  -- the variable itself is not overwritten by the fifth loop
  have hvar : rt'.storage.getInstVar id d.name = some (.inst j) := by
    rw [hst]
    show (restoreProgVars s2 (retainedPvOf mode rt)).getInstVar id d.name = _
    rw [restoreProgVars_value id d.name .null _ s2 q4]
    · have : ¬ ∃ t, t ∈ retainedPvOf mode rt ∧ s2.getGlobal t.1 = some (.inst id) ∧ t.2.1 = d.name := by
        rintro ⟨t, ht, hres, hname⟩
        obtain ⟨q, hq, hq1, oid, d', hgo, hd', hn', hv', hret'⟩ := triple_prog t ht
        have hqp : q.name = p.name := hdist q p id hq hp (by rw [← hq1]; exact hres) q1
        have hqeq : q = p := nodup_map_inj (·.name) _ hwf.progsNodup q p hq hp hqp
        subst hqeq
        have hdd : d' = d := nodup_map_inj (·.name) _ (hwf.varsNodup q hq) d' d hd' hd (hn'.trans hname)
        subst hdd
        have := hold t.2.2 (by unfold Runtime.progVar; rw [hgo]; exact hv')
        rw [this] at hret'; cases hret'
      simp only [this, if_false]; exact a1
    · intro t ht hres hname
      exfalso
      obtain ⟨q, hq, hq1, oid, d', hgo, hd', hn', hv', hret'⟩ := triple_prog t ht
      have hqp : q.name = p.name := hdist q p id hq hp (by rw [← hq1]; exact hres) q1
      have hqeq : q = p := nodup_map_inj (·.name) _ hwf.progsNodup q p hq hp hqp
      subst hqeq
      have hdd : d' = d := nodup_map_inj (·.name) _ (hwf.varsNodup q hq) d' d hd' hd (hn'.trans hname)
      subst hdd
      have := hold t.2.2 (by unfold Runtime.progVar; rw [hgo]; exact hv')
      rw [this] at hret'; cases hret'
  -- the nested instance is not written either
  have hinst : rt'.storage.getInstance j = s2.getInstance j := by
    rw [hst]
    show (restoreProgVars s2 (retainedPvOf mode rt)).getInstance j = _
    apply restoreProgVars_getInstance_other
    intro t idq ht hres
    obtain ⟨q, hq, hq1, _⟩ := triple_prog t ht
    exact fun e => hnest p q d ty id idq j hp hq hd hi q1 (by rw [← hq1]; exact hres) a1 e.symm
  refine ⟨fb, a4, ?_, ?_⟩
  · unfold readPP; rw [hgl, q1]; simp [hvar, obsVal]
  · intro k
    unfold readPP; rw [hgl, q1]
    simp only [hvar]
    simp [Storage.getInstVar, hinst, a5]

/-! ### the build sequence, storage part -/

def GlobalDecl.toMeta (g : GlobalDecl) : GlobalMeta := { name := g.name, retain := g.retain, init := g.init }

theorem buildGlobals_eq (fbs : List FbDef) (gs : List GlobalDecl) :
    ∀ (s : Storage), buildGlobals fbs s gs = resetGlobals fbs false [] s (gs.map GlobalDecl.toMeta) := by
  induction gs with
  | nil => intro s; rfl
  | cons g rest ih =>
    intro s
    simp only [buildGlobals, List.map_cons, resetGlobals, Bool.false_and, Bool.false_eq_true, if_false,
      GlobalDecl.toMeta]
    cases hi : g.init with
    | value v => simp only; exact ih _
    | fb ty =>
      simp only
      cases createFbInstance fbs s ty with
      | error e => rfl
      | ok r => obtain ⟨s1, id⟩ := r; simp only; exact ih _

theorem buildPrograms_storage (fbd : List FbDecl) (fbs : List FbDef) (ps : List ProgDecl) :
    ∀ (s s' : Storage) (bs : List IoBinding), buildPrograms fbd fbs s ps = .ok (s', bs) →
      recreatePrograms fbs s (ps.map ProgDecl.toDef) = .ok s' := by
  induction ps with
  | nil =>
    intro s s' bs h
    simp only [buildPrograms] at h
    injection h with h; injection h with h1 _
    subst h1; rfl
  | cons p rest ih =>
    intro s s' bs h
    simp only [buildPrograms] at h
    simp only [List.map_cons, recreatePrograms]
    cases hc : createProgramInstance fbs s p.toDef with
    | error e => rw [hc] at h; cases h
    | ok r =>
      obtain ⟨s1, id⟩ := r
      rw [hc] at h
      dsimp only at h ⊢
      cases hb : buildPrograms fbd fbs (s1.setGlobal p.name (.inst id)) rest with
      | error e => rw [hb] at h; cases h
      | ok r2 =>
        obtain ⟨s3, bs'⟩ := r2
        rw [hb] at h
        dsimp only at h
        injection h with h; injection h with h1 _
        subst h1
        exact ih _ _ _ hb

/-- The storage and the scalar state a build without VAR_CONFIG values produces. -/
theorem build_spec (src : Source) (fr : Runtime) (h : build src = some fr)
    (hci : src.configInits = []) (hnd : (src.globals.map (·.name)).Nodup) :
    ∃ s1 s2, resetGlobals src.fbDefs false [] {} (src.globals.map GlobalDecl.toMeta) = .ok s1 ∧
      recreatePrograms src.fbDefs s1 (src.programs.map ProgDecl.toDef) = .ok s2 ∧
      fr.storage = s2 ∧ fr.globalsMeta = src.globals.map GlobalDecl.toMeta ∧
      fr.fbs = src.fbDefs ∧ fr.programs = src.programs.map ProgDecl.toDef ∧
      fr.time = 0 ∧ fr.fault = none ∧ fr.cycleCounter = 0 ∧
      fr.taskState = src.tasks.map (fun t => registerTaskState s2 0 t.single) ∧
      fr.io.inputs = [] ∧ fr.io.outputs = [] ∧ fr.io.memory = [] ∧
      fr.tasks.map (·.single) = src.tasks.map (·.single) := by
  unfold build at h
  simp only at h
  cases hb : buildGlobals src.fbDefs {} src.globals with
  | error e => rw [hb] at h; cases h
  | ok s1 =>
    rw [hb] at h
    dsimp only at h
    cases hp : buildPrograms src.fbs src.fbDefs s1 src.programs with
    | error e => rw [hp] at h; cases h
    | ok r =>
      obtain ⟨s2, pb⟩ := r
      rw [hp] at h
      dsimp only at h
      rw [hci] at h
      simp only [applyConfigInits] at h
      split at h
      · cases h
      · injection h with h
        have hb' := hb
        rw [buildGlobals_eq] at hb'
        have hnd' : ((src.globals.map GlobalDecl.toMeta).map (·.name)).Nodup := by
          simpa [List.map_map, GlobalDecl.toMeta, Function.comp_def] using hnd
        obtain ⟨_, _, g3⟩ := resetGlobals_spec src.fbDefs false [] _ {} s1 hb' hnd'
        refine ⟨s1, s2, hb', buildPrograms_storage _ _ _ _ _ _ hp, ?_, ?_, ?_, ?_, ?_, ?_, ?_, ?_, ?_, ?_, ?_, ?_⟩
        · rw [← h]
        · rw [← h]
          simp only
          apply List.map_congr_left
          intro g hgm
          have post := g3 g.toMeta (List.mem_map.2 ⟨g, hgm, rfl⟩)
          unfold GlobalPost at post
          simp only [Bool.false_and, Bool.false_eq_true, if_false, GlobalDecl.toMeta] at post
          simp only [GlobalDecl.toMeta]
          cases hi : g.init with
          | value v => simp only [hi] at post; simp [post]
          | fb ty => rfl
        all_goals (rw [← h])
        simp [List.map_map, Function.comp_def]

/-- The declarations a build records (no hypothesis on names needed for the program part). -/
theorem build_spec_meta (src : Source) (fr : Runtime) (h : build src = some fr) :
    fr.fbs = src.fbDefs ∧ fr.programs = src.programs.map ProgDecl.toDef ∧ fr.time = 0 ∧
    fr.fault = none ∧ fr.cycleCounter = 0 ∧
    (fr.globalsMeta.map (·.name)) = src.globals.map (·.name) ∧ fr.retain = none := by
  unfold build at h
  simp only at h
  cases hb : buildGlobals src.fbDefs {} src.globals with
  | error e => rw [hb] at h; cases h
  | ok s1 =>
    rw [hb] at h
    dsimp only at h
    cases hp : buildPrograms src.fbs src.fbDefs s1 src.programs with
    | error e => rw [hp] at h; cases h
    | ok r =>
      obtain ⟨s2, pb⟩ := r
      rw [hp] at h
      dsimp only at h
      cases hc : applyConfigInits s2 src.configInits with
      | none => rw [hc] at h; cases h
      | some s3 =>
        rw [hc] at h
        dsimp only at h
        split at h
        · cases h
        · injection h with h
          subst h
          simp [List.map_map, Function.comp_def]


/-! ### `RetainManager::save_snapshot`: what an `Ok` means -/

/-- The manager's memory is backed by the medium: what it believes written IS the file.  Holds
after `configure` (nothing remembered) and is preserved by every save, failing or not. -/
def MgrConsistent (m : RetainMgr) (d : Disk) : Prop :=
  ∀ l, m.lastSnapshot = some l → d.file = some l

/-- "`f` is `snap` up to the manager's equality test". -/
def HoldsUpToEq (d : Disk) (snap : Snapshot) : Prop :=
  ∃ f, d.file = some f ∧ (f = snap ∨ snapEq f snap = true)

/-- `self.last_snapshot.as_ref() == Some(&snapshot)`. -/
def RetainMgr.unchanged (m : RetainMgr) (snap : Snapshot) : Bool :=
  match m.lastSnapshot with
  | some l => snapEq l snap
  | none => false

theorem saveSnapshot_eq (m : RetainMgr) (snap : Snapshot) (now : Int) (d : Disk) :
    m.saveSnapshot snap now d =
      if m.unchanged snap then ({ m with dirty := false, lastSave := now }, d, none)
      else if d.writable then
        ({ m with lastSnapshot := some snap, dirty := false, lastSave := now },
         { d with file := some snap }, none)
      else (m, d, some .retainStore) := rfl

theorem saveSnapshot_ok (m m' : RetainMgr) (snap : Snapshot) (now : Int) (d d' : Disk)
    (hc : MgrConsistent m d) (h : m.saveSnapshot snap now d = (m', d', none)) :
    HoldsUpToEq d' snap ∧ MgrConsistent m' d' := by
  rw [saveSnapshot_eq] at h
  cases hu : m.unchanged snap with
  | true =>
    simp only [hu, if_true, Prod.mk.injEq, and_true] at h
    obtain ⟨h1, h2⟩ := h
    subst h1; subst h2
    unfold RetainMgr.unchanged at hu
    cases hl : m.lastSnapshot with
    | none => simp [hl] at hu
    | some l =>
      simp only [hl] at hu
      exact ⟨⟨l, hc l hl, Or.inr hu⟩, fun l' hl' => hc l' (hl.trans (by simpa [hl] using hl'))⟩
  | false =>
    simp only [hu, Bool.false_eq_true, if_false] at h
    cases hw : d.writable with
    | true =>
      simp only [hw, if_true, Prod.mk.injEq, and_true] at h
      obtain ⟨h1, h2⟩ := h
      subst h1; subst h2
      refine ⟨⟨snap, rfl, Or.inl rfl⟩, ?_⟩
      intro l' hl'
      simp only [Option.some.injEq] at hl'
      subst hl'; rfl
    | false =>
      simp only [hw, Bool.false_eq_true, if_false, Prod.mk.injEq] at h
      exact absurd h.2.2 (by simp)

theorem saveSnapshot_err (m m' : RetainMgr) (snap : Snapshot) (now : Int) (d d' : Disk) (e : Err)
    (h : m.saveSnapshot snap now d = (m', d', some e)) : m' = m ∧ d' = d ∧ d.writable = false := by
  rw [saveSnapshot_eq] at h
  cases hu : m.unchanged snap with
  | true =>
    simp only [hu, if_true, Prod.mk.injEq] at h
    exact absurd h.2.2 (by simp)
  | false =>
    simp only [hu, Bool.false_eq_true, if_false] at h
    cases hw : d.writable with
    | true =>
      simp only [hw, if_true, Prod.mk.injEq] at h
      exact absurd h.2.2 (by simp)
    | false =>
      simp only [hw, Bool.false_eq_true, if_false, Prod.mk.injEq] at h
      exact ⟨h.1.symm, h.2.1.symm, rfl⟩

/-- One save call of a history: the retained values at that moment, the clock, and whether the
medium accepts a write. -/
structure SaveCall where
  snap : Snapshot
  now : Int
  writable : Bool

/-- A whole sequence of save calls; returns the manager, the medium and the result of the LAST
call (`none` for the empty sequence). -/
def runSaves : RetainMgr → Disk → List SaveCall → RetainMgr × Disk × Option (Option Err)
  | m, d, [] => (m, d, none)
  | m, d, [c] =>
    let r := m.saveSnapshot c.snap c.now { d with writable := c.writable }
    (r.1, r.2.1, some r.2.2)
  | m, d, c :: c' :: rest =>
    let r := m.saveSnapshot c.snap c.now { d with writable := c.writable }
    runSaves r.1 r.2.1 (c' :: rest)

theorem saveSnapshot_consistent (m : RetainMgr) (snap : Snapshot) (now : Int) (d : Disk)
    (hc : MgrConsistent m d) :
    MgrConsistent (m.saveSnapshot snap now d).1 (m.saveSnapshot snap now d).2.1 := by
  cases hr : m.saveSnapshot snap now d with
  | mk m' r =>
    obtain ⟨d', res⟩ := r
    cases res with
    | none => exact (saveSnapshot_ok m m' snap now d d' hc hr).2
    | some e =>
      obtain ⟨h1, h2, _⟩ := saveSnapshot_err m m' snap now d d' e hr
      simp only
      rw [h1, h2]; exact hc

theorem runSaves_spec : ∀ (calls : List SaveCall) (m : RetainMgr) (d : Disk), MgrConsistent m d →
    MgrConsistent (runSaves m d calls).1 (runSaves m d calls).2.1 ∧
    ∀ c, calls.getLast? = some c → (runSaves m d calls).2.2 = some none →
      HoldsUpToEq (runSaves m d calls).2.1 c.snap
  | [], m, d, hc => ⟨hc, fun c h => by simp at h⟩
  | [c0], m, d, hc => by
    have hc' : MgrConsistent m { d with writable := c0.writable } := fun l hl => hc l hl
    refine ⟨saveSnapshot_consistent m c0.snap c0.now _ hc', ?_⟩
    intro c hl hres
    simp only [List.getLast?_singleton, Option.some.injEq] at hl
    subst hl
    simp only [runSaves, Option.some.injEq] at hres ⊢
    cases hr : m.saveSnapshot c0.snap c0.now { d with writable := c0.writable } with
    | mk m' r =>
      obtain ⟨d', res⟩ := r
      rw [hr] at hres
      simp only at hres
      subst hres
      exact (saveSnapshot_ok m m' c0.snap c0.now _ d' hc' hr).1
  | c0 :: c1 :: rest, m, d, hc => by
    have hc' : MgrConsistent m { d with writable := c0.writable } := fun l hl => hc l hl
    have hstep := saveSnapshot_consistent m c0.snap c0.now _ hc'
    have ih := runSaves_spec (c1 :: rest) _ _ hstep
    simp only [runSaves]
    refine ⟨ih.1, ?_⟩
    intro c hl hres
    exact ih.2 c (by simpa [List.getLast?_cons_cons] using hl) hres

/-! ### task seeding and zeroed images -/

theorem registerTaskState_congr (s s' : Storage) (single : Option Nat)
    (h : ∀ n, single = some n → (s.getGlobal n).map obsVal = (s'.getGlobal n).map obsVal) :
    registerTaskState s 0 single = registerTaskState s' 0 single := by
  cases single with
  | none => rfl
  | some n =>
    have hn := h n rfl
    unfold registerTaskState
    simp only
    cases ha : s.getGlobal n with
    | none =>
      cases hb : s'.getGlobal n with
      | none => rfl
      | some b => rw [ha, hb] at hn; cases hn
    | some a =>
      cases hb : s'.getGlobal n with
      | none => rw [ha, hb] at hn; cases hn
      | some b =>
        rw [ha, hb] at hn
        simp only [Option.map_some, Option.some.injEq] at hn
        cases a <;> cases b <;> simp_all [obsVal]

theorem byteAt_zero_map (b : List Nat) (i : Nat) : byteAt (b.map (fun _ => 0)) i = 0 := by
  unfold byteAt
  simp only [List.getD, List.getElem?_map]
  cases b[i]? <;> rfl


theorem map_zero_eq_replicate (b : List Nat) : b.map (fun _ => 0) = List.replicate b.length 0 := by
  induction b with
  | nil => rfl
  | cons x rest ih => simp [List.replicate_succ, ih]

theorem vecResize_nil (n : Nat) : vecResize [] n = List.replicate n 0 := by
  simp [vecResize]

/-! ### concrete witnesses (the harness replays the same projects on the real runtime, cases 0-5) -/

namespace W

def iX00 : IoAddr := { area := .input, size := .bit, byte := 0, bit := 0 }
def qX00 : IoAddr := { area := .output, size := .bit, byte := 0, bit := 0 }
def mW0 : IoAddr := { area := .memory, size := .word, byte := 0, bit := 0 }
def l (n : Nat) : Target := { scope := .l, name := n }
def g (n : Nat) : Target := { scope := .g, name := n }
def plain (n : Nat) (pol : Policy) (v : Val) : PVarDecl := { var := { name := n, retain := pol, init := .plain v } }
def cyc (rt : Runtime) : Runtime := (cycle rt {}).1
def cycN : Nat → Runtime → Runtime
  | 0, rt => rt
  | n + 1, rt => cycN n (cyc rt)
def restartD (m : Mode) (rt : Runtime) : Runtime := (restart m rt).toOption.getD rt
def num? (o : Option Val) : Option Int := o.bind Val.numVal?

/-- Witness 0: `inp AT %IX0.0 : BOOL; outp AT %QX0.0 : BOOL; outp := inp;` (names: Main 0, inp 1,
outp 2). -/
def src0 : Source :=
  { programs := [{ name := 0,
                   vars := [{ plain 1 .unspecified (.num 1 0) with addr := some (iX00, 1) },
                            { plain 2 .unspecified (.num 1 0) with addr := some (qX00, 1) }],
                   body := [.simple (.cpy (l 2) (l 1))] }] }

/-- input 1, cycle, restart, input 0, cycle: the output image afterwards. -/
def run0 (m : Mode) : Option (List Nat × Nat) :=
  (build src0).map fun rt =>
    let rt := cyc (setDirect rt iX00 1)
    let rt := restartD m rt
    let rt := cyc (setDirect rt iX00 0)
    (rt.io.outputs, rt.deadBindings)

/-- the same inputs on a freshly built runtime -/
def fresh0 : Option (List Nat × Nat) :=
  (build src0).map fun rt =>
    let rt := cyc (setDirect rt iX00 0)
    (rt.io.outputs, rt.deadBindings)

/-- Witness 1: `trig : BOOL := TRUE; TASK T0 (SINGLE := trig, INTERVAL := 0); PROGRAM P0 WITH T0`
with `runs := runs + 1` (names: trig 10, T0 20, P0 0, runs 1). -/
def src1 : Source :=
  { globals := [{ name := 10, retain := .unspecified, init := .value (.num 1 1) }],
    tasks := [{ name := 20, interval := 0, single := some 10, priority := 1 }],
    programs := [{ name := 0, vars := [plain 1 .unspecified (.num 3 0)],
                   body := [.simple (.inc (l 1) 1)], task := some 20 }] }

def run1 : Option (Option Int) :=
  (build src1).map fun rt => num? ((cyc (restartD .cold (cyc rt))).progVar 0 1)

def fresh1 : Option (Option Int) :=
  (build src1).map fun rt => num? ((cyc rt).progVar 0 1)

/-- Witness 2: `gm AT %MW0 : INT; gm := gm + 1` (names: gm 10, P0 0). -/
def src2 : Source :=
  { globals := [{ name := 10, retain := .unspecified, init := .value (.num 3 0), addr := some (mW0, 3) }],
    programs := [{ name := 0, vars := [], body := [.simple (.inc (g 10) 1)] }] }

def run2 : Option (Option Int) :=
  (build src2).map fun rt => num? ((cyc (restartD .cold (cycN 3 rt))).storage.getGlobal 10)

def fresh2 : Option (Option Int) :=
  (build src2).map fun rt => num? ((cyc rt).storage.getGlobal 10)

/-- Witness 3: RETAIN global `gr` (10) and program-level RETAIN `r := 7` (P0 0, r 1), both
incremented every cycle; store configured. -/
def src3 : Source :=
  { globals := [{ name := 10, retain := .retain, init := .value (.num 3 0) }],
    programs := [{ name := 0, vars := [plain 1 .retain (.num 3 7)],
                   body := [.simple (.inc (l 1) 1), .simple (.inc (g 10) 1)] }] }

/-- two cycles, warm restart: (r, gr) -/
def warm3 : Option (Option Int × Option Int) :=
  (build src3).map fun rt =>
    let rt := restartD .warm (cycN 2 (setRetainStore rt false))
    (num? (rt.progVar 0 1), num? (rt.storage.getGlobal 10))

/-- two cycles, save, new runtime + store + load: (r, gr) -/
def power3 : Option (Option Int × Option Int) :=
  (build src3).bind fun rt =>
    let rt := cycN 2 (setRetainStore rt false)
    let disk := (saveRetainStore rt {}).2.1
    (build src3).map fun fr =>
      let fr := loadRetainStore (setRetainStore fr false) disk
      (num? (fr.progVar 0 1), num? (fr.storage.getGlobal 10))

/-- Witness 4: FB `Fb0` (30) with members inc 31, tot 32, `RETAIN kept := 7` 33, `NON_RETAIN nr`
34; RETAIN global `gfb` (10); program P0 (0) with `RETAIN rfb` (1) and unqualified `ufb` (2). -/
def fb4 : FbDecl :=
  { fb := { name := 30,
            members := [(31, .num 3 0), (32, .num 3 0), (33, .num 3 7), (34, .num 3 0)],
            body := [.inc (l 33) 1, .inc (l 34) 1, .cpy (l 32) (l 31)] } }

def src4 : Source :=
  { fbs := [fb4],
    globals := [{ name := 10, retain := .retain, init := .fb 30 }],
    programs := [{ name := 0,
                   vars := [{ var := { name := 1, retain := .retain, init := .fb 30 } },
                            { var := { name := 2, retain := .unspecified, init := .fb 30 } }],
                   body := [.call .l 1 [(31, .num 3 2)], .call .l 2 [(31, .num 3 2)],
                            .call .g 10 [(31, .num 3 2)]] }] }

/-- two cycles, warm restart: (P0.rfb.kept, gfb.nr) -/
def warm4 : Option (Option Val × Option Val) :=
  (build src4).map fun rt =>
    let rt := restartD .warm (cycN 2 rt)
    (rt.readProgPath 0 1 (some 33), rt.readGlobalPath 10 (some 34))

/-- the same members before the restart -/
def before4 : Option (Option Val × Option Val) :=
  (build src4).map fun rt =>
    let rt := cycN 2 rt
    (rt.readProgPath 0 1 (some 33), rt.readGlobalPath 10 (some 34))

/-- Witness 5: `w : INT` (P0 0, w 1) with `VAR_CONFIG P0.w : INT := 300`. -/
def src5 : Source :=
  { programs := [{ name := 0, vars := [plain 1 .unspecified (.num 3 0)], body := [] }],
    configInits := [({ scope := .p 0, name := 1 }, .num 3 300)] }

def fresh5 : Option (Option Int) := (build src5).map fun rt => num? (rt.progVar 0 1)
def cold5 : Option (Option Int) := (build src5).map fun rt => num? ((restartD .cold rt).progVar 0 1)

/-- Witness 6 (guards hold): SINGLE variable initially TRUE (no longer a guard), a RETAIN global FB instance, a
program with a RETAIN scalar, an unqualified scalar and an FB instance; no instance binding, no
VAR_CONFIG value. -/
def src6 : Source :=
  { fbs := [fb4],
    globals := [{ name := 10, retain := .unspecified, init := .value (.num 1 1) },
                { name := 11, retain := .retain, init := .value (.num 3 5) },
                { name := 12, retain := .retain, init := .fb 30 }],
    tasks := [{ name := 20, interval := 0, single := some 10, priority := 1 }],
    programs := [{ name := 0,
                   vars := [plain 1 .retain (.num 3 7), plain 2 .unspecified (.num 3 1),
                            { var := { name := 3, retain := .unspecified, init := .fb 30 } }],
                   body := [.simple (.inc (l 1) 1), .simple (.inc (l 2) 1), .simple (.inc (g 11) 1),
                            .simple (.tog (g 10)), .call .l 3 [(31, .num 3 2)]] }] }

def fr6 : Runtime := (build src6).getD {}
/-- two cycles later -/
def rt6 : Runtime := cycN 2 fr6

/-- witness 3 with a configured store, two cycles later -/
def rt3s : Runtime := cycN 2 (setRetainStore ((build src3).getD {}) false)

/-- Witness 7 (warm restart + load, the resource loop's restart step): witness 3's project; one
cycle, save (file holds `gr = 1`), three more cycles (`gr = 4`), then `restart(Warm)` alone, and
`restart(Warm)` followed by `load_retain_store`: the value of `gr`. -/
def rollback7 : Option (Option Int × Option Int × Option Int) :=
  (build src3).map fun rt =>
    let rt := cyc (setRetainStore rt false)
    let disk := (saveRetainStore rt {}).2.1
    let rt := cycN 3 rt
    let w := restartD .warm rt
    (num? (rt.storage.getGlobal 10), num? (w.storage.getGlobal 10),
     num? ((loadRetainStore w disk).storage.getGlobal 10))

/-- Witness 8 (a failed write is not remembered as written): witness 3's project with a store;
two cycles (`gr = 2`), the medium is unwritable: `save` fails; the medium recovers; the retry with
the SAME retained values must write.  Result of the two saves and the stored value of `gr`. -/
def failRetry8 : Option (Option Err × Option Err × Option Int) :=
  (build src3).map fun rt =>
    let rt := cycN 2 (setRetainStore rt false)
    let (rt1, d1, r1) := saveRetainStore rt { writable := false }
    let (_, d2, r2) := saveRetainStore rt1 { d1 with writable := true }
    (r1, r2, num? (d2.file.bind (aget · 10)))

/-- Witness 9 (images keep their length): `start AT %IX0.0`, `level AT %IB1`, `lamp AT %QX0.0`,
`echo AT %QB1` (globals 10..13), `lamp := start; echo := level`; images sized (2, 2, 0), a field
driver presenting `[1, 42]`. -/
def src9 : Source :=
  { globals := [{ name := 10, retain := .unspecified, init := .value (.num 1 0), addr := some (iX00, 1) },
                { name := 11, retain := .unspecified, init := .value (.num 12 0),
                  addr := some ({ area := .input, size := .byte, byte := 1, bit := 0 }, 12) },
                { name := 12, retain := .unspecified, init := .value (.num 1 0), addr := some (qX00, 1) },
                { name := 13, retain := .unspecified, init := .value (.num 12 0),
                  addr := some ({ area := .output, size := .byte, byte := 1, bit := 0 }, 12) }],
    programs := [{ name := 0, vars := [], body := [.simple (.cpy (g 12) (g 10)), .simple (.cpy (g 13) (g 11))] }] }

def start9 (rt : Runtime) : Runtime := setField (addDriver (resizeIo rt 2 2 0)) [1, 42]

/-- cycle, cold restart, cycle: (image lengths after the restart, slice length the driver is
handed in the next cycle, output image after that cycle) -/
def run9 : Option ((Nat × Nat × Nat) × Option Nat × List Nat) :=
  (build src9).map fun rt =>
    let r := restartD .cold (cyc (start9 rt))
    let c := cyc r
    ((r.io.inputs.length, r.io.outputs.length, r.io.memory.length), c.driver.bind (·.seenIn), c.io.outputs)

/-- the fresh runtime, sized the same, after one cycle -/
def fresh9 : Option ((Nat × Nat × Nat) × Option Nat × List Nat) :=
  (build src9).map fun rt =>
    let r := start9 rt
    let c := cyc r
    ((r.io.inputs.length, r.io.outputs.length, r.io.memory.length), c.driver.bind (·.seenIn), c.io.outputs)

end W

/-! ### Initialiser expressions -/

/-- No reference to a variable of the instance being initialised. -/
def IExpr.closed : IExpr → Bool
  | .loc _ => false
  | .add a b => a.closed && b.closed
  | .mul a b => a.closed && b.closed
  | _ => true

/-- A closed expression reads the globals only. -/
theorem IExpr.eval_congr (e : IExpr) (s s' : Storage) (id id' : Nat) (hc : e.closed = true)
    (hg : s'.globals = s.globals) : e.eval s' id' = e.eval s id := by
  induction e with
  | lit k => rfl
  | glob n => simp [IExpr.eval, Storage.getGlobal, hg]
  | loc n => simp [IExpr.closed] at hc
  | add a b iha ihb =>
    simp only [IExpr.closed, Bool.and_eq_true] at hc
    simp [IExpr.eval, iha hc.1, ihb hc.2]
  | mul a b iha ihb =>
    simp only [IExpr.closed, Bool.and_eq_true] at hc
    simp [IExpr.eval, iha hc.1, ihb hc.2]

/-- `init_var_defaults` evaluates a closed initialiser expression over the globals of the storage
it starts from, and the variable keeps that value (coerced to its declared type). -/
theorem initVars_expr (fbs : List FbDef) (id : Nat) (vars : List VarDef) :
    ∀ (s s' : Storage), initVars fbs s id vars = .ok s' → id < s.nextId →
      (s.getInstance id).isSome → (vars.map (·.name)).Nodup →
      ∀ d, d ∈ vars → ∀ ty e, d.init = .expr ty e → e.closed = true →
        ∃ k, e.eval s 0 = some k ∧ s'.getInstVar id d.name = some (.num ty k) := by
  induction vars with
  | nil => intro s s' _ _ _ _ d hd; cases hd
  | cons d0 rest ih =>
    intro s s' h hid hsome hnd d hd ty e hi hc
    simp only [List.map_cons, List.nodup_cons] at hnd
    simp only [initVars] at h
    cases hd0 : d0.init with
    | plain v =>
      simp only [hd0] at h
      rcases List.mem_cons.1 hd with rfl | hmem
      · rw [hd0] at hi; cases hi
      · obtain ⟨k, h1, h2⟩ := ih _ _ h (by simpa using hid)
          (by rw [isSome_getInstance_setInstVar]; exact hsome) hnd.2 d hmem ty e hi hc
        exact ⟨k, by rw [← h1]; exact (IExpr.eval_congr e _ _ 0 0 hc (by simp)).symm, h2⟩
    | ext =>
      simp only [hd0] at h
      rcases List.mem_cons.1 hd with rfl | hmem
      · rw [hd0] at hi; cases hi
      · exact ih _ _ h hid hsome hnd.2 d hmem ty e hi hc
    | expr ty0 e0 =>
      simp only [hd0] at h
      cases he : e0.eval s id with
      | none => simp [he] at h
      | some k0 =>
        simp only [he] at h
        have hpres := initVars_preserve fbs id rest _ _ h (by simpa using hid)
        rcases List.mem_cons.1 hd with rfl | hmem
        · rw [hd0] at hi
          injection hi with e1 e2
          subst e1; subst e2
          refine ⟨k0, ?_, ?_⟩
          · rw [← he]; exact (IExpr.eval_congr _ s s 0 id hc rfl).symm
          · rw [hpres.2.2.2.2.1 _ hnd.1]
            exact getInstVar_setInstVar_same _ _ _ _ hsome
        · obtain ⟨k, h1, h2⟩ := ih _ _ h (by simpa using hid)
            (by rw [isSome_getInstance_setInstVar]; exact hsome) hnd.2 d hmem ty e hi hc
          exact ⟨k, by rw [← h1]; exact (IExpr.eval_congr e _ _ 0 0 hc (by simp)).symm, h2⟩
    | fb tyf =>
      simp only [hd0] at h
      cases hcr : createFbInstance fbs s tyf with
      | error e => simp [hcr] at h
      | ok r =>
        obtain ⟨s1, nid⟩ := r
        simp only [hcr] at h
        obtain ⟨fb, hfind, hnid, hnext, hext, hinst⟩ := createFbInstance_spec fbs s s1 tyf nid hcr
        rcases List.mem_cons.1 hd with rfl | hmem
        · rw [hd0] at hi; cases hi
        · obtain ⟨k, h1, h2⟩ := ih _ _ h (by simp; omega)
            (by rw [isSome_getInstance_setInstVar, hext.old id hid]; exact hsome) hnd.2 d hmem ty e hi hc
          exact ⟨k, by rw [← h1]; exact (IExpr.eval_congr e _ _ 0 0 hc (by simp [hext.globals])).symm, h2⟩

/-- `create_program_instance`: every closed initialiser expression is evaluated over the globals
of the storage the instance is created in. -/
theorem createProgramInstance_expr (fbs : List FbDef) (s s' : Storage) (p : ProgDef) (id : Nat)
    (h : createProgramInstance fbs s p = .ok (s', id)) (hnd : (p.vars.map (·.name)).Nodup)
    (d : VarDef) (hd : d ∈ p.vars) (ty : Nat) (e : IExpr) (hi : d.init = .expr ty e)
    (hc : e.closed = true) :
    ∃ k, e.eval s 0 = some k ∧ s'.getInstVar id d.name = some (.num ty k) := by
  unfold createProgramInstance at h
  simp only [id_createInstance] at h
  cases hiv : initVars fbs (s.createInstance p.name).1 s.nextId p.vars with
  | error e => rw [hiv] at h; cases h
  | ok s2 =>
    rw [hiv] at h
    dsimp only at h
    injection h with h
    injection h with h1 h2
    subst h1; subst h2
    obtain ⟨k, a, b⟩ := initVars_expr fbs s.nextId p.vars _ _ hiv (by simp)
      (by rw [getInstance_createInstance]; simp) hnd d hd ty e hi hc
    exact ⟨k, by rw [← a]; exact (IExpr.eval_congr e _ _ 0 0 hc (by simp)).symm, b⟩


/-! ### The restart signal: no request is lost -/

/-- The newest request still in the pipeline (a blocked requester, the slot, the request being
carried out), else the restart carried out last. -/
def SigSt.newest (s : SigSt) : Option Mode :=
  match s.blocked with
  | some b => some b
  | none =>
    match s.slot with
    | some m => some m
    | none =>
      match s.busy with
      | some m => some m
      | none => s.done.head?

/-- A requester can only be blocked while the thread holds the lock, and nobody can fill the slot
while the thread holds the lock. -/
def SigSt.wf (s : SigSt) : Prop :=
  (s.busy = none → s.blocked = none) ∧ (s.busy.isSome = true → s.slot = none)

theorem sigStep_inv (s : SigSt) (e : SigEv) (h : s.wf) :
    (sigStep s e).wf ∧
    (sigStep s e).newest = (match e with | .request m => some m | _ => s.newest) := by
  obtain ⟨slot, busy, blocked, done⟩ := s
  obtain ⟨h1, h2⟩ := h
  cases e <;> cases slot <;> cases busy <;> cases blocked <;>
    simp_all [sigStep, SigSt.newest, SigSt.wf]

theorem sigRun_inv (evs : List SigEv) : ∀ (s : SigSt), s.wf →
    (sigRun s evs).wf ∧ (sigRun s evs).newest = lastRequest evs s.newest := by
  induction evs with
  | nil => intro s h; exact ⟨h, rfl⟩
  | cons e rest ih =>
    intro s h
    obtain ⟨w, n⟩ := sigStep_inv s e h
    obtain ⟨w', n'⟩ := ih (sigStep s e) w
    refine ⟨w', ?_⟩
    simp only [sigRun]
    rw [n', n]
    cases e <;> simp [lastRequest]

theorem sigQuiesce_spec (s : SigSt) (h : s.wf) :
    (sigQuiesce s).slot = none ∧ (sigQuiesce s).busy = none ∧ (sigQuiesce s).blocked = none ∧
    (sigQuiesce s).done.head? = s.newest ∧
    ∃ more, (sigQuiesce s).done = more ++ s.done := by
  obtain ⟨slot, busy, blocked, done⟩ := s
  obtain ⟨h1, h2⟩ := h
  cases slot <;> cases busy <;> cases blocked <;>
    simp_all [sigQuiesce, sigRun, sigStep, SigSt.newest] <;>
    first | exact ⟨[], rfl⟩ | exact ⟨[_], rfl⟩ | exact ⟨[_, _], rfl⟩

end TrustVerif.C09
