import TrustVerif.Model.C09

namespace TrustVerif.C09
end TrustVerif.C09
