import TrustVerif.Model.C10

namespace TrustVerif.C10
open Gen

end TrustVerif.C10
