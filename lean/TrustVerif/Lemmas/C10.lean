import TrustVerif.Model.C10

/-!
Helper lemmas for C10: little-endian arithmetic, the reader monad `W`, reading back what the
encoder wrote, `IndexMap` association lists, and the invariants of the decoder's ghost log.
-/
namespace TrustVerif.C10
open Gen

/-! ## little endian -/

theorem le_length (k n : Nat) : (le k n).length = k := by
  induction k generalizing n with
  | zero => rfl
  | succ k ih => simp [le, ih]

theorem fromLe_le (k n : Nat) : fromLe (le k n) = n % 256 ^ k := by
  induction k generalizing n with
  | zero => simp [le, fromLe, Nat.mod_one]
  | succ k ih =>
    simp only [le, fromLe, ih]
    have h : (UInt8.ofNat (n % 256)).toNat = n % 256 := by
      simp [UInt8.toNat_ofNat']
    rw [h, Nat.pow_succ, Nat.mul_comm (256 ^ k) 256, Nat.mod_mul]

theorem u8_ofNat_mod (v : UInt8) : UInt8.ofNat (v.toNat % 256 ^ 1) = v := by
  have := v.toNat_lt
  rw [Nat.mod_eq_of_lt (by omega)]; simp
theorem u16_ofNat_mod (v : UInt16) : UInt16.ofNat (v.toNat % 256 ^ 2) = v := by
  have := v.toNat_lt
  rw [Nat.mod_eq_of_lt (by omega)]; simp
theorem u32_ofNat_mod (v : UInt32) : UInt32.ofNat (v.toNat % 256 ^ 4) = v := by
  have := v.toNat_lt
  rw [Nat.mod_eq_of_lt (by omega)]; simp
theorem u64_ofNat_mod (v : UInt64) : UInt64.ofNat (v.toNat % 256 ^ 8) = v := by
  have := v.toNat_lt
  rw [Nat.mod_eq_of_lt (by omega)]; simp

/-! ## the reader monad -/

@[simp] theorem W.pure_out (a : α) (r : Bytes) : (W.pure a r).out = .ok (a, r) := rfl
@[simp] theorem W.fail_out (e : Err) : (W.fail e : W α).out = .error e := rfl
@[simp] theorem W.emit_out (ev : Event) (k : W α) : (W.emit ev k).out = k.out := rfl
@[simp] theorem W.pure_log (a : α) (r : Bytes) : (W.pure a r).log.toList = [] := rfl
@[simp] theorem W.fail_log (e : Err) : (W.fail e : W α).log.toList = [] := rfl
@[simp] theorem W.emit_log (ev : Event) (k : W α) :
    (W.emit ev k).log.toList = ev :: k.log.toList := rfl

theorem W.bind_out_ok {x : W α} {f : α → Bytes → W β} {a : α} {r : Bytes}
    (h : x.out = .ok (a, r)) : (x.bind f).out = (f a r).out := by
  simp [W.bind, h]

theorem W.bind_out_error {x : W α} {f : α → Bytes → W β} {e : Err}
    (h : x.out = .error e) : (x.bind f).out = .error e := by
  simp [W.bind, h]

theorem W.bind_log_ok {x : W α} {f : α → Bytes → W β} {a : α} {r : Bytes}
    (h : x.out = .ok (a, r)) : (x.bind f).log.toList = x.log.toList ++ (f a r).log.toList := by
  simp [W.bind, h, Log.toList]

theorem W.bind_log_error {x : W α} {f : α → Bytes → W β} {e : Err}
    (h : x.out = .error e) : (x.bind f).log = x.log := by
  simp [W.bind, h]

/-! ## reading back what the encoder wrote -/

theorem splitAt?_eq : ∀ (n : Nat) (bs : Bytes),
    splitAt? n bs = if n ≤ bs.length then some (bs.take n, bs.drop n) else none
  | 0, bs => by simp [splitAt?]
  | n + 1, [] => by simp [splitAt?]
  | n + 1, b :: bs => by
    simp only [splitAt?, splitAt?_eq n bs, List.length_cons, Nat.add_le_add_iff_right]
    by_cases h : n ≤ bs.length <;> simp [h]

theorem readBytes_eq (n : Nat) (bs : Bytes) :
    readBytes n bs = if n ≤ bs.length then W.pure (bs.take n) (bs.drop n) else W.fail .truncated := by
  unfold readBytes
  rw [splitAt?_eq]
  by_cases h : n ≤ bs.length <;> simp [h]

theorem readBytes_append (x rest : Bytes) :
    (readBytes x.length (x ++ rest)).out = .ok (x, rest) := by
  simp [readBytes_eq]

theorem readU8_cons (b : UInt8) (rest : Bytes) : (readU8 (b :: rest)).out = .ok (b, rest) := rfl

theorem readLe_le (k n : Nat) (rest : Bytes) :
    (readLe k (le k n ++ rest)).out = .ok (n % 256 ^ k, rest) := by
  have h := readBytes_append (le k n) rest
  rw [le_length] at h
  simp [readLe, W.bind_out_ok h, fromLe_le]

theorem readString_enc (s rest : Bytes) (h : wfStr s = true) :
    (readString (encString s ++ rest)).out = .ok (s, rest) := by
  simp only [wfStr, Bool.and_eq_true, decide_eq_true_eq] at h
  have h1 : (readLe 4 (le 4 s.length ++ (s ++ rest))).out = .ok (s.length, s ++ rest) := by
    rw [readLe_le, Nat.mod_eq_of_lt (by omega)]
  simp [readString, encString, W.bind_out_ok h1, W.bind_out_ok (readBytes_append s rest), h.2]

theorem readDims_enc (dims : List (UInt64 × UInt64)) (rest : Bytes) :
    (readDims dims.length (encDims dims ++ rest)).out = .ok (dims, rest) := by
  induction dims with
  | nil => simp [readDims, encDims]
  | cons d t ih =>
    obtain ⟨lo, hi⟩ := d
    simp only [List.length_cons, readDims, encDims, List.append_assoc]
    rw [W.bind_out_ok (readLe_le 8 _ _), W.bind_out_ok (readLe_le 8 _ _), W.bind_out_ok ih]
    simp

/-! ## IndexMap association lists -/

theorem RFields.nil_append (fs : RFields) : RFields.nil.append fs = fs := rfl

theorem RFields.append_nil : ∀ fs : RFields, fs.append .nil = fs
  | .nil => rfl
  | .cons n v t => by simp [RFields.append, RFields.append_nil t]

theorem RFields.append_cons (n : Bytes) (v : RValue) (t : RFields) :
    ∀ acc : RFields, (acc.append (.cons n v .nil)).append t = acc.append (.cons n v t)
  | .nil => rfl
  | .cons m w u => by simp [RFields.append, RFields.append_cons n v t u]

theorem RFields.hasKey_append (b : RFields) (k : Bytes) :
    ∀ a : RFields, (a.append b).hasKey k = (a.hasKey k || b.hasKey k)
  | .nil => by simp [RFields.append, RFields.hasKey]
  | .cons m w u => by simp [RFields.append, RFields.hasKey, RFields.hasKey_append b k u, Bool.or_assoc]

theorem RFields.not_hasKey_of_nodup (n : Bytes) (v : RValue) (t : RFields) :
    ∀ acc : RFields, (acc.append (.cons n v t)).keysNodup = true → acc.hasKey n = false
  | .nil, _ => rfl
  | .cons m w u, h => by
    simp only [RFields.append, RFields.keysNodup, Bool.and_eq_true, Bool.not_eq_true',
      RFields.hasKey_append, RFields.hasKey, Bool.or_eq_false_iff] at h
    simp only [RFields.hasKey, Bool.or_eq_false_iff]
    refine ⟨?_, RFields.not_hasKey_of_nodup n v t u h.2⟩
    have := h.1.2.1
    simp only [beq_eq_false_iff_ne, ne_eq] at this ⊢
    exact fun e => this e.symm

theorem RFields.insert_new (n : Bytes) (v : RValue) :
    ∀ acc : RFields, acc.hasKey n = false → acc.insert n v = acc.append (.cons n v .nil)
  | .nil, _ => rfl
  | .cons m w u, h => by
    simp only [RFields.hasKey, Bool.or_eq_false_iff] at h
    simp [RFields.insert, RFields.append, h.1, RFields.insert_new n v u h.2]

/-! ## round trip -/

/-- The decoder's `match tag` picks, for every tag the encoder writes, the arm of the same name
(re-checked against the generated tag table on every run). -/
theorem tagKind_table :
    tagKind tagBool = .bool ∧ tagKind tagSInt = .sint ∧ tagKind tagInt = .int ∧
    tagKind tagDInt = .dint ∧ tagKind tagLInt = .lint ∧ tagKind tagUSInt = .usint ∧
    tagKind tagUInt = .uint ∧ tagKind tagUDInt = .udint ∧ tagKind tagULInt = .ulint ∧
    tagKind tagReal = .real ∧ tagKind tagLReal = .lreal ∧ tagKind tagByte = .byte ∧
    tagKind tagWord = .word ∧ tagKind tagDWord = .dword ∧ tagKind tagLWord = .lword ∧
    tagKind tagTime = .time ∧ tagKind tagLTime = .ltime ∧ tagKind tagDate = .date ∧
    tagKind tagLDate = .ldate ∧ tagKind tagTod = .tod ∧ tagKind tagLTod = .ltod ∧
    tagKind tagDt = .dt ∧ tagKind tagLdt = .ldt ∧ tagKind tagString = .string ∧
    tagKind tagWString = .wstring ∧ tagKind tagChar = .char ∧ tagKind tagWChar = .wchar ∧
    tagKind tagArray = .array ∧ tagKind tagStruct = .struct ∧ tagKind tagEnum = .enum ∧
    tagKind tagNull = .null := by decide

mutual
theorem rt_value : ∀ (v : RValue) (fuel depth : Nat) (bs rest : Bytes),
    encodeValue depth v = .ok bs → wfValue v = true → maxDepth + 1 ≤ fuel + depth →
    (decodeValue fuel depth (bs ++ rest)).out = .ok (v, rest) := by
  intro v fuel depth bs rest he hw hf
  unfold encodeValue at he
  split at he
  · cases he
  · rename_i hd
    have hfuel : ∃ f, fuel = f + 1 := ⟨fuel - 1, by omega⟩
    obtain ⟨f, rfl⟩ := hfuel
    unfold decodeValue
    simp only [W.emit_out, hd, if_false]
    obtain ⟨k1, k2, k3, k4, k5, k6, k7, k8, k9, k10, k11, k12, k13, k14, k15, k16, k17, k18, k19,
      k20, k21, k22, k23, k24, k25, k26, k27, k28, k29, k30, k31⟩ := tagKind_table
    cases v with
    | array dims elems =>
      simp only at he
      split at he
      · cases he
      · rename_i body hb
        simp only [Except.ok.injEq] at he
        subst he
        simp only [wfValue, Bool.and_eq_true, decide_eq_true_eq] at hw
        simp only [List.cons_append, List.append_assoc]
        rw [W.bind_out_ok (readU8_cons _ _)]
        simp only [k28]
        rw [W.bind_out_ok (readLe_le _ _ _), W.bind_out_ok (readLe_le _ _ _)]
        simp only [W.emit_out]
        rw [Nat.mod_eq_of_lt (show dims.length < 256 ^ 4 by omega),
          Nat.mod_eq_of_lt (show elems.length < 256 ^ 4 by omega)]
        rw [W.bind_out_ok (readDims_enc _ _)]
        simp only [W.emit_out]
        rw [W.bind_out_ok (rt_values elems f (depth + 1) body rest hb hw.2 (by omega))]
        rfl
    | struct tn fields =>
      simp only at he
      split at he
      · cases he
      · rename_i body hb
        simp only [Except.ok.injEq] at he
        subst he
        simp only [wfValue, Bool.and_eq_true, decide_eq_true_eq] at hw
        simp only [List.cons_append, List.append_assoc]
        rw [W.bind_out_ok (readU8_cons _ _)]
        simp only [k29]
        rw [W.bind_out_ok (readString_enc _ _ hw.1.1.1), W.bind_out_ok (readLe_le _ _ _)]
        rw [Nat.mod_eq_of_lt (show fields.length < 256 ^ 4 by omega)]
        rw [W.bind_out_ok (rt_fields fields f (depth + 1) body rest .nil hb hw.2 hw.1.2 (by omega))]
        rfl
    | bool b =>
      simp only [Except.ok.injEq] at he
      subst he
      simp only [List.cons_append]
      rw [W.bind_out_ok (readU8_cons _ _)]
      simp only [k1]
      rw [W.bind_out_ok (readU8_cons _ _)]
      cases b <;> simp
    | string s =>
      simp only [Except.ok.injEq] at he
      subst he
      simp only [List.cons_append]
      rw [W.bind_out_ok (readU8_cons _ _)]
      simp only [k24]
      rw [W.bind_out_ok (readString_enc _ _ hw)]
      rfl
    | wstring s =>
      simp only [Except.ok.injEq] at he
      subst he
      simp only [List.cons_append]
      rw [W.bind_out_ok (readU8_cons _ _)]
      simp only [k25]
      rw [W.bind_out_ok (readString_enc _ _ hw)]
      rfl
    | enum tn vn num =>
      simp only [Except.ok.injEq] at he
      subst he
      simp only [wfValue, Bool.and_eq_true] at hw
      simp only [List.cons_append, List.append_assoc]
      rw [W.bind_out_ok (readU8_cons _ _)]
      simp only [k30]
      rw [W.bind_out_ok (readString_enc _ _ hw.1), W.bind_out_ok (readString_enc _ _ hw.2),
        W.bind_out_ok (readLe_le _ _ _)]
      simp
    | null =>
      simp only [Except.ok.injEq] at he
      subst he
      simp only [List.cons_append]
      rw [W.bind_out_ok (readU8_cons _ _)]
      simp only [k31]
      rfl
    | reference => cases he
    | «instance» => cases he
    | _ =>
      simp only [Except.ok.injEq] at he
      subst he
      simp only [List.cons_append]
      rw [W.bind_out_ok (readU8_cons _ _)]
      simp only [k2, k3, k4, k5, k6, k7, k8, k9, k10, k11, k12, k13, k14, k15, k16, k17, k18, k19,
        k20, k21, k22, k23, k26, k27]
      rw [W.bind_out_ok (readLe_le _ _ _)]
      simp
theorem rt_values : ∀ (vs : RValues) (fuel depth : Nat) (bs rest : Bytes),
    encodeValues depth vs = .ok bs → wfValues vs = true → maxDepth + 1 ≤ fuel + depth →
    (decodeElems (decodeValue fuel depth) vs.length (bs ++ rest)).out = .ok (vs, rest) := by
  intro vs fuel depth bs rest he hw hf
  cases vs with
  | nil =>
    simp only [encodeValues, Except.ok.injEq] at he
    subst he
    rfl
  | cons v t =>
    unfold encodeValues at he
    split at he
    · cases he
    · rename_i a ha
      split at he
      · cases he
      · rename_i b hb
        simp only [Except.ok.injEq] at he
        subst he
        simp only [wfValues, Bool.and_eq_true] at hw
        simp only [RValues.length, decodeElems, List.append_assoc]
        rw [W.bind_out_ok (rt_value v fuel depth a (b ++ rest) ha hw.1 hf),
          W.bind_out_ok (rt_values t fuel depth b rest hb hw.2 hf)]
        rfl
theorem rt_fields : ∀ (fs : RFields) (fuel depth : Nat) (bs rest : Bytes) (acc : RFields),
    encodeFields depth fs = .ok bs → wfFields fs = true → (acc.append fs).keysNodup = true →
    maxDepth + 1 ≤ fuel + depth →
    (decodeFields (decodeValue fuel depth) fs.length acc (bs ++ rest)).out =
      .ok (acc.append fs, rest) := by
  intro fs fuel depth bs rest acc he hw hn hf
  cases fs with
  | nil =>
    simp only [encodeFields, Except.ok.injEq] at he
    subst he
    simp [RFields.length, decodeFields, RFields.append_nil]
  | cons n v t =>
    unfold encodeFields at he
    split at he
    · cases he
    · rename_i a ha
      split at he
      · cases he
      · rename_i b hb
        simp only [Except.ok.injEq] at he
        subst he
        simp only [wfFields, Bool.and_eq_true] at hw
        simp only [RFields.length, decodeFields, List.append_assoc]
        rw [W.bind_out_ok (readString_enc _ _ hw.1.1),
          W.bind_out_ok (rt_value v fuel depth a (b ++ rest) ha hw.1.2 hf)]
        rw [RFields.insert_new n v acc (RFields.not_hasKey_of_nodup n v t acc hn)]
        rw [rt_fields t fuel depth b rest _ hb hw.2 (by rw [RFields.append_cons]; exact hn) hf]
        rw [RFields.append_cons]
end
theorem magic_length : magic.length = 4 := by decide

/-- Snapshot-level round trip, with arbitrary trailing bytes. -/
theorem rt_snapshot (s : Snapshot) (bs trailing : Bytes) (he : encodeSnapshot s = .ok bs)
    (hw : WfSnapshot s) : decodeSnapshot (bs ++ trailing) = .ok s := by
  obtain ⟨hlen, hnd, hwf, _⟩ := hw
  unfold encodeSnapshot at he
  split at he
  · cases he
  · rename_i body hb
    simp only [Except.ok.injEq] at he
    subst he
    have hm := readBytes_append magic (le 2 version ++ (le 4 s.length ++ (body ++ trailing)))
    rw [magic_length] at hm
    have hv : version % 256 ^ 2 = version := by decide
    unfold decodeSnapshot decodeSnapshotW
    simp only [List.append_assoc]
    rw [W.bind_out_ok hm]
    simp only [ne_eq, not_true_eq_false, if_false]
    rw [W.bind_out_ok (readLe_le _ _ _)]
    simp only [hv, not_true_eq_false, if_false]
    rw [W.bind_out_ok (readLe_le _ _ _), Nat.mod_eq_of_lt (show s.length < 256 ^ 4 by omega)]
    rw [rt_fields s (maxDepth + 1) 0 body trailing .nil hb hwf hnd (by omega)]
    rfl

/-! ## when the encoder succeeds -/

mutual
theorem encode_ok_iff : ∀ (v : RValue) (depth : Nat),
    (∃ bs, encodeValue depth v = .ok bs) ↔ encodable depth v = true := by
  intro v depth
  unfold encodeValue
  by_cases hd : depth > maxDepth
  · simp only [hd, if_true]
    have : ¬ depth ≤ maxDepth := by omega
    cases v <;> simp [encodable, this]
  · simp only [hd, if_false]
    have hd' : depth ≤ maxDepth := by omega
    cases v with
    | array dims elems =>
      simp only [encodable, hd', decide_true, Bool.true_and]
      rw [← encodeValues_ok_iff elems (depth + 1)]
      constructor
      · rintro ⟨bs, h⟩
        split at h
        · cases h
        · rename_i body hb; exact ⟨body, hb⟩
      · rintro ⟨body, hb⟩
        simp [hb]
    | struct tn fields =>
      simp only [encodable, hd', decide_true, Bool.true_and]
      rw [← encodeFields_ok_iff fields (depth + 1)]
      constructor
      · rintro ⟨bs, h⟩
        split at h
        · cases h
        · rename_i body hb; exact ⟨body, hb⟩
      · rintro ⟨body, hb⟩
        simp [hb]
    | _ => simp [encodable, hd']
theorem encodeValues_ok_iff : ∀ (vs : RValues) (depth : Nat),
    (∃ bs, encodeValues depth vs = .ok bs) ↔ encodableValues depth vs = true := by
  intro vs depth
  cases vs with
  | nil => simp [encodeValues, encodableValues]
  | cons v t =>
    simp only [encodableValues, Bool.and_eq_true]
    rw [← encode_ok_iff v depth, ← encodeValues_ok_iff t depth]
    rw [encodeValues]
    constructor
    · rintro ⟨bs, h⟩
      split at h
      · cases h
      · rename_i a ha
        split at h
        · cases h
        · rename_i b hb; exact ⟨⟨a, ha⟩, ⟨b, hb⟩⟩
    · rintro ⟨⟨a, ha⟩, ⟨b, hb⟩⟩
      simp [ha, hb]
theorem encodeFields_ok_iff : ∀ (fs : RFields) (depth : Nat),
    (∃ bs, encodeFields depth fs = .ok bs) ↔ encodableFields depth fs = true := by
  intro fs depth
  cases fs with
  | nil => simp [encodeFields, encodableFields]
  | cons n v t =>
    simp only [encodableFields, Bool.and_eq_true]
    rw [← encode_ok_iff v depth, ← encodeFields_ok_iff t depth]
    rw [encodeFields]
    constructor
    · rintro ⟨bs, h⟩
      split at h
      · cases h
      · rename_i a ha
        split at h
        · cases h
        · rename_i b hb; exact ⟨⟨a, ha⟩, ⟨b, hb⟩⟩
    · rintro ⟨⟨a, ha⟩, ⟨b, hb⟩⟩
      simp [ha, hb]
end

theorem encodeSnapshot_ok_iff (s : Snapshot) :
    (∃ bs, encodeSnapshot s = .ok bs) ↔ encodableFields 0 s = true := by
  rw [← encodeFields_ok_iff s 0]
  unfold encodeSnapshot
  constructor
  · rintro ⟨bs, h⟩
    split at h
    · cases h
    · rename_i body hb; exact ⟨body, hb⟩
  · rintro ⟨body, hb⟩
    simp [hb]

/-! ## invariants of a decoder run -/

/-- `Inv B n w`: every ghost event of `w` is fine for an input of `B` bytes, `w` leaves at most
`n` bytes unread, and `w` did not run out of fuel. -/
def Inv (B n : Nat) (w : W α) : Prop :=
  (∀ e ∈ w.log.toList, Event.Ok B e) ∧ (∀ a r, w.out = .ok (a, r) → r.length ≤ n) ∧
    w.out ≠ .error .fuel

theorem inv_pure {B n : Nat} (a : α) {r : Bytes} (h : r.length ≤ n) : Inv B n (W.pure a r) := by
  refine ⟨by simp, ?_, by simp⟩
  intro a' r' h'
  simp only [W.pure_out, Except.ok.injEq, Prod.mk.injEq] at h'
  rw [← h'.2]; exact h

theorem inv_fail {B n : Nat} {e : Err} (h : e ≠ .fuel) : Inv B n (W.fail e : W α) := by
  refine ⟨by simp, by simp, ?_⟩
  simpa using h

theorem inv_emit {B n : Nat} {ev : Event} {k : W α} (he : Event.Ok B ev) (hk : Inv B n k) :
    Inv B n (W.emit ev k) := by
  refine ⟨?_, hk.2.1, hk.2.2⟩
  intro e hmem
  simp only [W.emit_log, List.mem_cons] at hmem
  rcases hmem with rfl | h
  · exact he
  · exact hk.1 e h

theorem inv_bind {B n : Nat} {x : W α} {f : α → Bytes → W β} (hx : Inv B n x)
    (hf : ∀ a r, r.length ≤ n → Inv B n (f a r)) : Inv B n (x.bind f) := by
  cases hxo : x.out with
  | error e =>
    refine ⟨?_, ?_, ?_⟩
    · rw [W.bind_log_error hxo]; exact hx.1
    · rw [W.bind_out_error hxo]; intro a r h; cases h
    · rw [W.bind_out_error hxo]; have := hx.2.2; rw [hxo] at this; intro h; apply this; cases h; rfl
  | ok p =>
    obtain ⟨a, r⟩ := p
    have hr := hx.2.1 a r hxo
    have hfa := hf a r hr
    refine ⟨?_, ?_, ?_⟩
    · rw [W.bind_log_ok hxo]
      intro e hmem
      rcases List.mem_append.mp hmem with h | h
      · exact hx.1 e h
      · exact hfa.1 e h
    · rw [W.bind_out_ok hxo]; exact hfa.2.1
    · rw [W.bind_out_ok hxo]; exact hfa.2.2

theorem inv_readBytes {B n : Nat} (k : Nat) {bs : Bytes} (h : bs.length ≤ n) :
    Inv B n (readBytes k bs) := by
  rw [readBytes_eq]
  split
  · exact inv_pure _ (by simp; omega)
  · exact inv_fail (by decide)

theorem inv_readU8 {B n : Nat} {bs : Bytes} (h : bs.length ≤ n) : Inv B n (readU8 bs) := by
  unfold readU8
  split
  · exact inv_fail (by decide)
  · exact inv_pure _ (by simp at h; omega)

theorem inv_readLe {B n : Nat} (k : Nat) {bs : Bytes} (h : bs.length ≤ n) :
    Inv B n (readLe k bs) :=
  inv_bind (inv_readBytes k h) fun _ _ hr => inv_pure _ hr

theorem inv_readString {B n : Nat} {bs : Bytes} (h : bs.length ≤ n) : Inv B n (readString bs) :=
  inv_bind (inv_readLe 4 h) fun _ _ hr =>
    inv_bind (inv_readBytes _ hr) fun s _ hr' => by
      split
      · exact inv_pure _ hr'
      · exact inv_fail (by decide)

theorem inv_readDims {B n : Nat} : ∀ (k : Nat) {bs : Bytes}, bs.length ≤ n →
    Inv B n (readDims k bs)
  | 0, _, h => inv_pure _ h
  | k + 1, _, h =>
    inv_bind (inv_readLe 8 h) fun _ _ h1 =>
      inv_bind (inv_readLe 8 h1) fun _ _ h2 =>
        inv_bind (inv_readDims k h2) fun _ _ h3 => inv_pure _ h3

theorem inv_decodeElems {B n : Nat} {f : Bytes → W RValue}
    (hf : ∀ r : Bytes, r.length ≤ n → Inv B n (f r)) :
    ∀ (k : Nat) {bs : Bytes}, bs.length ≤ n → Inv B n (decodeElems f k bs)
  | 0, _, h => inv_pure _ h
  | k + 1, _, h =>
    inv_bind (hf _ h) fun _ _ h1 =>
      inv_bind (inv_decodeElems hf k h1) fun _ _ h2 => inv_pure _ h2

theorem inv_decodeFields {B n : Nat} {f : Bytes → W RValue}
    (hf : ∀ r : Bytes, r.length ≤ n → Inv B n (f r)) :
    ∀ (k : Nat) (acc : RFields) {bs : Bytes}, bs.length ≤ n → Inv B n (decodeFields f k acc bs)
  | 0, _, _, h => inv_pure _ h
  | k + 1, _, _, h =>
    inv_bind (inv_readString h) fun _ _ h1 =>
      inv_bind (hf _ h1) fun _ _ h2 => inv_decodeFields hf k _ h2

theorem inv_decodeValue {B n : Nat} (hB : n ≤ B) : ∀ (fuel depth : Nat) {bs : Bytes},
    depth ≤ maxDepth + 1 → maxDepth + 1 ≤ fuel + depth → bs.length ≤ n →
    Inv B n (decodeValue fuel depth bs) := by
  intro fuel
  induction fuel with
  | zero =>
    intro depth bs hd hf h
    unfold decodeValue
    refine inv_emit hd ?_
    have : depth > maxDepth := by omega
    simp only [this, if_true]
    exact inv_fail (by decide)
  | succ f ih =>
    intro depth bs hd hf h
    unfold decodeValue
    refine inv_emit hd ?_
    split
    · exact inv_fail (by decide)
    · rename_i hdd
      have hrec : ∀ r : Bytes, r.length ≤ n → Inv B n (decodeValue f (depth + 1) r) :=
        fun r hr => ih (depth + 1) (by omega) (by omega) hr
      refine inv_bind (inv_readU8 h) fun tag r hr => ?_
      cases tagKind tag
      case array =>
        refine inv_bind (inv_readLe 4 hr) fun len r1 h1 => ?_
        refine inv_bind (inv_readLe 4 h1) fun dims r2 h2 => ?_
        refine inv_emit ⟨by omega, by omega⟩ ?_
        refine inv_bind (inv_readDims _ h2) fun ds r3 h3 => ?_
        refine inv_emit ⟨by omega, by omega⟩ ?_
        exact inv_bind (inv_decodeElems hrec _ h3) fun _ _ h4 => inv_pure _ h4
      case struct =>
        refine inv_bind (inv_readString hr) fun tn r1 h1 => ?_
        refine inv_bind (inv_readLe 4 h1) fun cnt r2 h2 => ?_
        exact inv_bind (inv_decodeFields hrec _ _ h2) fun _ _ h4 => inv_pure _ h4
      case enum =>
        refine inv_bind (inv_readString hr) fun tn r1 h1 => ?_
        refine inv_bind (inv_readString h1) fun vn r2 h2 => ?_
        exact inv_bind (inv_readLe 8 h2) fun _ _ h3 => inv_pure _ h3
      case null => exact inv_pure _ hr
      case unknown => exact inv_fail (by decide)
      case bool => exact inv_bind (inv_readU8 hr) fun _ _ h1 => inv_pure _ h1
      case string => exact inv_bind (inv_readString hr) fun _ _ h1 => inv_pure _ h1
      case wstring => exact inv_bind (inv_readString hr) fun _ _ h1 => inv_pure _ h1
      all_goals exact inv_bind (inv_readLe _ hr) fun _ _ h1 => inv_pure _ h1

theorem inv_decodeSnapshotW (bs : Bytes) : Inv bs.length bs.length (decodeSnapshotW bs) := by
  unfold decodeSnapshotW
  refine inv_bind (inv_readBytes 4 (Nat.le_refl _)) fun m r hr => ?_
  split
  · exact inv_fail (by decide)
  · refine inv_bind (inv_readLe 2 hr) fun v r1 h1 => ?_
    split
    · exact inv_fail (by decide)
    · refine inv_bind (inv_readLe 4 h1) fun cnt r2 h2 => ?_
      exact inv_decodeFields
        (fun r hr => inv_decodeValue (Nat.le_refl _) _ 0 (by omega) (by omega) hr) _ _ h2

/-! ## the save routine -/

/-- Whatever prefix of `write_bytes` completed (with the write cut anywhere), the main file is
either untouched or holds the complete new image. -/
theorem crash_writeOps_main (bytes : Bytes) (d d' : Disk) (h : Crash (writeOps bytes) d d') :
    d'.main = d.main ∨ d'.main = some bytes := by
  unfold writeOps at h
  cases h with
  | stop => exact .inl rfl
  | step _ _ _ _ h =>
    cases h with
    | stop => exact .inl rfl
    | partialWrite => exact .inl rfl
    | step _ _ _ _ h =>
      cases h with
      | stop => exact .inl rfl
      | step _ _ _ _ h =>
        cases h with
        | stop => exact .inl rfl
        | step _ _ _ _ h =>
          cases h with
          | stop => exact .inl rfl
          | step _ _ _ _ h =>
            cases h with
            | stop => exact .inr (by simp [applyOp, Disk.set, Disk.get])

theorem crash_nil (d d' : Disk) (h : Crash [] d d') : d' = d := by
  cases h; rfl

theorem load_congr {d d' : Disk} (h : d'.main = d.main) : load d' = load d := by
  simp [load, h]

/-! ## RetainManager -/

theorem load_after_writeOps (d : Disk) (s : Snapshot) (bytes : Bytes) (hw : WfSnapshot s)
    (hb : encodeSnapshot s = .ok bytes) :
    load (runOps d (writeOps bytes) (writeOps bytes).length) = .ok s := by
  have hdec : decodeSnapshot bytes = .ok s := by simpa using rt_snapshot s bytes [] hb hw
  simp [writeOps, runOps, applyOp, Disk.set, Disk.get, load, hdec]

/-- The file holds the encoded image of the snapshot the manager remembers as `last_snapshot`,
and that is what the next load returns. -/
def Mgr.Consistent (m : Mgr) : Prop :=
  ∀ l, m.last = some l →
    (∃ bytes, encodeSnapshot l = .ok bytes ∧ m.disk.main = some bytes) ∧ load m.disk = .ok l

theorem main_after_writeOps (d : Disk) (bytes : Bytes) :
    (runOps d (writeOps bytes) (writeOps bytes).length).main = some bytes := by
  simp [writeOps, runOps, applyOp, Disk.set, Disk.get]

theorem Mgr.saveIf_consistent (u : Bool) (m : Mgr) (s : Snapshot) (hc : m.Consistent)
    (hw : WfSnapshot s) : (Mgr.saveIf u m s).1.Consistent := by
  unfold Mgr.saveIf
  cases u with
  | true => simp only [if_true]; exact hc
  | false =>
    cases hb : encodeSnapshot s with
    | error e => simp only [Bool.false_eq_true, if_false]; exact hc
    | ok bytes =>
      simp only [Bool.false_eq_true, if_false]
      intro l hl
      simp only [Option.some.injEq] at hl
      subst hl
      exact ⟨⟨bytes, hb, main_after_writeOps m.disk bytes⟩, load_after_writeOps m.disk s bytes hw hb⟩

theorem Mgr.save_consistent (m : Mgr) (s : Snapshot) (hc : m.Consistent) (hw : WfSnapshot s) :
    (m.save s).1.Consistent :=
  Mgr.saveIf_consistent _ m s hc hw

/-- A skipped write: the file already holds the image of `s`, bit for bit. -/
theorem Mgr.unchanged_file (m : Mgr) (s : Snapshot) (hc : m.Consistent) (hw : WfSnapshot s)
    (h : m.unchanged s = true) : load m.disk = .ok s := by
  obtain ⟨bytes, hb⟩ := (encodeSnapshot_ok_iff s).mpr hw.2.2.2
  unfold Mgr.unchanged at h
  cases hl : m.last with
  | none => simp [hl] at h
  | some l =>
    obtain ⟨⟨lb, hlb, hmain⟩, _⟩ := hc l hl
    simp only [hl, sameRetainImage, hlb, hb, Except.toOption, Bool.and_eq_true, beq_iff_eq,
      Option.some.injEq] at h
    have hdec : decodeSnapshot bytes = .ok s := by simpa using rt_snapshot s bytes [] hb hw
    simp [load, hmain, h.2, hdec]

/-- `save_snapshot` with a retainable snapshot reports success and leaves the file holding it. -/
theorem Mgr.save_result (m : Mgr) (s : Snapshot) (hc : m.Consistent) (hw : WfSnapshot s) :
    (m.save s).2 = .ok () ∧ load (m.save s).1.disk = .ok s := by
  obtain ⟨bytes, hb⟩ := (encodeSnapshot_ok_iff s).mpr hw.2.2.2
  by_cases h : m.unchanged s = true
  · have hf := Mgr.unchanged_file m s hc hw h
    simp only [Mgr.save, Mgr.saveIf, h, if_true, true_and]
    exact hf
  · have h' : m.unchanged s = false := by simpa using h
    simp only [Mgr.save, Mgr.saveIf, h', hb, Bool.false_eq_true, if_false, true_and]
    exact load_after_writeOps m.disk s bytes hw hb

/-! ## the association-list model is a legitimate `IndexMap`: `insert` keeps keys distinct -/

theorem RFields.hasKey_insert (k : Bytes) (v : RValue) (j : Bytes) :
    ∀ fs : RFields, (fs.insert k v).hasKey j = (fs.hasKey j || k == j)
  | .nil => by simp [RFields.insert, RFields.hasKey]
  | .cons n w t => by
    by_cases h : (n == k) = true
    · have hnk : n = k := by simpa using h
      subst hnk
      simp [RFields.insert, RFields.hasKey]
      exact fun h => .inl h
    · simp only [RFields.insert, h]
      simp [RFields.hasKey, RFields.hasKey_insert k v j t, Bool.or_assoc]

theorem RFields.insert_keysNodup (k : Bytes) (v : RValue) :
    ∀ fs : RFields, fs.keysNodup = true → (fs.insert k v).keysNodup = true
  | .nil, _ => by simp [RFields.insert, RFields.keysNodup, RFields.hasKey]
  | .cons n w t, h => by
    simp only [RFields.keysNodup, Bool.and_eq_true, Bool.not_eq_true'] at h
    by_cases hnk : (n == k) = true
    · simp [RFields.insert, hnk, RFields.keysNodup, h.1, h.2]
    · have hnk' : (n == k) = false := by simpa using hnk
      simp only [RFields.insert, hnk', Bool.false_eq_true, if_false]
      simp only [RFields.keysNodup, Bool.and_eq_true, Bool.not_eq_true',
        RFields.hasKey_insert, Bool.or_eq_false_iff]
      refine ⟨⟨h.1, ?_⟩, RFields.insert_keysNodup k v t h.2⟩
      cases hkn : (k == n) with
      | false => rfl
      | true =>
        have : k = n := by simpa using hkn
        exact absurd (by simp [this]) hnk

theorem decodeFields_keysNodup {f : Bytes → W RValue} :
    ∀ (n : Nat) (acc : RFields) (bs : Bytes) (fs : RFields) (r : Bytes),
      acc.keysNodup = true → (decodeFields f n acc bs).out = .ok (fs, r) → fs.keysNodup = true
  | 0, acc, bs, fs, r, ha, h => by
    simp only [decodeFields, W.pure_out, Except.ok.injEq, Prod.mk.injEq] at h
    rw [← h.1]; exact ha
  | n + 1, acc, bs, fs, r, ha, h => by
    simp only [decodeFields] at h
    cases h1 : (readString bs).out with
    | error e => rw [W.bind_out_error h1] at h; cases h
    | ok p =>
      obtain ⟨name, r1⟩ := p
      rw [W.bind_out_ok h1] at h
      cases h2 : (f r1).out with
      | error e => rw [W.bind_out_error h2] at h; cases h
      | ok q =>
        obtain ⟨v, r2⟩ := q
        rw [W.bind_out_ok h2] at h
        exact decodeFields_keysNodup n _ r2 fs r (RFields.insert_keysNodup name v acc ha) h

end TrustVerif.C10
