import TrustVerif.Model.C11

/-!
# C11 — lemmas: little-endian integers, reader combinators, per-element codec round trips
-/
set_option linter.unusedSimpArgs false

namespace TrustVerif.C11
open Rd (fail)

/-! ## integers -/

theorem byteAt_toNat (n k : Nat) : (byteAt n k).toNat = n / 256 ^ k % 256 := by
  simp [byteAt, UInt8.toNat_ofNat']

theorem u16Of_enc (x : UInt16) : u16Of (byteAt x.toNat 0) (byteAt x.toNat 1) = x := by
  unfold u16Of
  simp only [byteAt_toNat]
  have h := x.toNat_lt
  have e : x.toNat / 256 ^ 0 % 256 + 256 * (x.toNat / 256 ^ 1 % 256) = x.toNat := by
    simp only [Nat.reducePow] at *; omega
  rw [e]; exact UInt16.ofNat_toNat

theorem u32Of_enc (x : UInt32) :
    u32Of (byteAt x.toNat 0) (byteAt x.toNat 1) (byteAt x.toNat 2) (byteAt x.toNat 3) = x := by
  unfold u32Of
  simp only [byteAt_toNat]
  have h := x.toNat_lt
  have e : x.toNat / 256 ^ 0 % 256 + 256 * (x.toNat / 256 ^ 1 % 256) + 65536 * (x.toNat / 256 ^ 2 % 256)
      + 16777216 * (x.toNat / 256 ^ 3 % 256) = x.toNat := by
    simp only [Nat.reducePow] at *; omega
  rw [e]; exact UInt32.ofNat_toNat

theorem u64Of_enc (x : UInt64) :
    u64Of (byteAt x.toNat 0) (byteAt x.toNat 1) (byteAt x.toNat 2) (byteAt x.toNat 3)
      (byteAt x.toNat 4) (byteAt x.toNat 5) (byteAt x.toNat 6) (byteAt x.toNat 7) = x := by
  unfold u64Of
  simp only [byteAt_toNat]
  have h := x.toNat_lt
  have e : x.toNat / 256 ^ 0 % 256 + 256 * (x.toNat / 256 ^ 1 % 256) + 65536 * (x.toNat / 256 ^ 2 % 256)
      + 16777216 * (x.toNat / 256 ^ 3 % 256) + 4294967296 * (x.toNat / 256 ^ 4 % 256)
      + 1099511627776 * (x.toNat / 256 ^ 5 % 256) + 281474976710656 * (x.toNat / 256 ^ 6 % 256)
      + 72057594037927936 * (x.toNat / 256 ^ 7 % 256) = x.toNat := by
    simp only [Nat.reducePow] at *; omega
  rw [e]; exact UInt64.ofNat_toNat

@[simp] theorem encU16_length (x : UInt16) : (encU16 x).length = 2 := rfl
@[simp] theorem encU32_length (x : UInt32) : (encU32 x).length = 4 := rfl
@[simp] theorem encU64_length (x : UInt64) : (encU64 x).length = 8 := rfl

theorem ofNat_toNat_of_lt {n : Nat} (h : n < 4294967296) : (UInt32.ofNat n).toNat = n := by
  simp [UInt32.toNat_ofNat']; omega

theorem lenOk_iff {n : Nat} : lenOk n = true ↔ n < 4294967296 := by simp [lenOk]

/-! ## reader -/

@[simp] theorem bind_apply (x : Rd α) (f : α → Rd β) (s : Bytes) :
    (x >>= f) s = match x s with
      | .error e => .error e
      | .ok (a, s') => f a s' := rfl

@[simp] theorem pure_apply (a : α) (s : Bytes) : (pure a : Rd α) s = .ok (a, s) := rfl
@[simp] theorem fail_apply (e : Err) (s : Bytes) : (fail e : Rd α) s = .error e := rfl

@[simp] theorem liftOpt_some (a : α) (e : Err) (s : Bytes) : liftOpt (some a) e s = .ok (a, s) := rfl
@[simp] theorem liftOpt_none (e : Err) (s : Bytes) : (liftOpt (none : Option α) e) s = .error e := rfl

@[simp] theorem readU8_cons (b : UInt8) (r : Bytes) : readU8 (b :: r) = .ok (b, r) := rfl
@[simp] theorem readU16_enc (x : UInt16) (r : Bytes) : readU16 (encU16 x ++ r) = .ok (x, r) := by
  simp [readU16, encU16, u16Of_enc]
@[simp] theorem readU32_enc (x : UInt32) (r : Bytes) : readU32 (encU32 x ++ r) = .ok (x, r) := by
  simp [readU32, encU32, u32Of_enc]
@[simp] theorem readU64_enc (x : UInt64) (r : Bytes) : readU64 (encU64 x ++ r) = .ok (x, r) := by
  simp [readU64, encU64, u64Of_enc]

@[simp] theorem readBytes_append (xs r : Bytes) : readBytes xs.length (xs ++ r) = .ok (xs, r) := by
  simp [readBytes]

theorem readBytes_append' (n : Nat) (xs r : Bytes) (h : xs.length = n) :
    readBytes n (xs ++ r) = .ok (xs, r) := by
  subst h; simp

/-- Round trip of a counted loop, element by element. -/
theorem readN_enc (enc : α → Bytes) (dec : Rd α) (xs : List α)
    (h : ∀ x ∈ xs, ∀ r, dec (enc x ++ r) = .ok (x, r)) (r : Bytes) :
    readN xs.length dec (xs.flatMap enc ++ r) = .ok (xs, r) := by
  induction xs with
  | nil => simp [readN]
  | cons x rest ih =>
    have hx := h x (by simp)
    have hrest : ∀ y ∈ rest, ∀ r, dec (enc y ++ r) = .ok (y, r) := fun y hy => h y (by simp [hy])
    simp [readN, List.flatMap_cons, List.append_assoc, hx, ih hrest]

/-- Round trip of `u32 count` + elements. -/
theorem readVec_enc (enc : α → Bytes) (dec : Rd α) (xs : List α) (hlen : lenOk xs.length = true)
    (h : ∀ x ∈ xs, ∀ r, dec (enc x ++ r) = .ok (x, r)) (r : Bytes) :
    readVec dec (encVec enc xs ++ r) = .ok (xs, r) := by
  have hl := ofNat_toNat_of_lt (lenOk_iff.mp hlen)
  simp [readVec, encVec, List.append_assoc, hl, readN_enc enc dec xs h r]

theorem readVec_enc_total (enc : α → Bytes) (dec : Rd α) (xs : List α) (hlen : lenOk xs.length = true)
    (h : ∀ x r, dec (enc x ++ r) = .ok (x, r)) (r : Bytes) :
    readVec dec (encVec enc xs ++ r) = .ok (xs, r) :=
  readVec_enc enc dec xs hlen (fun x _ r => h x r) r

theorem optU32_unOpt (o : Option UInt32) (h : optOk o = true) : optU32 (unOpt o) = o := by
  cases o with
  | none => simp [unOpt, optU32]
  | some x =>
    have : x ≠ u32Max := by simpa [optOk] using h
    simp [unOpt, optU32, this]

/-! ## element codecs -/

@[simp] theorem decField_enc (f : Field) (r : Bytes) : decField (encField f ++ r) = .ok (f, r) := by
  simp [decField, encField]

@[simp] theorem decDim_enc (d : UInt64 × UInt64) (r : Bytes) : decDim (encDim d ++ r) = .ok (d, r) := by
  simp [decDim, encDim]

@[simp] theorem decVariant_enc (v : EnumVariant) (r : Bytes) :
    decVariant (encVariant v ++ r) = .ok (v, r) := by
  simp [decVariant, encVariant]

@[simp] theorem decIMethod_enc (m : InterfaceMethod) (r : Bytes) :
    decIMethod (encIMethod m ++ r) = .ok (m, r) := by
  simp [decIMethod, encIMethod]

@[simp] theorem decRetainInitEntry_enc (e : RetainInitEntry) (r : Bytes) :
    decRetainInitEntry (encRetainInitEntry e ++ r) = .ok (e, r) := by
  simp [decRetainInitEntry, encRetainInitEntry]

@[simp] theorem decSectionEntry_enc (e : SectionEntry) (r : Bytes) :
    decSectionEntry (encSectionEntry e ++ r) = .ok (e, r) := by
  simp [decSectionEntry, encSectionEntry]

theorem decDebugEntry_enc (e : DebugEntry) (r : Bytes) :
    decDebugEntry (encDebugEntry e ++ r) = .ok (e, r) := by
  simp [decDebugEntry, encDebugEntry, readBytes]

theorem decIoBinding_enc (b : IoBinding) (h : b.wf = true) (r : Bytes) :
    decIoBinding (encIoBinding b ++ r) = .ok (b, r) := by
  simp [decIoBinding, encIoBinding, optU32_unOpt _ (by simpa [IoBinding.wf] using h)]

theorem decVarMetaEntry_enc (e : VarMetaEntry) (h : e.wf = true) (r : Bytes) :
    decVarMetaEntry (encVarMetaEntry e ++ r) = .ok (e, r) := by
  simp [decVarMetaEntry, encVarMetaEntry, optU32_unOpt _ (by simpa [VarMetaEntry.wf] using h)]

theorem decConst_enc (c : ConstEntry) (h : c.wf = true) (r : Bytes) :
    decConst (encConst c ++ r) = .ok (c, r) := by
  have hl := ofNat_toNat_of_lt (lenOk_iff.mp (by simpa [ConstEntry.wf] using h))
  simp [decConst, encConst, hl]

theorem readVec_u32 (xs : List UInt32) (h : lenOk xs.length = true) (r : Bytes) :
    readVec readU32 (encVec encU32 xs ++ r) = .ok (xs, r) :=
  readVec_enc_total encU32 readU32 xs h readU32_enc r

theorem readVec_u64 (xs : List UInt64) (h : lenOk xs.length = true) (r : Bytes) :
    readVec readU64 (encVec encU64 xs ++ r) = .ok (xs, r) :=
  readVec_enc_total encU64 readU64 xs h readU64_enc r

theorem decTask_enc (t : TaskEntry) (h : t.wf = true) (r : Bytes) :
    decTask (encTask t ++ r) = .ok (t, r) := by
  simp only [TaskEntry.wf, Bool.and_eq_true] at h
  obtain ⟨⟨h1, h2⟩, h3⟩ := h
  simp [decTask, encTask, List.append_assoc, readVec_u32 _ h2, readVec_u32 _ h3, optU32_unOpt _ h1]

theorem decResource_enc (x : ResourceEntry) (h : x.wf = true) (r : Bytes) :
    decResource (encResource x ++ r) = .ok (x, r) := by
  simp only [ResourceEntry.wf, Bool.and_eq_true, List.all_eq_true] at h
  obtain ⟨h1, h2⟩ := h
  have hv := readVec_enc encTask decTask x.tasks h1 (fun t ht r => decTask_enc t (h2 t ht) r)
  simp [decResource, encResource, List.append_assoc, hv]

theorem decSegment_enc (s : RefSegment) (h : s.wf = true) (r : Bytes) :
    decSegment (encSegment s ++ r) = .ok (s, r) := by
  cases s with
  | index is =>
    have hv := readVec_u64 is (by simpa [RefSegment.wf] using h)
    simp [decSegment, encSegment, readBytes, hv]
  | field n => simp [decSegment, encSegment, readBytes]

theorem RefLocation.fromRaw_toRaw (l : RefLocation) : RefLocation.fromRaw l.toRaw = some l := by
  cases l <;> rfl
theorem PouKind.fromRaw_toRaw (k : PouKind) : PouKind.fromRaw k.toRaw = some k := by
  cases k <;> rfl
theorem TypeKind.fromRaw_toRaw (k : TypeKind) : TypeKind.fromRaw k.toRaw = some k := by
  cases k <;> rfl

theorem decRef_enc (e : RefEntry) (h : e.wf = true) (r : Bytes) :
    decRef (encRef e ++ r) = .ok (e, r) := by
  simp only [RefEntry.wf, Bool.and_eq_true, List.all_eq_true] at h
  obtain ⟨h1, h2⟩ := h
  have hl := ofNat_toNat_of_lt (lenOk_iff.mp h1)
  have hv := readN_enc encSegment decSegment e.segments (fun s hs r => decSegment_enc s (h2 s hs) r)
  simp [decRef, encRef, encVec, List.append_assoc, RefLocation.fromRaw_toRaw, hl, hv]

theorem decParam_enc (minor : UInt16) (p : ParamEntry) (h : p.wf minor = true) (r : Bytes) :
    decParam minor (encParam minor p ++ r) = .ok (p, r) := by
  simp only [ParamEntry.wf, Bool.and_eq_true, Bool.or_eq_true, decide_eq_true_eq] at h
  obtain ⟨h1, h2⟩ := h
  by_cases hm : minor ≥ 1
  · simp [decParam, encParam, hm, optU32_unOpt _ h1]
  · have hn : p.defaultConstIdx = none := by
      cases h2 with
      | inl h => exact absurd h hm
      | inr h => simpa using h
    cases p
    simp_all [decParam, encParam]

theorem decInterfaceImpl_enc (i : InterfaceImpl) (h : i.wf = true) (r : Bytes) :
    decInterfaceImpl (encInterfaceImpl i ++ r) = .ok (i, r) := by
  simp [decInterfaceImpl, encInterfaceImpl, List.append_assoc,
    readVec_u32 _ (by simpa [InterfaceImpl.wf] using h)]

@[simp] theorem decMethod_enc (m : MethodEntry) (r : Bytes) :
    decMethod (encMethod m ++ r) = .ok (m, r) := by
  simp [decMethod, encMethod]

theorem decClassMeta_enc (cm : PouClassMeta) (h : cm.wf = true) (r : Bytes) :
    decClassMeta (encClassMeta cm ++ r) = .ok (cm, r) := by
  simp only [PouClassMeta.wf, Bool.and_eq_true, List.all_eq_true] at h
  obtain ⟨⟨⟨h1, h2⟩, h3⟩, h4⟩ := h
  have hi := readVec_enc encInterfaceImpl decInterfaceImpl cm.interfaces h2
    (fun i hi r => decInterfaceImpl_enc i (h3 i hi) r)
  have hm := readVec_enc_total encMethod decMethod cm.methods h4 decMethod_enc
  simp [decClassMeta, encClassMeta, List.append_assoc, hi, hm, optU32_unOpt _ h1]

theorem decPou_enc (minor : UInt16) (e : PouEntry) (h : e.wf minor = true) (r : Bytes) :
    decPou minor (encPou minor e ++ r) = .ok (e, r) := by
  obtain ⟨id, nameIdx, kind, codeOffset, codeLength, lrs, lrc, ret, owner, params, cm⟩ := e
  simp only [PouEntry.wf, Bool.and_eq_true, List.all_eq_true, beq_iff_eq] at h
  obtain ⟨⟨⟨⟨⟨h1, h2⟩, h3⟩, h4⟩, h5⟩, h6⟩ := h
  have hmod : params.length % 4294967296 = params.length := Nat.mod_eq_of_lt (lenOk_iff.mp h3)
  have hp := readN_enc (encParam minor) (decParam minor) params
    (fun p hp r => decParam_enc minor p (h4 p hp) r)
  cases cm with
  | none =>
    have hk : kind.isClassLike = false := by simpa using h5.symm
    simp [decPou, encPou, encVec, List.append_assoc, PouKind.fromRaw_toRaw, optU32_unOpt _ h1,
      optU32_unOpt _ h2, hk, hmod, hp]
  | some cm =>
    have hk : kind.isClassLike = true := by simpa using h5.symm
    have hc := decClassMeta_enc cm h6
    simp [decPou, encPou, encVec, List.append_assoc, PouKind.fromRaw_toRaw, optU32_unOpt _ h1,
      optU32_unOpt _ h2, hk, hmod, hp, hc]


theorem zeros_length (n : Nat) : (zeros n).length = n := by simp [zeros]

theorem decString_enc (minor : UInt16) (s : Bytes) (h : stringWf s = true) (r : Bytes) :
    decString minor (encString minor s ++ r) = .ok (s, r) := by
  simp only [stringWf, Bool.and_eq_true] at h
  obtain ⟨h1, h2⟩ := h
  have hl := ofNat_toNat_of_lt (lenOk_iff.mp h1)
  by_cases hp : stringPadding minor s.length > 0
  · have hz := readBytes_append' (stringPadding minor s.length) (zeros (stringPadding minor s.length)) r
      (zeros_length _)
    simp [decString, encString, List.append_assoc, hl, h2, hp, hz]
  · have h0 : stringPadding minor s.length = 0 := by omega
    simp [decString, encString, List.append_assoc, hl, h2, h0, zeros]

theorem decTypeData_enc (k : TypeKind) (d : TypeData) (hk : kindMatches k d = true) (hw : d.wf = true)
    (r : Bytes) : decTypeData k (encTypeData d ++ r) = .ok (d, r) := by
  cases d with
  | primitive p m => cases k <;> simp_all [kindMatches, decTypeData, encTypeData, List.append_assoc]
  | array e dims =>
    have hv := readVec_enc_total encDim decDim dims (by simpa [TypeData.wf] using hw) decDim_enc
    cases k <;> simp_all [kindMatches, decTypeData, encTypeData, List.append_assoc]
  | struct fs =>
    have hv := readVec_enc_total encField decField fs (by simpa [TypeData.wf] using hw) decField_enc
    cases k <;> simp_all [kindMatches, decTypeData, encTypeData, List.append_assoc]
  | enum b vs =>
    have hv := readVec_enc_total encVariant decVariant vs (by simpa [TypeData.wf] using hw) decVariant_enc
    cases k <;> simp_all [kindMatches, decTypeData, encTypeData, List.append_assoc]
  | alias t => cases k <;> simp_all [kindMatches, decTypeData, encTypeData, List.append_assoc]
  | subrange b l u => cases k <;> simp_all [kindMatches, decTypeData, encTypeData, List.append_assoc]
  | reference t => cases k <;> simp_all [kindMatches, decTypeData, encTypeData, List.append_assoc]
  | union fs =>
    have hv := readVec_enc_total encField decField fs (by simpa [TypeData.wf] using hw) decField_enc
    cases k <;> simp_all [kindMatches, decTypeData, encTypeData, List.append_assoc]
  | pou p => cases k <;> simp_all [kindMatches, decTypeData, encTypeData, List.append_assoc]
  | interface ms =>
    have hv := readVec_enc_total encIMethod decIMethod ms (by simpa [TypeData.wf] using hw) decIMethod_enc
    cases k <;> simp_all [kindMatches, decTypeData, encTypeData, List.append_assoc]

theorem decTypeEntry_enc (e : TypeEntry) (h : e.wf = true) (r : Bytes) :
    decTypeEntry (encTypeEntry e ++ r) = .ok (e, r) := by
  obtain ⟨kind, nameIdx, data⟩ := e
  simp only [TypeEntry.wf, Bool.and_eq_true] at h
  obtain ⟨⟨h1, h2⟩, h3⟩ := h
  simp [decTypeEntry, encTypeEntry, List.append_assoc, TypeKind.fromRaw_toRaw,
    decTypeData_enc kind data h1 h3, optU32_unOpt _ h2]


/-! ## type table with its offset table -/

theorem nextTypeOffset_toNat (cursor : UInt32) (n : Nat) (h : cursor.toNat + n < 4294967296) :
    (nextTypeOffset cursor n).toNat = cursor.toNat + n := by
  have hn : (UInt32.ofNat n).toNat = n := ofNat_toNat_of_lt (by omega)
  unfold nextTypeOffset
  simp only [hn, show ¬ (cursor.toNat + n ≥ 4294967296) by omega, if_false]
  exact ofNat_toNat_of_lt h

theorem typeEntryAt_enc (pre buf post : Bytes) (e : TypeEntry) (base : Nat) (prev : Option UInt32)
    (he : decTypeEntry buf = .ok (e, [])) (hbase : base ≤ pre.length)
    (hprev : ∀ p, prev = some p → p.toNat ≤ pre.length)
    (hfirst : prev = none → pre.length = base) :
    typeEntryAt (pre ++ (buf ++ post)) base prev pre.length (pre.length + buf.length) = .ok e := by
  have hfirst' : ¬ (prev.isNone ∧ pre.length ≠ base) := by
    intro ⟨h1, h2⟩
    exact h2 (hfirst (by simpa using h1))
  have hprev' : unsortedAfter prev pre.length = false := by
    cases prev with
    | none => rfl
    | some p => have := hprev p rfl; simp [unsortedAfter]; omega
  have hc1 : ¬ (pre.length < base ∨ pre.length > (pre ++ (buf ++ post)).length ∨
      pre.length + buf.length > (pre ++ (buf ++ post)).length ∨
      pre.length + buf.length < pre.length) := by
    simp only [List.length_append]; omega
  have hslice : List.take (pre.length + buf.length - pre.length)
      (List.drop pre.length (pre ++ (buf ++ post))) = buf := by simp
  unfold typeEntryAt
  rw [if_neg hc1, if_neg hfirst', hprev', hslice, he]
  simp

theorem decTypeEntriesAt_enc (es : List TypeEntry) (hwf : ∀ e ∈ es, e.wf = true) :
    ∀ (pre : Bytes) (base : Nat) (prev : Option UInt32) (cursor : UInt32),
    cursor.toNat = pre.length → base ≤ pre.length →
    (∀ p, prev = some p → p.toNat ≤ cursor.toNat) → (prev = none → pre.length = base) →
    pre.length + ((es.map encTypeEntry).flatMap id).length < 4294967296 →
    decTypeEntriesAt (pre ++ (es.map encTypeEntry).flatMap id) base prev
      (computeTypeOffsetsFrom cursor (es.map encTypeEntry)) = .ok es := by
  induction es with
  | nil => intros; simp [computeTypeOffsetsFrom, decTypeEntriesAt]
  | cons e rest ih =>
    intro pre base prev cursor hcur hbase hprev hfirst hlen
    have he := decTypeEntry_enc e (hwf e (by simp)) []
    have hrest : ∀ x ∈ rest, x.wf = true := fun x hx => hwf x (by simp [hx])
    have hsplit : ((e :: rest).map encTypeEntry).flatMap id
        = encTypeEntry e ++ (rest.map encTypeEntry).flatMap id := by simp
    rw [hsplit] at hlen ⊢
    generalize hrb : (rest.map encTypeEntry).flatMap id = restBytes at *
    generalize hbuf : encTypeEntry e = buf at *
    simp only [List.length_append] at hlen
    simp only [List.append_nil] at he
    have hnext := nextTypeOffset_toNat cursor buf.length (by omega)
    generalize hnc : nextTypeOffset cursor buf.length = nextc at *
    have hih := ih hrest (pre ++ buf) base (some cursor) nextc
      (by rw [hnext]; simp; omega) (by simp; omega)
      (by intro p hp; cases hp; omega) (by intro hn; cases hn)
      (by simp only [List.length_append]; omega)
    have hno : nextOffset (pre ++ (buf ++ restBytes)) (computeTypeOffsetsFrom nextc (rest.map encTypeEntry))
        = pre.length + buf.length := by
      cases rest with
      | nil => simp at hrb; subst hrb; simp [computeTypeOffsetsFrom, nextOffset]
      | cons e2 rest2 => simp [computeTypeOffsetsFrom, nextOffset]; omega
    have hte := typeEntryAt_enc pre buf restBytes e base prev he hbase
      (by intro p hp; have := hprev p hp; omega) hfirst
    simp only [List.map_cons, hbuf, computeTypeOffsetsFrom, hnc, decTypeEntriesAt, hno, hcur, hte]
    rw [← List.append_assoc, hih]


theorem computeTypeOffsetsFrom_length (c : UInt32) (bufs : List Bytes) :
    (computeTypeOffsetsFrom c bufs).length = bufs.length := by
  induction bufs generalizing c with
  | nil => rfl
  | cons b rest ih => simp [computeTypeOffsetsFrom, ih]

theorem flatMap_encU32_length (xs : List UInt32) : (xs.flatMap encU32).length = 4 * xs.length := by
  induction xs with
  | nil => rfl
  | cons x rest ih => simp [List.flatMap_cons, ih]; omega

theorem decTypeTable_enc (minor : UInt16) (t : TypeTable) (h : t.wf minor = true)
    (hsz : (encTypeTable minor t).length < 4294967296) :
    decTypeTable minor (encTypeTable minor t) = .ok t := by
  obtain ⟨offsets, entries⟩ := t
  simp only [TypeTable.wf, Bool.and_eq_true, List.all_eq_true, decide_eq_true_eq] at h
  obtain ⟨⟨h1, h2⟩, h3⟩ := h
  have hl := ofNat_toNat_of_lt (lenOk_iff.mp h1)
  by_cases hm : minor ≥ 1
  · simp only [hm, if_true] at h3
    subst h3
    simp only [encTypeTable, hm, if_true] at hsz ⊢
    generalize hbufs : entries.map encTypeEntry = bufs at *
    have hbl : bufs.length = entries.length := by rw [← hbufs]; simp
    have hoffl : (computeTypeOffsets bufs).length = entries.length := by
      simp [computeTypeOffsets, computeTypeOffsetsFrom_length, hbl]
    have hro := readN_enc encU32 readU32 (computeTypeOffsets bufs) (fun x _ r => readU32_enc x r)
      (bufs.flatMap id)
    rw [hoffl] at hro
    rw [List.length_append, List.length_append, encU32_length, flatMap_encU32_length, hoffl] at hsz
    -- the first offset is 4 + 4 * n
    have hcur : (4 + UInt32.ofNat bufs.length * 4 : UInt32).toNat = 4 + 4 * entries.length := by
      rw [hbl]
      simp [UInt32.toNat_add, UInt32.toNat_mul, UInt32.toNat_ofNat']
      omega
    have hpre : (encU32 (UInt32.ofNat entries.length) ++ (computeTypeOffsets bufs).flatMap encU32).length
        = 4 + 4 * entries.length := by
      rw [List.length_append, encU32_length, flatMap_encU32_length, hoffl]
    have hmain : decTypeEntriesAt
        ((encU32 (UInt32.ofNat entries.length) ++ (computeTypeOffsets bufs).flatMap encU32)
          ++ bufs.flatMap id) (4 + 4 * entries.length) none (computeTypeOffsets bufs) = .ok entries := by
      have := decTypeEntriesAt_enc entries h2
        (encU32 (UInt32.ofNat entries.length) ++ (computeTypeOffsets bufs).flatMap encU32)
        (4 + 4 * entries.length) none (4 + UInt32.ofNat bufs.length * 4)
        (by rw [hcur, hpre]) (by rw [hpre]; exact Nat.le_refl _) (by intro p hp; cases hp)
        (fun _ => hpre) (by rw [hpre, hbufs]; omega)
      rw [hbufs] at this
      exact this
    have hbase : (encU32 (UInt32.ofNat entries.length)
        ++ ((computeTypeOffsets bufs).flatMap encU32 ++ bufs.flatMap id)).length
        - (bufs.flatMap id).length = 4 + 4 * entries.length := by
      rw [← List.append_assoc, List.length_append, hpre]; omega
    unfold decTypeTable
    simp only [List.append_assoc, readU32_enc, hm, if_true, hl, hro]
    rw [hbase]
    rw [List.append_assoc] at hmain
    rw [hmain]
  · simp only [hm, if_false] at h3
    subst h3
    have hre := readN_enc encTypeEntry decTypeEntry entries
      (fun e he r => decTypeEntry_enc e (h2 e he) r) []
    simp only [List.append_nil] at hre
    unfold decTypeTable
    simp [encTypeTable, hm, hl, hre]


end TrustVerif.C11
