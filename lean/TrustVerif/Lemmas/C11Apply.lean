import TrustVerif.Model.C11

/-!
# C11 — applying a validated container: the task FB references are followed without overflow

`Runtime::validate_task` dereferences every FB reference of the tasks with `read_by_ref`; the `Index`
segments carry arbitrary `i64` values from the container.  `array_offset_i64` is modelled with the
overflow checks of the dev profile (`Lookup.panic`); here: on every array a runtime can hold
(`ArrWf`) no index makes it overflow, and an offset it returns is inside the element vector.
-/
namespace TrustVerif.C11

/-! ## `array_offset_i64` / `read_by_ref_path`: no overflow on the arrays a runtime holds -/

/-- number of elements the loop's (reversed, zipped) list of dimensions spans -/
def loopLen : List ((Int × Int) × Int) → Int
  | [] => 1
  | ((lo, hi), _) :: rest => (hi - lo + 1) * loopLen rest

/-- number of elements of an array with these dimensions -/
def dimsLen : List (Int × Int) → Int
  | [] => 1
  | (lo, hi) :: rest => (hi - lo + 1) * dimsLen rest

theorem inI64_iff (x : Int) : inI64 x = true ↔ (-9223372036854775808 ≤ x ∧ x ≤ 9223372036854775807) := by
  unfold inI64; rw [Bool.and_eq_true, decide_eq_true_iff, decide_eq_true_iff]; rfl

theorem inI128_iff (x : Int) : inI128 x = true ↔
    (-170141183460469231731687303715884105728 ≤ x ∧ x ≤ 170141183460469231731687303715884105727) := by
  unfold inI128; rw [Bool.and_eq_true, decide_eq_true_iff, decide_eq_true_iff]; rfl

theorem loopLen_pos (l : List ((Int × Int) × Int)) (h : ∀ x ∈ l, x.1.1 ≤ x.1.2) : 1 ≤ loopLen l := by
  induction l with
  | nil => simp [loopLen]
  | cons x rest ih =>
    obtain ⟨⟨lo, hi⟩, i⟩ := x
    have h1 : lo ≤ hi := h ((lo, hi), i) (by simp)
    have h2 := ih (fun y hy => h y (by simp [hy]))
    simp only [loopLen]
    have : 1 * 1 ≤ (hi - lo + 1) * loopLen rest := Int.mul_le_mul (by omega) h2 (by omega) (by omega)
    omega

theorem arrayOffsetLoop_safe (l : List ((Int × Int) × Int)) :
    ∀ (offset stride : Int), (∀ x ∈ l, x.1.1 ≤ x.1.2) → 0 ≤ offset → offset < stride →
      stride * loopLen l ≤ i64Max →
      arrayOffsetLoop l offset stride ≠ .panic ∧
        ∀ off, arrayOffsetLoop l offset stride = .some off → 0 ≤ off ∧ off < stride * loopLen l := by
  induction l with
  | nil =>
    intro offset stride _ h0 h1 _
    refine ⟨by simp [arrayOffsetLoop], ?_⟩
    intro off h
    simp only [arrayOffsetLoop, Lookup.some.injEq] at h
    simp only [loopLen]
    omega
  | cons x rest ih =>
    obtain ⟨⟨lo, hi⟩, idx⟩ := x
    intro offset stride hb h0 h1 hfit
    have hlohi : lo ≤ hi := hb ((lo, hi), idx) (by simp)
    have hrest : ∀ y ∈ rest, y.1.1 ≤ y.1.2 := fun y hy => hb y (by simp [hy])
    have hp := loopLen_pos rest hrest
    simp only [loopLen] at hfit ⊢
    rw [← Int.mul_assoc] at hfit ⊢
    unfold arrayOffsetLoop
    by_cases hr : idx < lo ∨ idx > hi
    · simp [hr]
    · rw [if_neg hr]
      have hge : lo ≤ idx := by omega
      have hle : idx ≤ hi := by omega
      have hs : 1 ≤ stride := by omega
      have hA0 : 0 ≤ stride * (hi - lo + 1) := Int.mul_nonneg (by omega) (by omega)
      have hA1 : stride * (hi - lo + 1) * 1 ≤ stride * (hi - lo + 1) * loopLen rest :=
        Int.mul_le_mul_of_nonneg_left hp hA0
      have hlen : 1 * (hi - lo + 1) ≤ stride * (hi - lo + 1) :=
        Int.mul_le_mul_of_nonneg_right hs (by omega)
      have hrel : (idx - lo) * stride ≤ (hi - lo) * stride :=
        Int.mul_le_mul_of_nonneg_right (by omega) (by omega)
      have hrel0 : 0 ≤ (idx - lo) * stride := Int.mul_nonneg (by omega) (by omega)
      have hexp : stride * (hi - lo + 1) = (hi - lo) * stride + stride := by
        rw [Int.mul_add, Int.mul_one, Int.mul_comm]
      simp only [i64Max] at hfit
      have c1 : inI64 (hi - lo) = true := by
        rw [inI64_iff]; omega
      have c2 : inI64 (hi - lo + 1) = true := by
        rw [inI64_iff]; omega
      have c3 : inI64 (idx - lo) = true := by
        rw [inI64_iff]; omega
      have c4 : inI128 ((idx - lo) * stride) = true := by
        rw [inI128_iff]; omega
      have c5 : inI128 (offset + (idx - lo) * stride) = true := by
        rw [inI128_iff]; omega
      have c6 : inI128 (stride * (hi - lo + 1)) = true := by
        rw [inI128_iff]; omega
      simp only [c1, c2, c3, c4, c5, c6, Bool.and_self, Bool.not_true, Bool.false_eq_true, if_false]
      exact ih (offset + (idx - lo) * stride) (stride * (hi - lo + 1)) hrest (by omega) (by omega)
        (by simp only [i64Max]; exact hfit)

theorem loopLen_append (l : List ((Int × Int) × Int)) (x : (Int × Int) × Int) :
    loopLen (l ++ [x]) = loopLen l * (x.1.2 - x.1.1 + 1) := by
  induction l with
  | nil => obtain ⟨⟨lo, hi⟩, i⟩ := x; simp [loopLen]
  | cons y rest ih =>
    obtain ⟨⟨lo, hi⟩, i⟩ := y
    simp only [List.cons_append, loopLen, ih, Int.mul_assoc]

theorem loopLen_reverse (l : List ((Int × Int) × Int)) : loopLen l.reverse = loopLen l := by
  induction l with
  | nil => rfl
  | cons y rest ih =>
    obtain ⟨⟨lo, hi⟩, i⟩ := y
    simp only [List.reverse_cons, loopLen_append, ih, loopLen, Int.mul_comm]

theorem loopLen_zip (dims : List (Int × Int)) :
    ∀ (indices : List Int), dims.length = indices.length → loopLen (dims.zip indices) = dimsLen dims := by
  induction dims with
  | nil => intro indices _; simp [loopLen, dimsLen]
  | cons d rest ih =>
    intro indices h
    obtain ⟨lo, hi⟩ := d
    cases indices with
    | nil => simp at h
    | cons i is =>
      simp only [List.zip_cons_cons, loopLen, dimsLen]
      rw [ih is (by simpa using h)]

/-- An array value as a runtime holds it: every dimension is non-empty (`lower ≤ upper`, IEC 61131-3)
and the element vector has `∏ (upper − lower + 1)` entries — at most `isize::MAX`, the capacity of a
`Vec`. -/
structure ArrWf (dims : List (Int × Int)) (n : Nat) : Prop where
  bounds : ∀ d ∈ dims, d.1 ≤ d.2
  len : dimsLen dims = n
  fits : (n : Int) ≤ i64Max

theorem arrayOffset_safe (dims : List (Int × Int)) (indices : List Int) (n : Nat) (h : ArrWf dims n) :
    arrayOffset dims indices ≠ .panic ∧ ∀ off, arrayOffset dims indices = .some off → off < n := by
  unfold arrayOffset
  by_cases hl : dims.length ≠ indices.length
  · simp [hl]
  · rw [if_neg hl]
    have hl' : dims.length = indices.length := by omega
    have hb : ∀ x ∈ (dims.zip indices).reverse, x.1.1 ≤ x.1.2 := by
      intro x hx
      obtain ⟨d, i⟩ := x
      exact h.bounds d (List.of_mem_zip (List.mem_reverse.mp hx)).1
    have hlen : loopLen (dims.zip indices).reverse = n := by
      rw [loopLen_reverse, loopLen_zip dims indices hl', h.len]
    have hs := arrayOffsetLoop_safe (dims.zip indices).reverse 0 1 hb (by omega) (by omega)
      (by rw [hlen]; have := h.fits; omega)
    rw [hlen] at hs
    cases hloop : arrayOffsetLoop (dims.zip indices).reverse 0 1 with
    | panic => exact absurd hloop hs.1
    | none => simp
    | some off =>
      dsimp only
      have ho := hs.2 off hloop
      by_cases hc : 0 ≤ off ∧ off < 18446744073709551616
      · rw [if_pos hc]
        refine ⟨by simp, ?_⟩
        intro k hk
        simp only [Lookup.some.injEq] at hk
        omega
      · rw [if_neg hc]; simp

/-- a value as a runtime holds it: every array in it is well-formed -/
inductive RVal.Wf : RVal → Prop
  | inst (id : UInt32) : RVal.Wf (.inst id)
  | other : RVal.Wf .other
  | arr (dims : List (Int × Int)) (elems : List RVal) :
      ArrWf dims elems.length → (∀ e ∈ elems, RVal.Wf e) → RVal.Wf (.arr dims elems)
  | struct (fields : List (Bytes × RVal)) : (∀ f ∈ fields, RVal.Wf f.2) → RVal.Wf (.struct fields)

theorem readPath_safe (path : List PathSeg) :
    ∀ (v : RVal), v.Wf → readPath v path ≠ .panic ∧ ∀ w, readPath v path = .some w → w.Wf := by
  induction path with
  | nil =>
    intro v hv
    cases v <;> simp only [readPath, ne_eq, reduceCtorEq, not_false_eq_true, Lookup.some.injEq, true_and] <;>
      (intro w hw; exact hw ▸ hv)
  | cons seg rest ih =>
    intro v hv
    cases hv with
    | inst id => cases seg <;> simp [readPath]
    | other => cases seg <;> simp [readPath]
    | struct fields hf =>
      cases seg with
      | index is => simp [readPath]
      | field name =>
        simp only [readPath]
        cases hfind : fields.find? (fun f => f.1 == name) with
        | none => simp
        | some f => exact ih f.2 (hf f (List.mem_of_find?_eq_some hfind))
    | arr dims elems ha he =>
      cases seg with
      | field name => simp [readPath]
      | index is =>
        simp only [readPath]
        have hs := arrayOffset_safe dims (is.map toI64) elems.length ha
        cases hoff : arrayOffset dims (is.map toI64) with
        | panic => exact absurd hoff hs.1
        | none => simp
        | some off =>
          dsimp only
          cases hget : elems[off]? with
          | none => simp
          | some e => exact ih e (he e (List.mem_of_getElem? hget))

/-- the runtime as the view shows it holds only well-formed values -/
structure RtView.Wf (rt : RtView) : Prop where
  globals : ∀ v ∈ rt.globals, v.Wf
  instances : ∀ i ∈ rt.instances, ∀ v ∈ i.vars, v.Wf

theorem readByRef_safe (rt : RtView) (h : rt.Wf) (r : ValueRef) : readByRef rt r ≠ .panic := by
  unfold readByRef
  cases hloc : r.location with
  | global =>
    dsimp only
    cases hg : rt.globals[r.offset]? with
    | none => simp
    | some v => exact (readPath_safe r.path v (h.globals v (List.mem_of_getElem? hg))).1
  | «instance» id =>
    dsimp only
    cases hi : rt.instances.find? (fun i => i.id == id) with
    | none => simp
    | some inst =>
      simp only [Option.bind]
      cases hv : inst.vars[r.offset]? with
      | none => simp
      | some v =>
        exact (readPath_safe r.path v
          (h.instances inst (List.mem_of_find?_eq_some hi) v (List.mem_of_getElem? hv))).1
  | «local» f => simp
  | retain => simp
  | ioInput => simp
  | ioOutput => simp
  | ioMemory => simp

theorem validateTask_progs_safe (rt : RtView) (ps : List Bytes) : validateTask.progs rt ps ≠ .error .panic := by
  induction ps with
  | nil => simp [validateTask.progs]
  | cons p rest ih =>
    unfold validateTask.progs
    split
    · exact ih
    · simp

theorem validateTask_fbs_safe (rt : RtView) (h : rt.Wf) (rs : List ValueRef) :
    validateTask.fbs rt rs ≠ .error .panic := by
  induction rs with
  | nil => simp [validateTask.fbs]
  | cons r rest ih =>
    unfold validateTask.fbs
    have hr := readByRef_safe rt h r
    split
    · split
      · simp
      · split
        · exact ih
        · simp
    · simp
    · simp
    · rename_i heq; exact absurd heq hr

theorem validateTask_safe (rt : RtView) (h : rt.Wf) (t : TaskConfig) : validateTask rt t ≠ .error .panic := by
  unfold validateTask
  have hp := validateTask_progs_safe rt t.programs
  have hf := validateTask_fbs_safe rt h t.fbInstances
  cases hpp : validateTask.progs rt t.programs with
  | error e =>
    simp only [bind, Except.bind]
    intro hc
    injection hc with hc
    exact hp (hpp ▸ hc ▸ rfl)
  | ok u =>
    simp only [bind, Except.bind]
    exact hf

theorem applyTasks_safe (rt : RtView) (h : rt.Wf) (ts : List TaskConfig) :
    ∀ done, (applyTasks rt ts done).1 ≠ some .panic := by
  induction ts with
  | nil => intro done; simp [applyTasks]
  | cons t rest ih =>
    intro done
    unfold applyTasks
    have ht := validateTask_safe rt h t
    cases hv : validateTask rt t with
    | error e =>
      dsimp only
      intro hc
      injection hc with hc
      exact ht (hv ▸ hc ▸ rfl)
    | ok u => exact ih (t :: done)

theorem applyBytes_safe (crc : Bytes → UInt32) (rt : RtView) (h : rt.Wf) (bytes : Bytes) (name : Option Bytes) :
    (applyBytes crc rt bytes name).1 ≠ some .panic := by
  unfold applyBytes
  cases hd : decode crc bytes with
  | error e => simp
  | ok m =>
    dsimp only
    unfold applyModule
    cases hv : validate m with
    | error e => simp
    | ok u =>
      dsimp only
      cases hm : metadata m with
      | error e => simp
      | ok md =>
        dsimp only
        unfold applyMetadata
        by_cases hmaj : md.major ≠ supportedMajor
        · simp [hmaj]
        · rw [if_neg hmaj]
          cases name <;> dsimp only <;> split
          all_goals first
            | (simp; done)
            | (next r _ =>
                have := applyTasks_safe rt h r.tasks []
                cases hat : applyTasks rt r.tasks [] with
                | mk err tasks => rw [hat] at this; exact this)

end TrustVerif.C11
