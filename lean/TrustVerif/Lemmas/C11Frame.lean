import TrustVerif.Lemmas.C11

/-!
# C11 — lemmas: section codecs and container framing (`decode (encode m) = m`)
-/
set_option linter.unusedSimpArgs false

namespace TrustVerif.C11

/-! ## every section codec round-trips -/

theorem runSection_readVec (enc : α → Bytes) (dec : Rd α) (xs : List α) (hlen : lenOk xs.length = true)
    (h : ∀ x ∈ xs, ∀ r, dec (enc x ++ r) = .ok (x, r)) :
    runSection (readVec dec) (encVec enc xs) = .ok xs := by
  have := readVec_enc enc dec xs hlen h []
  simp only [List.append_nil] at this
  simp [runSection, this]

theorem decodeSectionData_enc (minor : UInt16) (s : Section) (h : s.wf minor = true)
    (hsz : (encodeSectionData minor s.data).length < 4294967296) :
    decodeSectionData minor s.id (encodeSectionData minor s.data) = .ok s.data := by
  obtain ⟨id, flags, data⟩ := s
  simp only [Section.wf, Bool.and_eq_true] at h
  obtain ⟨hid, hwf⟩ := h
  cases data with
  | stringTable t =>
    simp only [idMatches, beq_iff_eq] at hid
    simp only [SectionData.wf, Bool.and_eq_true, List.all_eq_true] at hwf
    subst hid
    have := runSection_readVec (encString minor) (decString minor) t hwf.1
      (fun x hx r => decString_enc minor x (hwf.2 x hx) r)
    simp [decodeSectionData, encodeSectionData, decStringTable, encStringTable, this, Except.map]
  | debugStringTable t =>
    simp only [idMatches, beq_iff_eq] at hid
    simp only [SectionData.wf, Bool.and_eq_true, List.all_eq_true] at hwf
    subst hid
    have := runSection_readVec (encString minor) (decString minor) t hwf.1
      (fun x hx r => decString_enc minor x (hwf.2 x hx) r)
    simp [decodeSectionData, encodeSectionData, decStringTable, encStringTable, this, Except.map,
      idDebugStringTable, idStringTable]
  | typeTable t =>
    simp only [idMatches, beq_iff_eq] at hid
    simp only [SectionData.wf] at hwf
    subst hid
    have := decTypeTable_enc minor t hwf (by simpa [encodeSectionData] using hsz)
    simp [decodeSectionData, encodeSectionData, this, Except.map, idTypeTable, idStringTable,
      idDebugStringTable]
  | constPool xs =>
    simp only [idMatches, beq_iff_eq] at hid
    simp only [SectionData.wf, Bool.and_eq_true, List.all_eq_true] at hwf
    subst hid
    have := runSection_readVec (encConst) (decConst) xs hwf.1
      (fun x hx r => decConst_enc x (hwf.2 x hx) r)
    simp [decodeSectionData, encodeSectionData, this, Except.map, idStringTable, idDebugStringTable, idTypeTable, idConstPool, idRefTable, idPouIndex, idPouBodies, idResourceMeta, idIoMap, idDebugMap, idVarMeta, idRetainInit]
  | refTable xs =>
    simp only [idMatches, beq_iff_eq] at hid
    simp only [SectionData.wf, Bool.and_eq_true, List.all_eq_true] at hwf
    subst hid
    have := runSection_readVec (encRef) (decRef) xs hwf.1
      (fun x hx r => decRef_enc x (hwf.2 x hx) r)
    simp [decodeSectionData, encodeSectionData, this, Except.map, idStringTable, idDebugStringTable, idTypeTable, idConstPool, idRefTable, idPouIndex, idPouBodies, idResourceMeta, idIoMap, idDebugMap, idVarMeta, idRetainInit]
  | pouIndex xs =>
    simp only [idMatches, beq_iff_eq] at hid
    simp only [SectionData.wf, Bool.and_eq_true, List.all_eq_true] at hwf
    subst hid
    have := runSection_readVec (encPou minor) (decPou minor) xs hwf.1
      (fun x hx r => decPou_enc minor x (hwf.2 x hx) r)
    simp [decodeSectionData, encodeSectionData, this, Except.map, idStringTable, idDebugStringTable, idTypeTable, idConstPool, idRefTable, idPouIndex, idPouBodies, idResourceMeta, idIoMap, idDebugMap, idVarMeta, idRetainInit]
  | pouBodies b =>
    simp only [idMatches, beq_iff_eq] at hid
    subst hid
    simp [decodeSectionData, encodeSectionData, idStringTable, idDebugStringTable, idTypeTable, idConstPool, idRefTable, idPouIndex, idPouBodies, idResourceMeta, idIoMap, idDebugMap, idVarMeta, idRetainInit]
  | resourceMeta xs =>
    simp only [idMatches, beq_iff_eq] at hid
    simp only [SectionData.wf, Bool.and_eq_true, List.all_eq_true] at hwf
    subst hid
    have := runSection_readVec (encResource) (decResource) xs hwf.1
      (fun x hx r => decResource_enc x (hwf.2 x hx) r)
    simp [decodeSectionData, encodeSectionData, this, Except.map, idStringTable, idDebugStringTable, idTypeTable, idConstPool, idRefTable, idPouIndex, idPouBodies, idResourceMeta, idIoMap, idDebugMap, idVarMeta, idRetainInit]
  | ioMap xs =>
    simp only [idMatches, beq_iff_eq] at hid
    simp only [SectionData.wf, Bool.and_eq_true, List.all_eq_true] at hwf
    subst hid
    have := runSection_readVec (encIoBinding) (decIoBinding) xs hwf.1
      (fun x hx r => decIoBinding_enc x (hwf.2 x hx) r)
    simp [decodeSectionData, encodeSectionData, this, Except.map, idStringTable, idDebugStringTable, idTypeTable, idConstPool, idRefTable, idPouIndex, idPouBodies, idResourceMeta, idIoMap, idDebugMap, idVarMeta, idRetainInit]
  | debugMap xs =>
    simp only [idMatches, beq_iff_eq] at hid
    simp only [SectionData.wf] at hwf
    subst hid
    have := runSection_readVec (encDebugEntry) (decDebugEntry) xs hwf
      (fun x _ r => decDebugEntry_enc x r)
    simp [decodeSectionData, encodeSectionData, this, Except.map, idStringTable, idDebugStringTable, idTypeTable, idConstPool, idRefTable, idPouIndex, idPouBodies, idResourceMeta, idIoMap, idDebugMap, idVarMeta, idRetainInit]
  | varMeta xs =>
    simp only [idMatches, beq_iff_eq] at hid
    simp only [SectionData.wf, Bool.and_eq_true, List.all_eq_true] at hwf
    subst hid
    have := runSection_readVec (encVarMetaEntry) (decVarMetaEntry) xs hwf.1
      (fun x hx r => decVarMetaEntry_enc x (hwf.2 x hx) r)
    simp [decodeSectionData, encodeSectionData, this, Except.map, idStringTable, idDebugStringTable, idTypeTable, idConstPool, idRefTable, idPouIndex, idPouBodies, idResourceMeta, idIoMap, idDebugMap, idVarMeta, idRetainInit]
  | retainInit xs =>
    simp only [idMatches, beq_iff_eq] at hid
    simp only [SectionData.wf] at hwf
    subst hid
    have := runSection_readVec (encRetainInitEntry) (decRetainInitEntry) xs hwf
      (fun x _ r => decRetainInitEntry_enc x r)
    simp [decodeSectionData, encodeSectionData, this, Except.map, idStringTable, idDebugStringTable, idTypeTable, idConstPool, idRefTable, idPouIndex, idPouBodies, idResourceMeta, idIoMap, idDebugMap, idVarMeta, idRetainInit]
  | raw b =>
    simp only [idMatches, Bool.not_eq_true', decide_eq_false_iff_not] at hid
    have hne : ∀ k : UInt16, (1 ≤ k.toNat ∧ k.toNat ≤ 12) → id ≠ k := by
      intro k hk hik; subst hik; exact hid hk
    simp [decodeSectionData, encodeSectionData,
      hne idStringTable (by decide), hne idDebugStringTable (by decide), hne idTypeTable (by decide),
      hne idConstPool (by decide), hne idRefTable (by decide), hne idPouIndex (by decide),
      hne idPouBodies (by decide), hne idResourceMeta (by decide), hne idIoMap (by decide),
      hne idDebugMap (by decide), hne idVarMeta (by decide), hne idRetainInit (by decide)]


/-! ## framing: header, section table, layout -/

theorem align4_ge (n : Nat) : n ≤ align4 n := by unfold align4; omega
theorem align4_mod (n : Nat) : align4 n % 4 = 0 := by unfold align4; omega
theorem align4_add (a b : Nat) (h : a % 4 = 0) : align4 (a + b) = a + align4 b := by
  unfold align4; omega
theorem align4_lt (n : Nat) : align4 n < n + 4 := by unfold align4; omega

theorem padTo4_length (b : Bytes) : (padTo4 b).length = align4 b.length := by
  have := align4_ge b.length
  simp [padTo4, zeros]; omega

abbrev Payload := UInt16 × UInt16 × Bytes

def payloadsSize (ps : List Payload) : Nat := (ps.map fun p => align4 p.2.2.length).sum

@[simp] theorem payloadsSize_nil : payloadsSize [] = 0 := rfl
@[simp] theorem payloadsSize_cons (p : Payload) (ps : List Payload) :
    payloadsSize (p :: ps) = align4 p.2.2.length + payloadsSize ps := by simp [payloadsSize]

theorem layoutEntries_length (off : Nat) (ps : List Payload) :
    (layoutEntries off ps).length = ps.length := by
  induction ps generalizing off with
  | nil => rfl
  | cons p rest ih => obtain ⟨id, fl, d⟩ := p; simp [layoutEntries, ih]

/-- every entry laid out from `off` on starts at or after `off` -/
theorem layoutEntries_offset_ge (off : Nat) (ps : List Payload) (hmod : off % 4 = 0)
    (hb : off + payloadsSize ps < 4294967296) :
    ∀ e ∈ layoutEntries off ps, off ≤ e.offset.toNat := by
  induction ps generalizing off with
  | nil => intro e he; simp [layoutEntries] at he
  | cons p rest ih =>
    obtain ⟨id, fl, d⟩ := p
    intro e he
    have hal := align4_add off d.length hmod
    simp only [payloadsSize_cons] at hb
    simp only [layoutEntries, List.mem_cons] at he
    have hge := align4_ge (off + d.length)
    have hlt := align4_lt (off + d.length)
    have hd := align4_ge d.length
    cases he with
    | inl h => subst h; simp [ofNat_toNat_of_lt (show off < 4294967296 by omega)]
    | inr h =>
      have := ih (align4 (off + d.length)) (align4_mod _) (by omega) e h
      omega

theorem layoutEntries_sorted (off : Nat) (ps : List Payload) (hmod : off % 4 = 0)
    (hb : off + payloadsSize ps < 4294967296) :
    (layoutEntries off ps).Pairwise (fun a b => (decide (a.offset ≤ b.offset)) = true) := by
  induction ps generalizing off with
  | nil => simp [layoutEntries]
  | cons p rest ih =>
    obtain ⟨id, fl, d⟩ := p
    simp only [payloadsSize_cons] at hb
    have hge := align4_ge (off + d.length)
    have hd := align4_ge d.length
    have hal := align4_add off d.length hmod
    simp only [layoutEntries, List.pairwise_cons]
    refine ⟨?_, ih _ (align4_mod _) (by omega)⟩
    intro e he
    have := layoutEntries_offset_ge (align4 (off + d.length)) rest (align4_mod _) (by omega) e he
    simp only [decide_eq_true_eq, UInt32.le_iff_toNat_le,
      ofNat_toNat_of_lt (show off < 4294967296 by omega)]
    omega

theorem checkSectionEntries_layout (fileLen : Nat) (ps : List Payload) :
    ∀ (off lastEnd : Nat), off % 4 = 0 → lastEnd ≤ off → off + payloadsSize ps ≤ fileLen →
    off + payloadsSize ps < 4294967296 →
    checkSectionEntries fileLen lastEnd (layoutEntries off ps) = .ok () := by
  induction ps with
  | nil => intros; rfl
  | cons p rest ih =>
    obtain ⟨id, fl, d⟩ := p
    intro off lastEnd hmod hle hfile hb
    simp only [payloadsSize_cons] at hfile hb
    have hd := align4_ge d.length
    have hoff := ofNat_toNat_of_lt (show off < 4294967296 by omega)
    have hlen := ofNat_toNat_of_lt (show d.length < 4294967296 by omega)
    have hnext := align4_add off d.length hmod
    have hrec := ih (align4 (off + d.length)) (off + d.length) (align4_mod _) (align4_ge _)
      (by omega) (by omega)
    simp only [layoutEntries, checkSectionEntries, hoff, hlen]
    simp [hmod, show ¬ (off + d.length > fileLen) by omega, show ¬ (off < lastEnd) by omega, hrec]

def payloadOf (minor : UInt16) (s : Section) : Payload := (s.id, s.flags, encodeSectionData minor s.data)

theorem decodeSections_layout (minor : UInt16) (sections : List Section) :
    ∀ (pre : Bytes), pre.length % 4 = 0 → (∀ s ∈ sections, s.wf minor = true) →
    pre.length + payloadsSize (sections.map (payloadOf minor)) < 4294967296 →
    decodeSections minor (pre ++ (sections.map (payloadOf minor)).flatMap (fun p => padTo4 p.2.2))
      (layoutEntries pre.length (sections.map (payloadOf minor))) = .ok sections := by
  induction sections with
  | nil => intros; rfl
  | cons s rest ih =>
    intro pre hmod hwf hb
    obtain ⟨id, flags, data⟩ := s
    simp only [List.map_cons, payloadOf, payloadsSize_cons] at hb
    generalize hp : encodeSectionData minor data = p at *
    have hd := align4_ge p.length
    have hoff := ofNat_toNat_of_lt (show pre.length < 4294967296 by omega)
    have hlen := ofNat_toNat_of_lt (show p.length < 4294967296 by omega)
    have hsec := decodeSectionData_enc minor ⟨id, flags, data⟩ (hwf _ (by simp))
      (by simp only [hp]; omega)
    simp only [hp] at hsec
    have hnext : align4 (pre.length + p.length) = (pre ++ padTo4 p).length := by
      rw [List.length_append, padTo4_length, align4_add _ _ hmod]
    have hrec := ih (pre ++ padTo4 p) (by rw [← hnext]; exact align4_mod _)
      (fun x hx => hwf x (by simp [hx]))
      (by rw [← hnext, align4_add _ _ hmod]; omega)
    have hslice : sliceOf (pre ++ (padTo4 p ++ (rest.map (payloadOf minor)).flatMap (fun p => padTo4 p.2.2)))
        pre.length (pre.length + p.length) = p := by
      simp [sliceOf, padTo4, List.append_assoc]
    simp only [List.map_cons, payloadOf, List.flatMap_cons, layoutEntries, decodeSections, hp, hoff,
      hlen, hslice, hsec, hnext]
    simp only [payloadOf, List.append_assoc] at hrec
    rw [hrec]


theorem flatMap_padTo4_length (ps : List Payload) :
    (ps.flatMap (fun p => padTo4 p.2.2)).length = payloadsSize ps := by
  induction ps with
  | nil => rfl
  | cons p rest ih => rw [List.flatMap_cons, List.length_append, padTo4_length, ih, payloadsSize_cons]

theorem encSectionEntry_length (e : SectionEntry) : (encSectionEntry e).length = 12 := by
  simp [encSectionEntry]

theorem table_length (es : List SectionEntry) : (es.flatMap encSectionEntry).length = es.length * 12 := by
  induction es with
  | nil => rfl
  | cons e rest ih => simp [List.flatMap_cons, encSectionEntry_length, ih]; omega

theorem encodeHeader_length (m : Module) (c : UInt16) (k : UInt32) : (encodeHeader m c k).length = 24 := by
  simp [encodeHeader, magic]

theorem decHeader_enc (m : Module) (c : UInt16) (k : UInt32) (r : Bytes) :
    decHeader (encodeHeader m c k ++ r) = .ok
      ({ major := m.major, minor := m.minor, flags := m.flags, headerSize := UInt16.ofNat headerSize,
         sectionCount := c, tableOff := UInt32.ofNat headerSize, checksum := k }, r) := by
  have hm := readBytes_append' 4 magic
    (encU16 m.major ++ (encU16 m.minor ++ (encU32 m.flags ++ (encU16 (UInt16.ofNat headerSize) ++
      (encU16 c ++ (encU32 (UInt32.ofNat headerSize) ++ (encU32 k ++ r))))))) rfl
  simp [decHeader, encodeHeader, List.append_assoc, hm]

/-- **Framing.** Decoding what `encode` produced gives the module back. -/
theorem decode_encode (crc : Bytes → UInt32) (m : Module) (h : m.wf = true) :
    ∃ b, encode crc m = .ok b ∧ decode crc b = .ok m := by
  obtain ⟨major, minor, flags, sections⟩ := m
  simp only [Module.wf, Bool.and_eq_true, List.all_eq_true, beq_iff_eq, decide_eq_true_eq] at h
  obtain ⟨⟨⟨hmaj, hn⟩, hwf⟩, hsize⟩ := h
  have hsize := lenOk_iff.mp hsize
  -- the pieces of the encoded container
  generalize hps : sections.map (payloadOf minor) = ps
  have hpl : ps.length = sections.length := by rw [← hps]; simp
  have hsz : encodedSize minor sections
      = align4 (headerSize + sections.length * sectionEntrySize) + payloadsSize ps := by
    rw [← hps]; simp [encodedSize, payloadsSize, payloadOf, Function.comp_def]
  rw [hsz] at hsize
  generalize hoff0 : align4 (headerSize + sections.length * sectionEntrySize) = off0 at *
  generalize hes : layoutEntries off0 ps = entries
  have hel : entries.length = sections.length := by rw [← hes, layoutEntries_length, hpl]
  have hmod0 : off0 % 4 = 0 := by rw [← hoff0]; exact align4_mod _
  have hge0 : headerSize + sections.length * sectionEntrySize ≤ off0 := by rw [← hoff0]; exact align4_ge _
  -- what `encode` returns
  have henc : encode crc ⟨major, minor, flags, sections⟩ = .ok
      (encodeHeader ⟨major, minor, flags, sections⟩ (UInt16.ofNat entries.length)
          (if flags &&& 1 ≠ 0 then crc (encodeBody entries ps) else 0) ++ encodeBody entries ps) := by
    have hps' : sections.map (fun s => (s.id, s.flags, encodeSectionData minor s.data)) = ps := hps
    simp only [encode, hps', hpl, hoff0, hes, hel, show ¬ (sections.length ≥ 65536) by omega, if_false]
  refine ⟨_, henc, ?_⟩
  generalize hck : (if flags &&& 1 ≠ 0 then crc (encodeBody entries ps) else 0) = checksum
  -- body = table ++ padding ++ payloads
  have hbody : encodeBody entries ps = entries.flatMap encSectionEntry
      ++ zeros (off0 - (headerSize + sections.length * sectionEntrySize))
      ++ ps.flatMap (fun p => padTo4 p.2.2) := by
    simp only [encodeBody, encodeBody.padTo4', table_length, hel, sectionEntrySize, ← hoff0]
  have hcount : (UInt16.ofNat entries.length).toNat = sections.length := by
    rw [hel]; simp [UInt16.toNat_ofNat']; omega
  have h24 : (UInt32.ofNat headerSize).toNat = 24 := by decide
  have h24' : (UInt16.ofNat headerSize).toNat = 24 := by decide
  generalize hH : encodeHeader ⟨major, minor, flags, sections⟩ (UInt16.ofNat entries.length) checksum = H
  have hHl : H.length = 24 := by rw [← hH]; exact encodeHeader_length _ _ _
  have hdh := decHeader_enc ⟨major, minor, flags, sections⟩ (UInt16.ofNat entries.length) checksum
    (encodeBody entries ps)
  rw [hH] at hdh
  generalize hT : entries.flatMap encSectionEntry = T at *
  have hTl : T.length = sections.length * 12 := by rw [← hT, table_length, hel]
  generalize hP0 : zeros (off0 - (headerSize + sections.length * sectionEntrySize)) = P0 at *
  have hP0l : P0.length = off0 - (headerSize + sections.length * sectionEntrySize) := by
    rw [← hP0, zeros_length]
  generalize hS : ps.flatMap (fun p => padTo4 p.2.2) = S at *
  have hSl : S.length = payloadsSize ps := by rw [← hS]; exact flatMap_padTo4_length ps
  -- the whole file
  have hfile : (H ++ encodeBody entries ps).length = off0 + payloadsSize ps := by
    rw [hbody]; simp only [List.length_append, hHl, hTl, hP0l, hSl]
    simp only [headerSize, sectionEntrySize] at hge0 ⊢; omega
  have hpre : (H ++ T ++ P0).length = off0 := by
    simp only [List.length_append, hHl, hTl, hP0l]
    simp only [headerSize, sectionEntrySize] at hge0 ⊢; omega
  -- header checks
  have hcheck : checkHeader crc (H ++ encodeBody entries ps)
      { major := major, minor := minor, flags := flags, headerSize := UInt16.ofNat headerSize,
        sectionCount := UInt16.ofNat entries.length, tableOff := UInt32.ofNat headerSize,
        checksum := checksum } = .ok () := by
    have hdrop : (H ++ encodeBody entries ps).drop 24 = encodeBody entries ps := by
      rw [← hHl]; simp
    have hcrc : ¬ (flags &&& 1 ≠ 0 ∧ crc (encodeBody entries ps) ≠ checksum) := by
      intro ⟨hf, hc⟩; rw [← hck] at hc; simp [hf] at hc
    unfold checkHeader
    simp only [h24, h24', hcount, hfile, hdrop]
    simp only [headerSize, sectionEntrySize] at hge0 ⊢
    simp [hcrc, hmaj, show ¬ (24 + sections.length * 12 > off0 + payloadsSize ps) by omega]
  -- the section table
  have hslice : sliceOf (H ++ encodeBody entries ps) 24 (24 + sections.length * 12) = T := by
    rw [hbody, ← hHl, ← hTl]; simp [sliceOf, List.append_assoc]
  have hread : readN sections.length decSectionEntry T = .ok (entries, []) := by
    have := readN_enc encSectionEntry decSectionEntry entries (fun e _ r => decSectionEntry_enc e r) []
    rw [hT, hel] at this; simpa using this
  have hval : validateSectionEntries (H ++ encodeBody entries ps).length entries = .ok () := by
    unfold validateSectionEntries
    rw [hfile, ← hes, List.mergeSort_of_pairwise (layoutEntries_sorted off0 ps hmod0 hsize)]
    exact checkSectionEntries_layout _ ps off0 0 hmod0 (Nat.zero_le _) (Nat.le_refl _) hsize
  have hsecs : decodeSections minor (H ++ encodeBody entries ps) entries = .ok sections := by
    have := decodeSections_layout minor sections (H ++ T ++ P0) (by rw [hpre]; exact hmod0)
      hwf (by rw [hpre, hps]; exact hsize)
    rw [hps, hpre, hS, hes] at this
    rw [hbody]; simpa [List.append_assoc] using this
  unfold decode
  simp only [hdh, hcheck, h24, hcount, sectionEntrySize, hslice, hread, hval, hsecs]



end TrustVerif.C11
