import TrustVerif.Lemmas.C11Validate

/-!
# C11 — lemmas: the decoded module is not larger than the container

`LenExact enc dec`: a decoder consumes exactly as many bytes as the canonical encoding of its result
has.  Proved for every element codec (mostly by one automated pattern: unfold, split every read,
`grind` with the length lemmas of the primitive reads), lifted to sections (`≤`: trailing bytes and
the gap in front of the first type entry are dropped) and to the whole container (sections do not
overlap).
-/
set_option linter.unusedSimpArgs false

namespace TrustVerif.C11
open Rd (fail)

/-- `dec` consumes exactly as many bytes as the canonical encoding of its result has. -/
def LenExact {α : Type} (enc : α → Bytes) (dec : Rd α) : Prop :=
  ∀ s a s', dec s = .ok (a, s') → (enc a).length + s'.length = s.length

theorem readU8_len {s r : Bytes} {v : UInt8} (h : readU8 s = .ok (v, r)) : r.length + 1 = s.length := by
  match s, h with
  | b0 :: r', h => simp [readU8] at h; simp [← h.2]
theorem readU16_len {s r : Bytes} {v : UInt16} (h : readU16 s = .ok (v, r)) : r.length + 2 = s.length := by
  match s, h with
  | b0 :: b1 :: r', h => simp [readU16] at h; simp [← h.2]

theorem lenExact_u32 : LenExact encU32 readU32 := by
  intro s a s' h; have := readU32_len h; simp; omega
theorem lenExact_u64 : LenExact encU64 readU64 := by
  intro s a s' h; have := readU64_len h; simp; omega

theorem lenExact_readN {α : Type} {enc : α → Bytes} {dec : Rd α} (hd : LenExact enc dec) :
    ∀ n, ∀ s as s', readN n dec s = .ok (as, s') →
      as.length = n ∧ (as.flatMap enc).length + s'.length = s.length := by
  intro n
  induction n with
  | zero => intro s as s' h; simp [readN] at h; obtain ⟨h1, h2⟩ := h; subst h1 h2; simp
  | succ n ih =>
    intro s as s' h
    simp only [readN, bind_apply] at h
    cases h1 : dec s with
    | error e => simp [h1] at h
    | ok v =>
      obtain ⟨a, s1⟩ := v
      simp only [h1] at h
      cases h2 : readN n dec s1 with
      | error e => simp [h2] at h
      | ok v2 =>
        obtain ⟨as', s2⟩ := v2
        simp only [h2, pure_apply, Except.ok.injEq, Prod.mk.injEq] at h
        obtain ⟨ha, hs⟩ := h
        subst ha hs
        have e1 := hd s a s1 h1
        obtain ⟨e2, e3⟩ := ih s1 as' s2 h2
        simp only [List.flatMap_cons, List.length_append, List.length_cons]
        omega

theorem lenExact_readVec {α : Type} {enc : α → Bytes} {dec : Rd α} (hd : LenExact enc dec) :
    LenExact (encVec enc) (readVec dec) := by
  intro s as s' h
  simp only [readVec, bind_apply] at h
  cases h1 : readU32 s with
  | error e => simp [h1] at h
  | ok v =>
    obtain ⟨count, s1⟩ := v
    simp only [h1] at h
    have e1 := readU32_len h1
    obtain ⟨_, e3⟩ := lenExact_readN hd _ _ _ _ h
    simp only [encVec, List.length_append, encU32_length]
    omega

theorem readVec_u32_len {s s' : Bytes} {as : List UInt32} (h : readVec readU32 s = .ok (as, s')) :
    (encVec encU32 as).length + s'.length = s.length := lenExact_readVec lenExact_u32 _ _ _ h
theorem readVec_u64_len {s s' : Bytes} {as : List UInt64} (h : readVec readU64 s = .ok (as, s')) :
    (encVec encU64 as).length + s'.length = s.length := lenExact_readVec lenExact_u64 _ _ _ h

attribute [grind →] readU32_len readU64_len readU8_len readU16_len readBytes_len readVec_u32_len readVec_u64_len

theorem lenExact_field : LenExact (encField) (decField) := by
  intro s a s' h
  simp only [decField, bind_apply, pure_apply, fail_apply] at h
  repeat (split at h <;> try (cases h; done))
  simp only [Except.ok.injEq, Prod.mk.injEq] at h
  obtain ⟨ha, hs⟩ := h
  subst ha hs
  simp only [encField, List.length_append, List.length_cons, List.length_nil, encU16_length, encU32_length, encU64_length]
  grind
theorem readVec_field_len {s s' : Bytes} {as : List _} (h : readVec (decField) s = .ok (as, s')) :
    (encVec (encField) as).length + s'.length = s.length := lenExact_readVec lenExact_field _ _ _ h
attribute [grind →] readVec_field_len
theorem lenExact_dim : LenExact (encDim) (decDim) := by
  intro s a s' h
  simp only [decDim, bind_apply, pure_apply, fail_apply] at h
  repeat (split at h <;> try (cases h; done))
  simp only [Except.ok.injEq, Prod.mk.injEq] at h
  obtain ⟨ha, hs⟩ := h
  subst ha hs
  simp only [encDim, List.length_append, List.length_cons, List.length_nil, encU16_length, encU32_length, encU64_length]
  grind
theorem readVec_dim_len {s s' : Bytes} {as : List _} (h : readVec (decDim) s = .ok (as, s')) :
    (encVec (encDim) as).length + s'.length = s.length := lenExact_readVec lenExact_dim _ _ _ h
attribute [grind →] readVec_dim_len
theorem lenExact_variant : LenExact (encVariant) (decVariant) := by
  intro s a s' h
  simp only [decVariant, bind_apply, pure_apply, fail_apply] at h
  repeat (split at h <;> try (cases h; done))
  simp only [Except.ok.injEq, Prod.mk.injEq] at h
  obtain ⟨ha, hs⟩ := h
  subst ha hs
  simp only [encVariant, List.length_append, List.length_cons, List.length_nil, encU16_length, encU32_length, encU64_length]
  grind
theorem readVec_variant_len {s s' : Bytes} {as : List _} (h : readVec (decVariant) s = .ok (as, s')) :
    (encVec (encVariant) as).length + s'.length = s.length := lenExact_readVec lenExact_variant _ _ _ h
attribute [grind →] readVec_variant_len
theorem lenExact_imethod : LenExact (encIMethod) (decIMethod) := by
  intro s a s' h
  simp only [decIMethod, bind_apply, pure_apply, fail_apply] at h
  repeat (split at h <;> try (cases h; done))
  simp only [Except.ok.injEq, Prod.mk.injEq] at h
  obtain ⟨ha, hs⟩ := h
  subst ha hs
  simp only [encIMethod, List.length_append, List.length_cons, List.length_nil, encU16_length, encU32_length, encU64_length]
  grind
theorem readVec_imethod_len {s s' : Bytes} {as : List _} (h : readVec (decIMethod) s = .ok (as, s')) :
    (encVec (encIMethod) as).length + s'.length = s.length := lenExact_readVec lenExact_imethod _ _ _ h
attribute [grind →] readVec_imethod_len
theorem lenExact_task : LenExact (encTask) (decTask) := by
  intro s a s' h
  simp only [decTask, bind_apply, pure_apply, fail_apply] at h
  repeat (split at h <;> try (cases h; done))
  simp only [Except.ok.injEq, Prod.mk.injEq] at h
  obtain ⟨ha, hs⟩ := h
  subst ha hs
  simp only [encTask, List.length_append, List.length_cons, List.length_nil, encU16_length, encU32_length, encU64_length]
  grind
theorem readVec_task_len {s s' : Bytes} {as : List _} (h : readVec (decTask) s = .ok (as, s')) :
    (encVec (encTask) as).length + s'.length = s.length := lenExact_readVec lenExact_task _ _ _ h
attribute [grind →] readVec_task_len
theorem lenExact_resource : LenExact (encResource) (decResource) := by
  intro s a s' h
  simp only [decResource, bind_apply, pure_apply, fail_apply] at h
  repeat (split at h <;> try (cases h; done))
  simp only [Except.ok.injEq, Prod.mk.injEq] at h
  obtain ⟨ha, hs⟩ := h
  subst ha hs
  simp only [encResource, List.length_append, List.length_cons, List.length_nil, encU16_length, encU32_length, encU64_length]
  grind
theorem lenExact_ioBinding : LenExact (encIoBinding) (decIoBinding) := by
  intro s a s' h
  simp only [decIoBinding, bind_apply, pure_apply, fail_apply] at h
  repeat (split at h <;> try (cases h; done))
  simp only [Except.ok.injEq, Prod.mk.injEq] at h
  obtain ⟨ha, hs⟩ := h
  subst ha hs
  simp only [encIoBinding, List.length_append, List.length_cons, List.length_nil, encU16_length, encU32_length, encU64_length]
  grind
theorem lenExact_debugEntry : LenExact (encDebugEntry) (decDebugEntry) := by
  intro s a s' h
  simp only [decDebugEntry, bind_apply, pure_apply, fail_apply] at h
  repeat (split at h <;> try (cases h; done))
  simp only [Except.ok.injEq, Prod.mk.injEq] at h
  obtain ⟨ha, hs⟩ := h
  subst ha hs
  simp only [encDebugEntry, List.length_append, List.length_cons, List.length_nil, encU16_length, encU32_length, encU64_length]
  grind
theorem lenExact_varMetaEntry : LenExact (encVarMetaEntry) (decVarMetaEntry) := by
  intro s a s' h
  simp only [decVarMetaEntry, bind_apply, pure_apply, fail_apply] at h
  repeat (split at h <;> try (cases h; done))
  simp only [Except.ok.injEq, Prod.mk.injEq] at h
  obtain ⟨ha, hs⟩ := h
  subst ha hs
  simp only [encVarMetaEntry, List.length_append, List.length_cons, List.length_nil, encU16_length, encU32_length, encU64_length]
  grind
theorem lenExact_retainInitEntry : LenExact (encRetainInitEntry) (decRetainInitEntry) := by
  intro s a s' h
  simp only [decRetainInitEntry, bind_apply, pure_apply, fail_apply] at h
  repeat (split at h <;> try (cases h; done))
  simp only [Except.ok.injEq, Prod.mk.injEq] at h
  obtain ⟨ha, hs⟩ := h
  subst ha hs
  simp only [encRetainInitEntry, List.length_append, List.length_cons, List.length_nil, encU16_length, encU32_length, encU64_length]
  grind
theorem lenExact_method : LenExact (encMethod) (decMethod) := by
  intro s a s' h
  simp only [decMethod, bind_apply, pure_apply, fail_apply] at h
  repeat (split at h <;> try (cases h; done))
  simp only [Except.ok.injEq, Prod.mk.injEq] at h
  obtain ⟨ha, hs⟩ := h
  subst ha hs
  simp only [encMethod, List.length_append, List.length_cons, List.length_nil, encU16_length, encU32_length, encU64_length]
  grind
theorem readVec_method_len {s s' : Bytes} {as : List _} (h : readVec (decMethod) s = .ok (as, s')) :
    (encVec (encMethod) as).length + s'.length = s.length := lenExact_readVec lenExact_method _ _ _ h
attribute [grind →] readVec_method_len
theorem lenExact_interfaceImpl : LenExact (encInterfaceImpl) (decInterfaceImpl) := by
  intro s a s' h
  simp only [decInterfaceImpl, bind_apply, pure_apply, fail_apply] at h
  repeat (split at h <;> try (cases h; done))
  simp only [Except.ok.injEq, Prod.mk.injEq] at h
  obtain ⟨ha, hs⟩ := h
  subst ha hs
  simp only [encInterfaceImpl, List.length_append, List.length_cons, List.length_nil, encU16_length, encU32_length, encU64_length]
  grind
theorem readVec_interfaceImpl_len {s s' : Bytes} {as : List _} (h : readVec (decInterfaceImpl) s = .ok (as, s')) :
    (encVec (encInterfaceImpl) as).length + s'.length = s.length := lenExact_readVec lenExact_interfaceImpl _ _ _ h
attribute [grind →] readVec_interfaceImpl_len
theorem lenExact_classMeta : LenExact (encClassMeta) (decClassMeta) := by
  intro s a s' h
  simp only [decClassMeta, bind_apply, pure_apply, fail_apply] at h
  repeat (split at h <;> try (cases h; done))
  simp only [Except.ok.injEq, Prod.mk.injEq] at h
  obtain ⟨ha, hs⟩ := h
  subst ha hs
  simp only [encClassMeta, List.length_append, List.length_cons, List.length_nil, encU16_length, encU32_length, encU64_length]
  grind
theorem lenExact_sectionEntry : LenExact (encSectionEntry) (decSectionEntry) := by
  intro s a s' h
  simp only [decSectionEntry, bind_apply, pure_apply, fail_apply] at h
  repeat (split at h <;> try (cases h; done))
  simp only [Except.ok.injEq, Prod.mk.injEq] at h
  obtain ⟨ha, hs⟩ := h
  subst ha hs
  simp only [encSectionEntry, List.length_append, List.length_cons, List.length_nil, encU16_length, encU32_length, encU64_length]
  grind

theorem liftOpt_len {α : Type} {o : Option α} {e : Err} {s s' : Bytes} {a : α}
    (h : liftOpt o e s = .ok (a, s')) : s'.length = s.length := by
  cases o with
  | none => cases h
  | some x => simp at h; rw [h.2]
attribute [grind →] liftOpt_len

theorem readBytes_result_len {n : Nat} {s x r : Bytes} (h : readBytes n s = .ok (x, r)) : x.length = n := by
  unfold readBytes at h
  split at h
  · simp only [Except.ok.injEq, Prod.mk.injEq] at h; rw [← h.1]; simp; omega
  · cases h
attribute [grind →] readBytes_result_len

theorem lenExact_const : LenExact (encConst) (decConst) := by
  intro s a s' h
  unfold decConst at h
  repeat' (first
    | (cases h; done)
    | (simp only [bind_apply, pure_apply, fail_apply] at h)
    | (split at h))
  all_goals
    simp only [Except.ok.injEq, Prod.mk.injEq] at h
    obtain ⟨ha, hs⟩ := h
    subst ha hs
    simp only [encConst, List.length_append, List.length_cons, List.length_nil, encU16_length, encU32_length,
      encU64_length, *, if_true, if_false]
    grind
theorem lenExact_segment : LenExact (encSegment) (decSegment) := by
  intro s a s' h
  unfold decSegment at h
  repeat' (first
    | (cases h; done)
    | (simp only [bind_apply, pure_apply, fail_apply] at h)
    | (split at h))
  all_goals
    simp only [Except.ok.injEq, Prod.mk.injEq] at h
    obtain ⟨ha, hs⟩ := h
    subst ha hs
    simp only [encSegment, List.length_append, List.length_cons, List.length_nil, encU16_length, encU32_length,
      encU64_length, *, if_true, if_false]
    grind
theorem readN_segment_len {n : Nat} {s s' : Bytes} {as : List RefSegment}
    (h : readN n decSegment s = .ok (as, s')) :
    (as.flatMap encSegment).length + s'.length = s.length := (lenExact_readN lenExact_segment _ _ _ _ h).2
attribute [grind →] readN_segment_len

theorem lenExact_ref : LenExact (encRef) (decRef) := by
  intro s a s' h
  unfold decRef at h
  repeat' (first
    | (cases h; done)
    | (simp only [bind_apply, pure_apply, fail_apply] at h)
    | (split at h))
  all_goals
    simp only [Except.ok.injEq, Prod.mk.injEq] at h
    obtain ⟨ha, hs⟩ := h
    subst ha hs
    simp only [encRef, encVec, List.length_append, List.length_cons, List.length_nil, encU16_length, encU32_length,
      encU64_length, *, if_true, if_false]
    grind
theorem lenExact_param (minor : UInt16) : LenExact (encParam minor) (decParam minor) := by
  intro s a s' h
  unfold decParam at h
  repeat' (first
    | (cases h; done)
    | (simp only [bind_apply, pure_apply, fail_apply] at h)
    | (split at h))
  all_goals
    simp only [Except.ok.injEq, Prod.mk.injEq] at h
    obtain ⟨ha, hs⟩ := h
    subst ha hs
    simp only [encParam, List.length_append, List.length_cons, List.length_nil, encU16_length, encU32_length,
      encU64_length, *, if_true, if_false]
    grind
theorem readN_param_len {minor : UInt16} {n : Nat} {s s' : Bytes} {as : List ParamEntry}
    (h : readN n (decParam minor) s = .ok (as, s')) :
    (as.flatMap (encParam minor)).length + s'.length = s.length :=
  (lenExact_readN (lenExact_param minor) _ _ _ _ h).2
attribute [grind →] readN_param_len

theorem decClassMeta_len {s s' : Bytes} {cm : PouClassMeta} (h : decClassMeta s = .ok (cm, s')) :
    (encClassMeta cm).length + s'.length = s.length := lenExact_classMeta _ _ _ h
attribute [grind →] decClassMeta_len

theorem lenExact_pou (minor : UInt16) : LenExact (encPou minor) (decPou minor) := by
  intro s a s' h
  unfold decPou at h
  repeat' (first
    | (cases h; done)
    | (simp only [bind_apply, pure_apply, fail_apply] at h)
    | (split at h))
  all_goals
    simp only [Except.ok.injEq, Prod.mk.injEq] at h
    obtain ⟨ha, hs⟩ := h
    subst ha hs
    simp only [encPou, encVec, List.length_append, List.length_cons, List.length_nil, encU16_length, encU32_length,
      encU64_length, *, if_true, if_false]
    grind
theorem lenExact_string (minor : UInt16) : LenExact (encString minor) (decString minor) := by
  intro s a s' h
  unfold decString at h
  repeat' (first
    | (cases h; done)
    | (simp only [bind_apply, pure_apply, fail_apply] at h)
    | (split at h))
  all_goals
    simp only [Except.ok.injEq, Prod.mk.injEq] at h
    obtain ⟨ha, hs⟩ := h
    subst ha hs
    simp only [encString, zeros, List.length_replicate, List.length_append, List.length_cons, List.length_nil, encU16_length, encU32_length,
      encU64_length, *, if_true, if_false]
    grind

theorem lenExact_typeData (k : TypeKind) : LenExact encTypeData (decTypeData k) := by
  intro s a s' h
  cases k <;> unfold decTypeData at h <;>
  (repeat' (first
    | (cases h; done)
    | (simp only [bind_apply, pure_apply, fail_apply] at h)
    | (split at h))) <;>
  (simp only [Except.ok.injEq, Prod.mk.injEq] at h
   obtain ⟨ha, hs⟩ := h
   subst ha hs
   simp only [encTypeData, List.length_append, List.length_cons, List.length_nil, encU16_length,
     encU32_length, encU64_length]
   grind)

theorem decTypeData_len {k : TypeKind} {s s' : Bytes} {d : TypeData} (h : decTypeData k s = .ok (d, s')) :
    (encTypeData d).length + s'.length = s.length := lenExact_typeData k _ _ _ h
attribute [grind →] decTypeData_len

theorem lenExact_typeEntry : LenExact encTypeEntry decTypeEntry := by
  intro s a s' h
  unfold decTypeEntry at h
  repeat' (first
    | (cases h; done)
    | (simp only [bind_apply, pure_apply, fail_apply] at h)
    | (split at h))
  all_goals
    simp only [Except.ok.injEq, Prod.mk.injEq] at h
    obtain ⟨ha, hs⟩ := h
    subst ha hs
    simp only [encTypeEntry, List.length_append, List.length_cons, List.length_nil, encU16_length,
      encU32_length, encU64_length]
    grind

/-! ## sections and the whole container: the canonical encoding of what was decoded is not longer
than the bytes it was decoded from -/

theorem runSection_readVec_le {α : Type} {enc : α → Bytes} {dec : Rd α} (hd : LenExact enc dec)
    {payload : Bytes} {xs : List α} (h : runSection (readVec dec) payload = .ok xs) :
    (encVec enc xs).length ≤ payload.length := by
  unfold runSection at h
  split at h
  · next a rest heq =>
    simp only [Except.ok.injEq] at h
    subst h
    have := lenExact_readVec hd _ _ _ heq
    omega
  · cases h

theorem typeEntryAt_len {payload : Bytes} {base : Nat} {prev : Option UInt32} {offset next : Nat}
    {e : TypeEntry} (h : typeEntryAt payload base prev offset next = .ok e) :
    base ≤ offset ∧ offset ≤ next ∧ next ≤ payload.length ∧ (encTypeEntry e).length = next - offset := by
  have hb := typeEntryAt_bounds h
  refine ⟨hb.1, hb.2.1, hb.2.2, ?_⟩
  unfold typeEntryAt at h
  split at h
  · cases h
  · split at h
    · cases h
    · split at h
      · cases h
      · split at h
        · cases h
        · next entry left heq =>
          split at h
          · cases h
          · next hl =>
            simp only [Except.ok.injEq] at h
            subst h
            have := lenExact_typeEntry _ _ _ heq
            simp only [List.length_take, List.length_drop] at this
            have hl0 : left.length = 0 := by simpa using hl
            omega

/-- the first entry of a type table starts right behind the offset table (e5dfde6) -/
theorem typeEntryAt_first {payload : Bytes} {base : Nat} {offset next : Nat} {e : TypeEntry}
    (h : typeEntryAt payload base none offset next = .ok e) : offset = base := by
  unfold typeEntryAt at h
  split at h
  · cases h
  · split at h
    · cases h
    · next hf =>
      by_cases hb : offset = base
      · exact hb
      · exact absurd ⟨rfl, hb⟩ hf

theorem decTypeEntriesAt_len (payload : Bytes) (base : Nat) :
    ∀ (offs : List UInt32) (prev : Option UInt32) (es : List TypeEntry),
    decTypeEntriesAt payload base prev offs = .ok es →
    es.length = offs.length ∧
      (match offs with
        | [] => ((es.map encTypeEntry).flatMap id).length = 0
        | o :: _ => base ≤ o.toNat ∧ o.toNat ≤ payload.length ∧
            ((es.map encTypeEntry).flatMap id).length + o.toNat = payload.length) := by
  intro offs
  induction offs with
  | nil => intro prev es h; simp [decTypeEntriesAt] at h; subst h; simp
  | cons o rest ih =>
    intro prev es h
    simp only [decTypeEntriesAt] at h
    split at h
    · cases h
    · next entry hte =>
      split at h
      · cases h
      · next es' hrest =>
        simp only [Except.ok.injEq] at h
        subst h
        obtain ⟨h1, h2, h3, h4⟩ := typeEntryAt_len hte
        obtain ⟨hl, hm⟩ := ih (some o) es' hrest
        refine ⟨by simp [hl], h1, by omega, ?_⟩
        simp only [List.map_cons, List.flatMap_cons, id, List.length_append, h4]
        cases rest with
        | nil =>
          simp only [nextOffset] at h2 h3 h4 ⊢
          simp only at hm
          omega
        | cons o2 rest2 =>
          simp only [nextOffset] at h2 h3 h4 ⊢
          simp only at hm
          omega

theorem computeTypeOffsets_length (bufs : List Bytes) : (computeTypeOffsets bufs).length = bufs.length := by
  simp [computeTypeOffsets, computeTypeOffsetsFrom_length]

theorem decTypeTable_le (minor : UInt16) (payload : Bytes) (t : TypeTable)
    (h : decTypeTable minor payload = .ok t) : (encTypeTable minor t).length ≤ payload.length := by
  unfold decTypeTable at h
  split at h
  · cases h
  · next count r hc =>
    have h4 := readU32_len hc
    by_cases hm : minor ≥ 1
    · simp only [hm, if_true] at h
      split at h
      · cases h
      · next offsets r' ho =>
        obtain ⟨hol, hob⟩ := lenExact_readN lenExact_u32 _ _ _ _ ho
        split at h
        · cases h
        · next entries he =>
          simp only [Except.ok.injEq] at h
          subst h
          obtain ⟨hel, hm2⟩ := decTypeEntriesAt_len _ _ _ _ _ he
          have hfl := flatMap_encU32_length offsets
          simp only [encTypeTable, hm, if_true, List.length_append, encU32_length, flatMap_encU32_length,
            computeTypeOffsets_length, List.length_map]
          cases offsets with
          | nil =>
            simp only at hm2
            simp only [List.length_nil] at hel
            have : entries = [] := List.length_eq_zero_iff.mp hel
            subst this
            simp; omega
          | cons o rest =>
            simp only at hm2
            simp only [List.length_cons] at hel hfl hob hol
            rw [hel]
            omega
    · simp only [hm, if_false] at h
      split at h
      · cases h
      · next entries r' he =>
        simp only [Except.ok.injEq] at h
        subst h
        obtain ⟨_, hb⟩ := lenExact_readN lenExact_typeEntry _ _ _ _ he
        simp only [encTypeTable, hm, if_false, List.length_append, encU32_length]
        omega


theorem except_map_ok {ε α β : Type} {f : α → β} {x : Except ε α} {b : β} (h : x.map f = .ok b) :
    ∃ a, x = .ok a ∧ f a = b := by
  cases x with
  | error e => cases h
  | ok a => exact ⟨a, rfl, by simpa [Except.map] using h⟩

/-- **A decoded section is not larger than its payload**: the canonical encoding of the decoded data
has at most as many bytes as the payload it was decoded from. -/
theorem decodeSectionData_le (minor id : UInt16) (payload : Bytes) (d : SectionData)
    (h : decodeSectionData minor id payload = .ok d) :
    (encodeSectionData minor d).length ≤ payload.length := by
  unfold decodeSectionData at h
  by_cases h0 : id = idStringTable
  · rw [if_pos h0] at h
    obtain ⟨x, hx, hd⟩ := except_map_ok h
    subst hd
    exact runSection_readVec_le (lenExact_string minor) hx
  rw [if_neg h0] at h
  by_cases h1 : id = idDebugStringTable
  · rw [if_pos h1] at h
    obtain ⟨x, hx, hd⟩ := except_map_ok h
    subst hd
    exact runSection_readVec_le (lenExact_string minor) hx
  rw [if_neg h1] at h
  by_cases h2 : id = idTypeTable
  · rw [if_pos h2] at h
    obtain ⟨x, hx, hd⟩ := except_map_ok h
    subst hd
    exact decTypeTable_le minor payload x hx
  rw [if_neg h2] at h
  by_cases h3 : id = idConstPool
  · rw [if_pos h3] at h
    obtain ⟨x, hx, hd⟩ := except_map_ok h
    subst hd
    exact runSection_readVec_le lenExact_const hx
  rw [if_neg h3] at h
  by_cases h4 : id = idRefTable
  · rw [if_pos h4] at h
    obtain ⟨x, hx, hd⟩ := except_map_ok h
    subst hd
    exact runSection_readVec_le lenExact_ref hx
  rw [if_neg h4] at h
  by_cases h5 : id = idPouIndex
  · rw [if_pos h5] at h
    obtain ⟨x, hx, hd⟩ := except_map_ok h
    subst hd
    exact runSection_readVec_le (lenExact_pou minor) hx
  rw [if_neg h5] at h
  by_cases h6 : id = idPouBodies
  · simp only [h6, if_true] at h
    simp only [Except.ok.injEq] at h; subst h; exact Nat.le_refl _
  rw [if_neg h6] at h
  by_cases h7 : id = idResourceMeta
  · rw [if_pos h7] at h
    obtain ⟨x, hx, hd⟩ := except_map_ok h
    subst hd
    exact runSection_readVec_le lenExact_resource hx
  rw [if_neg h7] at h
  by_cases h8 : id = idIoMap
  · rw [if_pos h8] at h
    obtain ⟨x, hx, hd⟩ := except_map_ok h
    subst hd
    exact runSection_readVec_le lenExact_ioBinding hx
  rw [if_neg h8] at h
  by_cases h9 : id = idDebugMap
  · rw [if_pos h9] at h
    obtain ⟨x, hx, hd⟩ := except_map_ok h
    subst hd
    exact runSection_readVec_le lenExact_debugEntry hx
  rw [if_neg h9] at h
  by_cases h10 : id = idVarMeta
  · rw [if_pos h10] at h
    obtain ⟨x, hx, hd⟩ := except_map_ok h
    subst hd
    exact runSection_readVec_le lenExact_varMetaEntry hx
  rw [if_neg h10] at h
  by_cases h11 : id = idRetainInit
  · rw [if_pos h11] at h
    obtain ⟨x, hx, hd⟩ := except_map_ok h
    subst hd
    exact runSection_readVec_le lenExact_retainInitEntry hx
  rw [if_neg h11] at h
  simp only [Except.ok.injEq] at h; subst h; exact Nat.le_refl _

theorem sliceOf_length_le (bytes : Bytes) (a b : Nat) : (sliceOf bytes a b).length ≤ b - a := by
  simp [sliceOf]; omega

theorem decodeSections_le (minor : UInt16) (bytes : Bytes) :
    ∀ (es : List SectionEntry) (secs : List Section), decodeSections minor bytes es = .ok secs →
    (secs.map fun s => (encodeSectionData minor s.data).length).sum
      ≤ (es.map fun e => e.length.toNat).sum := by
  intro es
  induction es with
  | nil => intro secs h; simp [decodeSections] at h; subst h; simp
  | cons e rest ih =>
    intro secs h
    simp only [decodeSections] at h
    split at h
    · cases h
    · next data hd =>
      split at h
      · cases h
      · next ss hss =>
        simp only [Except.ok.injEq] at h
        subst h
        have h1 := decodeSectionData_le minor e.id _ data hd
        have h2 := sliceOf_length_le bytes e.offset.toNat (e.offset.toNat + e.length.toNat)
        have h3 := ih ss hss
        simp only [List.map_cons, List.sum_cons]
        omega

theorem checkSectionEntries_sum {fileLen : Nat} :
    ∀ {es : List SectionEntry} {lastEnd : Nat}, checkSectionEntries fileLen lastEnd es = .ok () →
    lastEnd ≤ fileLen → lastEnd + (es.map fun e => e.length.toNat).sum ≤ fileLen := by
  intro es
  induction es with
  | nil => intro lastEnd _ hl; simpa using hl
  | cons x rest ih =>
    intro lastEnd h hl
    unfold checkSectionEntries at h
    by_cases h1 : x.offset.toNat % 4 ≠ 0
    · simp [h1] at h
    · simp only [h1, if_false] at h
      by_cases h2 : x.offset.toNat + x.length.toNat > fileLen
      · simp [h2] at h
      · simp only [h2, if_false] at h
        by_cases h3 : x.offset.toNat < lastEnd
        · simp [h3] at h
        · simp only [h3, if_false] at h
          have := ih h (by omega)
          simp only [List.map_cons, List.sum_cons]
          omega

/-- the sections of a container do not overlap, so their lengths add up to at most the file length -/
theorem validateSectionEntries_sum {fileLen : Nat} {es : List SectionEntry}
    (h : validateSectionEntries fileLen es = .ok ()) :
    (es.map fun e => e.length.toNat).sum ≤ fileLen := by
  unfold validateSectionEntries at h
  have hs := checkSectionEntries_sum h (Nat.zero_le _)
  have hp := (List.mergeSort_perm es (fun a b => decide (a.offset ≤ b.offset))).map (fun e => e.length.toNat)
  rw [← hp.sum_nat]
  omega

/-- **The decoded module is not larger than the container.**  If `decode` succeeds, the canonical
encodings of all decoded sections together are at most `|bytes|` long (and the section table,
12 bytes per section, fits behind the 24-byte header). -/
theorem decode_size (crc : Bytes → UInt32) (bytes : Bytes) (m : Module) (h : decode crc bytes = .ok m) :
    (m.sections.map fun s => (encodeSectionData m.minor s.data).length).sum ≤ bytes.length ∧
      headerSize + m.sections.length * sectionEntrySize ≤ bytes.length := by
  unfold decode at h
  split at h
  · cases h
  · next hdr _ hh =>
    split at h
    · cases h
    · next hck =>
      simp only at h
      split at h
      · cases h
      · next entries _ hread =>
        split at h
        · cases h
        · next hval =>
          split at h
          · cases h
          · next sections hsecs =>
            simp only [Except.ok.injEq] at h
            subst h
            have h1 := decodeSections_le hdr.minor bytes entries sections hsecs
            have h2 := validateSectionEntries_sum hval
            have h3 := checkHeader_bounds hck
            have h4 := (lenExact_readN lenExact_sectionEntry _ _ _ _ hread).1
            have h5 : sections.length = entries.length := by
              clear h1 h2 hval hread h4
              induction entries generalizing sections with
              | nil => simp [decodeSections] at hsecs; subst hsecs; rfl
              | cons e rest ih =>
                simp only [decodeSections] at hsecs
                split at hsecs
                · cases hsecs
                · split at hsecs
                  · cases hsecs
                  · next ss hss =>
                    simp only [Except.ok.injEq] at hsecs
                    subst hsecs
                    simp [ih ss hss]
            refine ⟨?_, ?_⟩
            · show (sections.map fun s => (encodeSectionData hdr.minor s.data).length).sum ≤ bytes.length
              omega
            · show headerSize + sections.length * sectionEntrySize ≤ bytes.length
              rw [h5, h4]
              omega


end TrustVerif.C11
