import TrustVerif.Lemmas.C11

/-!
# C11 — lemmas about the validator, metadata extraction and apply
-/
set_option linter.unusedSimpArgs false

namespace TrustVerif.C11
open Rd (fail)
open TrustVerif.C11.Gen

/-! ## `Except` plumbing -/

theorem bind_eq_ok {ε α β : Type} {x : Except ε α} {f : α → Except ε β} {b : β} :
    (x >>= f) = .ok b ↔ ∃ a, x = .ok a ∧ f a = .ok b := by
  cases x with
  | error e => simp [bind, Except.bind]
  | ok a => simp [bind, Except.bind]

theorem forM'_ok {α : Type} {xs : List α} {f : α → Except Err Unit} :
    forM' xs f = .ok () ↔ ∀ x ∈ xs, f x = .ok () := by
  induction xs with
  | nil => simp [forM']
  | cons x rest ih =>
    simp only [forM', bind_eq_ok, List.mem_cons, forall_eq_or_imp, ih]
    constructor
    · rintro ⟨_, h1, h2⟩; exact ⟨h1, h2⟩
    · rintro ⟨h1, h2⟩; exact ⟨(), h1, h2⟩

theorem ensureIndex_ok {k : IdxKind} {len : Nat} {idx : UInt32} :
    ensureIndex k len idx = .ok () ↔ idx.toNat < len := by
  unfold ensureIndex
  by_cases h : idx.toNat ≥ len
  · simp [h]
  · simp [h]; omega

/-- `mapM'` succeeds, or fails with the one error its body may produce. -/
theorem mapM'_ok_or {α β : Type} (xs : List α) (f : α → Except Err β) (E : Err)
    (h : ∀ x ∈ xs, (∃ y, f x = .ok y) ∨ f x = .error E) :
    (∃ ys, mapM' xs f = .ok ys) ∨ mapM' xs f = .error E := by
  induction xs with
  | nil => exact .inl ⟨[], rfl⟩
  | cons x rest ih =>
    have hx := h x (by simp)
    have hrest := ih (fun y hy => h y (by simp [hy]))
    cases hx with
    | inr he => right; simp [mapM', he, bind, Except.bind]
    | inl hy =>
      obtain ⟨y, hy⟩ := hy
      cases hrest with
      | inr he => right; simp [mapM', hy, he, bind, Except.bind]
      | inl hys =>
        obtain ⟨ys, hys⟩ := hys
        left; exact ⟨y :: ys, by simp [mapM', hy, hys, bind, Except.bind, pure, Except.pure]⟩

theorem mapM'_ok {α β : Type} (xs : List α) (f : α → Except Err β)
    (h : ∀ x ∈ xs, ∃ y, f x = .ok y) : ∃ ys, mapM' xs f = .ok ys := by
  induction xs with
  | nil => exact ⟨[], rfl⟩
  | cons x rest ih =>
    obtain ⟨y, hy⟩ := h x (by simp)
    obtain ⟨ys, hys⟩ := ih (fun y hy => h y (by simp [hy]))
    exact ⟨y :: ys, by simp [mapM', hy, hys, bind, Except.bind, pure, Except.pure]⟩

theorem lookupString_ok {strings : List Bytes} {idx : UInt32} (h : idx.toNat < strings.length) :
    ∃ s, lookupString strings idx = .ok s := by
  unfold lookupString
  rw [List.getElem?_eq_getElem h]
  exact ⟨_, rfl⟩

/-! ## validated ⇒ `metadata()` performs only in-range lookups -/

/-- what `validate_ref_table` establishes for one entry -/
def RefEntry.segmentsOk (nStrings : Nat) (e : RefEntry) : Prop :=
  ∀ seg ∈ e.segments, ∀ n, seg = RefSegment.field n → n.toNat < nStrings

theorem validateRefTable_ok {nStrings : Nat} {refs : List RefEntry}
    (h : validateRefTable nStrings refs = .ok ()) : ∀ e ∈ refs, e.segmentsOk nStrings := by
  intro e he seg hseg n hn
  unfold validateRefTable at h
  have h1 := forM'_ok.mp h e he
  have h2 := forM'_ok.mp h1 seg hseg
  subst hn
  exact ensureIndex_ok.mp h2

theorem segToPath_ok (strings : List Bytes) (seg : RefSegment)
    (h : ∀ n, seg = RefSegment.field n → n.toNat < strings.length) :
    ∃ p, segToPath strings seg = .ok p := by
  cases seg with
  | index is => exact ⟨_, rfl⟩
  | field n =>
    obtain ⟨s, hs⟩ := lookupString_ok (h n rfl)
    exact ⟨PathSeg.field s, by simp [segToPath, hs]⟩

theorem refLocation_ok_or (e : RefEntry) :
    (∃ l, refLocation e = .ok l) ∨ refLocation e = .error (.invalidSection .invalidIoArea) := by
  unfold refLocation
  cases e.location with
  | io =>
    by_cases h0 : e.ownerId = 0
    · left; exact ⟨MemLoc.ioInput, by simp [h0]⟩
    · by_cases h1 : e.ownerId = 1
      · left; exact ⟨MemLoc.ioOutput, by simp [h0, h1]⟩
      · by_cases h2 : e.ownerId = 2
        · left; exact ⟨MemLoc.ioMemory, by simp [h0, h1, h2]⟩
        · right; simp [h0, h1, h2]
  | _ => left; exact ⟨_, rfl⟩

theorem toValueRef_ok_or (strings : List Bytes) (e : RefEntry) (h : e.segmentsOk strings.length) :
    (∃ v, toValueRef strings e = .ok v) ∨ toValueRef strings e = .error (.invalidSection .invalidIoArea) := by
  obtain ⟨p, hp⟩ := mapM'_ok e.segments (segToPath strings)
    (fun seg hseg => segToPath_ok strings seg (h seg hseg))
  unfold toValueRef
  cases refLocation_ok_or e with
  | inr he => right; simp [he]
  | inl hl =>
    obtain ⟨l, hl⟩ := hl
    left; exact ⟨{ location := l, offset := e.offset.toNat, path := p }, by simp [hl, hp]⟩

/-- what `validate_resource_meta` establishes for one task -/
structure TaskEntry.IndicesOk (nStrings nRefs : Nat) (t : TaskEntry) : Prop where
  name : t.nameIdx.toNat < nStrings
  single : ∀ s, t.singleNameIdx = some s → s.toNat < nStrings
  programs : ∀ i ∈ t.programNameIdx, i.toNat < nStrings
  fbRefs : ∀ i ∈ t.fbRefIdx, i.toNat < nRefs

theorem validateTaskEntry_ok {strings names : List Bytes} {nRefs : Nat} {t : TaskEntry}
    (h : validateTaskEntry strings names nRefs t = .ok ()) : t.IndicesOk strings.length nRefs := by
  simp only [validateTaskEntry, bind_eq_ok] at h
  obtain ⟨_, h1, _, h2, _, h3, h4⟩ := h
  refine ⟨ensureIndex_ok.mp h1, ?_, ?_, ?_⟩
  · intro s hs; rw [hs] at h2; exact ensureIndex_ok.mp h2
  · intro i hi
    have := forM'_ok.mp h3 i hi
    simp only [bind_eq_ok] at this
    obtain ⟨_, h5, _⟩ := this
    exact ensureIndex_ok.mp h5
  · intro i hi; exact ensureIndex_ok.mp (forM'_ok.mp h4 i hi)

/-- what `validate_resource_meta` establishes for one resource -/
structure ResourceEntry.IndicesOk (nStrings nRefs : Nat) (r : ResourceEntry) : Prop where
  name : r.nameIdx.toNat < nStrings
  sizes : imageSizesOk r = true
  tasks : ∀ t ∈ r.tasks, t.IndicesOk nStrings nRefs

theorem validateResourceEntry_ok {strings names : List Bytes} {nRefs : Nat} {r : ResourceEntry}
    (h : validateResourceEntry strings names nRefs r = .ok ()) : r.IndicesOk strings.length nRefs := by
  simp only [validateResourceEntry, bind_eq_ok] at h
  obtain ⟨_, h1, _, h2, h3⟩ := h
  refine ⟨ensureIndex_ok.mp h1, ?_, fun t ht => validateTaskEntry_ok (forM'_ok.mp h3 t ht)⟩
  by_cases hs : imageSizesOk r = true
  · exact hs
  · simp [hs] at h2

theorem validateResourceMeta_ok {strings : List Bytes} {nRefs : Nat} {index : List PouEntry}
    {resources : List ResourceEntry}
    (h : validateResourceMeta strings nRefs index resources = .ok ()) :
    ∀ r ∈ resources, r.IndicesOk strings.length nRefs := by
  simp only [validateResourceMeta, bind_eq_ok] at h
  obtain ⟨names, _, h2⟩ := h
  exact fun r hr => validateResourceEntry_ok (forM'_ok.mp h2 r hr)

theorem lookupOptString_ok (strings : List Bytes) (o : Option UInt32)
    (h : ∀ s, o = some s → s.toNat < strings.length) : ∃ r, lookupOptString strings o = .ok r := by
  cases o with
  | none => exact ⟨none, rfl⟩
  | some i =>
    obtain ⟨s, hs⟩ := lookupString_ok (h i rfl)
    exact ⟨some s, by simp [lookupOptString, hs]⟩

def ioAreaErr : Err := .invalidSection .invalidIoArea

theorem fbRefToValue_ok_or (strings : List Bytes) (refs : List RefEntry) (idx : UInt32)
    (hidx : idx.toNat < refs.length) (hrefs : ∀ e ∈ refs, e.segmentsOk strings.length) :
    (∃ v, fbRefToValue strings refs idx = .ok v) ∨ fbRefToValue strings refs idx = .error ioAreaErr := by
  unfold fbRefToValue
  rw [List.getElem?_eq_getElem hidx]
  exact toValueRef_ok_or strings _ (hrefs _ (List.getElem_mem hidx))

theorem taskToConfig_ok_or (strings : List Bytes) (refs : List RefEntry) (t : TaskEntry)
    (ht : t.IndicesOk strings.length refs.length) (hrefs : ∀ e ∈ refs, e.segmentsOk strings.length) :
    (∃ c, taskToConfig strings refs t = .ok c) ∨ taskToConfig strings refs t = .error ioAreaErr := by
  obtain ⟨name, hname⟩ := lookupString_ok ht.name
  obtain ⟨progs, hprogs⟩ := mapM'_ok t.programNameIdx (lookupString strings)
    (fun i hi => lookupString_ok (ht.programs i hi))
  obtain ⟨single, hsingle⟩ := lookupOptString_ok strings t.singleNameIdx ht.single
  have hfb := mapM'_ok_or t.fbRefIdx (fbRefToValue strings refs) ioAreaErr
    (fun i hi => fbRefToValue_ok_or strings refs i (ht.fbRefs i hi) hrefs)
  cases hfb with
  | inr he => right; simp [taskToConfig, hname, hprogs, hsingle, he, bind, Except.bind]
  | inl hv =>
    obtain ⟨fbs, hfbs⟩ := hv
    left
    exact ⟨{ name, intervalNanos := t.intervalNanos, single, priority := t.priority, programs := progs,
             fbInstances := fbs },
      by simp [taskToConfig, hname, hprogs, hsingle, hfbs, bind, Except.bind, pure, Except.pure]⟩

theorem resourceToMetadata_ok_or (strings : List Bytes) (refs : List RefEntry) (r : ResourceEntry)
    (hr : r.IndicesOk strings.length refs.length) (hrefs : ∀ e ∈ refs, e.segmentsOk strings.length) :
    (∃ md, resourceToMetadata strings refs r = .ok md ∧ md.inputs = r.inputsSize.toNat
        ∧ md.outputs = r.outputsSize.toNat ∧ md.memory = r.memorySize.toNat)
      ∨ resourceToMetadata strings refs r = .error ioAreaErr := by
  obtain ⟨name, hname⟩ := lookupString_ok hr.name
  have htasks := mapM'_ok_or r.tasks (taskToConfig strings refs) ioAreaErr
    (fun t ht => taskToConfig_ok_or strings refs t (hr.tasks t ht) hrefs)
  cases htasks with
  | inr he => right; simp [resourceToMetadata, hname, he, bind, Except.bind]
  | inl hv =>
    obtain ⟨tasks, htasks⟩ := hv
    left
    exact ⟨{ name, inputs := r.inputsSize.toNat, outputs := r.outputsSize.toNat,
             memory := r.memorySize.toNat, tasks },
      by simp [resourceToMetadata, hname, htasks, bind, Except.bind, pure, Except.pure], rfl, rfl, rfl⟩


theorem mapM'_mem {α β : Type} {xs : List α} {f : α → Except Err β} {ys : List β}
    (h : mapM' xs f = .ok ys) : ∀ y ∈ ys, ∃ x ∈ xs, f x = .ok y := by
  induction xs generalizing ys with
  | nil => simp [mapM'] at h; subst h; simp
  | cons x rest ih =>
    simp only [mapM', bind_eq_ok] at h
    obtain ⟨y0, h1, ys0, h2, h3⟩ := h
    simp only [pure, Except.pure, Except.ok.injEq] at h3
    subst h3
    intro y hy
    simp only [List.mem_cons] at hy
    cases hy with
    | inl h => subst h; exact ⟨x, by simp, h1⟩
    | inr h => obtain ⟨x', hx', hf⟩ := ih h2 y h; exact ⟨x', by simp [hx'], hf⟩

def ResourceMetadata.Bounded (r : ResourceMetadata) : Prop :=
  r.inputs ≤ maxProcessImageBytes ∧ r.outputs ≤ maxProcessImageBytes ∧ r.memory ≤ maxProcessImageBytes

/-- **Validated ⇒ metadata is safe.**  After `validate` succeeded, `metadata()` finds every section,
every string / reference index it looks up is in range, and every process image size is at most
`MAX_PROCESS_IMAGE_BYTES`; the only error left is the I/O area check of `to_value_ref`. -/
theorem validate_metadata (m : Module) (h : validate m = .ok ()) :
    (∃ md, metadata m = .ok md ∧ ∀ r ∈ md.resources, r.Bounded) ∨ metadata m = .error ioAreaErr := by
  simp only [validate, bind_eq_ok] at h
  obtain ⟨strings, hs, types, _, consts, _, refs, hr, pous, _, bodies, _, res, hres, io, _,
    _, _, _, _, _, hvr, _, _, _, hvm, _⟩ := h
  have hrefs := validateRefTable_ok hvr
  have hres' := validateResourceMeta_ok hvm
  have hall := mapM'_ok_or res (resourceToMetadata strings refs) ioAreaErr (fun r hr' => by
    cases resourceToMetadata_ok_or strings refs r (hres' r hr') hrefs with
    | inl h => obtain ⟨md, hmd, _⟩ := h; exact .inl ⟨md, hmd⟩
    | inr h => exact .inr h)
  cases hall with
  | inr he => right; simp [metadata, hs, hr, hres, he, bind, Except.bind]
  | inl hv =>
    obtain ⟨mds, hmds⟩ := hv
    left
    refine ⟨{ major := m.major, minor := m.minor, resources := mds },
      by simp [metadata, hs, hr, hres, hmds, bind, Except.bind, pure, Except.pure], ?_⟩
    intro md hmd
    obtain ⟨r, hrm, hf⟩ := mapM'_mem hmds md hmd
    have hsz := (hres' r hrm).sizes
    cases resourceToMetadata_ok_or strings refs r (hres' r hrm) hrefs with
    | inr he => rw [he] at hf; cases hf
    | inl hok =>
      obtain ⟨md', hmd', h1, h2, h3⟩ := hok
      rw [hmd'] at hf
      cases hf
      simp only [imageSizesOk, Bool.and_eq_true, decide_eq_true_eq] at hsz
      exact ⟨by rw [h1]; exact hsz.1.1, by rw [h2]; exact hsz.1.2, by rw [h3]; exact hsz.2⟩

theorem applyMetadata_resize (rt : RtView) (md : Metadata) (name : Option Bytes)
    (hb : ∀ r ∈ md.resources, r.Bounded) (a b c : Nat)
    (h : (applyMetadata rt md name).2.resize = some (a, b, c)) :
    a ≤ maxProcessImageBytes ∧ b ≤ maxProcessImageBytes ∧ c ≤ maxProcessImageBytes := by
  unfold applyMetadata at h
  by_cases hmaj : md.major ≠ supportedMajor
  · simp [hmaj] at h
  · simp only [hmaj, if_false] at h
    -- the chosen resource is one of the resources
    have hchosen : ∀ r, (match name with
        | some n => (md.resources.find? (fun (r : ResourceMetadata) => eqIgnoreCase r.name n)).orElse
            (fun _ => md.resources.head?)
        | none => md.resources.head?) = some r → r ∈ md.resources := by
      intro r hr
      cases name with
      | none => exact List.mem_of_mem_head? hr
      | some n =>
        simp only at hr
        cases hf : md.resources.find? (fun (r : ResourceMetadata) => eqIgnoreCase r.name n) with
        | some r' => rw [hf] at hr; simp [Option.orElse] at hr; subst hr; exact List.mem_of_find?_eq_some hf
        | none => rw [hf] at hr; simp [Option.orElse] at hr; exact List.mem_of_mem_head? hr
    split at h
    · simp at h
    · next r hr =>
      simp only [Option.some.injEq, Prod.mk.injEq] at h
      obtain ⟨h1, h2, h3⟩ := h
      have := hb r (hchosen r hr)
      subst h1 h2 h3
      exact this

/-- **Validated ⇒ apply allocates a bounded process image.** -/
theorem applyModule_resize (rt : RtView) (m : Module) (name : Option Bytes) (a b c : Nat)
    (h : (applyModule rt m name).2.resize = some (a, b, c)) :
    a ≤ maxProcessImageBytes ∧ b ≤ maxProcessImageBytes ∧ c ≤ maxProcessImageBytes := by
  unfold applyModule at h
  cases hv : validate m with
  | error e => simp [hv] at h
  | ok u =>
    cases u
    simp only [hv] at h
    cases validate_metadata m hv with
    | inr he => simp [he] at h
    | inl hm =>
      obtain ⟨md, hmd, hb⟩ := hm
      simp only [hmd] at h
      exact applyMetadata_resize rt md name hb a b c h

theorem applyBytes_resize (crc : Bytes → UInt32) (rt : RtView) (bytes : Bytes) (name : Option Bytes)
    (a b c : Nat) (h : (applyBytes crc rt bytes name).2.resize = some (a, b, c)) :
    a ≤ maxProcessImageBytes ∧ b ≤ maxProcessImageBytes ∧ c ≤ maxProcessImageBytes := by
  unfold applyBytes at h
  cases hd : decode crc bytes with
  | error e => simp [hd] at h
  | ok m => simp only [hd] at h; exact applyModule_resize rt m name a b c h


/-! ## instruction stream: accepted jumps land on instruction starts -/

theorem readU32_ok {s r : Bytes} {v : UInt32} (h : readU32 s = .ok (v, r)) : s.drop 4 = r := by
  match s, h with
  | b0 :: b1 :: b2 :: b3 :: r', h => simp [readU32] at h; simp [h.2]

theorem readU8_ok {s r : Bytes} {v : UInt8} (h : readU8 s = .ok (v, r)) : s.drop 1 = r := by
  match s, h with
  | b0 :: r', h => simp [readU8] at h; simp [h.2]

/-- a jump instruction with operand `off` sits at `pc` -/
def JumpAt (code : Bytes) (pc : Nat) (off : UInt32) : Prop :=
  ∃ op r r', code.drop pc = op :: r ∧ opKind op = .jump ∧ readU32 r = .ok (off, r')

structure WalkInv (code : Bytes) (w : Walk) : Prop where
  starts : ∀ s ∈ w.starts, s < code.length
  jumps : ∀ j ∈ w.jumps, j.1 ∈ w.starts ∧ JumpAt code j.1 j.2

theorem drop_succ_of_drop {code : Bytes} {pc : Nat} {op : UInt8} {rest : Bytes}
    (h : code.drop pc = op :: rest) : code.drop (pc + 1) = rest := by
  rw [← List.drop_drop, h]; rfl

theorem drop_add_of_drop {code r : Bytes} {a : Nat} (k : Nat) (h : code.drop a = r) :
    code.drop (a + k) = r.drop k := by
  rw [← h, List.drop_drop]

theorem lt_length_of_drop {code : Bytes} {pc : Nat} {op : UInt8} {rest : Bytes}
    (h : code.drop pc = op :: rest) : pc < code.length := by
  by_cases hlt : pc < code.length
  · exact hlt
  · rw [List.drop_eq_nil_of_le (by omega)] at h; cases h

theorem walk_inv (index : List PouEntry) (types : List TypeEntry) (code : Bytes) :
    ∀ (fuel pc : Nat) (rest : Bytes) (w w' : Walk), code.drop pc = rest → WalkInv code w →
    walkInstructions index types fuel pc rest w = .ok w' → WalkInv code w' := by
  intro fuel
  induction fuel with
  | zero =>
    intro pc rest w w' _ hinv h
    cases rest with
    | nil => simp [walkInstructions] at h; subst h; exact hinv
    | cons op r => simp [walkInstructions] at h; subst h; exact hinv
  | succ fuel ih =>
    intro pc rest w w' hdrop hinv h
    cases rest with
    | nil => simp [walkInstructions] at h; subst h; exact hinv
    | cons op rest0 =>
      have hpc := lt_length_of_drop hdrop
      have hnext := drop_succ_of_drop hdrop
      have hinv1 : WalkInv code { w with starts := pc :: w.starts } :=
        ⟨by intro s hs; simp at hs; cases hs with
            | inl h => subst h; exact hpc
            | inr h => exact hinv.starts s h,
         by intro j hj; obtain ⟨h1, h2⟩ := hinv.jumps j hj; exact ⟨by simp [h1], h2⟩⟩
      simp only [walkInstructions] at h
      cases hk : opKind op with
      | plain => simp only [hk] at h; exact ih _ _ _ _ hnext hinv1 h
      | jump =>
        simp only [hk] at h
        cases hr : readU32 rest0 with
        | error e => simp [hr] at h
        | ok v =>
          obtain ⟨off, rest'⟩ := v
          simp only [hr] at h
          have hd : code.drop (pc + 5) = rest' := by
            rw [show pc + 5 = (pc + 1) + 4 by omega, drop_add_of_drop 4 hnext]; exact readU32_ok hr
          refine ih _ _ _ _ hd ?_ h
          exact ⟨hinv1.starts, by
            intro j hj; simp at hj
            cases hj with
            | inl h => subst h; exact ⟨by simp, op, rest0, rest', hdrop, hk, hr⟩
            | inr h => exact hinv1.jumps j h⟩
      | callPou =>
        simp only [hk] at h
        cases hr : readU32 rest0 with
        | error e => simp [hr] at h
        | ok v =>
          obtain ⟨x, rest'⟩ := v
          simp only [hr] at h
          have hd : code.drop (pc + 5) = rest' := by
            rw [show pc + 5 = (pc + 1) + 4 by omega, drop_add_of_drop 4 hnext]; exact readU32_ok hr
          split at h
          · cases h
          · exact ih _ _ _ _ hd hinv1 h
      | skip4 =>
        simp only [hk] at h
        cases hr : readU32 rest0 with
        | error e => simp [hr] at h
        | ok v =>
          obtain ⟨x, rest'⟩ := v
          simp only [hr] at h
          have hd : code.drop (pc + 5) = rest' := by
            rw [show pc + 5 = (pc + 1) + 4 by omega, drop_add_of_drop 4 hnext]; exact readU32_ok hr
          exact ih _ _ _ _ hd hinv1 h
      | skip1 =>
        simp only [hk] at h
        cases hr : readU8 rest0 with
        | error e => simp [hr] at h
        | ok v =>
          obtain ⟨x, rest'⟩ := v
          simp only [hr] at h
          have hd : code.drop (pc + 2) = rest' := by
            rw [show pc + 2 = (pc + 1) + 1 by omega, drop_add_of_drop 1 hnext]; exact readU8_ok hr
          exact ih _ _ _ _ hd hinv1 h
      | callVirtual =>
        simp only [hk] at h
        cases hr : readU32 rest0 with
        | error e => simp [hr] at h
        | ok v =>
          obtain ⟨x, rest1⟩ := v
          simp only [hr] at h
          cases hr2 : readU32 rest1 with
          | error e => simp [hr2] at h
          | ok v2 =>
            obtain ⟨y, rest'⟩ := v2
            simp only [hr2] at h
            have hd : code.drop (pc + 9) = rest' := by
              rw [show pc + 9 = (pc + 1) + 4 + 4 by omega, drop_add_of_drop 4 (drop_add_of_drop 4 hnext),
                readU32_ok hr]
              exact readU32_ok hr2
            cases ht : types[x.toNat]? with
            | none => simp [ht] at h
            | some entry =>
              simp only [ht] at h
              by_cases hki : entry.kind ≠ .interface
              · simp [hki] at h
              · simp only [hki, if_false] at h
                by_cases hb : slotOutOfRange entry y = true
                · simp [hb] at h
                · simp only [hb] at h; exact ih _ _ _ _ hd hinv1 h
      | typeIdx =>
        simp only [hk] at h
        cases hr : readU32 rest0 with
        | error e => simp [hr] at h
        | ok v =>
          obtain ⟨x, rest'⟩ := v
          simp only [hr] at h
          have hd : code.drop (pc + 5) = rest' := by
            rw [show pc + 5 = (pc + 1) + 4 by omega, drop_add_of_drop 4 hnext]; exact readU32_ok hr
          split at h
          · cases h
          · exact ih _ _ _ _ hd hinv1 h
      | invalid => simp [hk] at h

theorem wrapI32_of_lt {n : Nat} (h : n < 2147483648) : wrapI32 n = (n : Int) := by
  have hn : (UInt32.ofNat n).toNat = n := by
    rw [UInt32.toNat_ofNat']; exact Nat.mod_eq_of_lt (by omega)
  unfold wrapI32 toI32
  rw [hn, if_pos h]

theorem checkedAddI32_some {a b t : Int} (h : checkedAddI32 a b = some t) : t = a + b := by
  unfold checkedAddI32 at h
  by_cases hr : -2147483648 ≤ a + b ∧ a + b ≤ 2147483647
  · simp [hr] at h; exact h.symm
  · simp [hr] at h

theorem checkJump_spec {codeLen : Int} {starts : List Nat} {pc : Nat} {off : UInt32}
    (h : checkJump codeLen starts pc off = .ok ()) :
    ∃ target, target = wrapI32 pc + 5 + toI32 off ∧ ¬ (target < 0 ∨ target > codeLen) ∧
      ¬ (target ≠ codeLen ∧ (!(starts.any fun s => wrapI32 s == target)) = true) := by
  unfold checkJump at h
  split at h
  · cases h
  · next target htgt =>
    refine ⟨target, ?_, ?_⟩
    · obtain ⟨next, h1, h2⟩ := Option.bind_eq_some_iff.mp htgt
      rw [checkedAddI32_some h2, checkedAddI32_some h1]
    · split at h
      · cases h
      · next hc1 =>
        refine ⟨hc1, ?_⟩
        split at h
        · cases h
        · next hc2 => exact hc2

theorem checkJump_ok {codeLen : Nat} {starts : List Nat} {pc : Nat} {off : UInt32}
    (hpc : pc < 2147483648) (hcl : codeLen < 2147483648) (hs : ∀ s ∈ starts, s < 2147483648)
    (h : checkJump (wrapI32 codeLen) starts pc off = .ok ()) :
    0 ≤ (pc : Int) + 5 + toI32 off ∧ (pc : Int) + 5 + toI32 off ≤ codeLen ∧
      ((pc : Int) + 5 + toI32 off = codeLen ∨ ∃ s ∈ starts, (s : Int) = (pc : Int) + 5 + toI32 off) := by
  obtain ⟨target, hte, hc1, hc2⟩ := checkJump_spec h
  rw [wrapI32_of_lt hpc] at hte
  rw [wrapI32_of_lt hcl] at hc1 hc2
  rw [← hte]
  refine ⟨by omega, by omega, ?_⟩
  by_cases heq : target = (codeLen : Int)
  · exact .inl heq
  · right
    have hany : (starts.any fun s => wrapI32 s == target) = true := by
      cases hb : (starts.any fun s => wrapI32 s == target) with
      | true => rfl
      | false => exact absurd ⟨heq, by rw [hb]; rfl⟩ hc2
    obtain ⟨s, hsm, hse⟩ := List.any_eq_true.mp hany
    refine ⟨s, hsm, ?_⟩
    rw [wrapI32_of_lt (hs s hsm)] at hse
    exact eq_of_beq hse

/-- **Accepted jumps land on instruction starts.**  If the stream validates, every recorded jump
is a jump instruction of the code, and its target `pc + 5 + offset` (as a true integer: the `i32`
arithmetic did not wrap) is within `[0, len]` and is `len` or the start of an instruction. -/
theorem validateInstructionStream_jumps (index : List PouEntry) (types : List TypeEntry) (code : Bytes)
    (hlen : code.length < 2147483648) (h : validateInstructionStream index types code = .ok ()) :
    ∃ w, walkInstructions index types code.length 0 code {} = .ok w ∧ WalkInv code w ∧
      ∀ j ∈ w.jumps, 0 ≤ (j.1 : Int) + 5 + toI32 j.2 ∧ (j.1 : Int) + 5 + toI32 j.2 ≤ code.length ∧
        ((j.1 : Int) + 5 + toI32 j.2 = code.length ∨
          ∃ s ∈ w.starts, (s : Int) = (j.1 : Int) + 5 + toI32 j.2) := by
  simp only [validateInstructionStream, bind_eq_ok] at h
  obtain ⟨w, hw, hj⟩ := h
  have hinv := walk_inv index types code code.length 0 code {} w rfl
    ⟨by intro s hs; simp at hs, by intro j hj; simp at hj⟩ hw
  refine ⟨w, hw, hinv, ?_⟩
  intro j hjm
  have hc := forM'_ok.mp hj j (by simpa using hjm)
  obtain ⟨pc, off⟩ := j
  have hpcs := (hinv.jumps (pc, off) hjm).1
  exact checkJump_ok (by have := hinv.starts pc hpcs; omega) hlen
    (fun s hs => by have := hinv.starts s hs; omega) hc



/-! ## the constant walk makes progress -/

theorem readU32_len {s r : Bytes} {v : UInt32} (h : readU32 s = .ok (v, r)) : r.length + 4 = s.length := by
  match s, h with
  | b0 :: b1 :: b2 :: b3 :: r', h => simp [readU32] at h; simp [← h.2]
theorem readU64_len {s r : Bytes} {v : UInt64} (h : readU64 s = .ok (v, r)) : r.length + 8 = s.length := by
  match s, h with
  | b0 :: b1 :: b2 :: b3 :: b4 :: b5 :: b6 :: b7 :: r', h => simp [readU64] at h; simp [← h.2]
theorem readBytes_len {n : Nat} {s r x : Bytes} (h : readBytes n s = .ok (x, r)) : r.length + n = s.length := by
  unfold readBytes at h
  by_cases hn : n ≤ s.length
  · simp [hn] at h; rw [← h.2]; simp; omega
  · simp [hn] at h

theorem primPayload_pos {p : UInt16} {k : Nat} (h : primPayload p = some (some k)) : 1 ≤ k := by
  unfold primPayload at h
  simp only at h
  repeat' split at h
  all_goals first | (simp at h; omega) | (simp at h)

theorem readN_len {α : Type} (x : Rd α) (hx : ∀ s a s', x s = .ok (a, s') → s'.length ≤ s.length) :
    ∀ (n : Nat) (s : Bytes) (as : List α) (s' : Bytes), readN n x s = .ok (as, s') → s'.length ≤ s.length := by
  intro n
  induction n with
  | zero => intro s as s' h; simp [readN] at h; rw [h.2]; exact Nat.le_refl _
  | succ n ih =>
    intro s as s' h
    simp only [readN, bind_apply] at h
    cases h1 : x s with
    | error e => simp [h1] at h
    | ok v =>
      obtain ⟨a, s1⟩ := v
      simp only [h1] at h
      cases h2 : readN n x s1 with
      | error e => simp [h2] at h
      | ok v2 =>
        obtain ⟨as', s2⟩ := v2
        simp only [h2, pure_apply, Except.ok.injEq, Prod.mk.injEq] at h
        have := hx s a s1 h1
        have := ih s1 as' s2 h2
        rw [← h.2]; omega

theorem seqUnits_len (xs : List (Rd Unit)) (hx : ∀ x ∈ xs, ∀ s s', x s = .ok ((), s') → s'.length ≤ s.length) :
    ∀ (s s' : Bytes), seqUnits xs s = .ok ((), s') → s'.length ≤ s.length := by
  induction xs with
  | nil => intro s s' h; simp [seqUnits] at h; rw [h]; exact Nat.le_refl _
  | cons x rest ih =>
    intro s s' h
    simp only [seqUnits, bind_apply] at h
    cases h1 : x s with
    | error e => simp [h1] at h
    | ok v =>
      obtain ⟨u, s1⟩ := v
      simp only [h1] at h
      have := hx x (by simp) s s1 h1
      have := ih (fun y hy => hx y (by simp [hy])) s1 s' h
      omega

theorem typeAt_ok {types : List TypeEntry} {idx : UInt32} {s s' : Bytes} {e : TypeEntry}
    (h : typeAt types idx s = .ok (e, s')) : s' = s := by
  unfold typeAt at h
  cases ht : types[idx.toNat]? with
  | none => simp [ht] at h
  | some e' => simp [ht] at h; exact h.2.symm

/-- **Progress of the constant walk.**  A successful `validate_const_payload_entry` consumes at
least one payload byte, whatever the type graph (cyclic or not) — so the `for _ in 0..count` loop of
an array constant ends after at most `|payload|` successful iterations even for `count = u32::MAX`,
and the recursion depth is at most `MAX_CONST_TYPE_DEPTH + 1` by construction of the fuel. -/
theorem validateConstEntryFuel_progress (nStrings : Nat) (types : List TypeEntry) :
    ∀ (fuel : Nat) (e : TypeEntry) (s s' : Bytes),
    validateConstEntryFuel nStrings types fuel e s = .ok ((), s') → s'.length < s.length := by
  intro fuel
  induction fuel with
  | zero => intro e s s' h; simp [validateConstEntryFuel] at h
  | succ fuel ih =>
    intro e s s' h
    have ihle : ∀ e' s1 s2, validateConstEntryFuel nStrings types fuel e' s1 = .ok ((), s2) →
        s2.length ≤ s1.length := fun e' s1 s2 h' => Nat.le_of_lt (ih e' s1 s2 h')
    unfold validateConstEntryFuel at h
    cases hd : e.data with
    | primitive p m =>
      simp only [hd] at h
      cases hp : primPayload p with
      | none => simp [hp] at h
      | some o =>
        cases o with
        | none =>
          simp only [hp, bind_apply] at h
          cases h1 : readU32 s with
          | error er => simp [h1] at h
          | ok v =>
            obtain ⟨idx, s1⟩ := v
            simp only [h1] at h
            have := readU32_len h1
            cases he : ensureIndex IdxKind.string nStrings idx with
            | error er => simp [he, Except.map] at h
            | ok u => simp [he, Except.map] at h; subst h; omega
        | some k =>
          simp only [hp, bind_apply] at h
          have hk := primPayload_pos hp
          cases h1 : readBytes k s with
          | error er => simp [h1] at h
          | ok v =>
            obtain ⟨x, s1⟩ := v
            simp [h1] at h
            have := readBytes_len h1
            subst h; omega
    | array elem dims =>
      simp only [hd, bind_apply] at h
      cases h1 : readU32 s with
      | error er => simp [h1] at h
      | ok v =>
        obtain ⟨count, s1⟩ := v
        simp only [h1] at h
        have := readU32_len h1
        cases h2 : typeAt types elem s1 with
        | error er => simp [h2] at h
        | ok v2 =>
          obtain ⟨el, s2⟩ := v2
          simp only [h2] at h
          have hs2 := typeAt_ok h2
          subst hs2
          cases h3 : readN count.toNat (validateConstEntryFuel nStrings types fuel el) s2 with
          | error er => simp [h3] at h
          | ok v3 =>
            obtain ⟨us, s3⟩ := v3
            simp [h3] at h
            have := readN_len _ (fun a b c hh => ihle el a c (by cases b; exact hh)) _ _ _ _ h3
            subst h; omega
    | struct fields =>
      simp only [hd, bind_apply] at h
      cases h1 : readU32 s with
      | error er => simp [h1] at h
      | ok v =>
        obtain ⟨count, s1⟩ := v
        simp only [h1] at h
        have := readU32_len h1
        by_cases hc : count.toNat ≠ fields.length
        · simp [hc] at h
        · simp only [hc, if_false] at h
          have := seqUnits_len _ (by
            intro x hx a b hh
            simp only [List.mem_map] at hx
            obtain ⟨f, _, hf⟩ := hx
            subst hf
            simp only [bind_apply] at hh
            cases h2 : typeAt types f.typeId a with
            | error er => simp [h2] at hh
            | ok v2 =>
              obtain ⟨ft, a2⟩ := v2
              simp only [h2] at hh
              have hs2 := typeAt_ok h2
              subst hs2
              exact ihle ft _ _ hh) _ _ h
          omega
    | union fields =>
      simp only [hd, bind_apply] at h
      cases h1 : readU32 s with
      | error er => simp [h1] at h
      | ok v =>
        obtain ⟨count, s1⟩ := v
        simp only [h1] at h
        have := readU32_len h1
        by_cases hc : count.toNat ≠ fields.length
        · simp [hc] at h
        · simp only [hc, if_false] at h
          have := seqUnits_len _ (by
            intro x hx a b hh
            simp only [List.mem_map] at hx
            obtain ⟨f, _, hf⟩ := hx
            subst hf
            simp only [bind_apply] at hh
            cases h2 : typeAt types f.typeId a with
            | error er => simp [h2] at hh
            | ok v2 =>
              obtain ⟨ft, a2⟩ := v2
              simp only [h2] at hh
              have hs2 := typeAt_ok h2
              subst hs2
              exact ihle ft _ _ hh) _ _ h
          omega
    | enum b vs =>
      simp only [hd, bind_apply] at h
      cases h1 : readU64 s with
      | error er => simp [h1] at h
      | ok v =>
        obtain ⟨x, s1⟩ := v
        simp [h1] at h
        have := readU64_len h1
        subst h; omega
    | alias t =>
      simp only [hd, bind_apply] at h
      cases h2 : typeAt types t s with
      | error er => simp [h2] at h
      | ok v2 =>
        obtain ⟨tg, s2⟩ := v2
        simp only [h2] at h
        have hs2 := typeAt_ok h2
        subst hs2
        exact ih tg _ _ h
    | subrange t lo hi =>
      simp only [hd, bind_apply] at h
      cases h2 : typeAt types t s with
      | error er => simp [h2] at h
      | ok v2 =>
        obtain ⟨tg, s2⟩ := v2
        simp only [h2] at h
        have hs2 := typeAt_ok h2
        subst hs2
        exact ih tg _ _ h
    | reference t =>
      simp only [hd, bind_apply] at h
      cases h1 : readU32 s with
      | error er => simp [h1] at h
      | ok v =>
        obtain ⟨x, s1⟩ := v
        simp [h1] at h
        have := readU32_len h1
        subst h; omega
    | pou p => simp [hd] at h
    | interface ms => simp [hd] at h


/-! ## slices taken by `decode` are within bounds -/

theorem checkSectionEntries_bounds {fileLen : Nat} :
    ∀ {lastEnd : Nat} {es : List SectionEntry}, checkSectionEntries fileLen lastEnd es = .ok () →
    ∀ e ∈ es, e.offset.toNat + e.length.toNat ≤ fileLen := by
  intro lastEnd es
  induction es generalizing lastEnd with
  | nil => intro _ e he; simp at he
  | cons x rest ih =>
    intro h e he
    unfold checkSectionEntries at h
    by_cases h1 : x.offset.toNat % 4 ≠ 0
    · simp [h1] at h
    · simp only [h1, if_false] at h
      by_cases h2 : x.offset.toNat + x.length.toNat > fileLen
      · simp [h2] at h
      · simp only [h2, if_false] at h
        by_cases h3 : x.offset.toNat < lastEnd
        · simp [h3] at h
        · simp only [h3, if_false] at h
          simp only [List.mem_cons] at he
          cases he with
          | inl heq => subst heq; omega
          | inr hm => exact ih h e hm

theorem validateSectionEntries_bounds {fileLen : Nat} {es : List SectionEntry}
    (h : validateSectionEntries fileLen es = .ok ()) :
    ∀ e ∈ es, e.offset.toNat + e.length.toNat ≤ fileLen := by
  intro e he
  unfold validateSectionEntries at h
  exact checkSectionEntries_bounds h e (List.mem_mergeSort.mpr he)

theorem checkHeader_bounds {crc : Bytes → UInt32} {bytes : Bytes} {h : Header}
    (hc : checkHeader crc bytes h = .ok ()) :
    headerSize ≤ h.tableOff.toNat ∧
      h.tableOff.toNat + h.sectionCount.toNat * sectionEntrySize ≤ bytes.length := by
  unfold checkHeader at hc
  repeat' split at hc
  all_goals first | (cases hc; done) | (constructor <;> omega)

theorem typeEntryAt_bounds {payload : Bytes} {base : Nat} {prev : Option UInt32} {offset next : Nat}
    {e : TypeEntry} (h : typeEntryAt payload base prev offset next = .ok e) :
    base ≤ offset ∧ offset ≤ next ∧ next ≤ payload.length := by
  unfold typeEntryAt at h
  split at h
  · cases h
  · next hc => omega


end TrustVerif.C11

namespace TrustVerif.C11

/-! ## abstract emitter: rolling back code and debug entries together restores the snapshot -/

theorem Emitter.rollback_restores (e s : Emitter) (h : e.Extends s) :
    e.rollback s.code.length s.debug.length = s := by
  obtain ⟨⟨c, hc⟩, ⟨d, hd⟩⟩ := h
  cases s
  simp_all [Emitter.rollback]

theorem Emitter.extends_refl (s : Emitter) : s.Extends s := ⟨⟨[], by simp⟩, ⟨[], by simp⟩⟩

theorem Emitter.extends_pushDebug {e s : Emitter} (h : e.Extends s) : e.pushDebug.Extends s := by
  obtain ⟨⟨c, hc⟩, ⟨d, hd⟩⟩ := h
  exact ⟨⟨c, hc⟩, ⟨d ++ [e.code.length], by simp [Emitter.pushDebug, hd]⟩⟩

theorem Emitter.extends_emitBytes {e s : Emitter} (bs : Bytes) (h : e.Extends s) : (e.emitBytes bs).Extends s := by
  obtain ⟨⟨c, hc⟩, ⟨d, hd⟩⟩ := h
  exact ⟨⟨c ++ bs, by simp [Emitter.emitBytes, hc]⟩, ⟨d, hd⟩⟩

theorem Emitter.inv_empty : ({} : Emitter).Inv := ⟨(by intro d hd; cases hd), List.Pairwise.nil⟩

theorem Emitter.inv_emitBytes {e : Emitter} (bs : Bytes) (h : e.Inv) : (e.emitBytes bs).Inv := by
  refine ⟨?_, h.2⟩
  intro d hd
  have := h.1 d hd
  simp only [Emitter.emitBytes, List.length_append]
  omega

theorem Emitter.inv_pushDebug {e : Emitter} (h : e.Inv) : e.pushDebug.Inv := by
  refine ⟨?_, ?_⟩
  · intro d hd
    simp only [Emitter.pushDebug, List.mem_append, List.mem_singleton] at hd
    cases hd with
    | inl hd => exact h.1 d hd
    | inr hd => subst hd; exact Nat.le_refl _
  · simp only [Emitter.pushDebug, List.pairwise_append, List.pairwise_cons, List.mem_singleton]
    refine ⟨h.2, ⟨(by intro a ha; cases ha), List.Pairwise.nil⟩, ?_⟩
    intro a ha b hb
    subst hb
    exact h.1 a ha

end TrustVerif.C11
