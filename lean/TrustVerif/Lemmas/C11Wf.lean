import TrustVerif.Lemmas.C11Size
import TrustVerif.Lemmas.C11Frame

/-!
# C11 — lemmas: what `decode` returns is well-formed, hence round-trips

`OutWf P dec`: every result of a decoder satisfies `P`.  Proved for every element codec with the same
automated pattern as `LenExact`, lifted to sections and to the whole container.  The canonical
type offsets follow from the decoder's checks: the first entry starts right behind the offset table
(e5dfde6, `decTypeTable_first`), every other offset is forced (`decTypeEntriesAt_offsets`).
-/
set_option linter.unusedSimpArgs false

namespace TrustVerif.C11
open Rd (fail)

/-- every result of `dec` satisfies `P` -/
def OutWf {α : Type} (P : α → Prop) (dec : Rd α) : Prop := ∀ s a s', dec s = .ok (a, s') → P a

theorem optOk_optU32 (x : UInt32) : optOk (optU32 x) = true := by
  unfold optU32 optOk
  by_cases h : x = u32Max
  · simp [h]
  · simp [h]

theorem readN_out {α : Type} {P : α → Prop} {dec : Rd α} (hd : OutWf P dec) :
    ∀ n s as s', readN n dec s = .ok (as, s') → as.length = n ∧ ∀ a ∈ as, P a := by
  intro n
  induction n with
  | zero => intro s as s' h; simp [readN] at h; obtain ⟨h1, _⟩ := h; subst h1; simp
  | succ n ih =>
    intro s as s' h
    simp only [readN, bind_apply] at h
    split at h
    · cases h
    · next a s1 h1 =>
      split at h
      · cases h
      · next as' s2 h2 =>
        simp only [pure_apply, Except.ok.injEq, Prod.mk.injEq] at h
        obtain ⟨ha, _⟩ := h
        subst ha
        obtain ⟨e2, e3⟩ := ih s1 as' s2 h2
        refine ⟨by simp [e2], ?_⟩
        intro x hx
        simp only [List.mem_cons] at hx
        cases hx with
        | inl hx => subst hx; exact hd s _ s1 h1
        | inr hx => exact e3 x hx

theorem readVec_out {α : Type} {P : α → Prop} {dec : Rd α} (hd : OutWf P dec) :
    ∀ s as s', readVec dec s = .ok (as, s') → lenOk as.length = true ∧ ∀ a ∈ as, P a := by
  intro s as s' h
  simp only [readVec, bind_apply] at h
  split at h
  · cases h
  · next count s1 h1 =>
    obtain ⟨e1, e2⟩ := readN_out hd _ _ _ _ h
    refine ⟨?_, e2⟩
    rw [e1]; simp [lenOk]; exact count.toNat_lt

theorem outWf_true {α : Type} (dec : Rd α) : OutWf (fun _ => True) dec := fun _ _ _ _ => trivial

theorem readVec_lenOk {α : Type} {dec : Rd α} {s s' : Bytes} {as : List α}
    (h : readVec dec s = .ok (as, s')) : lenOk as.length = true :=
  (readVec_out (outWf_true dec) _ _ _ h).1
attribute [grind →] readVec_lenOk

theorem lenOk_toNat32 (x : UInt32) : lenOk x.toNat = true := by simp [lenOk]; exact x.toNat_lt
theorem optOk_none : optOk none = true := rfl

theorem readBytes_toNat_lenOk {x : UInt32} {s a s' : Bytes} (h : readBytes x.toNat s = .ok (a, s')) :
    lenOk a.length = true := by rw [readBytes_result_len h]; exact lenOk_toNat32 x
theorem readN_toNat_lenOk {α : Type} {dec : Rd α} {x : UInt32} {s s' : Bytes} {as : List α}
    (h : readN x.toNat dec s = .ok (as, s')) : lenOk as.length = true := by
  rw [(readN_out (outWf_true dec) _ _ _ _ h).1]; exact lenOk_toNat32 x
attribute [grind →] readBytes_toNat_lenOk readN_toNat_lenOk

theorem outWf_task : OutWf (fun x => TaskEntry.wf x = true) (decTask) := by
  intro s a s' h
  unfold decTask at h
  repeat' (first
    | (cases h; done)
    | (simp only [bind_apply, pure_apply, fail_apply] at h)
    | (split at h))
  all_goals
    simp only [Except.ok.injEq, Prod.mk.injEq] at h
    obtain ⟨ha, hs⟩ := h
    subst ha hs
    simp only [TaskEntry.wf, optOk_optU32, Bool.true_and, Bool.and_true, Bool.and_eq_true, List.all_eq_true,
      decide_eq_true_eq, Bool.or_eq_true, lenOk_toNat32, optOk_none, *]
    first | done | grind
theorem readVec_task_all {s s' : Bytes} {as : List _} (h : readVec (decTask) s = .ok (as, s')) :
    ∀ a ∈ as, TaskEntry.wf a = true := (readVec_out outWf_task _ _ _ h).2
attribute [grind →] readVec_task_all
theorem outWf_resource : OutWf (fun x => ResourceEntry.wf x = true) (decResource) := by
  intro s a s' h
  unfold decResource at h
  repeat' (first
    | (cases h; done)
    | (simp only [bind_apply, pure_apply, fail_apply] at h)
    | (split at h))
  all_goals
    simp only [Except.ok.injEq, Prod.mk.injEq] at h
    obtain ⟨ha, hs⟩ := h
    subst ha hs
    simp only [ResourceEntry.wf, optOk_optU32, Bool.true_and, Bool.and_true, Bool.and_eq_true, List.all_eq_true,
      decide_eq_true_eq, Bool.or_eq_true, lenOk_toNat32, optOk_none, *]
    first | done | grind
theorem outWf_ioBinding : OutWf (fun x => IoBinding.wf x = true) (decIoBinding) := by
  intro s a s' h
  unfold decIoBinding at h
  repeat' (first
    | (cases h; done)
    | (simp only [bind_apply, pure_apply, fail_apply] at h)
    | (split at h))
  all_goals
    simp only [Except.ok.injEq, Prod.mk.injEq] at h
    obtain ⟨ha, hs⟩ := h
    subst ha hs
    simp only [IoBinding.wf, optOk_optU32, Bool.true_and, Bool.and_true, Bool.and_eq_true, List.all_eq_true,
      decide_eq_true_eq, Bool.or_eq_true, lenOk_toNat32, optOk_none, *]
    first | done | grind
theorem outWf_varMetaEntry : OutWf (fun x => VarMetaEntry.wf x = true) (decVarMetaEntry) := by
  intro s a s' h
  unfold decVarMetaEntry at h
  repeat' (first
    | (cases h; done)
    | (simp only [bind_apply, pure_apply, fail_apply] at h)
    | (split at h))
  all_goals
    simp only [Except.ok.injEq, Prod.mk.injEq] at h
    obtain ⟨ha, hs⟩ := h
    subst ha hs
    simp only [VarMetaEntry.wf, optOk_optU32, Bool.true_and, Bool.and_true, Bool.and_eq_true, List.all_eq_true,
      decide_eq_true_eq, Bool.or_eq_true, lenOk_toNat32, optOk_none, *]
    first | done | grind
theorem outWf_const : OutWf (fun x => ConstEntry.wf x = true) (decConst) := by
  intro s a s' h
  unfold decConst at h
  repeat' (first
    | (cases h; done)
    | (simp only [bind_apply, pure_apply, fail_apply] at h)
    | (split at h))
  all_goals
    simp only [Except.ok.injEq, Prod.mk.injEq] at h
    obtain ⟨ha, hs⟩ := h
    subst ha hs
    simp only [ConstEntry.wf, optOk_optU32, Bool.true_and, Bool.and_true, Bool.and_eq_true, List.all_eq_true,
      decide_eq_true_eq, Bool.or_eq_true, lenOk_toNat32, optOk_none, *]
    first | done | grind
theorem outWf_segment : OutWf (fun x => RefSegment.wf x = true) (decSegment) := by
  intro s a s' h
  unfold decSegment at h
  repeat' (first
    | (cases h; done)
    | (simp only [bind_apply, pure_apply, fail_apply] at h)
    | (split at h))
  all_goals
    simp only [Except.ok.injEq, Prod.mk.injEq] at h
    obtain ⟨ha, hs⟩ := h
    subst ha hs
    simp only [RefSegment.wf, optOk_optU32, Bool.true_and, Bool.and_true, Bool.and_eq_true, List.all_eq_true,
      decide_eq_true_eq, Bool.or_eq_true, lenOk_toNat32, optOk_none, *]
    first | done | grind
theorem readN_segment_all {n : Nat} {s s' : Bytes} {as : List _} (h : readN n (decSegment) s = .ok (as, s')) :
    as.length = n ∧ ∀ a ∈ as, RefSegment.wf a = true := readN_out outWf_segment _ _ _ _ h
attribute [grind →] readN_segment_all
theorem outWf_ref : OutWf (fun x => RefEntry.wf x = true) (decRef) := by
  intro s a s' h
  unfold decRef at h
  repeat' (first
    | (cases h; done)
    | (simp only [bind_apply, pure_apply, fail_apply] at h)
    | (split at h))
  all_goals
    simp only [Except.ok.injEq, Prod.mk.injEq] at h
    obtain ⟨ha, hs⟩ := h
    subst ha hs
    simp only [RefEntry.wf, optOk_optU32, Bool.true_and, Bool.and_true, Bool.and_eq_true, List.all_eq_true,
      decide_eq_true_eq, Bool.or_eq_true, lenOk_toNat32, optOk_none, *]
    first | done | grind
theorem outWf_param (minor : UInt16) : OutWf (fun x => ParamEntry.wf minor x = true) (decParam minor) := by
  intro s a s' h
  unfold decParam at h
  repeat' (first
    | (cases h; done)
    | (simp only [bind_apply, pure_apply, fail_apply] at h)
    | (split at h))
  all_goals
    simp only [Except.ok.injEq, Prod.mk.injEq] at h
    obtain ⟨ha, hs⟩ := h
    subst ha hs
    simp only [ParamEntry.wf, Option.isNone_none, optOk_optU32, Bool.true_and, Bool.and_true, Bool.and_eq_true, List.all_eq_true,
      decide_eq_true_eq, Bool.or_eq_true, lenOk_toNat32, optOk_none, *]
    first | done | grind
theorem readN_param_all {minor : UInt16} {n : Nat} {s s' : Bytes} {as : List _} (h : readN n (decParam minor) s = .ok (as, s')) :
    as.length = n ∧ ∀ a ∈ as, ParamEntry.wf minor a = true := readN_out (outWf_param minor) _ _ _ _ h
attribute [grind →] readN_param_all
theorem outWf_interfaceImpl : OutWf (fun x => InterfaceImpl.wf x = true) (decInterfaceImpl) := by
  intro s a s' h
  unfold decInterfaceImpl at h
  repeat' (first
    | (cases h; done)
    | (simp only [bind_apply, pure_apply, fail_apply] at h)
    | (split at h))
  all_goals
    simp only [Except.ok.injEq, Prod.mk.injEq] at h
    obtain ⟨ha, hs⟩ := h
    subst ha hs
    simp only [InterfaceImpl.wf, optOk_optU32, Bool.true_and, Bool.and_true, Bool.and_eq_true, List.all_eq_true,
      decide_eq_true_eq, Bool.or_eq_true, lenOk_toNat32, optOk_none, *]
    first | done | grind
theorem readVec_interfaceImpl_all {s s' : Bytes} {as : List _} (h : readVec (decInterfaceImpl) s = .ok (as, s')) :
    ∀ a ∈ as, InterfaceImpl.wf a = true := (readVec_out outWf_interfaceImpl _ _ _ h).2
attribute [grind →] readVec_interfaceImpl_all
theorem outWf_classMeta : OutWf (fun x => PouClassMeta.wf x = true) (decClassMeta) := by
  intro s a s' h
  unfold decClassMeta at h
  repeat' (first
    | (cases h; done)
    | (simp only [bind_apply, pure_apply, fail_apply] at h)
    | (split at h))
  all_goals
    simp only [Except.ok.injEq, Prod.mk.injEq] at h
    obtain ⟨ha, hs⟩ := h
    subst ha hs
    simp only [PouClassMeta.wf, optOk_optU32, Bool.true_and, Bool.and_true, Bool.and_eq_true, List.all_eq_true,
      decide_eq_true_eq, Bool.or_eq_true, lenOk_toNat32, optOk_none, *]
    first | done | grind
theorem decClassMeta_wf {s s' : Bytes} {cm : PouClassMeta} (h : decClassMeta s = .ok (cm, s')) :
    cm.wf = true := outWf_classMeta _ _ _ h
attribute [grind →] decClassMeta_wf
theorem outWf_pou (minor : UInt16) : OutWf (fun x => PouEntry.wf minor x = true) (decPou minor) := by
  intro s a s' h
  unfold decPou at h
  repeat' (first
    | (cases h; done)
    | (simp only [bind_apply, pure_apply, fail_apply] at h)
    | (split at h))
  all_goals
    simp only [Except.ok.injEq, Prod.mk.injEq] at h
    obtain ⟨ha, hs⟩ := h
    subst ha hs
    simp only [PouEntry.wf, Option.isSome_some, Option.isSome_none, beq_iff_eq, optOk_optU32, Bool.true_and, Bool.and_true, Bool.and_eq_true, List.all_eq_true,
      decide_eq_true_eq, Bool.or_eq_true, lenOk_toNat32, optOk_none, *]
    first | done | grind

theorem outWf_typeData (k : TypeKind) :
    OutWf (fun d => kindMatches k d = true ∧ TypeData.wf d = true) (decTypeData k) := by
  intro s a s' h
  cases k <;> unfold decTypeData at h <;>
  (repeat' (first
    | (cases h; done)
    | (simp only [bind_apply, pure_apply, fail_apply] at h)
    | (split at h))) <;>
  (simp only [Except.ok.injEq, Prod.mk.injEq] at h
   obtain ⟨ha, hs⟩ := h
   subst ha hs
   simp only [kindMatches, TypeData.wf, true_and, and_true]
   first | done | grind)

theorem decTypeData_out {k : TypeKind} {s s' : Bytes} {d : TypeData} (h : decTypeData k s = .ok (d, s')) :
    kindMatches k d = true ∧ TypeData.wf d = true := outWf_typeData k _ _ _ h
attribute [grind →] decTypeData_out

theorem liftOpt_ok {α : Type} {o : Option α} {e : Err} {s s' : Bytes} {a : α}
    (h : liftOpt o e s = .ok (a, s')) : o = some a := by
  cases o with
  | none => cases h
  | some x => simp at h; rw [h.1]

theorem outWf_typeEntry : OutWf (fun e => TypeEntry.wf e = true) decTypeEntry := by
  intro s a s' h
  unfold decTypeEntry at h
  repeat' (first
    | (cases h; done)
    | (simp only [bind_apply, pure_apply, fail_apply] at h)
    | (split at h))
  all_goals
    simp only [Except.ok.injEq, Prod.mk.injEq] at h
    obtain ⟨ha, hs⟩ := h
    subst ha hs
    simp only [TypeEntry.wf, optOk_optU32, Bool.and_true, Bool.and_eq_true]
    grind

theorem outWf_string (minor : UInt16) : OutWf (fun x => stringWf x = true) (decString minor) := by
  intro s a s' h
  unfold decString at h
  repeat' (first
    | (cases h; done)
    | (simp only [bind_apply, pure_apply, fail_apply] at h)
    | (split at h))
  all_goals
    simp only [Except.ok.injEq, Prod.mk.injEq] at h
    obtain ⟨ha, hs⟩ := h
    subst ha hs
    simp only [stringWf, Bool.and_eq_true]
    simp_all
    grind


theorem runSection_readVec_out {α : Type} {P : α → Prop} {dec : Rd α} (hd : OutWf P dec)
    {payload : Bytes} {xs : List α} (h : runSection (readVec dec) payload = .ok xs) :
    lenOk xs.length = true ∧ ∀ x ∈ xs, P x := by
  unfold runSection at h
  split at h
  · next a rest heq =>
    simp only [Except.ok.injEq] at h
    subst h
    exact readVec_out hd _ _ _ heq
  · cases h

theorem decTypeEntriesAt_out (payload : Bytes) (base : Nat) :
    ∀ (offs : List UInt32) (prev : Option UInt32) (es : List TypeEntry),
    decTypeEntriesAt payload base prev offs = .ok es → ∀ e ∈ es, e.wf = true := by
  intro offs
  induction offs with
  | nil => intro prev es h; simp [decTypeEntriesAt] at h; subst h; simp
  | cons o rest ih =>
    intro prev es h
    simp only [decTypeEntriesAt] at h
    split at h
    · cases h
    · next entry hte =>
      split at h
      · cases h
      · next es' hrest =>
        simp only [Except.ok.injEq] at h
        subst h
        have hw : entry.wf = true := by
          unfold typeEntryAt at hte
          split at hte
          · cases hte
          · split at hte
            · cases hte
            · split at hte
              · cases hte
              · split at hte
                · cases hte
                · next e left heq =>
                  split at hte
                  · cases hte
                  · simp only [Except.ok.injEq] at hte
                    subst hte
                    exact outWf_typeEntry _ _ _ heq
        intro e he
        simp only [List.mem_cons] at he
        cases he with
        | inl h => subst h; exact hw
        | inr h => exact ih (some o) es' hrest e h

/-- well-formedness of a decoded type table, except for the canonical-offsets clause -/
theorem decTypeTable_out (minor : UInt16) (payload : Bytes) (t : TypeTable)
    (h : decTypeTable minor payload = .ok t) :
    lenOk t.entries.length = true ∧ (∀ e ∈ t.entries, e.wf = true) ∧ (¬ minor ≥ 1 → t.offsets = []) := by
  unfold decTypeTable at h
  split at h
  · cases h
  · next count r hc =>
    by_cases hm : minor ≥ 1
    · simp only [hm, if_true] at h
      split at h
      · cases h
      · next offsets r' ho =>
        obtain ⟨hol, _⟩ := readN_out (outWf_true readU32) _ _ _ _ ho
        split at h
        · cases h
        · next entries he =>
          simp only [Except.ok.injEq] at h
          subst h
          obtain ⟨hel, _⟩ := decTypeEntriesAt_len _ _ _ _ _ he
          refine ⟨?_, decTypeEntriesAt_out _ _ _ _ _ he, fun hn => absurd hm hn⟩
          simp only [hel, hol]; exact lenOk_toNat32 count
    · simp only [hm, if_false] at h
      split at h
      · cases h
      · next entries r' he =>
        simp only [Except.ok.injEq] at h
        subst h
        obtain ⟨hl, hall⟩ := readN_out outWf_typeEntry _ _ _ _ he
        exact ⟨by simp only [hl]; exact lenOk_toNat32 count, hall, fun _ => rfl⟩

/-- the canonical-offsets clause of `TypeTable.wf`, for any section -/
def sectionOffsetsCanonical (minor : UInt16) : SectionData → Bool
  | .typeTable t =>
    decide (t.offsets = if minor ≥ 1 then computeTypeOffsets (t.entries.map encTypeEntry) else [])
  | _ => true

/-- the offsets of a successfully decoded offset table are consecutive: each one is the previous
one plus the length of the (canonically re-encoded) entry decoded there -/
theorem decTypeEntriesAt_offsets (payload : Bytes) (base : Nat) (hp : payload.length < 4294967296) :
    ∀ (offs : List UInt32) (prev : Option UInt32) (es : List TypeEntry),
    decTypeEntriesAt payload base prev offs = .ok es →
    ∀ o rest, offs = o :: rest → offs = computeTypeOffsetsFrom o (es.map encTypeEntry) := by
  intro offs
  induction offs with
  | nil => intro prev es _ o rest h; cases h
  | cons o1 rest1 ih =>
    intro prev es h o rest hoffs
    simp only [List.cons.injEq] at hoffs
    obtain ⟨ho, hr⟩ := hoffs
    subst ho hr
    simp only [decTypeEntriesAt] at h
    split at h
    · cases h
    · next entry hte =>
      split at h
      · cases h
      · next es' hrest =>
        simp only [Except.ok.injEq] at h
        subst h
        obtain ⟨h1, h2, h3, h4⟩ := typeEntryAt_len hte
        simp only [List.map_cons, computeTypeOffsetsFrom]
        cases rest1 with
        | nil =>
          simp [decTypeEntriesAt] at hrest
          subst hrest
          simp [computeTypeOffsetsFrom]
        | cons o2 rest2 =>
          have hnext : o2 = nextTypeOffset o1 (encTypeEntry entry).length := by
            apply UInt32.toNat_inj.mp
            simp only [nextOffset] at h2 h3 h4
            rw [nextTypeOffset_toNat _ _ (by omega)]
            omega
          rw [← hnext]
          have := ih (some o1) es' hrest o2 rest2 rfl
          rw [← this]

/-- the decoder's only freedom: where the first type entry starts.  `true` when every type table of
the module has no entries or its first offset is `4 + 4·count` (right behind the offset table). -/
def sectionFirstOffsetOk (minor : UInt16) : SectionData → Bool
  | .typeTable t =>
    if minor ≥ 1 then
      match t.offsets with
      | [] => true
      | o :: _ => o.toNat == 4 + 4 * t.entries.length
    else true
  | _ => true


theorem decTypeTable_canonical_of_first (minor : UInt16) (payload : Bytes) (t : TypeTable)
    (hp : payload.length < 4294967296) (h : decTypeTable minor payload = .ok t)
    (hf : sectionFirstOffsetOk minor (.typeTable t) = true) :
    sectionOffsetsCanonical minor (.typeTable t) = true := by
  simp only [sectionOffsetsCanonical, decide_eq_true_eq]
  unfold decTypeTable at h
  split at h
  · cases h
  · next count r hc =>
    by_cases hm : minor ≥ 1
    · simp only [hm, if_true] at h ⊢
      split at h
      · cases h
      · next offsets r' ho =>
        split at h
        · cases h
        · next entries he =>
          simp only [Except.ok.injEq] at h
          subst h
          obtain ⟨hel, hm2⟩ := decTypeEntriesAt_len _ _ _ _ _ he
          cases offsets with
          | nil =>
            have : entries = [] := List.length_eq_zero_iff.mp (by simpa using hel)
            subst this
            simp [computeTypeOffsets, computeTypeOffsetsFrom]
          | cons o rest =>
            have hcons := decTypeEntriesAt_offsets payload _ hp _ _ _ he o rest rfl
            simp only [sectionFirstOffsetOk, hm, if_true, beq_iff_eq] at hf
            simp only at hm2
            have h4n : 4 + 4 * entries.length < 4294967296 := by omega
            have ho4 : o = 4 + UInt32.ofNat (entries.map encTypeEntry).length * 4 := by
              apply UInt32.toNat_inj.mp
              rw [hf]
              simp [UInt32.toNat_add, UInt32.toNat_mul, UInt32.toNat_ofNat']
              omega
            rw [hcons, computeTypeOffsets, ho4]
    · simp only [hm, if_false] at h ⊢
      split at h
      · cases h
      · simp only [Except.ok.injEq] at h
        subst h
        rfl



/-- since e5dfde6 the decoder enforces the first offset -/
theorem decTypeTable_first (minor : UInt16) (payload : Bytes) (t : TypeTable)
    (h : decTypeTable minor payload = .ok t) : sectionFirstOffsetOk minor (.typeTable t) = true := by
  unfold decTypeTable at h
  split at h
  · cases h
  · next count r hc =>
    have h4 := readU32_len hc
    by_cases hm : minor ≥ 1
    · simp only [hm, if_true] at h
      split at h
      · cases h
      · next offsets r' ho =>
        obtain ⟨hol, hob⟩ := lenExact_readN lenExact_u32 _ _ _ _ ho
        have hfl := flatMap_encU32_length offsets
        split at h
        · cases h
        · next entries he =>
          simp only [Except.ok.injEq] at h
          subst h
          obtain ⟨hel, _⟩ := decTypeEntriesAt_len _ _ _ _ _ he
          simp only [sectionFirstOffsetOk, hm, if_true]
          cases offsets with
          | nil => rfl
          | cons o rest =>
            simp only [decTypeEntriesAt] at he
            split at he
            · cases he
            · next entry hte =>
              have := typeEntryAt_first hte
              simp only [beq_iff_eq]
              simp only [List.length_cons] at hel hol hfl hob
              rw [this, hel]
              omega
    · simp only [sectionFirstOffsetOk, hm, if_false]

/-- **What `decode_section_data` returns is well-formed** (payload shorter than 4 GiB). -/
theorem decodeSectionData_out (minor id : UInt16) (payload : Bytes) (d : SectionData)
    (hp : payload.length < 4294967296) (h : decodeSectionData minor id payload = .ok d) :
    idMatches id d = true ∧ d.wf minor = true := by
  unfold decodeSectionData at h
  by_cases h0 : id = idStringTable
  · rw [if_pos h0] at h
    obtain ⟨x, hx, hd⟩ := except_map_ok h
    subst hd
    obtain ⟨w1, w2⟩ := runSection_readVec_out (outWf_string minor) hx
    refine ⟨by simp [idMatches, h0], ?_⟩
    simp only [SectionData.wf, Bool.and_eq_true, List.all_eq_true]
    exact ⟨w1, w2⟩
  rw [if_neg h0] at h
  by_cases h1 : id = idDebugStringTable
  · rw [if_pos h1] at h
    obtain ⟨x, hx, hd⟩ := except_map_ok h
    subst hd
    obtain ⟨w1, w2⟩ := runSection_readVec_out (outWf_string minor) hx
    refine ⟨by simp [idMatches, h1], ?_⟩
    simp only [SectionData.wf, Bool.and_eq_true, List.all_eq_true]
    exact ⟨w1, w2⟩
  rw [if_neg h1] at h
  by_cases h2 : id = idTypeTable
  · rw [if_pos h2] at h
    obtain ⟨x, hx, hd⟩ := except_map_ok h
    subst hd
    obtain ⟨w1, w2, w3⟩ := decTypeTable_out minor payload x hx
    refine ⟨by simp [idMatches, h2], ?_⟩
    have hc := decTypeTable_canonical_of_first minor payload x hp hx (decTypeTable_first minor payload x hx)
    simp only [sectionOffsetsCanonical, decide_eq_true_eq] at hc
    simp only [SectionData.wf, TypeTable.wf, Bool.and_eq_true, List.all_eq_true, decide_eq_true_eq]
    exact ⟨⟨w1, w2⟩, hc⟩
  rw [if_neg h2] at h
  by_cases h3 : id = idConstPool
  · rw [if_pos h3] at h
    obtain ⟨x, hx, hd⟩ := except_map_ok h
    subst hd
    obtain ⟨w1, w2⟩ := runSection_readVec_out outWf_const hx
    refine ⟨by simp [idMatches, h3], ?_⟩
    simp only [SectionData.wf, Bool.and_eq_true, List.all_eq_true]
    exact ⟨w1, w2⟩
  rw [if_neg h3] at h
  by_cases h4 : id = idRefTable
  · rw [if_pos h4] at h
    obtain ⟨x, hx, hd⟩ := except_map_ok h
    subst hd
    obtain ⟨w1, w2⟩ := runSection_readVec_out outWf_ref hx
    refine ⟨by simp [idMatches, h4], ?_⟩
    simp only [SectionData.wf, Bool.and_eq_true, List.all_eq_true]
    exact ⟨w1, w2⟩
  rw [if_neg h4] at h
  by_cases h5 : id = idPouIndex
  · rw [if_pos h5] at h
    obtain ⟨x, hx, hd⟩ := except_map_ok h
    subst hd
    obtain ⟨w1, w2⟩ := runSection_readVec_out (outWf_pou minor) hx
    refine ⟨by simp [idMatches, h5], ?_⟩
    simp only [SectionData.wf, Bool.and_eq_true, List.all_eq_true]
    exact ⟨w1, w2⟩
  rw [if_neg h5] at h
  by_cases h6 : id = idPouBodies
  · rw [if_pos h6] at h
    simp only [Except.ok.injEq] at h; subst h
    exact ⟨by simp [idMatches, h6], rfl⟩
  rw [if_neg h6] at h
  by_cases h7 : id = idResourceMeta
  · rw [if_pos h7] at h
    obtain ⟨x, hx, hd⟩ := except_map_ok h
    subst hd
    obtain ⟨w1, w2⟩ := runSection_readVec_out outWf_resource hx
    refine ⟨by simp [idMatches, h7], ?_⟩
    simp only [SectionData.wf, Bool.and_eq_true, List.all_eq_true]
    exact ⟨w1, w2⟩
  rw [if_neg h7] at h
  by_cases h8 : id = idIoMap
  · rw [if_pos h8] at h
    obtain ⟨x, hx, hd⟩ := except_map_ok h
    subst hd
    obtain ⟨w1, w2⟩ := runSection_readVec_out outWf_ioBinding hx
    refine ⟨by simp [idMatches, h8], ?_⟩
    simp only [SectionData.wf, Bool.and_eq_true, List.all_eq_true]
    exact ⟨w1, w2⟩
  rw [if_neg h8] at h
  by_cases h9 : id = idDebugMap
  · rw [if_pos h9] at h
    obtain ⟨x, hx, hd⟩ := except_map_ok h
    subst hd
    obtain ⟨w1, w2⟩ := runSection_readVec_out (outWf_true _) hx
    refine ⟨by simp [idMatches, h9], ?_⟩
    simp only [SectionData.wf]
    exact w1
  rw [if_neg h9] at h
  by_cases h10 : id = idVarMeta
  · rw [if_pos h10] at h
    obtain ⟨x, hx, hd⟩ := except_map_ok h
    subst hd
    obtain ⟨w1, w2⟩ := runSection_readVec_out outWf_varMetaEntry hx
    refine ⟨by simp [idMatches, h10], ?_⟩
    simp only [SectionData.wf, Bool.and_eq_true, List.all_eq_true]
    exact ⟨w1, w2⟩
  rw [if_neg h10] at h
  by_cases h11 : id = idRetainInit
  · rw [if_pos h11] at h
    obtain ⟨x, hx, hd⟩ := except_map_ok h
    subst hd
    obtain ⟨w1, w2⟩ := runSection_readVec_out (outWf_true _) hx
    refine ⟨by simp [idMatches, h11], ?_⟩
    simp only [SectionData.wf]
    exact w1
  rw [if_neg h11] at h
  simp only [Except.ok.injEq] at h; subst h
  refine ⟨?_, rfl⟩
  simp only [idMatches, Bool.not_eq_true', decide_eq_false_iff_not]
  intro hr
  have g0 : id.toNat ≠ (idStringTable).toNat := fun hh => h0 (UInt16.toNat_inj.mp hh)
  have g1 : id.toNat ≠ (idDebugStringTable).toNat := fun hh => h1 (UInt16.toNat_inj.mp hh)
  have g2 : id.toNat ≠ (idTypeTable).toNat := fun hh => h2 (UInt16.toNat_inj.mp hh)
  have g3 : id.toNat ≠ (idConstPool).toNat := fun hh => h3 (UInt16.toNat_inj.mp hh)
  have g4 : id.toNat ≠ (idRefTable).toNat := fun hh => h4 (UInt16.toNat_inj.mp hh)
  have g5 : id.toNat ≠ (idPouIndex).toNat := fun hh => h5 (UInt16.toNat_inj.mp hh)
  have g6 : id.toNat ≠ (idPouBodies).toNat := fun hh => h6 (UInt16.toNat_inj.mp hh)
  have g7 : id.toNat ≠ (idResourceMeta).toNat := fun hh => h7 (UInt16.toNat_inj.mp hh)
  have g8 : id.toNat ≠ (idIoMap).toNat := fun hh => h8 (UInt16.toNat_inj.mp hh)
  have g9 : id.toNat ≠ (idDebugMap).toNat := fun hh => h9 (UInt16.toNat_inj.mp hh)
  have g10 : id.toNat ≠ (idVarMeta).toNat := fun hh => h10 (UInt16.toNat_inj.mp hh)
  have g11 : id.toNat ≠ (idRetainInit).toNat := fun hh => h11 (UInt16.toNat_inj.mp hh)
  simp only [idStringTable, idDebugStringTable, idTypeTable, idConstPool, idRefTable, idPouIndex, idPouBodies, idResourceMeta, idIoMap, idDebugMap, idVarMeta, idRetainInit] at g0 g1 g2 g3 g4 g5 g6 g7 g8 g9 g10 g11
  have e1 : (1 : UInt16).toNat = 1 := rfl
  have e2 : (2 : UInt16).toNat = 2 := rfl
  have e3 : (3 : UInt16).toNat = 3 := rfl
  have e4 : (4 : UInt16).toNat = 4 := rfl
  have e5 : (5 : UInt16).toNat = 5 := rfl
  have e6 : (6 : UInt16).toNat = 6 := rfl
  have e7 : (7 : UInt16).toNat = 7 := rfl
  have e8 : (8 : UInt16).toNat = 8 := rfl
  have e9 : (9 : UInt16).toNat = 9 := rfl
  have e10 : (10 : UInt16).toNat = 10 := rfl
  have e11 : (11 : UInt16).toNat = 11 := rfl
  have e12 : (12 : UInt16).toNat = 12 := rfl
  omega

theorem decodeSections_out (minor : UInt16) (bytes : Bytes) (hb : bytes.length < 4294967296) :
    ∀ (es : List SectionEntry) (secs : List Section), decodeSections minor bytes es = .ok secs →
    secs.length = es.length ∧
      ∀ s ∈ secs, idMatches s.id s.data = true ∧ s.data.wf minor = true := by
  intro es
  induction es with
  | nil => intro secs h; simp [decodeSections] at h; subst h; simp
  | cons e rest ih =>
    intro secs h
    simp only [decodeSections] at h
    split at h
    · cases h
    · next data hd =>
      split at h
      · cases h
      · next ss hss =>
        simp only [Except.ok.injEq] at h
        subst h
        obtain ⟨hl, hall⟩ := ih ss hss
        refine ⟨by simp [hl], ?_⟩
        intro s hs
        simp only [List.mem_cons] at hs
        cases hs with
        | inl h =>
          subst h
          refine decodeSectionData_out minor e.id _ data ?_ hd
          simp only [sliceOf, List.length_take, List.length_drop]; omega
        | inr h => exact hall s h

theorem sum_align4_le (xs : List Nat) : (xs.map align4).sum ≤ xs.sum + 3 * xs.length := by
  induction xs with
  | nil => simp
  | cons x rest ih =>
    have := align4_lt x
    simp only [List.map_cons, List.sum_cons, List.length_cons]
    omega

theorem checkHeader_major {crc : Bytes → UInt32} {bytes : Bytes} {h : Header}
    (hc : checkHeader crc bytes h = .ok ()) : h.major = supportedMajor := by
  unfold checkHeader at hc
  repeat' split at hc
  all_goals first | (cases hc; done) | (rename_i hm; simpa using hm)

/-- **What `decode` returns is well-formed**, provided the container is not within 1 MiB of 4 GiB (so
that the re-encoded layout fits `u32` offsets even after padding). -/
theorem decode_wf (crc : Bytes → UInt32) (bytes : Bytes) (m : Module) (h : decode crc bytes = .ok m)
    (hsz : bytes.length + 1048576 < 4294967296) : m.wf = true := by
  have hsize := decode_size crc bytes m h
  unfold decode at h
  split at h
  · cases h
  · next hdr _ hh =>
    split at h
    · cases h
    · next hck =>
      simp only at h
      split at h
      · cases h
      · next entries _ hread =>
        split at h
        · cases h
        · next hval =>
          split at h
          · cases h
          · next sections hsecs =>
            simp only [Except.ok.injEq] at h
            subst h
            obtain ⟨hl, hall⟩ := decodeSections_out hdr.minor bytes (by omega) entries sections hsecs
            have hn := (readN_out (outWf_true decSectionEntry) _ _ _ _ hread).1
            have hcount := hdr.sectionCount.toNat_lt
            have hmaj := checkHeader_major hck
            simp only [Module.wf, Bool.and_eq_true, List.all_eq_true, beq_iff_eq, decide_eq_true_eq,
              Section.wf]
            refine ⟨⟨⟨hmaj, by rw [hl, hn]; simpa using hcount⟩, ?_⟩, ?_⟩
            · intro s hs
              exact ⟨(hall s hs).1, (hall s hs).2⟩
            · rw [lenOk_iff]
              have h1 := sum_align4_le (sections.map fun s => (encodeSectionData hdr.minor s.data).length)
              have h2 := align4_lt (headerSize + sections.length * sectionEntrySize)
              have h3 : sections.length < 65536 := by rw [hl, hn]; simpa using hcount
              obtain ⟨h4, _⟩ := hsize
              simp only [List.map_map, List.length_map, Function.comp_def] at h1
              simp only [encodedSize, headerSize, sectionEntrySize] at h2 h4 ⊢
              omega

/-- **Round trip from arbitrary bytes.**  Whatever bytes decode to (container below 4 GiB − 1 MiB),
encoding and decoding again gives the same module. -/
theorem decode_encode_decode (crc : Bytes → UInt32) (bytes : Bytes) (m : Module)
    (h : decode crc bytes = .ok m) (hsz : bytes.length + 1048576 < 4294967296) :
    ∃ b', encode crc m = .ok b' ∧ decode crc b' = .ok m :=
  decode_encode crc m (decode_wf crc bytes m h hsz)



end TrustVerif.C11
