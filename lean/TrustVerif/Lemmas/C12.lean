import TrustVerif.Model.C12

/-!
# C12 — helper lemmas

Lexer post-pass (tiling, character boundaries), slices, the rowan builder invariant, the
forward-parent walk of the sink and the main loop of `Sink::finish`; then the invariants of the
parser operations (Marker / Event discipline).
-/
namespace TrustVerif.C12


theorem tiles_le : ∀ (ts : List Tok) (a b : Nat), tiles ts a b = true → a ≤ b := by
  intro ts
  induction ts with
  | nil => intro a b h; simp [tiles] at h; omega
  | cons t ts ih =>
    intro a b h
    simp [tiles] at h
    have := ih _ _ h.2
    omega

theorem tiles_postpass (L : Lang) (src : List Nat) :
    ∀ (raw : List Tok) (a b : Nat), tiles raw a b = true → tiles (postpass L src raw) a b = true := by
  intro raw
  fun_induction postpass L src raw with
  | case1 => intro a b h; simpa [tiles] using h
  | case2 t hc intTok =>
    intro a b h
    simp [tiles, intTok] at h ⊢
    simp [endsWithDot] at hc
    omega
  | case3 t hc intTok nx rest' hd ih =>
    intro a b h
    simp [tiles, intTok] at h ⊢
    simp [endsWithDot] at hc
    obtain ⟨h1, h2, h3⟩ := h
    refine ⟨by omega, by omega, ih _ _ h3⟩
  | case4 t hc intTok nx rest' hd ih =>
    intro a b h
    simp [tiles, intTok] at h ⊢
    simp [endsWithDot] at hc
    obtain ⟨h1, h2, h3⟩ := h
    refine ⟨by omega, by omega, by omega, ih _ _ h3⟩
  | case5 t rest hc ih =>
    intro a b h
    simp [tiles] at h ⊢
    exact ⟨h.1, ih _ _ h.2⟩

theorem isBoundary_dot (src : List Nat) (i : Nat) (h : src[i]? = some 46) : isBoundary src i = true := by
  simp [isBoundary, h]

theorem onBoundaries_postpass (L : Lang) (src : List Nat) :
    ∀ (raw : List Tok), onBoundaries src raw = true → onBoundaries src (postpass L src raw) = true := by
  intro raw
  fun_induction postpass L src raw with
  | case1 => intro h; simpa [onBoundaries] using h
  | case2 t hc intTok =>
    intro h
    simp [onBoundaries, intTok] at h ⊢
    simp [endsWithDot] at hc
    have := isBoundary_dot src _ hc.2.1.2
    simp [this, h]
  | case3 t hc intTok nx rest' hd ih =>
    intro h
    simp [onBoundaries, intTok] at h ⊢
    simp [endsWithDot] at hc
    have := isBoundary_dot src _ hc.2.1.2
    simp [this, h, ih]
  | case4 t hc intTok nx rest' hd ih =>
    intro h
    simp [onBoundaries, intTok] at h ⊢
    simp [endsWithDot] at hc
    have := isBoundary_dot src _ hc.2.1.2
    simp [this, h, ih]
  | case5 t rest hc ih =>
    intro h
    simp [onBoundaries] at h ⊢
    simp [h, ih]



theorem take_append_slice (src : List Nat) (a b : Nat) (h : a ≤ b) :
    src.take a ++ slice src a b = src.take b := by
  unfold slice
  have : b = a + (b - a) := by omega
  conv => rhs; rw [this, List.take_add]

theorem slice_append_slice (src : List Nat) (a m b : Nat) (h1 : a ≤ m) (h2 : m ≤ b) :
    slice src a m ++ slice src m b = slice src a b := by
  unfold slice
  have : b - a = (m - a) + (b - m) := by omega
  rw [this, List.take_add, List.drop_drop]
  have : a + (m - a) = m := by omega
  rw [this]

/-- The concatenation of the token texts of a tiling of `[a, b)` is `source[a..b]`. -/
theorem concat_tiles (src : List Nat) :
    ∀ (ts : List Tok) (a b : Nat), tiles ts a b = true →
      (ts.map fun t => slice src t.lo t.hi).flatten = slice src a b := by
  intro ts
  induction ts with
  | nil => intro a b h; simp [tiles] at h; subst h; simp [slice]
  | cons t ts ih =>
    intro a b h
    simp [tiles] at h
    obtain ⟨⟨h1, h2⟩, h3⟩ := h
    have hle := tiles_le _ _ _ h3
    simp [ih _ _ h3]
    rw [← h1]
    exact slice_append_slice src _ _ _ (by omega) hle

theorem slice_full (src : List Nat) : slice src 0 src.length = src := by
  simp [slice]

theorem textList_append : ∀ (xs ys : List Tree), textList (xs ++ ys) = textList xs ++ textList ys := by
  intro xs
  induction xs with
  | nil => intro ys; simp [textList]
  | cons x xs ih => intro ys; simp [textList, ih]

theorem textList_single (t : Tree) : textList [t] = t.text := by simp [textList]




@[simp] theorem Res.bind_ok {α β : Type} (a : α) (f : α → Res β) : (Res.ok a).bind f = f a := rfl
@[simp] theorem Res.bind_panic {α β : Type} (f : α → Res β) : (Res.panic : Res α).bind f = .panic := rfl
@[simp] theorem Res.bind_diverge {α β : Type} (f : α → Res β) : (Res.diverge : Res α).bind f = .diverge := rfl

/-- Token-side invariant of the sink: the remaining tokens tile `[pos, |src|)` on character
boundaries and the text pushed so far is `src[0..pos)`. -/
def TInv (src : List Nat) (toks : List Tok) (b : Builder) : Prop :=
  ∃ pos, tiles toks pos src.length = true ∧ onBoundaries src toks = true ∧
    textList b.children = src.take pos

theorem TInv.head_ok {src : List Nat} {t : Tok} {ts : List Tok} {b : Builder}
    (h : TInv src (t :: ts) b) : sliceOk src t = true := by
  obtain ⟨pos, h1, h2, _⟩ := h
  simp [tiles] at h1
  simp [onBoundaries] at h2
  have := tiles_le _ _ _ h1.2
  simp [sliceOk, h2]
  omega

theorem TInv.push {src : List Nat} {t : Tok} {ts : List Tok} {b : Builder} (k : Nat)
    (h : TInv src (t :: ts) b) : TInv src ts (b.token k (slice src t.lo t.hi)) := by
  obtain ⟨pos, h1, h2, h3⟩ := h
  simp [tiles] at h1
  simp [onBoundaries] at h2
  refine ⟨t.hi, h1.2, h2.2, ?_⟩
  simp [Builder.token, textList_append, textList, Tree.text, h3]
  rw [← h1.1.1]
  exact take_append_slice src _ _ (by omega)

theorem sinkToken_spec {src : List Nat} (k : Nat) {st : SinkSt} (h : TInv src st.toks st.b) :
    ∃ st', sinkToken src k st = .ok st' ∧ st'.toks = st.toks.drop 1 ∧
      st'.b.parents = st.b.parents ∧ TInv src st'.toks st'.b := by
  unfold sinkToken
  cases hts : st.toks with
  | nil => exact ⟨st, rfl, by simp [hts], rfl, by rw [hts] at h; simpa [hts] using h⟩
  | cons t ts =>
    rw [hts] at h
    simp [h.head_ok]
    exact ⟨rfl, h.push k⟩

theorem tokenN_spec {src : List Nat} (k : Nat) : ∀ (n : Nat) {st : SinkSt}, TInv src st.toks st.b →
    ∃ st', tokenN src k n st = .ok st' ∧ st'.toks = st.toks.drop n ∧
      st'.b.parents = st.b.parents ∧ TInv src st'.toks st'.b := by
  intro n
  induction n with
  | zero => intro st h; exact ⟨st, rfl, by simp, rfl, h⟩
  | succ n ih =>
    intro st h
    obtain ⟨st1, e1, t1, p1, i1⟩ := sinkToken_spec k h
    obtain ⟨st2, e2, t2, p2, i2⟩ := ih i1
    refine ⟨st2, by simp [tokenN, e1, e2], ?_, by rw [p2, p1], i2⟩
    rw [t2, t1, List.drop_drop]
    congr 1
    omega

theorem eatTrivia_spec (L : Lang) {src : List Nat} : ∀ (toks : List Tok) (b : Builder), TInv src toks b →
    ∃ st', eatTrivia L src toks b = .ok st' ∧ st'.toks = dropTrivia L toks ∧
      st'.b.parents = b.parents ∧ TInv src st'.toks st'.b := by
  intro toks
  induction toks with
  | nil => intro b h; exact ⟨⟨[], b⟩, rfl, rfl, rfl, h⟩
  | cons t ts ih =>
    intro b h
    by_cases ht : L.isTrivia t.kind = true
    · obtain ⟨st', e, t', p, i⟩ := ih _ (h.push (L.toSyntax t.kind))
      refine ⟨st', by simp [eatTrivia, ht, h.head_ok, e], by simp [dropTrivia, ht, t'], by simpa [Builder.token] using p, i⟩
    · exact ⟨⟨t :: ts, b⟩, by simp [eatTrivia, ht], by simp [dropTrivia, ht], rfl, h⟩



/-- Hoisting: turning an `up` into a `flat` while entering one level deeper keeps the bracket. -/
theorem bal_hoist : ∀ (C : List Cls) (d j : Nat), bal d C = true → C[j]? = some .up →
    bal (d + 1) (C.set j .flat) = true := by
  intro C
  induction C with
  | nil => intro d j _ h; simp at h
  | cons c tl ih =>
    intro d j hb hj
    cases j with
    | zero =>
      simp at hj
      subst hj
      simp [bal, stepDepth] at hb ⊢
      exact hb
    | succ j =>
      simp at hj
      cases c with
      | up =>
        simp [bal, stepDepth] at hb ⊢
        exact ih _ _ hb hj
      | down =>
        by_cases hd : 1 ≤ d
        · simp [bal, stepDepth, hd] at hb ⊢
          have := ih _ _ hb.2 hj
          have e : d - 1 + 1 = d := by omega
          rw [e] at this
          exact this
        · simp [bal, stepDepth, hd] at hb
      | flat =>
        by_cases hd : 1 ≤ d
        · simp [bal, stepDepth, hd] at hb ⊢
          exact ih _ _ hb hj
        · simp [bal, stepDepth, hd] at hb

theorem set_eq_self {α : Type} : ∀ (l : List α) (j : Nat) (x : α), l[j]? = some x → l.set j x = l := by
  intro l
  induction l with
  | nil => intro j x h; simp at h
  | cons a tl ih =>
    intro j x h
    cases j with
    | zero => simp at h; simp [h]
    | succ j => simp at h; simp [ih _ _ h]

/-- Prop form of `fpOk`. -/
def FpOk (A : List Event) : Prop :=
  ∀ i k d, A[i]? = some (.start k (some d)) → d ≥ 1 ∧ ∃ e, A[i + d]? = some e ∧ e.isStartOrPh = true

theorem fpOkFrom_sound (A : List Event) : ∀ (l : List Event) (i : Nat), fpOkFrom A i l = true →
    ∀ j k d, l[j]? = some (.start k (some d)) →
      d ≥ 1 ∧ ∃ e, A[i + j + d]? = some e ∧ e.isStartOrPh = true := by
  intro l
  induction l with
  | nil => intro i _ j k d h; simp at h
  | cons e tl ih =>
    intro i h j k d hj
    simp [fpOkFrom] at h
    cases j with
    | zero =>
      simp at hj
      subst hj
      have h1 := h.1
      simp [fpOkAt] at h1
      refine ⟨h1.1, ?_⟩
      cases hx : A[i + d]? with
      | none => simp [hx] at h1
      | some e => simp [hx] at h1; exact ⟨e, by simpa using hx, h1.2⟩
    | succ j =>
      simp at hj
      have := ih (i + 1) h.2 j k d hj
      have e : i + 1 + j + d = i + (j + 1) + d := by omega
      rw [e] at this
      exact this

theorem fpOk_sound (A : List Event) (h : fpOk A = true) : FpOk A := by
  intro i k d hi
  have := fpOkFrom_sound A A 0 h i k d hi
  simpa using this

theorem FpOk.set_ph {A : List Event} (h : FpOk A) (j : Nat) : FpOk (A.set j .placeholder) := by
  intro i k d hi
  by_cases hij : j = i
  · subst hij
    rw [List.getElem?_set] at hi
    split at hi
    · split at hi <;> simp at hi
    · contradiction
  · rw [List.getElem?_set_ne hij] at hi
    obtain ⟨h1, e, h2, h3⟩ := h i k d hi
    refine ⟨h1, ?_⟩
    by_cases hjt : j = i + d
    · subst hjt
      refine ⟨.placeholder, ?_, rfl⟩
      rw [List.getElem?_set]
      have : i + d < A.length := by
        have := List.getElem?_eq_some_iff.1 h2
        exact this.1
      simp [this]
    · exact ⟨e, by rw [List.getElem?_set_ne hjt]; exact h2, h3⟩

theorem FpOk.tail {e : Event} {A : List Event} (h : FpOk (e :: A)) : FpOk A := by
  intro i k d hi
  have := h (i + 1) k d (by simpa using hi)
  have e : i + 1 + d = (i + d) + 1 := by omega
  rw [e] at this
  simpa using this

/-- Number of `Start` events. -/
def nStarts : List Event → Nat
  | [] => 0
  | .start _ _ :: tl => nStarts tl + 1
  | _ :: tl => nStarts tl

theorem nStarts_le_length : ∀ (A : List Event), nStarts A ≤ A.length := by
  intro A
  induction A with
  | nil => simp [nStarts]
  | cons e tl ih => cases e <;> simp [nStarts] <;> omega

theorem nStarts_set : ∀ (A : List Event) (j k : Nat) (fp : Option Nat), A[j]? = some (.start k fp) →
    nStarts (A.set j .placeholder) + 1 = nStarts A := by
  intro A
  induction A with
  | nil => intro j k fp h; simp at h
  | cons e tl ih =>
    intro j k fp h
    cases j with
    | zero => simp at h; subst h; simp [nStarts]
    | succ j =>
      simp at h
      have := ih _ _ _ h
      cases e <;> simp [nStarts] <;> omega

theorem foldl_cursor_set (L : Lang) : ∀ (A : List Event) (j : Nat) (e : Event) (ts : List Tok),
    A[j]? = some e → e.isStartOrPh = true →
    (A.set j .placeholder).foldl (stepCursor L) ts = A.foldl (stepCursor L) ts := by
  intro A
  induction A with
  | nil => intro j e ts h; simp at h
  | cons a tl ih =>
    intro j e ts h he
    cases j with
    | zero =>
      simp at h; subst h
      cases a <;> simp [Event.isStartOrPh] at he <;> simp [stepCursor]
    | succ j =>
      simp at h
      simp [ih _ _ _ h he]

theorem map_cls_set (A : List Event) (j : Nat) :
    (A.set j .placeholder).map (Event.cls false) = (A.map (Event.cls false)).set j .flat := by
  rw [List.map_set]
  rfl



theorem walk_spec (L : Lang) : ∀ (f : Nat) (A : List Event) (idx : Nat) (fp : Option Nat) (ks : List Nat) (D : Nat),
    nStarts A < f →
    FpOk A →
    (∀ d, fp = some d → ∃ e, A[idx + d]? = some e ∧ e.isStartOrPh = true) →
    bal D (A.map (Event.cls false)) = true →
    ∃ A' ks', walk f A idx fp ks = .ok (A', ks') ∧
      bal (D + (ks'.length - ks.length)) (A'.map (Event.cls false)) = true ∧
      ks.length ≤ ks'.length ∧
      FpOk A' ∧ A'.length = A.length ∧
      (∀ j : Nat, A[j]? = some Event.placeholder → A'[j]? = some Event.placeholder) ∧
      (∀ ts, A'.foldl (stepCursor L) ts = A.foldl (stepCursor L) ts) := by
  intro f
  induction f with
  | zero => intro A idx fp ks D hf; omega
  | succ f ih =>
    intro A idx fp ks D hf hok hcur hbal
    cases fp with
    | none =>
      exact ⟨A, ks, by simp [walk], by simpa using hbal, Nat.le_refl _, hok, rfl, fun _ h => h, fun _ => rfl⟩
    | some d =>
      obtain ⟨e, he, hsp⟩ := hcur d rfl
      cases e with
      | token k n => simp [Event.isStartOrPh] at hsp
      | finish => simp [Event.isStartOrPh] at hsp
      | placeholder =>
        refine ⟨A, ks, ?_, by simpa using hbal, Nat.le_refl _, hok, rfl, fun _ h => h, fun _ => rfl⟩
        simp [walk, he, set_eq_self _ _ _ he]
      | start k fp' =>
        have hlt : idx + d < A.length := (List.getElem?_eq_some_iff.1 he).1
        have hn := nStarts_set A _ _ _ he
        have hb2 : bal (D + 1) ((A.set (idx + d) .placeholder).map (Event.cls false)) = true := by
          rw [map_cls_set]
          apply bal_hoist _ _ _ hbal
          simp [List.getElem?_map, he, Event.cls]
        have hcur2 : ∀ d', fp' = some d' →
            ∃ e, (A.set (idx + d) .placeholder)[idx + d + d']? = some e ∧ e.isStartOrPh = true := by
          intro d' hd'
          subst hd'
          obtain ⟨h1, e', h2, h3⟩ := hok _ _ _ he
          refine ⟨e', ?_, h3⟩
          rw [List.getElem?_set_ne (by omega)]
          exact h2
        obtain ⟨A', ks', hw, hb', hl', hok', hlen', hph', hcu'⟩ :=
          ih (A.set (idx + d) .placeholder) (idx + d) fp' (k :: ks) (D + 1) (by omega) (hok.set_ph _) hcur2 hb2
        refine ⟨A', ks', by simp [walk, he, hw], ?_, ?_, hok', by simpa using hlen', ?_, ?_⟩
        · simp at hl'
          have e : D + 1 + (ks'.length - (k :: ks).length) = D + (ks'.length - ks.length) := by
            simp; omega
          rw [e] at hb'
          exact hb'
        · simp at hl'; omega
        · intro j hj
          apply hph'
          by_cases hjj : idx + d = j
          · subst hjj; rw [he] at hj; simp at hj
          · rw [List.getElem?_set_ne hjj]; exact hj
        · intro ts
          rw [hcu', foldl_cursor_set L _ _ _ _ he rfl]



/-- Structural invariant of the rowan builder at nesting depth `d`. -/
def BInv (d : Nat) (b : Builder) : Prop :=
  b.parents.length = d ∧ (∀ p, b.parents.getLast? = some p → p.2 = 0) ∧ (d = 0 → b.children = [])

theorem BInv.startNode {d : Nat} {b : Builder} (h : BInv d b) (k : Nat) : BInv (d + 1) (b.startNode k) := by
  obtain ⟨h1, h2, h3⟩ := h
  refine ⟨by simp [Builder.startNode, h1], ?_, by omega⟩
  intro p hp
  simp [Builder.startNode] at hp
  cases hps : b.parents with
  | nil =>
    have : d = 0 := by rw [← h1, hps]; rfl
    simp [hps] at hp
    subst hp
    simp [h3 this]
  | cons q qs =>
    rw [hps, List.getLast?_cons_cons] at hp
    apply h2
    rw [hps]
    exact hp

theorem startNodes_children : ∀ (ks : List Nat) (b : Builder), (startNodes b ks).children = b.children := by
  intro ks
  induction ks with
  | nil => intro b; rfl
  | cons k ks ih => intro b; simp [startNodes] at ih ⊢; rw [ih]; rfl

theorem BInv.nodes : ∀ (ks : List Nat) {d : Nat} {b : Builder}, BInv d b →
    BInv (d + ks.length) (C12.startNodes b ks) := by
  intro ks
  induction ks with
  | nil => intro d b h; exact h
  | cons k ks ih =>
    intro d b h
    have := ih (h.startNode k)
    have e : d + 1 + ks.length = d + (k :: ks).length := by simp; omega
    rw [e] at this
    exact this

theorem BInv.of_parents {d : Nat} {b b' : Builder} (h : BInv d b) (hp : b'.parents = b.parents) (hd : 1 ≤ d) :
    BInv d b' := by
  obtain ⟨h1, h2, _⟩ := h
  exact ⟨by rw [hp, h1], by rw [hp]; exact h2, by omega⟩




theorem bal_nil_pos {d : Nat} (hd : 1 ≤ d) : bal d [] = false := by
  simp [bal]; omega

theorem TInv.done {src : List Nat} {b : Builder} (h : TInv src [] b) : textList b.children = src := by
  obtain ⟨pos, h1, _, h3⟩ := h
  simp [tiles] at h1
  subst h1
  simpa using h3

theorem sinkLoop_spec (L : Lang) (src : List Nat) : ∀ (n : Nat) (R : List Event) (st : SinkSt) (d : Nat),
    R.length = n → R ≠ [] → bal d (R.map (Event.cls false)) = true → FpOk R → BInv d st.b →
    TInv src st.toks st.b → R.foldl (stepCursor L) st.toks = [] →
    ∃ st' k cs, sinkLoop L src n R st = .ok st' ∧ st'.b.children = [Tree.node k cs] ∧ textList cs = src := by
  intro n
  induction n with
  | zero => intro R st d hl hne; simp at hl; exact absurd hl hne
  | succ n ih =>
    intro R st d hl hne hbal hfp hB hT hcur
    cases R with
    | nil => exact absurd rfl hne
    | cons e tl =>
      simp at hl
      cases e with
      | placeholder =>
        by_cases hd : 1 ≤ d
        · simp [bal, stepDepth, Event.cls, hd] at hbal
          have hne' : tl ≠ [] := by
            intro h; subst h; simp [bal_nil_pos hd] at hbal
          simp [stepCursor] at hcur
          simpa [sinkLoop] using ih tl st d hl hne' hbal hfp.tail hB hT hcur
        · simp [bal, stepDepth, Event.cls, hd] at hbal
      | token k m =>
        by_cases hd : 1 ≤ d
        · simp [bal, stepDepth, Event.cls, hd] at hbal
          have hne' : tl ≠ [] := by
            intro h; subst h; simp [bal_nil_pos hd] at hbal
          obtain ⟨st1, e1, t1, p1, i1⟩ := eatTrivia_spec L st.toks st.b hT
          obtain ⟨st2, e2, t2, p2, i2⟩ := tokenN_spec k m i1
          simp [stepCursor] at hcur
          rw [← t1, ← t2] at hcur
          have hB2 : BInv d st2.b := hB.of_parents (by rw [p2, p1]) hd
          simpa [sinkLoop, e1, e2] using ih tl st2 d hl hne' hbal hfp.tail hB2 i2 hcur
        · simp [bal, stepDepth, Event.cls, hd] at hbal
      | finish =>
        by_cases hd : 1 ≤ d
        · simp [bal, stepDepth, Event.cls, hd] at hbal
          obtain ⟨st1, e1, t1, p1, i1⟩ := eatTrivia_spec L st.toks st.b hT
          simp [stepCursor] at hcur
          rw [← t1] at hcur
          obtain ⟨hB1, hB2, _⟩ := hB
          cases hps : st.b.parents with
          | nil => rw [hps] at hB1; simp at hB1; omega
          | cons p ps =>
            obtain ⟨pk, fc⟩ := p
            rw [← p1] at hps
            have hT' : TInv src st1.toks ⟨ps, st1.b.children.take fc ++ [Tree.node pk (st1.b.children.drop fc)]⟩ := by
              obtain ⟨pos, h1, h2, h3⟩ := i1
              refine ⟨pos, h1, h2, ?_⟩
              simp only [textList_append, textList, Tree.text, List.append_nil]
              rw [← textList_append, List.take_append_drop]
              exact h3
            by_cases htl : tl = []
            · subst htl
              simp [bal] at hbal
              have hps0 : ps = [] := by
                rw [← p1, hps] at hB1
                simp at hB1
                exact List.eq_nil_of_length_eq_zero (by omega)
              subst hps0
              have hfc : fc = 0 := by
                have := hB2 (pk, fc) (by rw [← p1, hps]; rfl)
                exact this
              subst hfc
              simp at hcur
              refine ⟨⟨st1.toks, ⟨[], [Tree.node pk st1.b.children]⟩⟩, pk, st1.b.children, ?_, rfl, ?_⟩
              · simp [sinkLoop, e1, Builder.finishNode, hps]
                cases n <;> simp [sinkLoop]
              · rw [hcur] at i1
                exact i1.done
            · have hd2 : 1 ≤ d - 1 := by
                rcases hbal.1 with h | h
                · exact h
                · exact absurd h htl
              have hBn : BInv (d - 1) ⟨ps, st1.b.children.take fc ++ [Tree.node pk (st1.b.children.drop fc)]⟩ := by
                rw [← p1, hps] at hB1 hB2
                refine ⟨by simp at hB1 ⊢; omega, ?_, by omega⟩
                intro q hq
                apply hB2
                cases ps with
                | nil => simp at hB1; omega
                | cons r rs => rw [List.getLast?_cons_cons]; exact hq
              have := ih tl ⟨st1.toks, ⟨ps, st1.b.children.take fc ++ [Tree.node pk (st1.b.children.drop fc)]⟩⟩ (d - 1)
                hl htl hbal.2 hfp.tail hBn hT' hcur
              simpa [sinkLoop, e1, Builder.finishNode, hps] using this
        · simp [bal, stepDepth, Event.cls, hd] at hbal
      | start k fp =>
        simp [bal, stepDepth, Event.cls] at hbal
        have hA : FpOk (Event.placeholder :: tl) := by
          have := hfp.set_ph 0
          simpa using this
        have hcur0 : ∀ d', fp = some d' →
            ∃ e, (Event.placeholder :: tl)[0 + d']? = some e ∧ e.isStartOrPh = true := by
          intro d' hd'
          subst hd'
          obtain ⟨h1, e', h2, h3⟩ := hfp 0 k d' (by simp)
          refine ⟨e', ?_, h3⟩
          cases d' with
          | zero => omega
          | succ d'' => simpa using h2
        have hbA : bal (d + 1) ((Event.placeholder :: tl).map (Event.cls false)) = true := by
          simp [bal, stepDepth, Event.cls]
          exact hbal
        have hns : nStarts (Event.placeholder :: tl) < tl.length + 1 := by
          have := nStarts_le_length tl
          simp [nStarts]; omega
        obtain ⟨A', ks', hw, hb', hl', hok', hlen', hph', hcu'⟩ :=
          walk_spec L (tl.length + 1) (Event.placeholder :: tl) 0 fp [k] (d + 1) hns hA hcur0 hbA
        have h0 := hph' 0 (by simp)
        cases A' with
        | nil => simp at h0
        | cons a tl' =>
          simp at h0
          subst h0
          simp at hlen' hl'
          have hD : d + 1 + (ks'.length - 1) = d + ks'.length := by omega
          simp only [List.length_singleton] at hb'
          rw [hD] at hb'
          have hpos : 1 ≤ d + ks'.length := by omega
          simp [bal, stepDepth, Event.cls, hpos] at hb'
          have hne' : tl' ≠ [] := by
            intro h; subst h; simp [bal_nil_pos hpos] at hb'
          have hcur' : tl'.foldl (stepCursor L) st.toks = [] := by
            have := hcu' st.toks
            simp [stepCursor] at this hcur
            rw [this]; exact hcur
          have hT' : TInv src st.toks (startNodes st.b ks') := by
            obtain ⟨pos, h1, h2, h3⟩ := hT
            exact ⟨pos, h1, h2, by rw [startNodes_children]; exact h3⟩
          have := ih tl' ⟨st.toks, startNodes st.b ks'⟩ (d + ks'.length) (by omega) hne' hb' hok'.tail
            (hB.nodes ks') hT' hcur'
          simpa [sinkLoop, hw] using this


/-- Core of the sink theorem (premises in `Prop` form). -/
theorem sink_lossless_core (L : Lang) (src : List Nat) (toks : List Tok) (events : List Event)
    (hT : tiles toks 0 src.length = true) (hB : onBoundaries src toks = true)
    (hne : events ≠ []) (h1 : bal 0 (events.map (Event.cls false)) = true) (h2 : FpOk events)
    (h3 : events.foldl (stepCursor L) toks = []) :
    ∃ k cs, sink L src toks events = .ok (Tree.node k cs) ∧ (Tree.node k cs).text = src := by
  have hBI : BInv 0 Builder.empty := ⟨rfl, by intro p hp; simp [Builder.empty] at hp, fun _ => rfl⟩
  have hTI : TInv src toks Builder.empty := ⟨0, hT, hB, by simp [Builder.empty, textList]⟩
  obtain ⟨st', k, cs, hs, hc, ht⟩ :=
    sinkLoop_spec L src events.length events ⟨toks, Builder.empty⟩ 0 rfl hne h1 h2 hBI hTI h3
  refine ⟨k, cs, ?_, by simpa [Tree.text] using ht⟩
  simp [sink, hs, Builder.finish, hc]

end TrustVerif.C12
