import TrustVerif.Model.C12

/-!
# C12 — helper lemmas

Lexer post-pass (tiling, character boundaries), slices, the rowan builder invariant, the
forward-parent walk of the sink and the main loop of `Sink::finish`; then the invariants of the
parser operations (Marker / Event discipline).
-/
namespace TrustVerif.C12


theorem tiles_le : ∀ (ts : List Tok) (a b : Nat), tiles ts a b = true → a ≤ b := by
  intro ts
  induction ts with
  | nil => intro a b h; simp [tiles] at h; omega
  | cons t ts ih =>
    intro a b h
    simp [tiles] at h
    have := ih _ _ h.2
    omega

theorem tiles_postpass (L : Lang) (src : List Nat) :
    ∀ (raw : List Tok) (a b : Nat), tiles raw a b = true → tiles (postpass L src raw) a b = true := by
  intro raw
  fun_induction postpass L src raw with
  | case1 => intro a b h; simpa [tiles] using h
  | case2 t hc intTok =>
    intro a b h
    simp [tiles, intTok] at h ⊢
    simp [endsWithDot] at hc
    omega
  | case3 t hc intTok nx rest' hd ih =>
    intro a b h
    simp [tiles, intTok] at h ⊢
    simp [endsWithDot] at hc
    obtain ⟨h1, h2, h3⟩ := h
    refine ⟨by omega, by omega, ih _ _ h3⟩
  | case4 t hc intTok nx rest' hd ih =>
    intro a b h
    simp [tiles, intTok] at h ⊢
    simp [endsWithDot] at hc
    obtain ⟨h1, h2, h3⟩ := h
    refine ⟨by omega, by omega, by omega, ih _ _ h3⟩
  | case5 t rest hc ih =>
    intro a b h
    simp [tiles] at h ⊢
    exact ⟨h.1, ih _ _ h.2⟩

theorem lexDrain_eq (L : Lang) (src : List Nat) : ∀ (f : Nat) (s : LexSt),
    s.pending.length + 2 * s.raw.length ≤ f →
    lexDrain L src f s = s.pending ++ postpass L src s.raw := by
  intro f
  induction f with
  | zero =>
    intro s h
    have h1 : s.pending = [] := List.eq_nil_of_length_eq_zero (by omega)
    have h2 : s.raw = [] := List.eq_nil_of_length_eq_zero (by omega)
    simp [lexDrain, h1, h2, postpass]
  | succ f ih =>
    intro s h
    obtain ⟨pending, raw⟩ := s
    cases pending with
    | cons p ps =>
      simp only [lexDrain, lexNext]
      rw [ih _ (by simp at h ⊢; omega)]
      rfl
    | nil =>
      cases raw with
      | nil => simp [lexDrain, lexNext, postpass]
      | cons t rest =>
        by_cases hc : t.kind = L.int ∧ endsWithDot src t = true ∧ t.hi > t.lo + 1
        · cases rest with
          | nil =>
            simp only [lexDrain, lexNext, hc, and_self, if_true]
            rw [ih _ (by simp at h ⊢; omega)]
            simp [postpass, hc]
          | cons nx rest' =>
            by_cases hd : nx.kind = L.dot ∧ nx.lo = t.hi
            · simp only [lexDrain, lexNext, hc, hd, and_self, if_true]
              rw [ih _ (by simp at h ⊢; omega)]
              simp [postpass, hc, hd]
            · simp only [lexDrain, lexNext, hc, and_self, if_true, hd, if_false]
              rw [ih _ (by simp at h ⊢; omega)]
              simp [postpass, hc, hd]
        · simp only [lexDrain, lexNext, hc, if_false]
          rw [ih _ (by simp at h ⊢; omega)]
          simp [postpass, hc]

theorem lexAll_eq (L : Lang) (src : List Nat) (raw : List Tok) : lexAll L src raw = postpass L src raw := by
  unfold lexAll
  rw [lexDrain_eq L src _ _ (by simp)]
  rfl

theorem isBoundary_dot (src : List Nat) (i : Nat) (h : src[i]? = some 46) : isBoundary src i = true := by
  simp [isBoundary, h]

theorem onBoundaries_postpass (L : Lang) (src : List Nat) :
    ∀ (raw : List Tok), onBoundaries src raw = true → onBoundaries src (postpass L src raw) = true := by
  intro raw
  fun_induction postpass L src raw with
  | case1 => intro h; simpa [onBoundaries] using h
  | case2 t hc intTok =>
    intro h
    simp [onBoundaries, intTok] at h ⊢
    simp [endsWithDot] at hc
    have := isBoundary_dot src _ hc.2.1.2
    simp [this, h]
  | case3 t hc intTok nx rest' hd ih =>
    intro h
    simp [onBoundaries, intTok] at h ⊢
    simp [endsWithDot] at hc
    have := isBoundary_dot src _ hc.2.1.2
    simp [this, h, ih]
  | case4 t hc intTok nx rest' hd ih =>
    intro h
    simp [onBoundaries, intTok] at h ⊢
    simp [endsWithDot] at hc
    have := isBoundary_dot src _ hc.2.1.2
    simp [this, h, ih]
  | case5 t rest hc ih =>
    intro h
    simp [onBoundaries] at h ⊢
    simp [h, ih]



theorem take_append_slice (src : List Nat) (a b : Nat) (h : a ≤ b) :
    src.take a ++ slice src a b = src.take b := by
  unfold slice
  have : b = a + (b - a) := by omega
  conv => rhs; rw [this, List.take_add]

theorem slice_append_slice (src : List Nat) (a m b : Nat) (h1 : a ≤ m) (h2 : m ≤ b) :
    slice src a m ++ slice src m b = slice src a b := by
  unfold slice
  have : b - a = (m - a) + (b - m) := by omega
  rw [this, List.take_add, List.drop_drop]
  have : a + (m - a) = m := by omega
  rw [this]

/-- The concatenation of the token texts of a tiling of `[a, b)` is `source[a..b]`. -/
theorem concat_tiles (src : List Nat) :
    ∀ (ts : List Tok) (a b : Nat), tiles ts a b = true →
      (ts.map fun t => slice src t.lo t.hi).flatten = slice src a b := by
  intro ts
  induction ts with
  | nil => intro a b h; simp [tiles] at h; subst h; simp [slice]
  | cons t ts ih =>
    intro a b h
    simp [tiles] at h
    obtain ⟨⟨h1, h2⟩, h3⟩ := h
    have hle := tiles_le _ _ _ h3
    simp [ih _ _ h3]
    rw [← h1]
    exact slice_append_slice src _ _ _ (by omega) hle

theorem slice_full (src : List Nat) : slice src 0 src.length = src := by
  simp [slice]

theorem textList_append : ∀ (xs ys : List Tree), textList (xs ++ ys) = textList xs ++ textList ys := by
  intro xs
  induction xs with
  | nil => intro ys; simp [textList]
  | cons x xs ih => intro ys; simp [textList, ih]

theorem textList_single (t : Tree) : textList [t] = t.text := by simp [textList]




@[simp] theorem Res.bind_ok {α β : Type} (a : α) (f : α → Res β) : (Res.ok a).bind f = f a := rfl
@[simp] theorem Res.bind_panic {α β : Type} (f : α → Res β) : (Res.panic : Res α).bind f = .panic := rfl
@[simp] theorem Res.bind_diverge {α β : Type} (f : α → Res β) : (Res.diverge : Res α).bind f = .diverge := rfl

/-- Token-side invariant of the sink: the remaining tokens tile `[pos, |src|)` on character
boundaries and the text pushed so far is `src[0..pos)`. -/
def TInv (src : List Nat) (toks : List Tok) (b : Builder) : Prop :=
  ∃ pos, tiles toks pos src.length = true ∧ onBoundaries src toks = true ∧
    textList b.children = src.take pos

theorem TInv.head_ok {src : List Nat} {t : Tok} {ts : List Tok} {b : Builder}
    (h : TInv src (t :: ts) b) : sliceOk src t = true := by
  obtain ⟨pos, h1, h2, _⟩ := h
  simp [tiles] at h1
  simp [onBoundaries] at h2
  have := tiles_le _ _ _ h1.2
  simp [sliceOk, h2]
  omega

theorem TInv.push {src : List Nat} {t : Tok} {ts : List Tok} {b : Builder} (k : Nat)
    (h : TInv src (t :: ts) b) : TInv src ts (b.token k (slice src t.lo t.hi)) := by
  obtain ⟨pos, h1, h2, h3⟩ := h
  simp [tiles] at h1
  simp [onBoundaries] at h2
  refine ⟨t.hi, h1.2, h2.2, ?_⟩
  simp [Builder.token, textList_append, textList, Tree.text, h3]
  rw [← h1.1.1]
  exact take_append_slice src _ _ (by omega)

theorem sinkToken_spec {src : List Nat} (k : Nat) {st : SinkSt} (h : TInv src st.toks st.b) :
    ∃ st', sinkToken src k st = .ok st' ∧ st'.toks = st.toks.drop 1 ∧
      st'.b.parents = st.b.parents ∧ TInv src st'.toks st'.b := by
  unfold sinkToken
  cases hts : st.toks with
  | nil => exact ⟨st, rfl, by simp [hts], rfl, by rw [hts] at h; simpa [hts] using h⟩
  | cons t ts =>
    rw [hts] at h
    simp [h.head_ok]
    exact ⟨rfl, h.push k⟩

theorem tokenN_spec {src : List Nat} (k : Nat) : ∀ (n : Nat) {st : SinkSt}, TInv src st.toks st.b →
    ∃ st', tokenN src k n st = .ok st' ∧ st'.toks = st.toks.drop n ∧
      st'.b.parents = st.b.parents ∧ TInv src st'.toks st'.b := by
  intro n
  induction n with
  | zero => intro st h; exact ⟨st, rfl, by simp, rfl, h⟩
  | succ n ih =>
    intro st h
    obtain ⟨st1, e1, t1, p1, i1⟩ := sinkToken_spec k h
    obtain ⟨st2, e2, t2, p2, i2⟩ := ih i1
    refine ⟨st2, by simp [tokenN, e1, e2], ?_, by rw [p2, p1], i2⟩
    rw [t2, t1, List.drop_drop]
    congr 1
    omega

theorem eatTrivia_spec (L : Lang) {src : List Nat} : ∀ (toks : List Tok) (b : Builder), TInv src toks b →
    ∃ st', eatTrivia L src toks b = .ok st' ∧ st'.toks = dropTrivia L toks ∧
      st'.b.parents = b.parents ∧ TInv src st'.toks st'.b := by
  intro toks
  induction toks with
  | nil => intro b h; exact ⟨⟨[], b⟩, rfl, rfl, rfl, h⟩
  | cons t ts ih =>
    intro b h
    by_cases ht : L.isTrivia t.kind = true
    · obtain ⟨st', e, t', p, i⟩ := ih _ (h.push (L.toSyntax t.kind))
      refine ⟨st', by simp [eatTrivia, ht, h.head_ok, e], by simp [dropTrivia, ht, t'], by simpa [Builder.token] using p, i⟩
    · exact ⟨⟨t :: ts, b⟩, by simp [eatTrivia, ht], by simp [dropTrivia, ht], rfl, h⟩



/-- Hoisting: turning an `up` into a `flat` while entering one level deeper keeps the bracket. -/
theorem bal_hoist : ∀ (C : List Cls) (d j : Nat), bal d C = true → C[j]? = some .up →
    bal (d + 1) (C.set j .flat) = true := by
  intro C
  induction C with
  | nil => intro d j _ h; simp at h
  | cons c tl ih =>
    intro d j hb hj
    cases j with
    | zero =>
      simp at hj
      subst hj
      simp [bal, stepDepth] at hb ⊢
      exact hb
    | succ j =>
      simp at hj
      cases c with
      | up =>
        simp [bal, stepDepth] at hb ⊢
        exact ih _ _ hb hj
      | down =>
        by_cases hd : 1 ≤ d
        · simp [bal, stepDepth, hd] at hb ⊢
          have := ih _ _ hb.2 hj
          have e : d - 1 + 1 = d := by omega
          rw [e] at this
          exact this
        · simp [bal, stepDepth, hd] at hb
      | flat =>
        by_cases hd : 1 ≤ d
        · simp [bal, stepDepth, hd] at hb ⊢
          exact ih _ _ hb hj
        · simp [bal, stepDepth, hd] at hb

theorem set_eq_self {α : Type} : ∀ (l : List α) (j : Nat) (x : α), l[j]? = some x → l.set j x = l := by
  intro l
  induction l with
  | nil => intro j x h; simp at h
  | cons a tl ih =>
    intro j x h
    cases j with
    | zero => simp at h; simp [h]
    | succ j => simp at h; simp [ih _ _ h]

/-- Prop form of `fpOk`. -/
def FpOk (A : List Event) : Prop :=
  ∀ i k d, A[i]? = some (.start k (some d)) → d ≥ 1 ∧ ∃ e, A[i + d]? = some e ∧ e.isStartOrPh = true

theorem fpOkFrom_sound (A : List Event) : ∀ (l : List Event) (i : Nat), fpOkFrom A i l = true →
    ∀ j k d, l[j]? = some (.start k (some d)) →
      d ≥ 1 ∧ ∃ e, A[i + j + d]? = some e ∧ e.isStartOrPh = true := by
  intro l
  induction l with
  | nil => intro i _ j k d h; simp at h
  | cons e tl ih =>
    intro i h j k d hj
    simp [fpOkFrom] at h
    cases j with
    | zero =>
      simp at hj
      subst hj
      have h1 := h.1
      simp [fpOkAt] at h1
      refine ⟨h1.1, ?_⟩
      cases hx : A[i + d]? with
      | none => simp [hx] at h1
      | some e => simp [hx] at h1; exact ⟨e, by simpa using hx, h1.2⟩
    | succ j =>
      simp at hj
      have := ih (i + 1) h.2 j k d hj
      have e : i + 1 + j + d = i + (j + 1) + d := by omega
      rw [e] at this
      exact this

theorem fpOk_sound (A : List Event) (h : fpOk A = true) : FpOk A := by
  intro i k d hi
  have := fpOkFrom_sound A A 0 h i k d hi
  simpa using this

theorem FpOk.set_ph {A : List Event} (h : FpOk A) (j : Nat) : FpOk (A.set j .placeholder) := by
  intro i k d hi
  by_cases hij : j = i
  · subst hij
    rw [List.getElem?_set] at hi
    split at hi
    · split at hi <;> simp at hi
    · contradiction
  · rw [List.getElem?_set_ne hij] at hi
    obtain ⟨h1, e, h2, h3⟩ := h i k d hi
    refine ⟨h1, ?_⟩
    by_cases hjt : j = i + d
    · subst hjt
      refine ⟨.placeholder, ?_, rfl⟩
      rw [List.getElem?_set]
      have : i + d < A.length := by
        have := List.getElem?_eq_some_iff.1 h2
        exact this.1
      simp [this]
    · exact ⟨e, by rw [List.getElem?_set_ne hjt]; exact h2, h3⟩

theorem FpOk.tail {e : Event} {A : List Event} (h : FpOk (e :: A)) : FpOk A := by
  intro i k d hi
  have := h (i + 1) k d (by simpa using hi)
  have e : i + 1 + d = (i + d) + 1 := by omega
  rw [e] at this
  simpa using this

/-- Number of `Start` events. -/
def nStarts : List Event → Nat
  | [] => 0
  | .start _ _ :: tl => nStarts tl + 1
  | _ :: tl => nStarts tl

theorem nStarts_le_length : ∀ (A : List Event), nStarts A ≤ A.length := by
  intro A
  induction A with
  | nil => simp [nStarts]
  | cons e tl ih => cases e <;> simp [nStarts] <;> omega

theorem nStarts_set : ∀ (A : List Event) (j k : Nat) (fp : Option Nat), A[j]? = some (.start k fp) →
    nStarts (A.set j .placeholder) + 1 = nStarts A := by
  intro A
  induction A with
  | nil => intro j k fp h; simp at h
  | cons e tl ih =>
    intro j k fp h
    cases j with
    | zero => simp at h; subst h; simp [nStarts]
    | succ j =>
      simp at h
      have := ih _ _ _ h
      cases e <;> simp [nStarts] <;> omega

theorem foldl_cursor_set (L : Lang) : ∀ (A : List Event) (j : Nat) (e : Event) (ts : List Tok),
    A[j]? = some e → e.isStartOrPh = true →
    (A.set j .placeholder).foldl (stepCursor L) ts = A.foldl (stepCursor L) ts := by
  intro A
  induction A with
  | nil => intro j e ts h; simp at h
  | cons a tl ih =>
    intro j e ts h he
    cases j with
    | zero =>
      simp at h; subst h
      cases a <;> simp [Event.isStartOrPh] at he <;> simp [stepCursor]
    | succ j =>
      simp at h
      simp [ih _ _ _ h he]

theorem map_cls_set (A : List Event) (j : Nat) :
    (A.set j .placeholder).map (Event.cls false) = (A.map (Event.cls false)).set j .flat := by
  rw [List.map_set]
  rfl



theorem walk_spec (L : Lang) : ∀ (f : Nat) (A : List Event) (idx : Nat) (fp : Option Nat) (ks : List Nat) (D : Nat),
    nStarts A < f →
    FpOk A →
    (∀ d, fp = some d → ∃ e, A[idx + d]? = some e ∧ e.isStartOrPh = true) →
    bal D (A.map (Event.cls false)) = true →
    ∃ A' ks', walk f A idx fp ks = .ok (A', ks') ∧
      bal (D + (ks'.length - ks.length)) (A'.map (Event.cls false)) = true ∧
      ks.length ≤ ks'.length ∧
      FpOk A' ∧ A'.length = A.length ∧
      (∀ j : Nat, A[j]? = some Event.placeholder → A'[j]? = some Event.placeholder) ∧
      (∀ ts, A'.foldl (stepCursor L) ts = A.foldl (stepCursor L) ts) := by
  intro f
  induction f with
  | zero => intro A idx fp ks D hf; omega
  | succ f ih =>
    intro A idx fp ks D hf hok hcur hbal
    cases fp with
    | none =>
      exact ⟨A, ks, by simp [walk], by simpa using hbal, Nat.le_refl _, hok, rfl, fun _ h => h, fun _ => rfl⟩
    | some d =>
      obtain ⟨e, he, hsp⟩ := hcur d rfl
      cases e with
      | token k n => simp [Event.isStartOrPh] at hsp
      | finish => simp [Event.isStartOrPh] at hsp
      | placeholder =>
        refine ⟨A, ks, ?_, by simpa using hbal, Nat.le_refl _, hok, rfl, fun _ h => h, fun _ => rfl⟩
        simp [walk, he, set_eq_self _ _ _ he]
      | start k fp' =>
        have hlt : idx + d < A.length := (List.getElem?_eq_some_iff.1 he).1
        have hn := nStarts_set A _ _ _ he
        have hb2 : bal (D + 1) ((A.set (idx + d) .placeholder).map (Event.cls false)) = true := by
          rw [map_cls_set]
          apply bal_hoist _ _ _ hbal
          simp [List.getElem?_map, he, Event.cls]
        have hcur2 : ∀ d', fp' = some d' →
            ∃ e, (A.set (idx + d) .placeholder)[idx + d + d']? = some e ∧ e.isStartOrPh = true := by
          intro d' hd'
          subst hd'
          obtain ⟨h1, e', h2, h3⟩ := hok _ _ _ he
          refine ⟨e', ?_, h3⟩
          rw [List.getElem?_set_ne (by omega)]
          exact h2
        obtain ⟨A', ks', hw, hb', hl', hok', hlen', hph', hcu'⟩ :=
          ih (A.set (idx + d) .placeholder) (idx + d) fp' (k :: ks) (D + 1) (by omega) (hok.set_ph _) hcur2 hb2
        refine ⟨A', ks', by simp [walk, he, hw], ?_, ?_, hok', by simpa using hlen', ?_, ?_⟩
        · simp at hl'
          have e : D + 1 + (ks'.length - (k :: ks).length) = D + (ks'.length - ks.length) := by
            simp; omega
          rw [e] at hb'
          exact hb'
        · simp at hl'; omega
        · intro j hj
          apply hph'
          by_cases hjj : idx + d = j
          · subst hjj; rw [he] at hj; simp at hj
          · rw [List.getElem?_set_ne hjj]; exact hj
        · intro ts
          rw [hcu', foldl_cursor_set L _ _ _ _ he rfl]



/-- Structural invariant of the rowan builder at nesting depth `d`. -/
def BInv (d : Nat) (b : Builder) : Prop :=
  b.parents.length = d ∧ (∀ p, b.parents.getLast? = some p → p.2 = 0) ∧ (d = 0 → b.children = [])

theorem BInv.startNode {d : Nat} {b : Builder} (h : BInv d b) (k : Nat) : BInv (d + 1) (b.startNode k) := by
  obtain ⟨h1, h2, h3⟩ := h
  refine ⟨by simp [Builder.startNode, h1], ?_, by omega⟩
  intro p hp
  simp [Builder.startNode] at hp
  cases hps : b.parents with
  | nil =>
    have : d = 0 := by rw [← h1, hps]; rfl
    simp [hps] at hp
    subst hp
    simp [h3 this]
  | cons q qs =>
    rw [hps, List.getLast?_cons_cons] at hp
    apply h2
    rw [hps]
    exact hp

theorem startNodes_children : ∀ (ks : List Nat) (b : Builder), (startNodes b ks).children = b.children := by
  intro ks
  induction ks with
  | nil => intro b; rfl
  | cons k ks ih => intro b; simp [startNodes] at ih ⊢; rw [ih]; rfl

theorem BInv.nodes : ∀ (ks : List Nat) {d : Nat} {b : Builder}, BInv d b →
    BInv (d + ks.length) (C12.startNodes b ks) := by
  intro ks
  induction ks with
  | nil => intro d b h; exact h
  | cons k ks ih =>
    intro d b h
    have := ih (h.startNode k)
    have e : d + 1 + ks.length = d + (k :: ks).length := by simp; omega
    rw [e] at this
    exact this

theorem BInv.of_parents {d : Nat} {b b' : Builder} (h : BInv d b) (hp : b'.parents = b.parents) (hd : 1 ≤ d) :
    BInv d b' := by
  obtain ⟨h1, h2, _⟩ := h
  exact ⟨by rw [hp, h1], by rw [hp]; exact h2, by omega⟩




theorem bal_nil_pos {d : Nat} (hd : 1 ≤ d) : bal d [] = false := by
  simp [bal]; omega

theorem TInv.done {src : List Nat} {b : Builder} (h : TInv src [] b) : textList b.children = src := by
  obtain ⟨pos, h1, _, h3⟩ := h
  simp [tiles] at h1
  subst h1
  simpa using h3

theorem sinkLoop_spec (L : Lang) (src : List Nat) : ∀ (n : Nat) (R : List Event) (st : SinkSt) (d : Nat),
    R.length = n → R ≠ [] → bal d (R.map (Event.cls false)) = true → FpOk R → BInv d st.b →
    TInv src st.toks st.b → R.foldl (stepCursor L) st.toks = [] →
    ∃ st' k cs, sinkLoop L src n R st = .ok st' ∧ st'.b.children = [Tree.node k cs] ∧ textList cs = src := by
  intro n
  induction n with
  | zero => intro R st d hl hne; simp at hl; exact absurd hl hne
  | succ n ih =>
    intro R st d hl hne hbal hfp hB hT hcur
    cases R with
    | nil => exact absurd rfl hne
    | cons e tl =>
      simp at hl
      cases e with
      | placeholder =>
        by_cases hd : 1 ≤ d
        · simp [bal, stepDepth, Event.cls, hd] at hbal
          have hne' : tl ≠ [] := by
            intro h; subst h; simp [bal_nil_pos hd] at hbal
          simp [stepCursor] at hcur
          simpa [sinkLoop] using ih tl st d hl hne' hbal hfp.tail hB hT hcur
        · simp [bal, stepDepth, Event.cls, hd] at hbal
      | token k m =>
        by_cases hd : 1 ≤ d
        · simp [bal, stepDepth, Event.cls, hd] at hbal
          have hne' : tl ≠ [] := by
            intro h; subst h; simp [bal_nil_pos hd] at hbal
          obtain ⟨st1, e1, t1, p1, i1⟩ := eatTrivia_spec L st.toks st.b hT
          obtain ⟨st2, e2, t2, p2, i2⟩ := tokenN_spec k m i1
          simp [stepCursor] at hcur
          rw [← t1, ← t2] at hcur
          have hB2 : BInv d st2.b := hB.of_parents (by rw [p2, p1]) hd
          simpa [sinkLoop, e1, e2] using ih tl st2 d hl hne' hbal hfp.tail hB2 i2 hcur
        · simp [bal, stepDepth, Event.cls, hd] at hbal
      | finish =>
        by_cases hd : 1 ≤ d
        · simp [bal, stepDepth, Event.cls, hd] at hbal
          obtain ⟨st1, e1, t1, p1, i1⟩ := eatTrivia_spec L st.toks st.b hT
          simp [stepCursor] at hcur
          rw [← t1] at hcur
          obtain ⟨hB1, hB2, _⟩ := hB
          cases hps : st.b.parents with
          | nil => rw [hps] at hB1; simp at hB1; omega
          | cons p ps =>
            obtain ⟨pk, fc⟩ := p
            rw [← p1] at hps
            have hT' : TInv src st1.toks ⟨ps, st1.b.children.take fc ++ [Tree.node pk (st1.b.children.drop fc)]⟩ := by
              obtain ⟨pos, h1, h2, h3⟩ := i1
              refine ⟨pos, h1, h2, ?_⟩
              simp only [textList_append, textList, Tree.text, List.append_nil]
              rw [← textList_append, List.take_append_drop]
              exact h3
            by_cases htl : tl = []
            · subst htl
              simp [bal] at hbal
              have hps0 : ps = [] := by
                rw [← p1, hps] at hB1
                simp at hB1
                exact List.eq_nil_of_length_eq_zero (by omega)
              subst hps0
              have hfc : fc = 0 := by
                have := hB2 (pk, fc) (by rw [← p1, hps]; rfl)
                exact this
              subst hfc
              simp at hcur
              refine ⟨⟨st1.toks, ⟨[], [Tree.node pk st1.b.children]⟩⟩, pk, st1.b.children, ?_, rfl, ?_⟩
              · simp [sinkLoop, e1, Builder.finishNode, hps]
                cases n <;> simp [sinkLoop]
              · rw [hcur] at i1
                exact i1.done
            · have hd2 : 1 ≤ d - 1 := by
                rcases hbal.1 with h | h
                · exact h
                · exact absurd h htl
              have hBn : BInv (d - 1) ⟨ps, st1.b.children.take fc ++ [Tree.node pk (st1.b.children.drop fc)]⟩ := by
                rw [← p1, hps] at hB1 hB2
                refine ⟨by simp at hB1 ⊢; omega, ?_, by omega⟩
                intro q hq
                apply hB2
                cases ps with
                | nil => simp at hB1; omega
                | cons r rs => rw [List.getLast?_cons_cons]; exact hq
              have := ih tl ⟨st1.toks, ⟨ps, st1.b.children.take fc ++ [Tree.node pk (st1.b.children.drop fc)]⟩⟩ (d - 1)
                hl htl hbal.2 hfp.tail hBn hT' hcur
              simpa [sinkLoop, e1, Builder.finishNode, hps] using this
        · simp [bal, stepDepth, Event.cls, hd] at hbal
      | start k fp =>
        simp [bal, stepDepth, Event.cls] at hbal
        have hA : FpOk (Event.placeholder :: tl) := by
          have := hfp.set_ph 0
          simpa using this
        have hcur0 : ∀ d', fp = some d' →
            ∃ e, (Event.placeholder :: tl)[0 + d']? = some e ∧ e.isStartOrPh = true := by
          intro d' hd'
          subst hd'
          obtain ⟨h1, e', h2, h3⟩ := hfp 0 k d' (by simp)
          refine ⟨e', ?_, h3⟩
          cases d' with
          | zero => omega
          | succ d'' => simpa using h2
        have hbA : bal (d + 1) ((Event.placeholder :: tl).map (Event.cls false)) = true := by
          simp [bal, stepDepth, Event.cls]
          exact hbal
        have hns : nStarts (Event.placeholder :: tl) < tl.length + 1 := by
          have := nStarts_le_length tl
          simp [nStarts]; omega
        obtain ⟨A', ks', hw, hb', hl', hok', hlen', hph', hcu'⟩ :=
          walk_spec L (tl.length + 1) (Event.placeholder :: tl) 0 fp [k] (d + 1) hns hA hcur0 hbA
        have h0 := hph' 0 (by simp)
        cases A' with
        | nil => simp at h0
        | cons a tl' =>
          simp at h0
          subst h0
          simp at hlen' hl'
          have hD : d + 1 + (ks'.length - 1) = d + ks'.length := by omega
          simp only [List.length_singleton] at hb'
          rw [hD] at hb'
          have hpos : 1 ≤ d + ks'.length := by omega
          simp [bal, stepDepth, Event.cls, hpos] at hb'
          have hne' : tl' ≠ [] := by
            intro h; subst h; simp [bal_nil_pos hpos] at hb'
          have hcur' : tl'.foldl (stepCursor L) st.toks = [] := by
            have := hcu' st.toks
            simp [stepCursor] at this hcur
            rw [this]; exact hcur
          have hT' : TInv src st.toks (startNodes st.b ks') := by
            obtain ⟨pos, h1, h2, h3⟩ := hT
            exact ⟨pos, h1, h2, by rw [startNodes_children]; exact h3⟩
          have := ih tl' ⟨st.toks, startNodes st.b ks'⟩ (d + ks'.length) (by omega) hne' hb' hok'.tail
            (hB.nodes ks') hT' hcur'
          simpa [sinkLoop, hw] using this


/-- Core of the sink theorem (premises in `Prop` form). -/
theorem sink_lossless_core (L : Lang) (src : List Nat) (toks : List Tok) (events : List Event)
    (hT : tiles toks 0 src.length = true) (hB : onBoundaries src toks = true)
    (hne : events ≠ []) (h1 : bal 0 (events.map (Event.cls false)) = true) (h2 : FpOk events)
    (h3 : events.foldl (stepCursor L) toks = []) :
    ∃ k cs, sink L src toks events = .ok (Tree.node k cs) ∧ (Tree.node k cs).text = src := by
  have hBI : BInv 0 Builder.empty := ⟨rfl, by intro p hp; simp [Builder.empty] at hp, fun _ => rfl⟩
  have hTI : TInv src toks Builder.empty := ⟨0, hT, hB, by simp [Builder.empty, textList]⟩
  obtain ⟨st', k, cs, hs, hc, ht⟩ :=
    sinkLoop_spec L src events.length events ⟨toks, Builder.empty⟩ 0 rfl hne h1 h2 hBI hTI h3
  refine ⟨k, cs, ?_, by simpa [Tree.text] using ht⟩
  simp [sink, hs, Builder.finish, hc]


/-! ## Parser operations: the Marker / Event discipline -/


theorem leavesList_append : ∀ (xs ys : List Tree), leavesList (xs ++ ys) = leavesList xs ++ leavesList ys := by
  intro xs
  induction xs with
  | nil => intro ys; simp [leavesList]
  | cons x xs ih => intro ys; simp [leavesList, ih]

/-- Leaf-side invariant of the sink: the leaves pushed so far followed by the remaining tokens (as
leaves) are the lexer's tokens. -/
def LInv (L : Lang) (src : List Nat) (all toks : List Tok) (b : Builder) : Prop :=
  leavesList b.children ++ lexLeaves L src toks = lexLeaves L src all

theorem LInv.push {L : Lang} {src : List Nat} {all : List Tok} {t : Tok} {ts : List Tok} {b : Builder}
    (h : LInv L src all (t :: ts) b) : LInv L src all ts (b.token (L.toSyntax t.kind) (slice src t.lo t.hi)) := by
  unfold LInv at h ⊢
  rw [← h]
  simp [Builder.token, leavesList_append, leavesList, Tree.leaves, lexLeaves]

theorem eatTrivia_leaves (L : Lang) (src : List Nat) (all : List Tok) : ∀ (toks : List Tok) (b : Builder) (st' : SinkSt),
    eatTrivia L src toks b = .ok st' → LInv L src all toks b → LInv L src all st'.toks st'.b := by
  intro toks
  induction toks with
  | nil => intro b st' h hI; simp [eatTrivia] at h; subst h; exact hI
  | cons t ts ih =>
    intro b st' h hI
    by_cases ht : L.isTrivia t.kind = true
    · by_cases hs : sliceOk src t = true
      · simp [eatTrivia, ht, hs] at h
        exact ih _ _ h hI.push
      · simp [eatTrivia, ht, hs] at h
    · simp [eatTrivia, ht] at h
      subst h
      exact hI

theorem sinkToken_leaves (L : Lang) (src : List Nat) (all : List Tok) (k : Nat) (st st' : SinkSt)
    (h : sinkToken src k st = .ok st') (hk : ∀ t ∈ st.toks.head?, L.toSyntax t.kind = k)
    (hI : LInv L src all st.toks st.b) : LInv L src all st'.toks st'.b := by
  unfold sinkToken at h
  cases hts : st.toks with
  | nil => simp [hts] at h; subst h; exact hI
  | cons t ts =>
    rw [hts] at h hI
    by_cases hs : sliceOk src t = true
    · simp [hs] at h
      subst h
      have := hk t (by simp [hts])
      rw [← this]
      exact hI.push
    · simp [hs] at h

theorem tokenN_leaves (L : Lang) (src : List Nat) (all : List Tok) (k : Nat) : ∀ (n : Nat) (st st' : SinkSt),
    tokenN src k n st = .ok st' → ((st.toks.take n).all fun t => L.toSyntax t.kind == k) = true →
    LInv L src all st.toks st.b → LInv L src all st'.toks st'.b := by
  intro n
  induction n with
  | zero => intro st st' h _ hI; simp [tokenN] at h; subst h; exact hI
  | succ n ih =>
    intro st st' h hk hI
    simp only [tokenN] at h
    cases h1 : sinkToken src k st with
    | panic => simp [h1] at h
    | diverge => simp [h1] at h
    | ok st1 =>
      simp [h1] at h
      have hhead : ∀ t ∈ st.toks.head?, L.toSyntax t.kind = k := by
        intro t ht
        cases hts : st.toks with
        | nil => simp [hts] at ht
        | cons a r =>
          simp [hts] at ht hk
          subst ht
          exact hk.1
      have hI1 := sinkToken_leaves L src all k st st1 h1 hhead hI
      apply ih st1 st' h _ hI1
      -- the remaining n tokens
      unfold sinkToken at h1
      cases hts : st.toks with
      | nil => simp [hts] at h1; subst h1; simp [hts]
      | cons a r =>
        rw [hts] at h1
        by_cases hs : sliceOk src a = true
        · simp [hs] at h1
          subst h1
          simp [hts] at hk ⊢
          exact hk.2
        · simp [hs] at h1

theorem finishNode_leaves (b b' : Builder) (h : b.finishNode = .ok b') :
    leavesList b'.children = leavesList b.children := by
  unfold Builder.finishNode at h
  cases hp : b.parents with
  | nil => simp [hp] at h
  | cons p ps =>
    obtain ⟨k, fc⟩ := p
    simp [hp] at h
    subst h
    simp only [leavesList_append, leavesList, Tree.leaves, List.append_nil]
    rw [← leavesList_append, List.take_append_drop]

theorem kinds_set (L : Lang) : ∀ (A : List Event) (j : Nat) (e : Event) (ts : List Tok),
    A[j]? = some e → e.isStartOrPh = true →
    kindsAgree L ts (A.set j .placeholder) = kindsAgree L ts A := by
  intro A
  induction A with
  | nil => intro j e ts h; simp at h
  | cons a tl ih =>
    intro j e ts h he
    cases j with
    | zero =>
      simp at h; subst h
      cases a <;> simp [Event.isStartOrPh] at he <;> simp [kindsAgree, stepCursor]
    | succ j =>
      simp at h
      simp [kindsAgree, ih _ _ _ h he]

theorem walk_kinds (L : Lang) : ∀ (f : Nat) (A : List Event) (idx : Nat) (fp : Option Nat) (ks : List Nat)
    (A' : List Event) (ks' : List Nat),
    walk f A idx fp ks = .ok (A', ks') → FpOk A →
    (∀ d, fp = some d → ∃ e, A[idx + d]? = some e ∧ e.isStartOrPh = true) →
    FpOk A' ∧ (∀ j : Nat, A[j]? = some Event.placeholder → A'[j]? = some Event.placeholder) ∧
      (∀ ts, kindsAgree L ts A' = kindsAgree L ts A) ∧ A'.length = A.length ∧
      (∀ ts, A'.foldl (stepCursor L) ts = A.foldl (stepCursor L) ts) := by
  intro f
  induction f with
  | zero =>
    intro A idx fp ks A' ks' h hok _
    cases fp with
    | none => simp [walk] at h; obtain ⟨h1, _⟩ := h; subst h1; exact ⟨hok, fun _ h => h, fun _ => rfl, rfl, fun _ => rfl⟩
    | some d => simp [walk] at h
  | succ f ih =>
    intro A idx fp ks A' ks' h hok hcur
    cases fp with
    | none => simp [walk] at h; obtain ⟨h1, _⟩ := h; subst h1; exact ⟨hok, fun _ h => h, fun _ => rfl, rfl, fun _ => rfl⟩
    | some d =>
      obtain ⟨e, he, hsp⟩ := hcur d rfl
      cases e with
      | token k n => simp [Event.isStartOrPh] at hsp
      | finish => simp [Event.isStartOrPh] at hsp
      | placeholder =>
        simp [walk, he, set_eq_self _ _ _ he] at h
        obtain ⟨h1, _⟩ := h; subst h1
        exact ⟨hok, fun _ h => h, fun _ => rfl, rfl, fun _ => rfl⟩
      | start k fp' =>
        simp [walk, he] at h
        have hcur2 : ∀ d', fp' = some d' →
            ∃ e, (A.set (idx + d) .placeholder)[idx + d + d']? = some e ∧ e.isStartOrPh = true := by
          intro d' hd'
          subst hd'
          obtain ⟨h1, e', h2, h3⟩ := hok _ _ _ he
          refine ⟨e', ?_, h3⟩
          rw [List.getElem?_set_ne (by omega)]
          exact h2
        obtain ⟨r1, r2, r3, r4, r5⟩ := ih _ _ _ _ _ _ h (hok.set_ph _) hcur2
        refine ⟨r1, ?_, ?_, by simpa using r4, ?_⟩
        · intro j hj
          apply r2
          by_cases hjj : idx + d = j
          · subst hjj; rw [he] at hj; simp at hj
          · rw [List.getElem?_set_ne hjj]; exact hj
        · intro ts
          rw [r3, kinds_set L _ _ _ _ he rfl]
        · intro ts
          rw [r5, foldl_cursor_set L _ _ _ _ he rfl]

theorem startNodes_leaves (ks : List Nat) (b : Builder) :
    leavesList (startNodes b ks).children = leavesList b.children := by
  rw [startNodes_children]

theorem eatTrivia_toks (L : Lang) (src : List Nat) : ∀ (toks : List Tok) (b : Builder) (st' : SinkSt),
    eatTrivia L src toks b = .ok st' → st'.toks = dropTrivia L toks := by
  intro toks
  induction toks with
  | nil => intro b st' h; simp [eatTrivia] at h; subst h; rfl
  | cons t ts ih =>
    intro b st' h
    by_cases ht : L.isTrivia t.kind = true
    · by_cases hs : sliceOk src t = true
      · simp [eatTrivia, ht, hs] at h
        simp [dropTrivia, ht, ih _ _ h]
      · simp [eatTrivia, ht, hs] at h
    · simp [eatTrivia, ht] at h
      subst h
      simp [dropTrivia, ht]

theorem sinkToken_toks (src : List Nat) (k : Nat) (st st' : SinkSt) (h : sinkToken src k st = .ok st') :
    st'.toks = st.toks.drop 1 := by
  unfold sinkToken at h
  cases hts : st.toks with
  | nil => simp [hts] at h; subst h; simp [hts]
  | cons t ts =>
    rw [hts] at h
    by_cases hs : sliceOk src t = true
    · simp [hs] at h; subst h; simp
    · simp [hs] at h

theorem tokenN_toks (src : List Nat) (k : Nat) : ∀ (n : Nat) (st st' : SinkSt),
    tokenN src k n st = .ok st' → st'.toks = st.toks.drop n := by
  intro n
  induction n with
  | zero => intro st st' h; simp [tokenN] at h; subst h; simp
  | succ n ih =>
    intro st st' h
    simp only [tokenN] at h
    cases h1 : sinkToken src k st with
    | panic => simp [h1] at h
    | diverge => simp [h1] at h
    | ok st1 =>
      simp [h1] at h
      rw [ih _ _ h, sinkToken_toks _ _ _ _ h1, List.drop_drop]
      congr 1
      omega

/-- Partial correctness of the sink loop for leaves: if the loop returns, the leaf invariant holds
at the end and the cursor is where the cursor-only replay puts it. -/
theorem sinkLoop_leaves (L : Lang) (src : List Nat) (all : List Tok) : ∀ (n : Nat) (R : List Event) (st st' : SinkSt),
    R.length = n → sinkLoop L src n R st = .ok st' → FpOk R → kindsAgree L st.toks R = true →
    LInv L src all st.toks st.b →
    LInv L src all st'.toks st'.b ∧ st'.toks = R.foldl (stepCursor L) st.toks := by
  intro n
  induction n with
  | zero =>
    intro R st st' hl h hfp hk hI
    have : R = [] := List.eq_nil_of_length_eq_zero hl
    subst this
    simp [sinkLoop] at h
    subst h
    exact ⟨hI, rfl⟩
  | succ n ih =>
    intro R st st' hl h hfp hk hI
    cases R with
    | nil => simp at hl
    | cons e tl =>
      simp at hl
      cases e with
      | placeholder =>
        simp only [sinkLoop] at h
        simp only [kindsAgree, stepCursor, Bool.true_and] at hk
        simpa [stepCursor] using ih tl st st' hl h hfp.tail hk hI
      | token k m =>
        simp only [sinkLoop] at h
        simp only [kindsAgree, Bool.and_eq_true] at hk
        cases h1 : eatTrivia L src st.toks st.b with
        | panic => simp [h1] at h
        | diverge => simp [h1] at h
        | ok st1 =>
          simp only [h1, Res.bind_ok] at h
          cases h2 : tokenN src k m st1 with
          | panic => simp [h2] at h
          | diverge => simp [h2] at h
          | ok st2 =>
            simp only [h2, Res.bind_ok] at h
            have t1 := eatTrivia_toks L src _ _ _ h1
            have t2 := tokenN_toks src k m _ _ h2
            have hI1 := eatTrivia_leaves L src all _ _ _ h1 hI
            have hI2 := tokenN_leaves L src all k m st1 st2 h2 (by rw [t1]; exact hk.1) hI1
            have hk2 : kindsAgree L st2.toks tl = true := by
              rw [t2, t1]; exact hk.2
            obtain ⟨r1, r2⟩ := ih tl st2 st' hl h hfp.tail hk2 hI2
            refine ⟨r1, ?_⟩
            rw [r2, t2, t1]
            rfl
      | finish =>
        simp only [sinkLoop] at h
        simp only [kindsAgree, Bool.true_and] at hk
        cases h1 : eatTrivia L src st.toks st.b with
        | panic => simp [h1] at h
        | diverge => simp [h1] at h
        | ok st1 =>
          simp only [h1, Res.bind_ok] at h
          cases h2 : st1.b.finishNode with
          | panic => simp [h2] at h
          | diverge => simp [h2] at h
          | ok b' =>
            simp only [h2, Res.bind_ok] at h
            have t1 := eatTrivia_toks L src _ _ _ h1
            have hI1 := eatTrivia_leaves L src all _ _ _ h1 hI
            have hI2 : LInv L src all st1.toks b' := by
              unfold LInv at hI1 ⊢
              rw [finishNode_leaves _ _ h2]
              exact hI1
            have hk2 : kindsAgree L st1.toks tl = true := by
              rw [t1]; exact hk
            obtain ⟨r1, r2⟩ := ih tl ⟨st1.toks, b'⟩ st' hl h hfp.tail hk2 hI2
            refine ⟨r1, ?_⟩
            rw [r2]
            simp [stepCursor, t1]
      | start k fp =>
        simp only [sinkLoop] at h
        simp only [kindsAgree, stepCursor, Bool.true_and] at hk
        cases hw : walk (tl.length + 1) (Event.placeholder :: tl) 0 fp [k] with
        | panic => simp [hw] at h
        | diverge => simp [hw] at h
        | ok r =>
          obtain ⟨A', ks'⟩ := r
          simp only [hw] at h
          have hA : FpOk (Event.placeholder :: tl) := by
            have := hfp.set_ph 0
            simpa using this
          have hcur0 : ∀ d', fp = some d' →
              ∃ e, (Event.placeholder :: tl)[0 + d']? = some e ∧ e.isStartOrPh = true := by
            intro d' hd'
            subst hd'
            obtain ⟨h1, e', h2, h3⟩ := hfp 0 k d' (by simp)
            refine ⟨e', ?_, h3⟩
            cases d' with
            | zero => omega
            | succ d'' => simpa using h2
          obtain ⟨w1, w2, w3, w4, w5⟩ := walk_kinds L _ _ _ _ _ _ _ hw hA hcur0
          have h0 := w2 0 (by simp)
          cases A' with
          | nil => simp at h0
          | cons a tl' =>
            simp at h0
            subst h0
            simp at w4
            have hk' : kindsAgree L st.toks tl' = true := by
              have := w3 st.toks
              simp only [kindsAgree, stepCursor, Bool.true_and] at this
              rw [this]; exact hk
            have hI' : LInv L src all st.toks (startNodes st.b ks') := by
              unfold LInv at hI ⊢
              rw [startNodes_children]; exact hI
            obtain ⟨r1, r2⟩ := ih tl' ⟨st.toks, startNodes st.b ks'⟩ st' (by omega) h w1.tail hk' hI'
            refine ⟨r1, ?_⟩
            rw [r2]
            have := w5 st.toks
            simpa [stepCursor] using this

/-- Core of the token-level sink theorem: the leaves of the tree are the lexer's tokens. -/
theorem sink_leaves_core (L : Lang) (src : List Nat) (toks : List Tok) (events : List Event)
    (hT : tiles toks 0 src.length = true) (hB : onBoundaries src toks = true)
    (hne : events ≠ []) (h1 : bal 0 (events.map (Event.cls false)) = true) (h2 : FpOk events)
    (h3 : events.foldl (stepCursor L) toks = []) (h4 : kindsAgree L toks events = true) :
    ∃ k cs, sink L src toks events = .ok (Tree.node k cs) ∧ (Tree.node k cs).text = src ∧
      (Tree.node k cs).leaves = lexLeaves L src toks := by
  have hBI : BInv 0 Builder.empty := ⟨rfl, by intro p hp; simp [Builder.empty] at hp, fun _ => rfl⟩
  have hTI : TInv src toks Builder.empty := ⟨0, hT, hB, by simp [Builder.empty, textList]⟩
  obtain ⟨st', k, cs, hs, hc, ht⟩ :=
    sinkLoop_spec L src events.length events ⟨toks, Builder.empty⟩ 0 rfl hne h1 h2 hBI hTI h3
  have hLI : LInv L src toks toks Builder.empty := by simp [LInv, Builder.empty, leavesList]
  obtain ⟨l1, l2⟩ := sinkLoop_leaves L src toks events.length events ⟨toks, Builder.empty⟩ st' rfl hs h2 h4 hLI
  refine ⟨k, cs, ?_, by simpa [Tree.text] using ht, ?_⟩
  · simp [sink, hs, Builder.finish, hc]
  · simp only at l2
    rw [l2, h3] at l1
    unfold LInv at l1
    rw [hc] at l1
    simpa [leavesList, lexLeaves, Tree.leaves] using l1

/-- Left-to-right depth of a prefix that stays inside the root (every intermediate depth ≥ 1). -/
def depthFold (d : Nat) : List Cls → Option Nat
  | [] => some d
  | c :: tl =>
    match stepDepth d c with
    | some d' => if d' ≥ 1 then depthFold d' tl else none
    | none => none

theorem depthFold_append : ∀ (xs ys : List Cls) (d : Nat),
    depthFold d (xs ++ ys) = (depthFold d xs).bind fun d' => depthFold d' ys := by
  intro xs
  induction xs with
  | nil => intro ys d; simp [depthFold]
  | cons x xs ih =>
    intro ys d
    simp only [List.cons_append, depthFold]
    cases stepDepth d x with
    | none => simp
    | some d' =>
      by_cases h : d' ≥ 1
      · simp [h, ih]
      · simp [h]

theorem depthFold_pos : ∀ (xs : List Cls) (d D : Nat), 1 ≤ d → depthFold d xs = some D → 1 ≤ D := by
  intro xs
  induction xs with
  | nil => intro d D hd h; simp [depthFold] at h; omega
  | cons x xs ih =>
    intro d D hd h
    simp only [depthFold] at h
    cases hs : stepDepth d x with
    | none => simp [hs] at h
    | some d' =>
      simp [hs] at h
      exact ih d' D h.1 h.2

/-- A prefix that stays inside the root and ends at depth 1, followed by one `Finish`, is a bracket. -/
theorem bal_of_depthFold : ∀ (xs : List Cls) (d : Nat), depthFold d xs = some 1 →
    bal d (xs ++ [Cls.down]) = true := by
  intro xs
  induction xs with
  | nil =>
    intro d h
    simp [depthFold] at h
    subst h
    simp [bal, stepDepth]
  | cons x xs ih =>
    intro d h
    simp only [depthFold] at h
    cases hs : stepDepth d x with
    | none => simp [hs] at h
    | some d' =>
      simp [hs] at h
      simp [bal, hs, h.1, ih d' h.2]

theorem dropTrivia_idem (L : Lang) : ∀ (ts : List Tok), dropTrivia L (dropTrivia L ts) = dropTrivia L ts := by
  intro ts
  induction ts with
  | nil => rfl
  | cons t ts ih =>
    by_cases h : L.isTrivia t.kind = true
    · simp [dropTrivia, h, ih]
    · simp [dropTrivia, h]

theorem foldl_cursor_set' (L : Lang) : ∀ (A : List Event) (j : Nat) (e e' : Event) (ts : List Tok),
    A[j]? = some e → e.isStartOrPh = true → e'.isStartOrPh = true →
    (A.set j e').foldl (stepCursor L) ts = A.foldl (stepCursor L) ts := by
  intro A
  induction A with
  | nil => intro j e e' ts h; simp at h
  | cons a tl ih =>
    intro j e e' ts h he he'
    cases j with
    | zero =>
      simp at h; subst h
      cases a <;> simp [Event.isStartOrPh] at he <;>
        cases e' <;> simp [Event.isStartOrPh] at he' <;> simp [stepCursor]
    | succ j =>
      simp at h
      simp [ih _ _ _ _ h he he']

theorem map_cls_true_set (A : List Event) (j : Nat) (e e' : Event) (h : A[j]? = some e)
    (he : e.cls true = e'.cls true) :
    (A.set j e').map (Event.cls true) = A.map (Event.cls true) := by
  rw [List.map_set]
  apply set_eq_self
  simp [List.getElem?_map, h, he]

theorem FpOk.append_one {A : List Event} (h : FpOk A) (e : Event)
    (he : ∀ k d, e ≠ .start k (some d)) : FpOk (A ++ [e]) := by
  intro i k d hi
  by_cases hlt : i < A.length
  · rw [List.getElem?_append_left hlt] at hi
    obtain ⟨h1, e', h2, h3⟩ := h i k d hi
    refine ⟨h1, e', ?_, h3⟩
    have : i + d < A.length := (List.getElem?_eq_some_iff.1 h2).1
    rw [List.getElem?_append_left this]
    exact h2
  · have hge : A.length ≤ i := by omega
    rw [List.getElem?_append_right hge] at hi
    cases hx : i - A.length with
    | zero => simp [hx] at hi; exact absurd hi (he k d)
    | succ m => simp [hx] at hi



/-- The check E4 makes for one event when the cursor-only replay has reached `ts`. -/
def kindCheck (L : Lang) (ts : List Tok) : Event → Bool
  | .token k n => ((dropTrivia L ts).take n).all fun t => L.toSyntax t.kind == k
  | _ => true

theorem kindsAgree_cons (L : Lang) (ts : List Tok) (e : Event) (es : List Event) :
    kindsAgree L ts (e :: es) = (kindCheck L ts e && kindsAgree L (stepCursor L ts e) es) := by
  cases e <;> simp [kindsAgree, kindCheck]

theorem kindsAgree_append (L : Lang) : ∀ (es : List Event) (ts : List Tok) (e : Event),
    kindsAgree L ts (es ++ [e]) = (kindsAgree L ts es && kindCheck L (es.foldl (stepCursor L) ts) e) := by
  intro es
  induction es with
  | nil => intro ts e; simp [kindsAgree_cons, kindsAgree]
  | cons a es ih =>
    intro ts e
    simp only [List.cons_append, kindsAgree_cons, ih, List.foldl_cons, Bool.and_assoc]

theorem kinds_set' (L : Lang) : ∀ (A : List Event) (j : Nat) (e e' : Event) (ts : List Tok),
    A[j]? = some e → e.isStartOrPh = true → e'.isStartOrPh = true →
    kindsAgree L ts (A.set j e') = kindsAgree L ts A := by
  intro A
  induction A with
  | nil => intro j e e' ts h; simp at h
  | cons a tl ih =>
    intro j e e' ts h he he'
    cases j with
    | zero =>
      simp at h; subst h
      cases a <;> simp [Event.isStartOrPh] at he <;>
        cases e' <;> simp [Event.isStartOrPh] at he' <;> simp [kindsAgree, stepCursor]
    | succ j =>
      simp at h
      simp [kindsAgree_cons, ih _ _ _ _ h he he']

/-- Invariant tying the parser state to the ghost state of the discipline; `all` is the whole token
list. -/
structure PInv (L : Lang) (all : List Tok) (g : Ghost) (s : PState) : Prop where
  depth : depthFold 0 (s.events.map (Event.cls true)) = some (1 + g.raw + g.opens.length)
  ph : ∀ i : Nat, s.events[i]? = some Event.placeholder ↔ i ∈ g.opens
  nodup : g.opens.Nodup
  dones : ∀ p ∈ g.dones, p < s.events.length
  fp : FpOk s.events
  cur : dropTrivia L (s.events.foldl (stepCursor L) all) = dropTrivia L s.toks
  kinds : kindsAgree L all s.events = true
  suffix : ∃ pre, all = pre ++ s.toks
  errs : ∀ e ∈ s.errors, e = (0, 0) ∨ ∃ t ∈ all, L.isTrivia t.kind = false ∧ e = (t.lo, t.hi)

theorem depth_push {es : List Event} {D D' : Nat} (e : Event)
    (h : depthFold 0 (es.map (Event.cls true)) = some D)
    (hs : stepDepth D (e.cls true) = some D') (hp : 1 ≤ D') :
    depthFold 0 ((es ++ [e]).map (Event.cls true)) = some D' := by
  rw [List.map_append, depthFold_append, h]
  simp [depthFold, hs, hp]

theorem ph_push_ne {es : List Event} {opens : List Nat} (e : Event) (he : e ≠ .placeholder)
    (h : ∀ i : Nat, es[i]? = some Event.placeholder ↔ i ∈ opens) :
    ∀ i : Nat, (es ++ [e])[i]? = some Event.placeholder ↔ i ∈ opens := by
  intro i
  by_cases hlt : i < es.length
  · rw [List.getElem?_append_left hlt]; exact h i
  · have hge : es.length ≤ i := by omega
    rw [List.getElem?_append_right hge]
    constructor
    · intro hx
      cases hm : i - es.length with
      | zero => simp [hm] at hx; exact absurd hx he
      | succ m => simp [hm] at hx
    · intro hx
      have := (h i).2 hx
      have := (List.getElem?_eq_some_iff.1 this).1
      omega

theorem ph_push_ph {es : List Event} {opens : List Nat}
    (h : ∀ i : Nat, es[i]? = some Event.placeholder ↔ i ∈ opens) :
    ∀ i : Nat, (es ++ [Event.placeholder])[i]? = some Event.placeholder ↔ i ∈ es.length :: opens := by
  intro i
  by_cases hlt : i < es.length
  · rw [List.getElem?_append_left hlt]
    simp only [List.mem_cons]
    constructor
    · intro hx; exact Or.inr ((h i).1 hx)
    · intro hx
      rcases hx with hx | hx
      · omega
      · exact (h i).2 hx
  · have hge : es.length ≤ i := by omega
    rw [List.getElem?_append_right hge]
    simp only [List.mem_cons]
    constructor
    · intro hx
      cases hm : i - es.length with
      | zero => left; omega
      | succ m => simp [hm] at hx
    · intro hx
      rcases hx with hx | hx
      · subst hx; simp
      · have := (h i).2 hx
        have := (List.getElem?_eq_some_iff.1 this).1
        omega

theorem opens_lt {es : List Event} {opens : List Nat}
    (h : ∀ i : Nat, es[i]? = some Event.placeholder ↔ i ∈ opens) : ∀ p ∈ opens, p < es.length := by
  intro p hp
  exact (List.getElem?_eq_some_iff.1 ((h p).2 hp)).1



theorem FpOk.set_start {es : List Event} (h : FpOk es) {cur k : Nat} {fp0 : Option Nat} (fp : Option Nat)
    (hc : es[cur]? = some (.start k fp0))
    (hfp : ∀ d, fp = some d → d ≥ 1 ∧ ∃ e, es[cur + d]? = some e ∧ e.isStartOrPh = true) :
    FpOk (es.set cur (.start k fp)) := by
  have hlt : cur < es.length := (List.getElem?_eq_some_iff.1 hc).1
  have tgt : ∀ (j : Nat) (e : Event), es[j]? = some e → e.isStartOrPh = true →
      ∃ e' : Event, (es.set cur (.start k fp))[j]? = some e' ∧ e'.isStartOrPh = true := by
    intro j e hj he
    by_cases hjc : cur = j
    · subst hjc
      exact ⟨.start k fp, by rw [List.getElem?_set]; simp [hlt], rfl⟩
    · exact ⟨e, by rw [List.getElem?_set_ne hjc]; exact hj, he⟩
  intro i k' d hi
  by_cases hic : cur = i
  · subst hic
    rw [List.getElem?_set] at hi
    simp [hlt] at hi
    obtain ⟨h1, e, h2, h3⟩ := hfp d hi.2
    exact ⟨h1, tgt _ e h2 h3⟩
  · rw [List.getElem?_set_ne hic] at hi
    obtain ⟨h1, e, h2, h3⟩ := h i k' d hi
    exact ⟨h1, tgt _ e h2 h3⟩

theorem ph_set_start {es : List Event} {cur k : Nat} {fp0 : Option Nat} (fp : Option Nat)
    (hc : es[cur]? = some (.start k fp0)) :
    ∀ i : Nat, (es.set cur (.start k fp))[i]? = some Event.placeholder ↔ es[i]? = some Event.placeholder := by
  intro i
  have hlt : cur < es.length := (List.getElem?_eq_some_iff.1 hc).1
  by_cases hic : cur = i
  · subst hic
    rw [List.getElem?_set, hc]
    simp [hlt]
  · rw [List.getElem?_set_ne hic]

theorem setFp_spec (L : Lang) : ∀ (f : Nat) (es : List Event) (cur to : Nat),
    FpOk es → cur < es.length → es.length ≤ f + cur → to + 1 = es.length →
    es[to]? = some Event.placeholder →
    ∃ es', setForwardParent f es cur to = .ok es' ∧ es'.length = es.length ∧ FpOk es' ∧
      es'.map (Event.cls true) = es.map (Event.cls true) ∧
      (∀ i : Nat, es'[i]? = some Event.placeholder ↔ es[i]? = some Event.placeholder) ∧
      (∀ ts, es'.foldl (stepCursor L) ts = es.foldl (stepCursor L) ts) ∧
      (∀ ts, kindsAgree L ts es' = kindsAgree L ts es) := by
  intro f
  induction f with
  | zero => intro es cur to _ h1 h2; omega
  | succ f ih =>
    intro es cur to hok hlt hfu hto hph
    have hc : es[cur]? = some es[cur] := List.getElem?_eq_getElem hlt
    cases he : es[cur] with
    | token k n =>
      rw [he] at hc
      exact ⟨es, by simp [setForwardParent, hc], rfl, hok, rfl, fun _ => Iff.rfl, fun _ => rfl, fun _ => rfl⟩
    | finish =>
      rw [he] at hc
      exact ⟨es, by simp [setForwardParent, hc], rfl, hok, rfl, fun _ => Iff.rfl, fun _ => rfl, fun _ => rfl⟩
    | placeholder =>
      rw [he] at hc
      exact ⟨es, by simp [setForwardParent, hc], rfl, hok, rfl, fun _ => Iff.rfl, fun _ => rfl, fun _ => rfl⟩
    | start k fp =>
      rw [he] at hc
      cases fp with
      | some d =>
        obtain ⟨h1, e, h2, _⟩ := hok cur k d hc
        have hlt2 : cur + d < es.length := (List.getElem?_eq_some_iff.1 h2).1
        obtain ⟨es', r1, r2, r3, r4, r5, r6, r7⟩ := ih es (cur + d) to hok hlt2 (by omega) hto hph
        exact ⟨es', by simp [setForwardParent, hc, r1], r2, r3, r4, r5, r6, r7⟩
      | none =>
        have hne : cur ≠ to := by
          intro h; subst h; rw [hc] at hph; simp at hph
        have hle : cur ≤ to := by omega
        refine ⟨es.set cur (.start k (some (to - cur))), by simp [setForwardParent, hc, hle], by simp, ?_, ?_,
          ph_set_start _ hc, ?_, fun ts => kinds_set' L es cur _ _ ts hc rfl rfl⟩
        · apply hok.set_start _ hc
          intro d hd
          simp at hd
          subst hd
          refine ⟨by omega, .placeholder, ?_, rfl⟩
          have : cur + (to - cur) = to := by omega
          rw [this]; exact hph
        · exact map_cls_true_set es cur _ _ hc rfl
        · intro ts
          exact foldl_cursor_set' L es cur _ _ ts hc rfl rfl



theorem FpOk.set_nofp {es : List Event} (h : FpOk es) (p k : Nat) :
    FpOk (es.set p (.start k none)) := by
  intro i k' d hi
  by_cases hip : p = i
  · subst hip
    rw [List.getElem?_set] at hi
    split at hi
    · split at hi <;> simp at hi
    · contradiction
  · rw [List.getElem?_set_ne hip] at hi
    obtain ⟨h1, e, h2, h3⟩ := h i k' d hi
    refine ⟨h1, ?_⟩
    by_cases hpt : p = i + d
    · subst hpt
      have : i + d < es.length := (List.getElem?_eq_some_iff.1 h2).1
      exact ⟨.start k none, by rw [List.getElem?_set]; simp [this], rfl⟩
    · exact ⟨e, by rw [List.getElem?_set_ne hpt]; exact h2, h3⟩

theorem dropTrivia_suffix (L : Lang) : ∀ ts : List Tok, ∃ pre, ts = pre ++ dropTrivia L ts := by
  intro ts
  induction ts with
  | nil => exact ⟨[], rfl⟩
  | cons t ts ih =>
    by_cases h : L.isTrivia t.kind = true
    · obtain ⟨pre, hp⟩ := ih
      exact ⟨t :: pre, by simp [dropTrivia, h]; exact hp⟩
    · exact ⟨[], by simp [dropTrivia, h]⟩

theorem dropTrivia_head (L : Lang) : ∀ (ts : List Tok) (t : Tok) (r : List Tok),
    dropTrivia L ts = t :: r → L.isTrivia t.kind = false := by
  intro ts
  induction ts with
  | nil => intro t r h; simp [dropTrivia] at h
  | cons a ts ih =>
    intro t r h
    by_cases ha : L.isTrivia a.kind = true
    · simp [dropTrivia, ha] at h; exact ih t r h
    · simp [dropTrivia, ha] at h
      rw [← h.1]; simpa using ha

theorem step_inv (L : Lang) (all : List Tok) : ∀ (op : POp) (rest : List POp) (g : Ghost) (s : PState) (n : Nat),
    PInv L all g s → n = s.events.length → disc g n (op :: rest) = true →
    ∃ s' g', step L s op = .ok s' ∧ PInv L all g' s' ∧ disc g' s'.events.length rest = true := by
  intro op rest g s n hI hn hd
  subst hn
  have hD1 : 1 ≤ 1 + g.raw + g.opens.length := by omega
  cases op with
  | start =>
    simp only [disc] at hd
    refine ⟨{ s with events := s.events ++ [.placeholder] }, { g with opens := s.events.length :: g.opens },
      rfl, ?_, by simpa using hd⟩
    exact {
      depth := by
        have h := depth_push Event.placeholder hI.depth (D' := 1 + g.raw + g.opens.length + 1)
          (by simp [stepDepth, Event.cls]) (by omega)
        rw [h]; simp; omega
      ph := ph_push_ph hI.ph
      nodup := by
        refine List.nodup_cons.2 ⟨?_, hI.nodup⟩
        intro h; have := opens_lt hI.ph _ h; omega
      dones := by intro p hp; have := hI.dones p hp; simp; omega
      fp := hI.fp.append_one _ (by intro k d h; cases h)
      cur := by simpa [List.foldl_append, stepCursor] using hI.cur
      kinds := by
        rw [kindsAgree_append, hI.kinds]; rfl
      suffix := hI.suffix
      errs := hI.errs }
  | complete p k =>
    simp only [disc, Bool.and_eq_true, List.contains_iff_mem] at hd
    obtain ⟨hp, hd⟩ := hd
    have hph := (hI.ph p).2 hp
    have hplt : p < s.events.length := (List.getElem?_eq_some_iff.1 hph).1
    have hlen : 1 ≤ g.opens.length := List.length_pos_of_mem hp
    refine ⟨{ s with events := s.events.set p (.start k none) ++ [.finish] },
      { g with opens := g.opens.erase p, dones := p :: g.dones }, by simp [step, hph], ?_, by simpa using hd⟩
    exact {
      depth := by
        have h0 : depthFold 0 ((s.events.set p (.start k none)).map (Event.cls true)) =
            some (1 + g.raw + g.opens.length) := by
          rw [map_cls_true_set s.events p .placeholder (.start k none) hph rfl]; exact hI.depth
        have h := depth_push Event.finish h0 (D' := 1 + g.raw + g.opens.length - 1)
          (by simp [stepDepth, Event.cls]) (by omega)
        rw [h]; simp [List.length_erase_of_mem hp]; omega
      ph := by
        apply ph_push_ne _ (by intro h; cases h)
        intro i
        simp only [hI.nodup.mem_erase_iff]
        by_cases hip : p = i
        · subst hip
          rw [List.getElem?_set]; simp [hplt]
        · rw [List.getElem?_set_ne hip, hI.ph i]
          constructor
          · intro h; exact ⟨fun e => hip e.symm, h⟩
          · intro h; exact h.2
      nodup := hI.nodup.erase p
      dones := by
        intro q hq
        simp at hq ⊢
        rcases hq with hq | hq
        · omega
        · have := hI.dones q hq; omega
      fp := (hI.fp.set_nofp p k).append_one _ (by intro k d h; cases h)
      cur := by
        simp only [List.foldl_append, List.foldl_cons, List.foldl_nil, stepCursor]
        rw [foldl_cursor_set' L _ _ _ _ _ hph rfl rfl, dropTrivia_idem]
        exact hI.cur
      kinds := by
        rw [kindsAgree_append, kinds_set' L _ _ _ _ _ hph rfl rfl, hI.kinds]; rfl
      suffix := hI.suffix
      errs := hI.errs }
  | precede p =>
    simp only [disc, Bool.and_eq_true, List.contains_iff_mem] at hd
    obtain ⟨hp, hd⟩ := hd
    have hplt := hI.dones p hp
    have hok0 : FpOk (s.events ++ [Event.placeholder]) := hI.fp.append_one _ (by intro k d h; cases h)
    obtain ⟨es', r1, r2, r3, r4, r5, r6, r7⟩ :=
      setFp_spec L (s.events.length + 1) (s.events ++ [Event.placeholder]) p s.events.length
        hok0 (by simp; omega) (by simp) (by simp) (by simp)
    refine ⟨{ s with events := es' }, { g with opens := s.events.length :: g.opens },
      by simp [step, r1], ?_, by simpa [r2] using hd⟩
    exact {
      depth := by
        show depthFold 0 (es'.map (Event.cls true)) = _
        rw [r4]
        have h := depth_push Event.placeholder hI.depth (D' := 1 + g.raw + g.opens.length + 1)
          (by simp [stepDepth, Event.cls]) (by omega)
        rw [h]; simp; omega
      ph := by
        intro i
        show es'[i]? = some Event.placeholder ↔ _
        rw [r5 i]; exact ph_push_ph hI.ph i
      nodup := by
        refine List.nodup_cons.2 ⟨?_, hI.nodup⟩
        intro h; have := opens_lt hI.ph _ h; omega
      dones := by
        intro q hq; have := hI.dones q hq
        show q < es'.length
        rw [r2]; simp; omega
      fp := r3
      cur := by
        show dropTrivia L (es'.foldl (stepCursor L) all) = _
        rw [r6]
        simpa [List.foldl_append, stepCursor] using hI.cur
      kinds := by
        show kindsAgree L all es' = true
        rw [r7, kindsAgree_append, hI.kinds]; rfl
      suffix := hI.suffix
      errs := hI.errs }
  | bump =>
    simp only [disc] at hd
    refine ⟨{ s with events := s.events ++ [.token (L.toSyntax (currentKind L s)) 1], toks := sourceBump L s.toks },
      g, rfl, ?_, by simpa using hd⟩
    exact {
      depth := depth_push _ hI.depth (by simp [stepDepth, Event.cls]) hD1
      ph := ph_push_ne _ (by intro h; cases h) hI.ph
      nodup := hI.nodup
      dones := by intro p hp; have := hI.dones p hp; simp; omega
      fp := hI.fp.append_one _ (by intro k d h; cases h)
      cur := by
        simp only [List.foldl_append, List.foldl_cons, List.foldl_nil, stepCursor, sourceBump]
        rw [hI.cur]
      kinds := by
        rw [kindsAgree_append, hI.kinds]
        simp only [kindCheck, Bool.true_and, hI.cur, currentKind]
        cases dropTrivia L s.toks with
        | nil => rfl
        | cons t r => simp
      suffix := by
        obtain ⟨pre, hpre⟩ := hI.suffix
        obtain ⟨pre2, hpre2⟩ := dropTrivia_suffix L s.toks
        refine ⟨pre ++ pre2 ++ (dropTrivia L s.toks).take 1, ?_⟩
        simp only [sourceBump, List.append_assoc, List.take_append_drop]
        rw [← hpre2]; exact hpre
      errs := hI.errs }
  | startNode k =>
    simp only [disc] at hd
    refine ⟨{ s with events := s.events ++ [.start k none] }, { g with raw := g.raw + 1 }, rfl, ?_, by simpa using hd⟩
    exact {
      depth := by
        have h := depth_push (Event.start k none) hI.depth (D' := 1 + g.raw + g.opens.length + 1)
          (by simp [stepDepth, Event.cls]) (by omega)
        rw [h]; simp; omega
      ph := ph_push_ne _ (by intro h; cases h) hI.ph
      nodup := hI.nodup
      dones := by intro p hp; have := hI.dones p hp; simp; omega
      fp := hI.fp.append_one _ (by intro k d h; cases h)
      cur := by simpa [List.foldl_append, stepCursor] using hI.cur
      kinds := by
        rw [kindsAgree_append, hI.kinds]; rfl
      suffix := hI.suffix
      errs := hI.errs }
  | finishNode =>
    simp only [disc, Bool.and_eq_true, decide_eq_true_eq] at hd
    obtain ⟨hr, hd⟩ := hd
    refine ⟨{ s with events := s.events ++ [.finish] }, { g with raw := g.raw - 1 }, rfl, ?_, by simpa using hd⟩
    exact {
      depth := by
        have h := depth_push Event.finish hI.depth (D' := 1 + g.raw + g.opens.length - 1)
          (by simp [stepDepth, Event.cls]) (by omega)
        rw [h]; simp; omega
      ph := ph_push_ne _ (by intro h; cases h) hI.ph
      nodup := hI.nodup
      dones := by intro p hp; have := hI.dones p hp; simp; omega
      fp := hI.fp.append_one _ (by intro k d h; cases h)
      cur := by
        simp only [List.foldl_append, List.foldl_cons, List.foldl_nil, stepCursor]
        rw [dropTrivia_idem]; exact hI.cur
      kinds := by
        rw [kindsAgree_append, hI.kinds]; rfl
      suffix := hI.suffix
      errs := hI.errs }
  | error =>
    simp only [disc] at hd
    refine ⟨{ s with errors := s.errors ++ [errorRange L s] }, g, rfl, ?_, hd⟩
    exact {
      depth := hI.depth
      ph := hI.ph
      nodup := hI.nodup
      dones := hI.dones
      fp := hI.fp
      cur := hI.cur
      kinds := hI.kinds
      suffix := hI.suffix
      errs := by
        intro e he
        simp only [List.mem_append, List.mem_singleton] at he
        rcases he with he | he
        · exact hI.errs e he
        · subst he
          unfold errorRange
          cases hdt : dropTrivia L s.toks with
          | nil => left; rfl
          | cons t r =>
            right
            refine ⟨t, ?_, dropTrivia_head L _ _ _ hdt, rfl⟩
            obtain ⟨pre, hpre⟩ := hI.suffix
            obtain ⟨pre2, hpre2⟩ := dropTrivia_suffix L s.toks
            rw [hpre, hpre2, hdt]
            simp }



theorem fpOkFrom_complete (A : List Event) : ∀ (l : List Event) (i : Nat),
    (∀ j k d, l[j]? = some (.start k (some d)) →
      d ≥ 1 ∧ ∃ e, A[i + j + d]? = some e ∧ e.isStartOrPh = true) → fpOkFrom A i l = true := by
  intro l
  induction l with
  | nil => intro i _; rfl
  | cons e tl ih =>
    intro i h
    simp only [fpOkFrom, Bool.and_eq_true]
    constructor
    · cases e with
      | start k fp =>
        cases fp with
        | none => rfl
        | some d =>
          obtain ⟨h1, e', h2, h3⟩ := h 0 k d (by simp)
          simp at h2
          simp [fpOkAt, h1, h2, h3]
      | token k n => rfl
      | finish => rfl
      | placeholder => rfl
    · apply ih
      intro j k d hj
      have := h (j + 1) k d (by simpa using hj)
      have e : i + (j + 1) + d = i + 1 + j + d := by omega
      rw [e] at this
      exact this

theorem fpOk_complete (A : List Event) (h : FpOk A) : fpOk A = true := by
  apply fpOkFrom_complete
  intro j k d hj
  simpa using h j k d hj

theorem run_append (L : Lang) : ∀ (a b : List POp) (s : PState),
    run L s (a ++ b) = (run L s a).bind fun s' => run L s' b := by
  intro a
  induction a with
  | nil => intro b s; simp [run]
  | cons op a ih =>
    intro b s
    simp only [List.cons_append, run]
    cases step L s op with
    | ok s' => simp [ih]
    | panic => rfl
    | diverge => rfl

theorem run_inv (L : Lang) (all : List Tok) : ∀ (ops : List POp) (g : Ghost) (s : PState),
    PInv L all g s → disc g s.events.length ops = true →
    ∃ s' g', run L s ops = .ok s' ∧ PInv L all g' s' ∧ g'.opens = [] ∧ g'.raw = 0 := by
  intro ops
  induction ops with
  | nil =>
    intro g s hI hd
    simp [disc] at hd
    exact ⟨s, g, rfl, hI, hd.1, hd.2⟩
  | cons op rest ih =>
    intro g s hI hd
    obtain ⟨s1, g1, e1, hI1, hd1⟩ := step_inv L all op rest g s _ hI rfl hd
    obtain ⟨s2, g2, e2, hI2, h2⟩ := ih g1 s1 hI1 hd1
    exact ⟨s2, g2, by simp [run, e1, e2], hI2, h2⟩

theorem map_cls_no_ph (es : List Event) (h : ∀ i : Nat, es[i]? ≠ some Event.placeholder) :
    es.map (Event.cls false) = es.map (Event.cls true) := by
  apply List.map_congr_left
  intro e he
  cases e with
  | placeholder =>
    obtain ⟨i, hi⟩ := List.getElem?_of_mem he
    exact absurd hi (h i)
  | start k fp => rfl
  | token k n => rfl
  | finish => rfl

/-- Every disciplined run of the parser produces an event stream that satisfies the premises of the
sink theorem (and records only error ranges that are token ranges or `0..0`). -/
theorem parser_events_ok_core (L : Lang) (toks : List Tok) (root : Nat) (body : List POp)
    (hD : Disciplined body) :
    ∃ s, run L (PState.init toks) (parseOps root body) = .ok s ∧
      eventsBalanced s.events = true ∧ fpOk s.events = true ∧
      (noEof L toks = true → atEnd L s = true → consumesAll L toks s.events = true) ∧
      (∀ e ∈ s.errors, e = (0, 0) ∨ ∃ t ∈ toks, L.isTrivia t.kind = false ∧ e = (t.lo, t.hi)) ∧
      kindsAgree L toks s.events = true := by
  have hI1 : PInv L toks ⟨[], [], 0⟩ ⟨[.start root none], toks, []⟩ := {
    depth := by simp [depthFold, stepDepth, Event.cls]
    ph := by
      intro i
      cases i <;> simp
    nodup := List.nodup_nil
    dones := by intro p hp; simp at hp
    fp := by
      intro i k d hi
      cases i <;> simp at hi
    cur := by simp [stepCursor]
    kinds := by simp [kindsAgree]
    suffix := ⟨[], rfl⟩
    errs := by intro e he; simp at he }
  obtain ⟨s2, g2, e2, hI2, ho, hr⟩ := run_inv L toks body ⟨[], [], 0⟩ ⟨[.start root none], toks, []⟩ hI1 hD
  refine ⟨{ s2 with events := s2.events ++ [.finish] }, ?_, ?_, ?_, ?_, hI2.errs, ?_⟩
  rotate_right
  · show kindsAgree L toks (s2.events ++ [Event.finish]) = true
    rw [kindsAgree_append, hI2.kinds]; rfl
  · simp only [parseOps, PState.init]
    rw [run_append]
    simp only [run, step, List.nil_append, Res.bind_ok]
    rw [e2]
    simp
  · have hnoph : ∀ i : Nat, s2.events[i]? ≠ some Event.placeholder := by
      intro i h
      have := (hI2.ph i).1 h
      rw [ho] at this
      simp at this
    have hdep := hI2.depth
    rw [ho, hr, ← map_cls_no_ph _ hnoph] at hdep
    simp only [eventsBalanced, Bool.and_eq_true]
    refine ⟨by simp, ?_⟩
    rw [List.map_append]
    exact bal_of_depthFold _ 0 hdep
  · exact fpOk_complete _ (hI2.fp.append_one _ (by intro k d h; cases h))
  · intro hne hat
    simp only [consumesAll, List.foldl_append, List.foldl_cons, List.foldl_nil, stepCursor]
    rw [hI2.cur]
    simp only [atEnd, currentKind] at hat
    cases hdt : dropTrivia L s2.toks with
    | nil => rfl
    | cons t r =>
      simp [hdt] at hat
      obtain ⟨pre, hpre⟩ := hI2.suffix
      obtain ⟨pre2, hpre2⟩ := dropTrivia_suffix L s2.toks
      have hmem : t ∈ toks := by rw [hpre, hpre2, hdt]; simp
      simp only [noEof, List.all_eq_true] at hne
      have := hne t hmem
      simp [hat] at this



theorem tiles_mem_bounds : ∀ (ts : List Tok) (a b : Nat) (t : Tok), tiles ts a b = true → t ∈ ts →
    a ≤ t.lo ∧ t.lo < t.hi ∧ t.hi ≤ b := by
  intro ts
  induction ts with
  | nil => intro a b t _ h; simp at h
  | cons x xs ih =>
    intro a b t h hm
    simp [tiles] at h
    obtain ⟨⟨h1, h2⟩, h3⟩ := h
    have hle := tiles_le _ _ _ h3
    simp only [List.mem_cons] at hm
    rcases hm with hm | hm
    · subst hm; omega
    · have := ih _ _ t h3 hm; omega

/-! ## The lexer post-pass and trivia (lexer level of the trivia-insertion clause) -/

theorem postpass_barrier (L : Lang) (src : List Nat) (t : Tok) (b : List Tok)
    (hi : t.kind ≠ L.int) (hd : t.kind ≠ L.dot) :
    ∀ a : List Tok, postpass L src (a ++ t :: b) = postpass L src a ++ t :: postpass L src b := by
  intro a
  fun_induction postpass L src a with
  | case1 => simp [postpass, hi]
  | case2 t0 hc intTok => simp [postpass, hc, hd, intTok]
  | case3 t0 hc intTok nx rest' hd' ih => simp [postpass, hc, hd', ih, intTok]
  | case4 t0 hc intTok nx rest' hd' ih => simp [postpass, hc, hd', ih, intTok]
  | case5 t0 rest hc ih => simp [postpass, hc, ih]

theorem splitCond_shift (L : Lang) (src src' : List Nat) (d : Nat) (t : Tok)
    (h : endsWithDot src' (shiftTok d t) = endsWithDot src t) :
    ((shiftTok d t).kind = L.int ∧ endsWithDot src' (shiftTok d t) = true ∧ (shiftTok d t).hi > (shiftTok d t).lo + 1) ↔
      (t.kind = L.int ∧ endsWithDot src t = true ∧ t.hi > t.lo + 1) := by
  rw [h]
  simp only [shiftTok]
  constructor <;> rintro ⟨a, b, c⟩ <;> exact ⟨a, b, by omega⟩

theorem postpass_shift (L : Lang) (src src' : List Nat) (d : Nat) :
    ∀ raw : List Tok, (∀ t ∈ raw, endsWithDot src' (shiftTok d t) = endsWithDot src t) →
      postpass L src' (raw.map (shiftTok d)) = (postpass L src raw).map (shiftTok d) := by
  intro raw
  fun_induction postpass L src raw with
  | case1 => intro _; simp [postpass]
  | case2 t hc intTok =>
    intro h
    have hc' := (splitCond_shift L src src' d t (h t (by simp))).mpr hc
    have h1 : t.hi + d - 1 = t.hi - 1 + d := by omega
    simp only [List.map, postpass, hc', and_self, if_true]
    simp [shiftTok, intTok, h1]
  | case3 t hc intTok nx rest' hd ih =>
    intro h
    have hc' := (splitCond_shift L src src' d t (h t (by simp))).mpr hc
    have h1 : t.hi + d - 1 = t.hi - 1 + d := by omega
    have ih' := ih (fun x hx => h x (by simp [hx]))
    have hd' : (shiftTok d nx).kind = L.dot ∧ (shiftTok d nx).lo = (shiftTok d t).hi := by
      simp only [shiftTok]; exact ⟨hd.1, by omega⟩
    simp only [List.map, postpass, hc', hd', and_self, if_true, ih']
    simp [shiftTok, intTok, h1]
  | case4 t hc intTok nx rest' hd ih =>
    intro h
    have hc' := (splitCond_shift L src src' d t (h t (by simp))).mpr hc
    have h1 : t.hi + d - 1 = t.hi - 1 + d := by omega
    have ih' := ih (fun x hx => h x (by simp [hx]))
    have hd' : ¬ ((shiftTok d nx).kind = L.dot ∧ (shiftTok d nx).lo = (shiftTok d t).hi) := by
      simp only [shiftTok]; intro ⟨a, b⟩; exact hd ⟨a, by omega⟩
    simp only [List.map, postpass, hc', hd', and_self, if_true, if_false, ih']
    simp [shiftTok, intTok, h1]
  | case5 t rest hc ih =>
    intro h
    have hc' := (not_congr (splitCond_shift L src src' d t (h t (by simp)))).mpr hc
    have ih' := ih (fun x hx => h x (by simp [hx]))
    simp only [List.map, postpass, hc', if_false, ih']

theorem endsWithDot_left (p w q : List Nat) (t : Tok) (h : t.hi ≤ p.length) :
    endsWithDot (p ++ w ++ q) t = endsWithDot (p ++ q) t := by
  unfold endsWithDot
  by_cases hlt : t.lo < t.hi
  · have h1 : t.hi - 1 < p.length := by omega
    simp [hlt, List.append_assoc, List.getElem?_append_left h1]
  · simp [hlt]

theorem endsWithDot_right (p w q : List Nat) (t : Tok) (h : p.length ≤ t.lo) :
    endsWithDot (p ++ w ++ q) (shiftTok w.length t) = endsWithDot (p ++ q) t := by
  unfold endsWithDot
  by_cases hlt : t.lo < t.hi
  · have h1 : p.length ≤ t.hi - 1 := by omega
    have h2 : (p ++ w).length ≤ t.hi + w.length - 1 := by simp; omega
    have h3 : t.hi + w.length - 1 - (p ++ w).length = t.hi - 1 - p.length := by simp; omega
    have e1 : (p ++ w ++ q)[t.hi + w.length - 1]? = q[t.hi - 1 - p.length]? := by
      rw [List.getElem?_append_right h2, h3]
    have e2 : (p ++ q)[t.hi - 1]? = q[t.hi - 1 - p.length]? := List.getElem?_append_right h1
    have hlt' : t.lo + w.length < t.hi + w.length := by omega
    simp only [shiftTok, hlt, hlt', e1, e2]
  · have hlt' : ¬ (t.lo + w.length < t.hi + w.length) := by omega
    simp [shiftTok, hlt, hlt']

theorem shiftTok_zero (t : Tok) : shiftTok 0 t = t := by cases t; simp [shiftTok]

theorem postpass_insert (L : Lang) (p w q : List Nat) (a b : List Tok) (tr : Tok)
    (ha : ∀ t ∈ a, t.hi ≤ p.length) (hb : ∀ t ∈ b, p.length ≤ t.lo)
    (hk1 : tr.kind ≠ L.int) (hk2 : tr.kind ≠ L.dot) :
    postpass L (p ++ w ++ q) (a ++ tr :: b.map (shiftTok w.length)) =
      postpass L (p ++ q) a ++ tr :: (postpass L (p ++ q) b).map (shiftTok w.length) := by
  rw [postpass_barrier L _ tr _ hk1 hk2]
  have e1 := postpass_shift L (p ++ q) (p ++ w ++ q) 0 a (fun t ht => by
    rw [shiftTok_zero]; exact endsWithDot_left p w q t (ha t ht))
  have e2 := postpass_shift L (p ++ q) (p ++ w ++ q) w.length b (fun t ht => endsWithDot_right p w q t (hb t ht))
  have hz : ∀ l : List Tok, l.map (shiftTok 0) = l := by
    intro l; induction l with
    | nil => rfl
    | cons x xs ih => simp [shiftTok_zero, ih]
  rw [hz, hz] at e1
  rw [e1, e2]

theorem sigKinds_append (L : Lang) (x y : List Tok) : sigKinds L (x ++ y) = sigKinds L x ++ sigKinds L y := by
  simp [sigKinds]

theorem sigKinds_shift (L : Lang) (d : Nat) (ts : List Tok) : sigKinds L (ts.map (shiftTok d)) = sigKinds L ts := by
  induction ts with
  | nil => rfl
  | cons t ts ih =>
    simp only [sigKinds, List.map, List.filter] at ih ⊢
    have : (shiftTok d t).kind = t.kind := rfl
    rw [this]
    cases h : (!L.isTrivia t.kind) <;> simp [ih, this]

theorem sigKinds_insert (L : Lang) (p w q : List Nat) (a b : List Tok) (tr : Tok)
    (ha : ∀ t ∈ a, t.hi ≤ p.length) (hb : ∀ t ∈ b, p.length ≤ t.lo)
    (hk1 : tr.kind ≠ L.int) (hk2 : tr.kind ≠ L.dot) (htr : L.isTrivia tr.kind = true)
    (hsplit : postpass L (p ++ q) (a ++ b) = postpass L (p ++ q) a ++ postpass L (p ++ q) b) :
    sigKinds L (postpass L (p ++ w ++ q) (a ++ tr :: b.map (shiftTok w.length))) =
      sigKinds L (postpass L (p ++ q) (a ++ b)) := by
  rw [postpass_insert L p w q a b tr ha hb hk1 hk2, hsplit, sigKinds_append, sigKinds_append]
  congr 1
  have : sigKinds L (tr :: (postpass L (p ++ q) b).map (shiftTok w.length)) =
      sigKinds L ((postpass L (p ++ q) b).map (shiftTok w.length)) := by
    simp [sigKinds, List.filter, htr]
  rw [this, sigKinds_shift]

end TrustVerif.C12
