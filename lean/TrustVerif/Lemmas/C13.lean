import TrustVerif.Model.C13

/-! Helper lemmas for C13 (property theorems live in `Props/C13.lean`). -/
namespace TrustVerif.C13

end TrustVerif.C13
