import TrustVerif.Model.C13

/-! Helper lemmas for C13 (property theorems live in `Props/C13.lean`). -/
namespace TrustVerif.C13

/-! ### association-list maps -/

section maps
variable {α : Type}

@[simp] theorem lookup_nil (x : Nat) : lookup ([] : List (Nat × α)) x = none := rfl

theorem lookup_insert (m : List (Nat × α)) (x y : Nat) (v : α) :
    lookup (insert m x v) y = if x = y then some v else lookup m y := by
  induction m with
  | nil => simp [insert, lookup]
  | cons p m ih =>
    obtain ⟨k, w⟩ := p
    by_cases hk : k = x
    · subst hk
      by_cases hy : k = y <;> simp [insert, lookup, hy]
    · by_cases hy : k = y
      · subst hy
        have : ¬ x = k := fun h => hk h.symm
        simp [insert, lookup, hk, this]
      · simp [insert, lookup, hk, hy, ih]

theorem lookup_erase (m : List (Nat × α)) (x y : Nat) :
    lookup (erase m x) y = if x = y then none else lookup m y := by
  induction m with
  | nil => simp [erase, lookup]
  | cons p m ih =>
    obtain ⟨k, w⟩ := p
    unfold erase at ih ⊢
    by_cases hk : k = x
    · subst hk
      by_cases hy : k = y
      · subst hy; simpa [List.filter, lookup] using ih
      · simp [List.filter, lookup, hy] at ih ⊢; simpa [hy] using ih
    · have hne : (k != x) = true := by simp [hk]
      by_cases hy : k = y
      · subst hy
        have : ¬ x = k := fun h => hk h.symm
        simp [List.filter, lookup, hne, this]
      · simp [List.filter, lookup, hne, hy, ih]

theorem lookup_isSome_iff (m : List (Nat × α)) (x : Nat) :
    (lookup m x).isSome = true ↔ x ∈ keys m := by
  induction m with
  | nil => simp [keys]
  | cons p m ih =>
    obtain ⟨k, w⟩ := p
    by_cases hk : k = x
    · simp [lookup, keys, hk]
    · have : ¬ x = k := fun h => hk h.symm
      simp [lookup, keys, hk, this] at ih ⊢
      exact ih

theorem lookup_eq_none_iff (m : List (Nat × α)) (x : Nat) :
    lookup m x = none ↔ x ∉ keys m := by
  rw [← lookup_isSome_iff]
  cases lookup m x <;> simp

theorem mem_of_lookup {m : List (Nat × α)} {x : Nat} {v : α} (h : lookup m x = some v) :
    (x, v) ∈ m := by
  induction m with
  | nil => simp at h
  | cons p m ih =>
    obtain ⟨k, w⟩ := p
    by_cases hk : k = x
    · simp [lookup, hk] at h; simp [hk, h]
    · simp [lookup, hk] at h; exact List.mem_cons_of_mem _ (ih h)

theorem lookup_of_mem {m : List (Nat × α)} (hn : (keys m).Nodup) {x : Nat} {v : α}
    (h : (x, v) ∈ m) : lookup m x = some v := by
  induction m with
  | nil => simp at h
  | cons p m ih =>
    obtain ⟨k, w⟩ := p
    simp only [keys, List.map_cons, List.nodup_cons] at hn
    rcases List.mem_cons.1 h with h | h
    · cases h; simp [lookup]
    · have hx : x ∈ keys m := List.mem_map.2 ⟨(x, v), h, rfl⟩
      have hk : ¬ k = x := fun e => hn.1 (e ▸ hx)
      simp [lookup, hk]
      exact ih hn.2 h

theorem mem_keys_insert (m : List (Nat × α)) (x y : Nat) (v : α) :
    y ∈ keys (insert m x v) ↔ y = x ∨ y ∈ keys m := by
  rw [← lookup_isSome_iff, ← lookup_isSome_iff, lookup_insert]
  by_cases h : x = y
  · simp [h]
  · have : ¬ y = x := fun e => h e.symm
    simp [h, this]

theorem nodup_insert (m : List (Nat × α)) (x : Nat) (v : α) (hn : (keys m).Nodup) :
    (keys (insert m x v)).Nodup := by
  induction m with
  | nil => simp [insert, keys]
  | cons p m ih =>
    obtain ⟨k, w⟩ := p
    simp only [keys, List.map_cons, List.nodup_cons] at hn
    by_cases hk : k = x
    · simp only [insert, hk, if_true, keys, List.map_cons, List.nodup_cons]
      exact ⟨hk ▸ hn.1, hn.2⟩
    · simp only [insert, hk, if_false, keys, List.map_cons, List.nodup_cons]
      refine ⟨?_, ih hn.2⟩
      intro hmem
      have := (mem_keys_insert m x k v).1 hmem
      rcases this with h | h
      · exact hk h
      · exact hn.1 h

theorem keys_erase_sublist (m : List (Nat × α)) (x : Nat) :
    (keys (erase m x)).Sublist (keys m) := by
  unfold keys erase
  exact List.Sublist.map _ List.filter_sublist

theorem nodup_erase (m : List (Nat × α)) (x : Nat) (hn : (keys m).Nodup) :
    (keys (erase m x)).Nodup :=
  List.Nodup.sublist (keys_erase_sublist m x) hn

/-! ### `sortById` -/

theorem insertSorted_perm (p : Nat × α) (l : List (Nat × α)) :
    (insertSorted p l).Perm (p :: l) := by
  induction l with
  | nil => simp [insertSorted]
  | cons q r ih =>
    unfold insertSorted
    split
    · exact List.Perm.refl _
    · exact (List.Perm.cons q ih).trans (List.Perm.swap p q r)

theorem sortById_perm (l : List (Nat × α)) : (sortById l).Perm l := by
  induction l with
  | nil => simp [sortById]
  | cons p r ih =>
    unfold sortById
    exact (insertSorted_perm p _).trans (List.Perm.cons p ih)

theorem mem_sortById (l : List (Nat × α)) (p : Nat × α) : p ∈ sortById l ↔ p ∈ l :=
  (sortById_perm l).mem_iff

theorem insertSorted_sorted (p : Nat × α) (l : List (Nat × α))
    (h : l.Pairwise (fun a b => a.1 ≤ b.1)) :
    (insertSorted p l).Pairwise (fun a b => a.1 ≤ b.1) := by
  induction l with
  | nil => simp [insertSorted]
  | cons q r ih =>
    unfold insertSorted
    have hq := List.pairwise_cons.1 h
    split
    · rename_i hle
      refine List.pairwise_cons.2 ⟨?_, h⟩
      intro b hb
      rcases List.mem_cons.1 hb with hb | hb
      · subst hb; exact hle
      · exact Nat.le_trans hle (hq.1 b hb)
    · rename_i hle
      refine List.pairwise_cons.2 ⟨?_, ih hq.2⟩
      intro b hb
      rcases List.mem_cons.1 ((insertSorted_perm p r).mem_iff.1 hb) with hb | hb
      · subst hb; omega
      · exact hq.1 b hb

theorem sortById_sorted (l : List (Nat × α)) :
    (sortById l).Pairwise (fun a b => a.1 ≤ b.1) := by
  induction l with
  | nil => simp [sortById]
  | cons p r ih => unfold sortById; exact insertSorted_sorted p _ ih

theorem keys_sortById_perm (l : List (Nat × α)) : (keys (sortById l)).Perm (keys l) :=
  (sortById_perm l).map _

theorem nodup_sortById (l : List (Nat × α)) (hn : (keys l).Nodup) : (keys (sortById l)).Nodup :=
  (keys_sortById_perm l).nodup_iff.2 hn

/-- With distinct keys the sorted list is strictly increasing. -/
theorem sortById_strict (l : List (Nat × α)) (hn : (keys l).Nodup) :
    (sortById l).Pairwise (fun a b => a.1 < b.1) := by
  have h1 := sortById_sorted l
  have h2 : (sortById l).Pairwise (fun a b => a.1 ≠ b.1) := by
    have := nodup_sortById l hn
    unfold keys at this
    exact List.pairwise_map.1 this
  exact (h1.and h2).imp (fun h => Nat.lt_of_le_of_ne h.1 h.2)

theorem lookup_sortById (l : List (Nat × α)) (hn : (keys l).Nodup) (x : Nat) :
    lookup (sortById l) x = lookup l x := by
  cases h : lookup l x with
  | none =>
    rw [lookup_eq_none_iff] at h ⊢
    exact fun hm => h ((keys_sortById_perm l).mem_iff.1 hm)
  | some v =>
    exact lookup_of_mem (nodup_sortById l hn) ((mem_sortById l _).2 (mem_of_lookup h))

/-- Two strictly increasing lists with the same elements are equal. -/
theorem strict_sorted_ext {β : Type} (key : β → Nat) :
    ∀ (v w : List β), v.Pairwise (fun a b => key a < key b) → w.Pairwise (fun a b => key a < key b) →
      (∀ p, p ∈ v ↔ p ∈ w) → v = w
  | [], [], _, _, _ => rfl
  | [], b :: w, _, _, h => by have := (h b).2 (List.mem_cons_self ..); simp at this
  | a :: v, [], _, _, h => by have := (h a).1 (List.mem_cons_self ..); simp at this
  | a :: v, b :: w, hv, hw, h => by
    have hv' := List.pairwise_cons.1 hv
    have hw' := List.pairwise_cons.1 hw
    have hab : a = b := by
      rcases List.mem_cons.1 ((h a).1 (List.mem_cons_self ..)) with e | ha
      · exact e
      · rcases List.mem_cons.1 ((h b).2 (List.mem_cons_self ..)) with e | hb
        · exact e.symm
        · have h1 := hw'.1 a ha
          have h2 := hv'.1 b hb
          omega
    subst hab
    have : v = w := by
      apply strict_sorted_ext key v w hv'.2 hw'.2
      intro p
      constructor
      · intro hp
        rcases List.mem_cons.1 ((h p).1 (List.mem_cons_of_mem _ hp)) with e | hp'
        · subst e; have := hv'.1 p hp; omega
        · exact hp'
      · intro hp
        rcases List.mem_cons.1 ((h p).2 (List.mem_cons_of_mem _ hp)) with e | hp'
        · subst e; have := hw'.1 p hp; omega
        · exact hp'
    rw [this]

/-- `sort_by_key` makes the unspecified iteration order of the hash map irrelevant: any two
enumerations of the same map sort to the same list. -/
theorem sortById_perm_eq (l₁ l₂ : List (Nat × α)) (hp : l₁.Perm l₂) (hn : (keys l₁).Nodup) :
    sortById l₁ = sortById l₂ := by
  have hn2 : (keys l₂).Nodup := (hp.map _).nodup_iff.1 hn
  apply strict_sorted_ext (fun p => p.1) _ _ (sortById_strict l₁ hn) (sortById_strict l₂ hn2)
  intro p
  rw [mem_sortById, mem_sortById]
  exact hp.mem_iff

theorem lookup_perm (l₁ l₂ : List (Nat × α)) (hp : l₁.Perm l₂) (hn : (keys l₁).Nodup) (x : Nat) :
    lookup l₁ x = lookup l₂ x := by
  have hn2 : (keys l₂).Nodup := (hp.map _).nodup_iff.1 hn
  cases h : lookup l₁ x with
  | none =>
    symm
    rw [lookup_eq_none_iff] at h ⊢
    exact fun hm => h ((hp.map _).mem_iff.2 hm)
  | some v => exact (lookup_of_mem hn2 (hp.mem_iff.1 (mem_of_lookup h))).symm

end maps

/-! ### The invariant of the three file-set views -/

section inv
variable {Text : Type} [DecidableEq Text]

/-- The part of the invariant that does not mention `project_inputs`. -/
def CoreP (sources : List (Nat × Text)) (salsaSrc : List (Nat × Nat)) (inputs : List (Nat × Text))
    (nextInput : Nat) : Prop :=
  (keys sources).Nodup ∧ (keys salsaSrc).Nodup ∧
  -- every file salsa knows has a live input, and that input holds the file's current text
  (∀ f h, lookup salsaSrc f = some h →
    h < nextInput ∧ ∃ t, lookup inputs h = some t ∧ lookup sources f = some t) ∧
  -- every file that has a text is known to salsa
  (∀ f, lookup salsaSrc f = none → lookup sources f = none) ∧
  -- two files never share an input
  (∀ f g h, lookup salsaSrc f = some h → lookup salsaSrc g = some h → f = g)

omit [DecidableEq Text] in
theorem coreP_edit {src : List (Nat × Text)} {sal : List (Nat × Nat)} {inp : List (Nat × Text)}
    {n f h : Nat} (t : Text) (c : CoreP src sal inp n) (hf : lookup sal f = some h) :
    CoreP (insert src f t) sal (insert inp h t) n := by
  obtain ⟨c1, c2, c3, c4, c5⟩ := c
  refine ⟨nodup_insert _ _ _ c1, c2, ?_, ?_, c5⟩
  · intro g h' hg
    obtain ⟨hlt, u, hu1, hu2⟩ := c3 g h' hg
    refine ⟨hlt, ?_⟩
    rw [lookup_insert, lookup_insert]
    by_cases hfg : f = g
    · subst hfg
      have : h = h' := by rw [hf] at hg; exact Option.some.inj hg
      subst this
      exact ⟨t, by simp, by simp⟩
    · have : ¬ h = h' := fun e => hfg (c5 f g h hf (e ▸ hg))
      exact ⟨u, by simp [this, hu1], by simp [hfg, hu2]⟩
  · intro g hg
    have hfg : ¬ f = g := fun e => by subst e; rw [hf] at hg; cases hg
    rw [lookup_insert]; simp [hfg, c4 g hg]

omit [DecidableEq Text] in
theorem coreP_add {src : List (Nat × Text)} {sal : List (Nat × Nat)} {inp : List (Nat × Text)}
    {n f : Nat} (t : Text) (c : CoreP src sal inp n) (_hf : lookup sal f = none) :
    CoreP (insert src f t) (insert sal f n) (insert inp n t) (n + 1) := by
  obtain ⟨c1, c2, c3, c4, c5⟩ := c
  refine ⟨nodup_insert _ _ _ c1, nodup_insert _ _ _ c2, ?_, ?_, ?_⟩
  · intro g h' hg
    rw [lookup_insert] at hg
    rw [lookup_insert, lookup_insert]
    by_cases hfg : f = g
    · subst hfg
      simp at hg; subst hg
      exact ⟨by omega, t, by simp, by simp⟩
    · simp [hfg] at hg
      obtain ⟨hlt, u, hu1, hu2⟩ := c3 g h' hg
      have : ¬ n = h' := by omega
      exact ⟨by omega, u, by simp [this, hu1], by simp [hfg, hu2]⟩
  · intro g hg
    rw [lookup_insert] at hg
    by_cases hfg : f = g
    · simp [hfg] at hg
    · simp [hfg] at hg
      rw [lookup_insert]; simp [hfg, c4 g hg]
  · intro g1 g2 h' h1 h2
    rw [lookup_insert] at h1 h2
    by_cases e1 : f = g1 <;> by_cases e2 : f = g2
    · exact e1.symm.trans e2
    · simp [e1] at h1; simp [e2] at h2
      have := (c3 g2 h' h2).1; omega
    · simp [e1] at h1; simp [e2] at h2
      have := (c3 g1 h' h1).1; omega
    · simp [e1] at h1; simp [e2] at h2
      exact c5 g1 g2 h' h1 h2

omit [DecidableEq Text] in
theorem coreP_remove {src : List (Nat × Text)} {sal : List (Nat × Nat)} {inp : List (Nat × Text)}
    {n : Nat} (f : Nat) (c : CoreP src sal inp n) :
    CoreP (erase src f) (erase sal f) inp n := by
  obtain ⟨c1, c2, c3, c4, c5⟩ := c
  refine ⟨nodup_erase _ _ c1, nodup_erase _ _ c2, ?_, ?_, ?_⟩
  · intro g h' hg
    rw [lookup_erase] at hg
    by_cases hfg : f = g
    · simp [hfg] at hg
    · simp [hfg] at hg
      obtain ⟨hlt, u, hu1, hu2⟩ := c3 g h' hg
      exact ⟨hlt, u, hu1, by rw [lookup_erase]; simp [hfg, hu2]⟩
  · intro g hg
    rw [lookup_erase] at hg ⊢
    by_cases hfg : f = g
    · simp [hfg]
    · simp [hfg] at hg ⊢; exact c4 g hg
  · intro g1 g2 h' h1 h2
    rw [lookup_erase] at h1 h2
    by_cases e1 : f = g1 <;> by_cases e2 : f = g2 <;> simp [e1, e2] at h1 h2
    exact c5 g1 g2 h' h1 h2

/-- The invariant of every reachable `Database` state. -/
structure Inv (s : Db Text) : Prop where
  core : CoreP s.sources s.salsaSrc s.inputs s.nextInput
  /-- once created, `ProjectInputs.files` is the id-sorted list of salsa's sources -/
  proj : ∀ p, s.project = some p → p = sortById s.salsaSrc
  /-- before `ProjectInputs` exists nothing is loaded and the lazy re-sync is pending -/
  projNone : s.project = none → s.salsaSrc = [] ∧ s.synced ≠ s.rev
  /-- the lazy re-sync is pending only on a database that never held a file -/
  lazy : s.synced ≠ s.rev → s.sources = [] ∧ s.project = none

omit [DecidableEq Text] in
theorem inv_new : Inv (Db.new : Db Text) :=
  { core := by simp [CoreP, Db.new, keys]
    proj := by simp [Db.new]
    projNone := by simp [Db.new]
    lazy := by simp [Db.new] }

theorem inv_setSourceText {s : Db Text} (i : Inv s) (f : Nat) (t : Text) :
    Inv (setSourceText s f t) := by
  unfold setSourceText
  split
  · exact i
  · split
    · rename_i h hf
      by_cases hp : s.project.isNone = true
      · simp only [hp, if_true]
        exact { core := coreP_edit t i.core hf
                proj := by simp [syncProjectInputs, setInputText]
                projNone := by simp [syncProjectInputs]
                lazy := by simp [syncProjectInputs] }
      · simp only [hp]
        exact { core := coreP_edit t i.core hf
                proj := by simpa [setInputText] using i.proj
                projNone := by
                  intro hn
                  simp [setInputText] at hn
                  simp [hn] at hp
                lazy := by simp [setInputText] }
    · rename_i hf
      exact { core := coreP_add t i.core hf
              proj := by simp [syncProjectInputs, newInput]
              projNone := by simp [syncProjectInputs]
              lazy := by simp [syncProjectInputs] }

omit [DecidableEq Text] in
theorem inv_removeSourceText {s : Db Text} (i : Inv s) (f : Nat) : Inv (removeSourceText s f) := by
  unfold removeSourceText
  split
  · exact i
  · exact { core := coreP_remove f i.core
            proj := by simp [syncProjectInputs]
            projNone := by simp [syncProjectInputs]
            lazy := by simp [syncProjectInputs] }

/-- On a state that satisfies the invariant the loop of `prepare_salsa_project` finds every
file already registered with its current text. -/
theorem prepareLoop_noop (s : Db Text) (l : List (Nat × Text))
    (h : ∀ f t, (f, t) ∈ l → ∃ h, lookup s.salsaSrc f = some h ∧ lookup s.inputs h = some t) :
    prepareLoop s l false = (s, false) := by
  induction l with
  | nil => rfl
  | cons p r ih =>
    obtain ⟨f, t⟩ := p
    obtain ⟨h', h1, h2⟩ := h f t (List.mem_cons_self ..)
    unfold prepareLoop
    simp only [h1, h2, if_true]
    exact ih (fun g u hg => h g u (List.mem_cons_of_mem _ hg))

theorem prepareLoop_rev (s : Db Text) (l : List (Nat × Text)) (ch : Bool) :
    (prepareLoop s l ch).1.rev = s.rev := by
  induction l generalizing s ch with
  | nil => rfl
  | cons p r ih =>
    obtain ⟨f, t⟩ := p
    unfold prepareLoop
    split
    · split
      · exact ih _ _
      · rw [ih]; rfl
    · rw [ih]; rfl

/-- `prepare_salsa_project` never touches the revision counter (any state). -/
theorem prepareSalsaProject_rev (s : Db Text) : (prepareSalsaProject s).rev = s.rev := by
  unfold prepareSalsaProject
  simp only
  split
  · simp only [syncProjectInputs]; rw [prepareLoop_rev]
  · rw [prepareLoop_rev]

/-- `with_synced_salsa_state` is idempotent on every state. -/
theorem withSynced_idem (s : Db Text) : withSynced (withSynced s) = withSynced s := by
  unfold withSynced
  split
  · simp [prepareSalsaProject_rev]
  · simp

theorem prepareSalsaProject_of_inv {s : Db Text} (i : Inv s) :
    prepareSalsaProject s = if s.project.isNone then syncProjectInputs s else s := by
  obtain ⟨c1, c2, c3, c4, c5⟩ := i.core
  have hall : ∀ p ∈ s.salsaSrc, (lookup s.sources p.1).isSome = true := by
    intro p hp
    obtain ⟨g, h⟩ := p
    obtain ⟨_, u, _, hu⟩ := c3 g h (lookup_of_mem c2 hp)
    simp [hu]
  have hfilter : s.salsaSrc.filter (fun p => (lookup s.sources p.1).isSome) = s.salsaSrc :=
    List.filter_eq_self.2 hall
  have hany : s.salsaSrc.any (fun p => (lookup s.sources p.1).isNone) = false := by
    rw [List.any_eq_false]
    intro p hp
    have := hall p hp
    cases h : lookup s.sources p.1 <;> simp [h] at this ⊢
  have hloop : prepareLoop s s.sources false = (s, false) := by
    apply prepareLoop_noop
    intro f t hft
    have hsrc := lookup_of_mem c1 hft
    cases hs : lookup s.salsaSrc f with
    | none => rw [c4 f hs] at hsrc; cases hsrc
    | some h =>
      obtain ⟨_, u, hu1, hu2⟩ := c3 f h hs
      rw [hsrc] at hu2
      cases hu2
      exact ⟨h, rfl, hu1⟩
  unfold prepareSalsaProject
  simp only [hfilter, hany, Bool.false_or]
  have hs : ({ s with salsaSrc := s.salsaSrc } : Db Text) = s := rfl
  rw [hs, hloop]
  simp

theorem inv_withSynced {s : Db Text} (i : Inv s) : Inv (withSynced s) := by
  unfold withSynced
  split
  · rw [prepareSalsaProject_of_inv i]
    split
    · exact { core := i.core
              proj := by simp [syncProjectInputs]
              projNone := by simp [syncProjectInputs]
              lazy := by simp [syncProjectInputs] }
    · rename_i hp
      exact { core := i.core
              proj := i.proj
              projNone := by
                intro hn
                have hn' : s.project = none := hn
                simp [hn'] at hp
              lazy := by simp }
  · exact i

theorem withSynced_fields {s : Db Text} (i : Inv s) :
    (withSynced s).sources = s.sources ∧ (withSynced s).salsaSrc = s.salsaSrc ∧
    (withSynced s).inputs = s.inputs ∧ (withSynced s).rev = s.rev ∧
    (withSynced s).synced = s.rev ∧ (withSynced s).project = some (sortById s.salsaSrc) := by
  unfold withSynced
  split
  · rw [prepareSalsaProject_of_inv i]
    split
    · simp [syncProjectInputs]
    · rename_i hp
      cases hpr : s.project with
      | none => simp [hpr] at hp
      | some p => simp [i.proj p hpr]
  · rename_i he
    have he : s.synced = s.rev := Classical.not_not.1 he
    cases hpr : s.project with
    | none => exact absurd he (i.projNone hpr).2
    | some p => simp [he, i.proj p hpr]

theorem sourceHandleForFile_of_inv {s : Db Text} (i : Inv s) (f : Nat) :
    sourceHandleForFile s f = (s, lookup s.salsaSrc f) := by
  unfold sourceHandleForFile
  cases hs : lookup s.salsaSrc f with
  | some h => rfl
  | none =>
    simp only
    unfold sourceInputForFile
    simp [hs, i.core.2.2.2.1 f hs]

omit [DecidableEq Text] in
theorem resolve_map (s : Db Text) (l : List (Nat × Nat))
    (h : ∀ f hd, (f, hd) ∈ l → ∃ t, lookup s.inputs hd = some t) :
    ∃ v, resolve s l = some v ∧ v.map (·.1) = l.map (·.1) ∧
      ∀ f t, (f, t) ∈ v ↔ ∃ hd, (f, hd) ∈ l ∧ lookup s.inputs hd = some t := by
  induction l with
  | nil => exact ⟨[], rfl, rfl, by simp⟩
  | cons p r ih =>
    obtain ⟨g, hd⟩ := p
    obtain ⟨t, ht⟩ := h g hd (List.mem_cons_self ..)
    obtain ⟨v, hv1, hv2, hv3⟩ := ih (fun f hd' hm => h f hd' (List.mem_cons_of_mem _ hm))
    refine ⟨(g, t) :: v, by simp [resolve, ht, hv1], by simp [hv2], ?_⟩
    intro f u
    simp only [List.mem_cons, Prod.mk.injEq, hv3]
    constructor
    · rintro (⟨rfl, rfl⟩ | ⟨hd', h1, h2⟩)
      · exact ⟨hd, Or.inl ⟨rfl, rfl⟩, ht⟩
      · exact ⟨hd', Or.inr h1, h2⟩
    · rintro ⟨hd', (⟨rfl, rfl⟩ | h1), h2⟩
      · rw [ht] at h2; cases h2; exact Or.inl ⟨rfl, rfl⟩
      · exact Or.inr ⟨hd', h1, h2⟩

omit [DecidableEq Text] in
/-- The id-sorted list of salsa's sources, resolved, is *the* listing of the current texts. -/
theorem resolve_listing {s : Db Text} (i : Inv s) :
    ∃ v, resolve s (sortById s.salsaSrc) = some v ∧ Spec.IsListing (lookup s.sources) v := by
  obtain ⟨c1, c2, c3, c4, c5⟩ := i.core
  have hmem : ∀ f hd, (f, hd) ∈ sortById s.salsaSrc → lookup s.salsaSrc f = some hd :=
    fun f hd hm => lookup_of_mem c2 ((mem_sortById _ _).1 hm)
  obtain ⟨v, hv1, hv2, hv3⟩ := resolve_map s (sortById s.salsaSrc) (by
    intro f hd hm
    obtain ⟨_, t, ht, _⟩ := c3 f hd (hmem f hd hm)
    exact ⟨t, ht⟩)
  refine ⟨v, hv1, ?_, ?_⟩
  · have hs := sortById_strict s.salsaSrc c2
    have h1 : ((sortById s.salsaSrc).map (·.1)).Pairwise (· < ·) := List.pairwise_map.2 hs
    rw [← hv2] at h1
    exact List.pairwise_map.1 h1
  · intro f t
    rw [hv3]
    constructor
    · rintro ⟨hd, h1, h2⟩
      obtain ⟨_, u, hu1, hu2⟩ := c3 f hd (hmem f hd h1)
      rw [h2] at hu1; cases hu1; exact hu2
    · intro hsrc
      cases hs : lookup s.salsaSrc f with
      | none => rw [c4 f hs] at hsrc; cases hsrc
      | some hd =>
        obtain ⟨_, u, hu1, hu2⟩ := c3 f hd hs
        rw [hsrc] at hu2; cases hu2
        exact ⟨hd, (mem_sortById _ _).2 (mem_of_lookup hs), hu1⟩

omit [DecidableEq Text] in
theorem listing_unique {m : Nat → Option Text} {v w : List (Nat × Text)}
    (hv : Spec.IsListing m v) (hw : Spec.IsListing m w) : v = w :=
  strict_sorted_ext (fun p => p.1) v w hv.1 hw.1
    (fun p => by obtain ⟨f, t⟩ := p; rw [hv.2, hw.2])

omit [DecidableEq Text] in
theorem listing_congr {m m' : Nat → Option Text} {v : List (Nat × Text)}
    (h : ∀ f, m f = m' f) (hv : Spec.IsListing m v) : Spec.IsListing m' v :=
  ⟨hv.1, fun f t => by rw [hv.2, h f]⟩

omit [DecidableEq Text] in
/-- The sorted `Database.sources` view is the listing of the current texts as well. -/
theorem viewSources_listing {s : Db Text} (i : Inv s) :
    Spec.IsListing (lookup s.sources) (viewSources s) := by
  obtain ⟨c1, _⟩ := i.core
  refine ⟨sortById_strict _ c1, ?_⟩
  intro f t
  unfold viewSources
  rw [mem_sortById]
  exact ⟨fun h => lookup_of_mem c1 h, fun h => mem_of_lookup h⟩

/-- One query on a state that satisfies the invariant: what is read is what the specification
says, the invariant is kept, and no text changes. -/
theorem query_of_inv {s : Db Text} (i : Inv s) {m : Nat → Option Text}
    (hm : ∀ f, lookup s.sources f = m f) {v : List (Nat × Text)} (hv : Spec.IsListing m v)
    (k : QKind) (f : Nat) :
    (query s k f).2 = .ok (Spec.reads m v k f) ∧ Inv (query s k f).1 ∧
      (query s k f).1.sources = s.sources := by
  obtain ⟨c1, c2, c3, c4, c5⟩ := i.core
  unfold query
  cases hk : k.projectKeyed with
  | true =>
    simp only [if_true]
    obtain ⟨w1, w2, w3, w4, w5, w6⟩ := withSynced_fields i
    have iw := inv_withSynced i
    obtain ⟨v', hv1, hv2⟩ := resolve_listing iw
    rw [w2] at hv1
    rw [w1] at hv2
    have hvv : v' = v := listing_unique (listing_congr hm hv2) hv
    subst hvv
    cases hs : lookup s.salsaSrc f with
    | none =>
      have : m f = none := by rw [← hm f]; exact c4 f hs
      simp [w2, hs, w6, Spec.reads, this, iw, w1]
    | some hd =>
      obtain ⟨_, u, _, hu2⟩ := c3 f hd hs
      have : m f = some u := by rw [← hm f]; exact hu2
      simp [w2, hs, w6, hv1, Spec.reads, this, hk, iw, w1]
  | false =>
    simp only [Bool.false_eq_true, if_false]
    rw [sourceHandleForFile_of_inv i]
    cases hs : lookup s.salsaSrc f with
    | none =>
      have : m f = none := by rw [← hm f]; exact c4 f hs
      simp [Spec.reads, this, i]
    | some hd =>
      obtain ⟨_, u, hu1, hu2⟩ := c3 f hd hs
      have : m f = some u := by rw [← hm f]; exact hu2
      simp [hu1, Spec.reads, this, hk, i]

/-! ### Histories -/

theorem lookup_setSourceText (s : Db Text) (f : Nat) (t : Text) (g : Nat) :
    lookup (setSourceText s f t).sources g = if g = f then some t else lookup s.sources g := by
  unfold setSourceText
  split
  · rename_i he
    by_cases hg : g = f
    · subst hg; simp [he]
    · simp [hg]
  · have hins : lookup (insert s.sources f t) g = if g = f then some t else lookup s.sources g := by
      rw [lookup_insert]
      by_cases hg : g = f
      · simp [hg]
      · have : ¬ f = g := fun e => hg e.symm
        simp [hg, this]
    split
    · split <;> simpa [syncProjectInputs, setInputText] using hins
    · simpa [syncProjectInputs, newInput] using hins

omit [DecidableEq Text] in
theorem lookup_removeSourceText (s : Db Text) (f g : Nat) :
    lookup (removeSourceText s f).sources g = if g = f then none else lookup s.sources g := by
  unfold removeSourceText
  split
  · rename_i he
    by_cases hg : g = f
    · subst hg
      cases h : lookup s.sources g <;> simp [h] at he ⊢
    · simp [hg]
  · simp only [syncProjectInputs]
    rw [lookup_erase]
    by_cases hg : g = f
    · simp [hg]
    · have : ¬ f = g := fun e => hg e.symm
      simp [hg, this]

/-- Simulation relation between a database state and "the current text of every file". -/
def Rel (s : Db Text) (m : Nat → Option Text) : Prop :=
  Inv s ∧ ∀ f, lookup s.sources f = m f

theorem rel_step {s : Db Text} {m : Nat → Option Text} (r : Rel s m) (op : Op Text) :
    Rel (step s op) (Spec.step m op) := by
  obtain ⟨i, hm⟩ := r
  cases op with
  | set f t =>
    refine ⟨inv_setSourceText i f t, fun g => ?_⟩
    simp only [step, Spec.step]
    rw [lookup_setSourceText, hm g]
  | remove f =>
    refine ⟨inv_removeSourceText i f, fun g => ?_⟩
    simp only [step, Spec.step]
    rw [lookup_removeSourceText, hm g]
  | query k f =>
    obtain ⟨_, iq, hs⟩ := query_of_inv i (fun g => rfl) (viewSources_listing i) k f
    exact ⟨iq, fun g => by simp only [step, Spec.step]; rw [hs]; exact hm g⟩

theorem rel_foldl {s : Db Text} {m : Nat → Option Text} (r : Rel s m) (h : List (Op Text)) :
    Rel (h.foldl step s) (h.foldl Spec.step m) := by
  induction h generalizing s m with
  | nil => exact r
  | cons op rest ih => exact ih (rel_step r op)

theorem rel_run (h : List (Op Text)) : Rel (run h) (Spec.final h) :=
  rel_foldl ⟨inv_new, fun _ => rfl⟩ h

omit [DecidableEq Text] in
theorem foldl_loadFresh (l : List (Nat × Text)) (hn : (keys l).Nodup) (m : Nat → Option Text)
    (f : Nat) :
    (loadFresh l).foldl Spec.step m f = match lookup l f with | some t => some t | none => m f := by
  induction l generalizing m with
  | nil => rfl
  | cons p r ih =>
    obtain ⟨g, u⟩ := p
    simp only [keys, List.map_cons, List.nodup_cons] at hn
    simp only [loadFresh, List.map_cons, List.foldl_cons]
    have := ih hn.2 (Spec.step m (.set g u))
    simp only [loadFresh] at this
    rw [this]
    by_cases hg : g = f
    · subst hg
      have : lookup r g = none := (lookup_eq_none_iff r g).2 hn.1
      simp [lookup, this, Spec.step]
    · have : ¬ f = g := fun e => hg e.symm
      simp [lookup, hg, Spec.step, this]

omit [DecidableEq Text] in
theorem final_loadFresh (l : List (Nat × Text)) (hn : (keys l).Nodup) (f : Nat) :
    Spec.final (loadFresh l) f = lookup l f := by
  unfold Spec.final
  rw [foldl_loadFresh l hn]
  cases lookup l f <;> rfl

/-! ### One level up: `Project` -/

/-- Invariant of the `Project` layer, relative to the final texts `m` (by key) and the number `n`
of operations performed so far. -/
structure PInv (p : Proj Text) (m : Nat → Option Text) (n : Nat) : Prop where
  db : Inv p.db
  nodup : (keys p.ids).Nodup
  /-- two keys never share a file id -/
  inj : ∀ k₁ k₂ id, lookup p.ids k₁ = some id → lookup p.ids k₂ = some id → k₁ = k₂
  /-- every id handed out is below `next_id` -/
  bound : ∀ k id, lookup p.ids k = some id → id < p.nextId
  next : p.nextId ≤ n
  /-- the database holds no file that belongs to no key -/
  orphan : ∀ id, (lookup p.db.sources id).isSome = true → ∃ k, lookup p.ids k = some id
  /-- the text of every key is its final text -/
  spec : ∀ k, (lookup p.ids k).bind (lookup p.db.sources) = m k
  /-- every registered key has a text -/
  live : ∀ k id, lookup p.ids k = some id → (lookup p.db.sources id).isSome = true

omit [DecidableEq Text] in
theorem pinv_new : PInv (Proj.new : Proj Text) (fun _ => none) 0 :=
  { db := inv_new
    nodup := by simp [Proj.new, keys]
    inj := by simp [Proj.new]
    bound := by simp [Proj.new]
    next := by simp [Proj.new]
    orphan := by simp [Proj.new, Db.new]
    spec := by simp [Proj.new]
    live := by simp [Proj.new] }

theorem pinv_set {p : Proj Text} {m : Nat → Option Text} {n : Nat} (i : PInv p m n)
    (hn : n < u32Max) (key : Nat) (t : Text) :
    PInv (projSet p key t) (Spec.step m (.set key t)) (n + 1) := by
  unfold projSet ensureFileId
  cases hk : lookup p.ids key with
  | some id =>
    simp only
    refine { db := inv_setSourceText i.db id t, nodup := i.nodup, inj := i.inj, bound := i.bound,
             next := Nat.le_succ_of_le i.next, orphan := ?_, spec := ?_, live := ?_ }
    · intro x hx
      simp only [lookup_setSourceText] at hx
      by_cases hxi : x = id
      · exact ⟨key, hxi ▸ hk⟩
      · simp [hxi] at hx; exact i.orphan x hx
    · intro k
      simp only [Spec.step]
      by_cases hkk : k = key
      · subst hkk; simp [hk, lookup_setSourceText]
      · simp only [hkk, if_false]
        rw [← i.spec k]
        cases hk' : lookup p.ids k with
        | none => rfl
        | some id' =>
          have : ¬ id' = id := fun e => hkk (i.inj k key id (e ▸ hk') hk)
          simp [lookup_setSourceText, this]
    · intro k id' hk'
      simp only [lookup_setSourceText]
      by_cases e : id' = id
      · simp [e]
      · simp [e]; exact i.live k id' hk'
  | none =>
    simp only
    have hnext : min (p.nextId + 1) u32Max = p.nextId + 1 := by
      have := i.next
      omega
    have hfreshId : lookup p.db.sources p.nextId = none := by
      cases h : lookup p.db.sources p.nextId with
      | none => rfl
      | some u =>
        obtain ⟨k, hk'⟩ := i.orphan p.nextId (by simp [h])
        have := i.bound k _ hk'
        omega
    refine { db := inv_setSourceText i.db _ t, nodup := nodup_insert _ _ _ i.nodup, inj := ?_,
             bound := ?_, next := ?_, orphan := ?_, spec := ?_, live := ?_ }
    · intro k₁ k₂ x h1 h2
      simp only [lookup_insert] at h1 h2
      by_cases e1 : key = k₁ <;> by_cases e2 : key = k₂
      · exact e1.symm.trans e2
      · simp [e1] at h1; simp [e2] at h2
        have := i.bound k₂ x h2; omega
      · simp [e1] at h1; simp [e2] at h2
        have := i.bound k₁ x h1; omega
      · simp [e1] at h1; simp [e2] at h2
        exact i.inj k₁ k₂ x h1 h2
    · intro k x hx
      simp only [lookup_insert] at hx
      simp only [hnext]
      by_cases e : key = k
      · simp [e] at hx; omega
      · simp [e] at hx
        have := i.bound k x hx; omega
    · simp only [hnext]; have := i.next; omega
    · intro x hx
      simp only [lookup_setSourceText] at hx
      by_cases hxi : x = p.nextId
      · exact ⟨key, by simp [lookup_insert, hxi]⟩
      · simp [hxi] at hx
        obtain ⟨k, hk'⟩ := i.orphan x hx
        have : ¬ key = k := fun e => by subst e; rw [hk] at hk'; cases hk'
        exact ⟨k, by simp [lookup_insert, this, hk']⟩
    · intro k
      simp only [Spec.step, lookup_insert]
      by_cases hkk : k = key
      · subst hkk; simp [lookup_setSourceText]
      · have hkk' : ¬ key = k := fun e => hkk e.symm
        simp only [hkk, hkk', if_false]
        rw [← i.spec k]
        cases hk' : lookup p.ids k with
        | none => rfl
        | some id' =>
          have := i.bound k id' hk'
          have : ¬ id' = p.nextId := by omega
          simp [lookup_setSourceText, this]
    · intro k x hx
      simp only [lookup_insert] at hx
      simp only [lookup_setSourceText]
      by_cases e : key = k
      · simp [e] at hx; simp [hx]
      · simp [e] at hx
        by_cases e' : x = p.nextId
        · simp [e']
        · simp [e']; exact i.live k x hx

omit [DecidableEq Text] in
theorem pinv_remove {p : Proj Text} {m : Nat → Option Text} {n : Nat} (i : PInv p m n)
    (key : Nat) : PInv (projRemove p key) (Spec.step m (.remove key)) (n + 1) := by
  unfold projRemove
  cases hk : lookup p.ids key with
  | none =>
    simp only
    refine { db := i.db, nodup := i.nodup, inj := i.inj, bound := i.bound,
             next := Nat.le_succ_of_le i.next, orphan := i.orphan, spec := ?_, live := i.live }
    intro k
    simp only [Spec.step]
    by_cases hkk : k = key
    · subst hkk; simp [hk]
    · simp only [hkk, if_false]; exact i.spec k
  | some id =>
    simp only
    refine { db := inv_removeSourceText i.db id, nodup := nodup_erase _ _ i.nodup, inj := ?_,
             bound := ?_, next := Nat.le_succ_of_le i.next, orphan := ?_, spec := ?_, live := ?_ }
    · intro k₁ k₂ x h1 h2
      simp only [lookup_erase] at h1 h2
      by_cases e1 : key = k₁ <;> by_cases e2 : key = k₂ <;> simp [e1, e2] at h1 h2
      exact i.inj k₁ k₂ x h1 h2
    · intro k x hx
      simp only [lookup_erase] at hx
      by_cases e : key = k <;> simp [e] at hx
      exact i.bound k x hx
    · intro x hx
      simp only [lookup_removeSourceText] at hx
      by_cases hxi : x = id
      · simp [hxi] at hx
      · simp [hxi] at hx
        obtain ⟨k, hk'⟩ := i.orphan x hx
        have : ¬ key = k := fun e => by subst e; rw [hk] at hk'; cases hk'; exact hxi rfl
        exact ⟨k, by simp [lookup_erase, this, hk']⟩
    · intro k
      simp only [Spec.step, lookup_erase]
      by_cases hkk : k = key
      · subst hkk; simp
      · have hkk' : ¬ key = k := fun e => hkk e.symm
        simp only [hkk, hkk', if_false]
        rw [← i.spec k]
        cases hk' : lookup p.ids k with
        | none => rfl
        | some id' =>
          have : ¬ id' = id := fun e => hkk (i.inj k key id (e ▸ hk') hk)
          simp [lookup_removeSourceText, this]
    · intro k x hx
      simp only [lookup_erase] at hx
      by_cases e : key = k <;> simp [e] at hx
      have : ¬ x = id := fun e' => e (i.inj key k id hk (e' ▸ hx))
      simp [lookup_removeSourceText, this]
      exact i.live k x hx

theorem pinv_query {p : Proj Text} {m : Nat → Option Text} {n : Nat} (i : PInv p m n)
    (k : QKind) (key : Nat) : PInv (projQuery p k key).1 (Spec.step m (.query k key)) (n + 1) := by
  unfold projQuery
  cases hk : lookup p.ids key with
  | none =>
    exact { db := i.db, nodup := i.nodup, inj := i.inj, bound := i.bound,
            next := Nat.le_succ_of_le i.next, orphan := i.orphan, spec := i.spec, live := i.live }
  | some id =>
    obtain ⟨_, iq, hs⟩ := query_of_inv i.db (fun g => rfl) (viewSources_listing i.db) k id
    exact { db := iq, nodup := i.nodup, inj := i.inj, bound := i.bound,
            next := Nat.le_succ_of_le i.next
            orphan := by simpa [hs] using i.orphan
            spec := by simpa [hs, Spec.step] using i.spec
            live := by simpa [hs] using i.live }

theorem pinv_step {p : Proj Text} {m : Nat → Option Text} {n : Nat} (i : PInv p m n)
    (hn : n < u32Max) (op : Op Text) : PInv (projStep p op) (Spec.step m op) (n + 1) := by
  cases op with
  | set key t => exact pinv_set i hn key t
  | remove key => exact pinv_remove i key
  | query k key => exact pinv_query i k key

theorem pinv_foldl {p : Proj Text} {m : Nat → Option Text} {n : Nat} (i : PInv p m n)
    (h : List (Op Text)) (hn : n + h.length ≤ u32Max) :
    PInv (h.foldl projStep p) (h.foldl Spec.step m) (n + h.length) := by
  induction h generalizing p m n with
  | nil => exact i
  | cons op rest ih =>
    simp only [List.length_cons] at hn ⊢
    have := ih (pinv_step i (by omega) op) (by omega)
    simpa [Nat.add_assoc, Nat.add_comm 1] using this

theorem pinv_run (h : List (Op Text)) (hn : h.length ≤ u32Max) :
    PInv (projRun h) (Spec.final h) h.length := by
  have := pinv_foldl (pinv_new (Text := Text)) h (by omega)
  simpa [projRun, Spec.final] using this

/-! ### Rename (document layer) -/

omit [DecidableEq Text] in
theorem pinv_congr {p : Proj Text} {m m' : Nat → Option Text} {n : Nat} (h : ∀ k, m k = m' k)
    (i : PInv p m n) : PInv p m' n :=
  { db := i.db, nodup := i.nodup, inj := i.inj, bound := i.bound, next := i.next, orphan := i.orphan,
    spec := fun k => (i.spec k).trans (h k), live := i.live }

omit [DecidableEq Text] in
theorem pinv_mono {p : Proj Text} {m : Nat → Option Text} {n n' : Nat} (h : n ≤ n')
    (i : PInv p m n) : PInv p m n' :=
  { db := i.db, nodup := i.nodup, inj := i.inj, bound := i.bound, next := Nat.le_trans i.next h,
    orphan := i.orphan, spec := i.spec, live := i.live }

theorem pinv_rename {p : Proj Text} {m : Nat → Option Text} {n : Nat} (i : PInv p m n)
    (hn : n + 3 ≤ u32Max) (old new : Nat) :
    PInv (projRename p old new) (Spec.stepX m (.rename old new)) (n + 3) := by
  have hold : projText p old = m old := i.spec old
  unfold projRename
  simp only [Spec.stepX]
  rw [hold]
  cases hm : m old with
  | none => exact pinv_mono (by omega) i
  | some t =>
    simp only
    have i1 := pinv_remove i old
    have i2 := pinv_remove i1 new
    have i3 := pinv_set i2 (by unfold u32Max at *; omega) new t
    refine pinv_congr ?_ i3
    intro g
    simp only [Spec.step]
    by_cases h1 : g = new
    · simp [h1]
    · by_cases h2 : g = old <;> simp [h1, h2]

theorem pinv_stepX {p : Proj Text} {m : Nat → Option Text} {n : Nat} (i : PInv p m n)
    (hn : n + 3 ≤ u32Max) (op : POp Text) :
    PInv (projStepX p op) (Spec.stepX m op) (n + 3) := by
  cases op with
  | op o => exact pinv_mono (by omega) (pinv_step i (by unfold u32Max at *; omega) o)
  | rename old new => exact pinv_rename i hn old new

theorem pinv_foldlX {p : Proj Text} {m : Nat → Option Text} {n : Nat} (i : PInv p m n)
    (h : List (POp Text)) (hn : n + 3 * h.length ≤ u32Max) :
    PInv (h.foldl projStepX p) (h.foldl Spec.stepX m) (n + 3 * h.length) := by
  induction h generalizing p m n with
  | nil => exact i
  | cons op rest ih =>
    simp only [List.length_cons] at hn ⊢
    have := ih (pinv_stepX i (by omega) op) (by omega)
    have e : n + 3 + 3 * rest.length = n + 3 * (rest.length + 1) := by omega
    rw [e] at this
    exact this

theorem pinv_runX (h : List (POp Text)) (hn : 3 * h.length ≤ u32Max) :
    PInv (projRunX h) (Spec.finalX h) (3 * h.length) := by
  have := pinv_foldlX (pinv_new (Text := Text)) h (by omega)
  simpa [projRunX, Spec.finalX] using this

end inv

/-! ### Document layer (`DocLayer`): documents and project sources stay in step -/

section doclayer
variable {Text : Type}

/-- The invariant: the project holds a text for a key exactly when the document layer holds a
document for it, and it is the document's content. -/
def DocInv (s : DocLayer Text) : Prop := ∀ k, s.src k = (s.doc k).map (·.1)

theorem docRemove_inv (s : DocLayer Text) (k : Nat) (i : DocInv s) : DocInv (docRemove s k) := by
  intro x
  unfold docRemove
  cases h : s.doc k with
  | none => exact i x
  | some d =>
    simp only [upd]
    by_cases e : x = k
    · simp [e]
    · simp [e]; exact i x

theorem docEvict1_inv (s : DocLayer Text) (k : Nat) (i : DocInv s) : DocInv (docEvict1 s k) := by
  unfold docEvict1
  split
  · exact docRemove_inv s k i
  · exact i

theorem docEvict_inv (ks : List Nat) (s : DocLayer Text) (i : DocInv s) :
    DocInv (ks.foldl docEvict1 s) := by
  induction ks generalizing s with
  | nil => exact i
  | cons k ks ih => exact ih _ (docEvict1_inv s k i)

theorem docStep_inv [DecidableEq Text] (s : DocLayer Text) (o : DOp Text) (i : DocInv s)
    (hw : match o with | .change k _ => ∃ c, s.doc k = some (c, true) | _ => True) :
    DocInv (docStep s o) := by
  cases o with
  | openDoc k t =>
    intro x; simp only [docStep, upd]
    by_cases e : x = k
    · simp [e]
    · simp [e]; exact i x
  | index k t =>
    simp only [docStep]
    split
    · exact i
    · split
      · exact i
      · intro x; simp only [upd]
        by_cases e : x = k
        · simp [e]
        · simp [e]; exact i x
    · intro x; simp only [upd]
      by_cases e : x = k
      · simp [e]
      · simp [e]; exact i x
  | change k t =>
    obtain ⟨c, hc⟩ := hw
    intro x; simp only [docStep, upd]
    by_cases e : x = k
    · simp [e, hc]
    · simp [e]; exact i x
  | close k =>
    intro x; simp only [docStep, upd]
    by_cases e : x = k
    · subst e
      simp only [if_true]
      rw [i x]
      cases s.doc x <;> rfl
    · simp [e]; exact i x
  | remove k => exact docRemove_inv s k i
  | evict ks => exact docEvict_inv ks s i

theorem docRun_inv_from [DecidableEq Text] (h : List (DOp Text)) (s : DocLayer Text) (i : DocInv s) (hw : docWf s h) :
    DocInv (h.foldl docStep s) := by
  induction h generalizing s with
  | nil => exact i
  | cons o rest ih =>
    obtain ⟨h1, h2⟩ := hw
    exact ih _ (docStep_inv s o i h1) h2


end doclayer

end TrustVerif.C13
