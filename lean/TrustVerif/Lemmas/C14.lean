import TrustVerif.Model.C14

/-!
Helper lemmas for C14 (core Lean only).
-/
namespace TrustVerif.C14

/-! ### Lengths and encodings -/

theorem utf8Len_pos (c : Char) : 1 ≤ utf8Len c := by
  unfold utf8Len; repeat' split
  all_goals omega

theorem utf16Len_pos (c : Char) : 1 ≤ utf16Len c := by
  unfold utf16Len; split <;> omega

theorem length_encUnits (c : Char) : (encUnits c).length = utf16Len c := by
  unfold encUnits utf16Len; split <;> simp

theorem length_encode16 (s : List Char) : (encode16 s).length = len16 s := by
  induction s with
  | nil => rfl
  | cons c cs ih => simp [encode16, len16, length_encUnits, ih]

theorem encode16_append (a b : List Char) : encode16 (a ++ b) = encode16 a ++ encode16 b := by
  induction a with
  | nil => rfl
  | cons c cs ih => simp [encode16, ih]

theorem len8_append (a b : List Char) : len8 (a ++ b) = len8 a + len8 b := by
  induction a with
  | nil => simp [len8]
  | cons c cs ih => simp [len8, ih]; omega

theorem len16_append (a b : List Char) : len16 (a ++ b) = len16 a + len16 b := by
  induction a with
  | nil => simp [len16]
  | cons c cs ih => simp [len16, ih]; omega

theorem len16_eq_zero {s : List Char} (h : len16 s = 0) : s = [] := by
  cases s with
  | nil => rfl
  | cons c cs => have := utf16Len_pos c; simp [len16] at h; omega

theorem toNat_eq_lf {c : Char} (h : c.toNat = 10) : c = '\n' := by
  have := Char.ofNat_toNat c
  rw [h] at this
  exact this.symm

theorem toNat_eq_cr {c : Char} (h : c.toNat = 13) : c = '\r' := by
  have := Char.ofNat_toNat c
  rw [h] at this
  exact this.symm

theorem encUnits_lf : encUnits '\n' = [10] := by decide
theorem encUnits_cr : encUnits '\r' = [13] := by decide
theorem utf8Len_lf : utf8Len '\n' = 1 := by decide
theorem utf8Len_cr : utf8Len '\r' = 1 := by decide
theorem utf16Len_lf : utf16Len '\n' = 1 := by decide
theorem utf16Len_cr : utf16Len '\r' = 1 := by decide

/-- Shape of the units of a character that is neither `\n` nor `\r`. -/
theorem encUnits_other (c : Char) (h1 : c ≠ '\n') (h2 : c ≠ '\r') :
    (∃ u, encUnits c = [u] ∧ u ≠ 10 ∧ u ≠ 13 ∧ utf16Len c = 1) ∨
    (∃ hi lo, encUnits c = [hi, lo] ∧ hi ≠ 10 ∧ hi ≠ 13 ∧ lo ≠ 10 ∧ lo ≠ 13 ∧
      isLowSurrogate lo = true ∧ utf16Len c = 2) := by
  by_cases hb : c.toNat < 0x10000
  · left
    refine ⟨c.toNat, by simp [encUnits, hb], ?_, ?_, by simp [utf16Len, hb]⟩
    · intro h; exact h1 (toNat_eq_lf h)
    · intro h; exact h2 (toNat_eq_cr h)
  · right
    refine ⟨0xD800 + (c.toNat - 0x10000) / 0x400, 0xDC00 + (c.toNat - 0x10000) % 0x400,
      by simp [encUnits, hb], by omega, by omega, by omega, by omega, ?_, by simp [utf16Len, hb]⟩
    simp [isLowSurrogate]
    omega

/-! ### Byte slicing -/

theorem takeBytes_append (pre post : List Char) :
    Impl.takeBytes (len8 pre) (pre ++ post) = some pre := by
  induction pre with
  | nil => cases post <;> simp [Impl.takeBytes, len8]
  | cons c cs ih =>
    have := utf8Len_pos c
    simp [Impl.takeBytes, len8, ih]
    intro h; omega

theorem dropBytes_append (pre post : List Char) :
    Impl.dropBytes (len8 pre) (pre ++ post) = some post := by
  induction pre with
  | nil => cases post <;> simp [Impl.dropBytes, len8]
  | cons c cs ih =>
    have := utf8Len_pos c
    simp [Impl.dropBytes, len8, ih]
    intro h; omega

/-! ### Editor side, unit level -/

namespace Spec

theorem offsetOf_zero (us : List Nat) (c k : Nat) :
    offsetOf us 0 c = some k ↔ c ≤ lineLen us ∧ k = c := by
  unfold offsetOf
  split <;> simp_all <;> omega

theorem lineLen_cons_ord {u : Nat} (X : List Nat) (h1 : u ≠ 10) (h2 : u ≠ 13) :
    lineLen (u :: X) = lineLen X + 1 := by
  simp [lineLen, h1, h2]

theorem lineLen_cons_lf (X : List Nat) : lineLen (10 :: X) = 0 := by simp [lineLen]
theorem lineLen_cons_cr (X : List Nat) : lineLen (13 :: X) = 0 := by simp [lineLen]

theorem offsetOf_succ_cons_ord {u : Nat} (X : List Nat) (l c : Nat) (h1 : u ≠ 10) (h2 : u ≠ 13) :
    offsetOf (u :: X) (l + 1) c = (offsetOf X (l + 1) c).map (· + 1) := by
  simp only [offsetOf, afterEol, h1, h2, if_false]
  cases afterEol X with
  | none => simp
  | some k =>
    simp only [Option.map_some, List.drop_succ_cons]
    cases offsetOf (X.drop k) l c with
    | none => simp
    | some j => simp; omega

theorem offsetOf_succ_lf (X : List Nat) (l c : Nat) :
    offsetOf (10 :: X) (l + 1) c = (offsetOf X l c).map (· + 1) := by
  simp [offsetOf, afterEol]

theorem offsetOf_succ_crlf (Y : List Nat) (l c : Nat) :
    offsetOf (13 :: 10 :: Y) (l + 1) c = (offsetOf Y l c).map (· + 2) := by
  simp [offsetOf, afterEol]

theorem onBoundary_cons_succ (u : Nat) (X : List Nat) (k : Nat) :
    onBoundary (u :: X) (k + 1) = onBoundary X k := by
  simp [onBoundary]

end Spec


/-! ### `position_to_offset` against the editor's positions -/

namespace Impl

theorem aux_stop (pl pc : Nat) (s : List Char) (i line col : Nat) (h1 : line = pl) (h2 : pc ≤ col) :
    positionToOffsetAux pl pc s i line col = some i := by
  cases s <;> simp [positionToOffsetAux, h1, h2]

theorem aux_step_other (pl pc : Nat) (ch : Char) (cs : List Char) (i line col : Nat)
    (hch : ch ≠ '\n') (h : ¬ (line = pl ∧ col ≥ pc)) :
    positionToOffsetAux pl pc (ch :: cs) i line col =
      positionToOffsetAux pl pc cs (i + utf8Len ch) line (col + utf16Len ch) := by
  simp [positionToOffsetAux, hch, h]

theorem aux_step_lf (pl pc : Nat) (cs : List Char) (i line col : Nat) (h : line ≠ pl) :
    positionToOffsetAux pl pc ('\n' :: cs) i line col =
      positionToOffsetAux pl pc cs (i + 1) (line + 1) 0 := by
  simp [positionToOffsetAux, h, utf8Len_lf]

end Impl

theorem lfOrCrlf_cons_ord {u : Nat} (X : List Nat) (h : u ≠ 13) :
    Spec.lfOrCrlf (u :: X) = Spec.lfOrCrlf X := by
  simp [Spec.lfOrCrlf, h]

/-- **Key lemma.**  Scanning `s` from loop state `(i, line, col)`, a position the editor has
(`offsetOf … = some k`, not inside a surrogate pair) makes `position_to_offset` return the byte
offset of the character prefix whose UTF-16 length is `k`. -/
theorem positionToOffsetAux_spec (pl pc : Nat) :
    ∀ (s : List Char) (i line col l c k : Nat),
      Spec.lfOrCrlf (encode16 s) = true →
      Spec.offsetOf (encode16 s) l c = some k →
      Spec.onBoundary (encode16 s) k = true →
      line + l = pl →
      (l = 0 → pc = col + c) → (l ≠ 0 → c = pc) →
      ∃ pre post, s = pre ++ post ∧ len16 pre = k ∧
        Impl.positionToOffsetAux pl pc s i line col = some (i + len8 pre) := by
  intro s
  induction s with
  | nil =>
    intro i line col l c k _ hoff _ hline hc0 _
    cases l with
    | zero =>
      have := (Spec.offsetOf_zero _ _ _).1 hoff
      simp [encode16, Spec.lineLen] at this
      refine ⟨[], [], rfl, by simp [len16]; omega, ?_⟩
      simp [Impl.positionToOffsetAux, len8]; omega
    | succ l' => simp [encode16, Spec.offsetOf, Spec.afterEol] at hoff
  | cons ch cs ih =>
    intro i line col l c k hlf hoff hb hline hc0 hc1
    -- the position is exactly here
    have here : l = 0 → c = 0 → k = 0 →
        ∃ pre post, ch :: cs = pre ++ post ∧ len16 pre = k ∧
          Impl.positionToOffsetAux pl pc (ch :: cs) i line col = some (i + len8 pre) := by
      intro hl hc hk
      refine ⟨[], ch :: cs, rfl, by simp [len16, hk], ?_⟩
      rw [Impl.aux_stop pl pc _ i line col (by omega) (by have := hc0 hl; omega)]
      simp [len8]
    by_cases hn : ch = '\n'
    · subst hn
      simp only [encode16, encUnits_lf, List.cons_append, List.nil_append] at hlf hoff hb
      cases l with
      | zero =>
        have h := (Spec.offsetOf_zero _ _ _).1 hoff
        rw [Spec.lineLen_cons_lf] at h
        exact here rfl (by omega) (by omega)
      | succ l' =>
        rw [Spec.offsetOf_succ_lf] at hoff
        cases hk' : Spec.offsetOf (encode16 cs) l' c with
        | none => simp [hk'] at hoff
        | some k' =>
          simp [hk'] at hoff
          subst hoff
          rw [Spec.onBoundary_cons_succ] at hb
          have hlf' : Spec.lfOrCrlf (encode16 cs) = true := by
            simpa [Spec.lfOrCrlf] using hlf
          obtain ⟨pre, post, hs, hlen, himpl⟩ :=
            ih (i + 1) (line + 1) 0 l' c k' hlf' hk' hb (by omega)
              (by intro _; have := hc1 (by omega); omega) (by intro _; exact hc1 (by omega))
          refine ⟨'\n' :: pre, post, by simp [hs], by simp [len16, utf16Len_lf, hlen]; omega, ?_⟩
          rw [Impl.aux_step_lf pl pc cs i line col (by omega), himpl]
          simp [len8, utf8Len_lf]; omega
    · by_cases hr : ch = '\r'
      · subst hr
        simp only [encode16, encUnits_cr, List.cons_append, List.nil_append] at hlf hoff hb
        cases l with
        | zero =>
          have h := (Spec.offsetOf_zero _ _ _).1 hoff
          rw [Spec.lineLen_cons_cr] at h
          exact here rfl (by omega) (by omega)
        | succ l' =>
          -- the guard: the next unit is `\n`
          have hhead : (encode16 cs).head? = some 10 ∧ Spec.lfOrCrlf (encode16 cs) = true := by
            simpa [Spec.lfOrCrlf] using hlf
          obtain ⟨hh, hlf'⟩ := hhead
          cases hX : encode16 cs with
          | nil => simp [hX] at hh
          | cons x Y =>
            have hx : x = 10 := by simpa [hX] using hh
            subst hx
            rw [hX, Spec.offsetOf_succ_crlf] at hoff
            cases hk' : Spec.offsetOf Y l' c with
            | none => simp [hk'] at hoff
            | some k' =>
              simp [hk'] at hoff
              subst hoff
              have hoff' : Spec.offsetOf (encode16 cs) (l' + 1) c = some (k' + 1) := by
                rw [hX, Spec.offsetOf_succ_lf, hk']; rfl
              have hb' : Spec.onBoundary (encode16 cs) (k' + 1) = true := by
                rw [hX] at hb
                have : k' + 2 = (k' + 1) + 1 := rfl
                rw [this, Spec.onBoundary_cons_succ] at hb
                rw [hX]; exact hb
              obtain ⟨pre, post, hs, hlen, himpl⟩ :=
                ih (i + 1) line (col + 1) (l' + 1) c (k' + 1) hlf' hoff' hb' (by omega)
                  (by intro h; omega) (by intro _; exact hc1 (by omega))
              refine ⟨'\r' :: pre, post, by simp [hs], by simp [len16, utf16Len_cr, hlen]; omega, ?_⟩
              rw [Impl.aux_step_other pl pc '\r' cs i line col (by decide) (by omega),
                utf8Len_cr, utf16Len_cr, himpl]
              simp [len8, utf8Len_cr]; omega
      · -- an ordinary character: one unit, or a surrogate pair
        rcases encUnits_other ch hn hr with ⟨u, hu, hu10, hu13, h16⟩ | ⟨hi, lo, hu, hi10, hi13, lo10, lo13, hlow, h16⟩
        · simp only [encode16, hu, List.cons_append, List.nil_append] at hlf hoff hb
          rw [lfOrCrlf_cons_ord _ hu13] at hlf
          cases l with
          | zero =>
            have h := (Spec.offsetOf_zero _ _ _).1 hoff
            rw [Spec.lineLen_cons_ord _ hu10 hu13] at h
            cases c with
            | zero => exact here rfl rfl (by omega)
            | succ c' =>
              obtain ⟨hle, hk⟩ := h
              subst hk
              rw [Spec.onBoundary_cons_succ] at hb
              have hoff' : Spec.offsetOf (encode16 cs) 0 c' = some c' :=
                (Spec.offsetOf_zero _ _ _).2 ⟨by omega, rfl⟩
              obtain ⟨pre, post, hs, hlen, himpl⟩ :=
                ih (i + utf8Len ch) line (col + 1) 0 c' c' hlf hoff' hb (by omega)
                  (by intro _; have := hc0 rfl; omega) (by intro h; exact absurd rfl h)
              refine ⟨ch :: pre, post, by simp [hs], by simp [len16, h16, hlen]; omega, ?_⟩
              rw [Impl.aux_step_other pl pc ch cs i line col hn (by have := hc0 rfl; omega), h16, himpl]
              simp [len8]; omega
          | succ l' =>
            rw [Spec.offsetOf_succ_cons_ord _ _ _ hu10 hu13] at hoff
            cases hk' : Spec.offsetOf (encode16 cs) (l' + 1) c with
            | none => simp [hk'] at hoff
            | some k' =>
              simp [hk'] at hoff
              subst hoff
              rw [Spec.onBoundary_cons_succ] at hb
              obtain ⟨pre, post, hs, hlen, himpl⟩ :=
                ih (i + utf8Len ch) line (col + 1) (l' + 1) c k' hlf hk' hb (by omega)
                  (by intro h; omega) (by intro _; exact hc1 (by omega))
              refine ⟨ch :: pre, post, by simp [hs], by simp [len16, h16, hlen]; omega, ?_⟩
              rw [Impl.aux_step_other pl pc ch cs i line col hn (by omega), h16, himpl]
              simp [len8]; omega
        · simp only [encode16, hu, List.cons_append, List.nil_append] at hlf hoff hb
          rw [lfOrCrlf_cons_ord _ hi13, lfOrCrlf_cons_ord _ lo13] at hlf
          cases l with
          | zero =>
            have h := (Spec.offsetOf_zero _ _ _).1 hoff
            rw [Spec.lineLen_cons_ord _ hi10 hi13, Spec.lineLen_cons_ord _ lo10 lo13] at h
            obtain ⟨hle, hk⟩ := h
            rcases c with _ | _ | c'
            · exact here rfl rfl (by omega)
            · subst hk
              simp [Spec.onBoundary, hlow] at hb
            · subst hk
              have e : c' + 1 + 1 = (c' + 1) + 1 := rfl
              rw [Spec.onBoundary_cons_succ, Spec.onBoundary_cons_succ] at hb
              have hoff' : Spec.offsetOf (encode16 cs) 0 c' = some c' :=
                (Spec.offsetOf_zero _ _ _).2 ⟨by omega, rfl⟩
              obtain ⟨pre, post, hs, hlen, himpl⟩ :=
                ih (i + utf8Len ch) line (col + 2) 0 c' c' hlf hoff' hb (by omega)
                  (by intro _; have := hc0 rfl; omega) (by intro h; exact absurd rfl h)
              refine ⟨ch :: pre, post, by simp [hs], by simp [len16, h16, hlen]; omega, ?_⟩
              rw [Impl.aux_step_other pl pc ch cs i line col hn (by have := hc0 rfl; omega), h16, himpl]
              simp [len8]; omega
          | succ l' =>
            rw [Spec.offsetOf_succ_cons_ord _ _ _ hi10 hi13,
              Spec.offsetOf_succ_cons_ord _ _ _ lo10 lo13] at hoff
            cases hk' : Spec.offsetOf (encode16 cs) (l' + 1) c with
            | none => simp [hk'] at hoff
            | some k' =>
              simp [hk'] at hoff
              subst hoff
              rw [Spec.onBoundary_cons_succ, Spec.onBoundary_cons_succ] at hb
              obtain ⟨pre, post, hs, hlen, himpl⟩ :=
                ih (i + utf8Len ch) line (col + 2) (l' + 1) c k' hlf hk' hb (by omega)
                  (by intro h; omega) (by intro _; exact hc1 (by omega))
              refine ⟨ch :: pre, post, by simp [hs], by simp [len16, h16, hlen]; omega, ?_⟩
              rw [Impl.aux_step_other pl pc ch cs i line col hn (by omega), h16, himpl]
              simp [len8]; omega

theorem positionToOffset_spec (s : List Char) (l c k : Nat)
    (hlf : Spec.lfOrCrlf (encode16 s) = true)
    (hoff : Spec.offsetOf (encode16 s) l c = some k)
    (hb : Spec.onBoundary (encode16 s) k = true) :
    ∃ pre post, s = pre ++ post ∧ len16 pre = k ∧ Impl.positionToOffset s l c = some (len8 pre) := by
  obtain ⟨pre, post, h1, h2, h3⟩ :=
    positionToOffsetAux_spec l c s 0 0 0 l c k hlf hoff hb (by omega) (by intro _; omega) (by intro _; rfl)
  exact ⟨pre, post, h1, h2, by simpa [Impl.positionToOffset] using h3⟩

/-- Two splits of the same text: the one with the shorter UTF-16 prefix is a prefix of the other. -/
theorem split_prefix {p1 q1 p2 q2 : List Char} (h : p1 ++ q1 = p2 ++ q2) (hle : len16 p1 ≤ len16 p2) :
    ∃ mid, p2 = p1 ++ mid ∧ q1 = mid ++ q2 := by
  rcases List.append_eq_append_iff.1 h with ⟨as, h1, h2⟩ | ⟨bs, h1, h2⟩
  · exact ⟨as, h1, h2⟩
  · have : len16 bs = 0 := by
      have := len16_append p2 bs
      rw [← h1] at this
      omega
    have hbs := len16_eq_zero this
    subst hbs
    exact ⟨[], by simpa using h1.symm, by simpa using h2.symm⟩

theorem take_encode16 (pre post : List Char) :
    (encode16 (pre ++ post)).take (len16 pre) = encode16 pre := by
  rw [encode16_append, ← length_encode16 pre, List.take_left]

theorem drop_encode16 (pre post : List Char) :
    (encode16 (pre ++ post)).drop (len16 pre) = encode16 post := by
  rw [encode16_append, ← length_encode16 pre, List.drop_left]

/-- One ranged change: the server's byte-offset splice is the editor's unit splice. -/
theorem applyChange_range_spec (s t : List Char) (sl sc el ec : Nat) (us' : List Nat)
    (hlf : Spec.lfOrCrlf (encode16 s) = true)
    (h : Spec.applyChange (encode16 s) (.range sl sc el ec (encode16 t)) = some us') :
    ∃ s', Impl.applyChange s (.range sl sc el ec t) = .ok s' ∧ encode16 s' = us' := by
  simp only [Spec.applyChange] at h
  cases ha : Spec.offsetOf (encode16 s) sl sc with
  | none => simp [ha] at h
  | some a =>
    cases hb : Spec.offsetOf (encode16 s) el ec with
    | none => simp [ha, hb] at h
    | some b =>
      simp only [ha, hb] at h
      by_cases hc : a ≤ b ∧ Spec.onBoundary (encode16 s) a = true ∧ Spec.onBoundary (encode16 s) b = true
      · rw [if_pos hc] at h
        obtain ⟨hab, hba, hbb⟩ := hc
        obtain ⟨p1, q1, hs1, hl1, ho1⟩ := positionToOffset_spec s sl sc a hlf ha hba
        obtain ⟨p2, q2, hs2, hl2, ho2⟩ := positionToOffset_spec s el ec b hlf hb hbb
        obtain ⟨mid, hmid, _⟩ := split_prefix (hs1.symm.trans hs2) (by omega)
        refine ⟨p1 ++ t ++ q2, ?_, ?_⟩
        · have hle : len8 p1 ≤ len8 p2 := by rw [hmid, len8_append]; omega
          have hle2 : len8 p2 ≤ len8 s := by rw [hs2, len8_append]; omega
          have ht : Impl.takeBytes (len8 p1) s = some p1 := by rw [hs1]; exact takeBytes_append _ _
          have hd : Impl.dropBytes (len8 p2) s = some q2 := by rw [hs2]; exact dropBytes_append _ _
          simp only [Impl.applyChange, ho1, ho2, ht, hd]
          rw [if_neg (by omega)]
        · have h1 : (encode16 s).take a = encode16 p1 := by rw [hs1, ← hl1]; exact take_encode16 _ _
          have h2 : (encode16 s).drop b = encode16 q2 := by rw [hs2, ← hl2]; exact drop_encode16 _ _
          rw [h1, h2] at h
          simp only [encode16_append]
          exact Option.some.inj h
      · rw [if_neg hc] at h
        exact absurd h (by simp)

theorem applyChange_spec (s : List Char) (c : Impl.Change) (us' : List Nat)
    (hlf : Spec.lfChange (encode16 s) (encodeChange c) = true)
    (h : Spec.applyChange (encode16 s) (encodeChange c) = some us') :
    ∃ s', Impl.applyChange s c = .ok s' ∧ encode16 s' = us' := by
  cases c with
  | full t =>
    refine ⟨t, rfl, ?_⟩
    simpa [encodeChange, Spec.applyChange] using h
  | range sl sc el ec t =>
    exact applyChange_range_spec s t sl sc el ec us' (by simpa [encodeChange, Spec.lfChange] using hlf) h

theorem applyContentChanges_spec :
    ∀ (cs : List Impl.Change) (s : List Char) (us' : List Nat),
      Spec.lfChanges (encode16 s) (cs.map encodeChange) = true →
      Spec.applyChanges (encode16 s) (cs.map encodeChange) = some us' →
      ∃ s', Impl.applyContentChanges s cs = .ok s' ∧ encode16 s' = us' := by
  intro cs
  induction cs with
  | nil =>
    intro s us' _ h
    exact ⟨s, rfl, by simpa [Spec.applyChanges] using h⟩
  | cons c cs ih =>
    intro s us' hg h
    simp only [List.map_cons, Spec.applyChanges] at h
    simp only [List.map_cons, Spec.lfChanges, Bool.and_eq_true] at hg
    cases h1 : Spec.applyChange (encode16 s) (encodeChange c) with
    | none => simp [h1] at h
    | some us1 =>
      simp only [h1] at h hg
      obtain ⟨s1, hs1, he1⟩ := applyChange_spec s c us1 hg.1 h1
      subst he1
      obtain ⟨s', hs', he'⟩ := ih s1 us' hg.2 h
      exact ⟨s', by simp [Impl.applyContentChanges, hs1, hs'], he'⟩

/-! ### Histories -/

theorem step_agree (srv : Option Impl.Doc) (ed ed' : Option Spec.Doc) (e : Impl.Event)
    (hag : Agree srv ed)
    (hg : Spec.lfEvent ed (encodeEvent e) = true)
    (hstep : Spec.step ed (encodeEvent e) = some ed') :
    Agree (Impl.step srv e) ed' := by
  cases e with
  | didOpen v t =>
    cases ed with
    | some _ => simp [encodeEvent, Spec.step] at hstep
    | none =>
      simp [encodeEvent, Spec.step] at hstep
      subst hstep
      exact ⟨_, rfl, rfl, rfl, rfl, rfl⟩
  | didClose =>
    cases ed with
    | none => simp [encodeEvent, Spec.step] at hstep
    | some doc =>
      simp [encodeEvent, Spec.step] at hstep
      subst hstep
      intro d hd
      cases srv with
      | none => simp [Impl.step] at hd
      | some d0 =>
        simp [Impl.step] at hd
        subst hd
        rfl
  | didSave =>
    cases ed with
    | none => simp [encodeEvent, Spec.step] at hstep
    | some doc =>
      simp [encodeEvent, Spec.step] at hstep
      subst hstep
      exact hag
  | watchedDeleted =>
    simp [encodeEvent, Spec.step] at hstep
    subst hstep
    cases ed with
    | some doc =>
      -- the `is_open` guard of the DELETED branch: the buffer outlives its file
      obtain ⟨d, hsrv, h1, h2, hopen, h3⟩ := hag
      subst hsrv
      exact ⟨d, by simp [Impl.step, hopen], h1, h2, hopen, h3⟩
    | none =>
      intro d hd
      cases srv with
      | none => simp [Impl.step] at hd
      | some d0 =>
        have hclosed := hag d0 rfl
        simp [Impl.step, hclosed] at hd
  | watchedChanged disk =>
    simp [encodeEvent, Spec.step] at hstep
    subst hstep
    cases disk with
    | none => exact hag
    | some disk =>
      cases ed with
      | some doc =>
        -- the `is_open` guard of the index path: an open document ignores the disk
        obtain ⟨d, hsrv, h1, h2, hopen, h3⟩ := hag
        subst hsrv
        exact ⟨d, by simp [Impl.step, hopen], h1, h2, hopen, h3⟩
      | none =>
        intro d hd
        cases srv with
        | none =>
          simp [Impl.step] at hd
          subst hd
          rfl
        | some d0 =>
          have hclosed := hag d0 rfl
          simp only [Impl.step, hclosed] at hd
          by_cases heq : d0.text = disk
          · simp [heq] at hd
            subst hd
            exact hclosed
          · simp [heq] at hd
            subst hd
            rfl
  | didChange v cs =>
    cases ed with
    | none => simp [encodeEvent, Spec.step] at hstep
    | some doc =>
      obtain ⟨d, hsrv, htext, _, _, _⟩ := hag
      subst hsrv
      simp only [encodeEvent, Spec.step] at hstep
      simp only [encodeEvent, Spec.lfEvent] at hg
      by_cases hemp : (cs.map encodeChange).isEmpty = true
      · simp [hemp] at hstep
      · simp only [hemp] at hstep
        cases happ : Spec.applyChanges doc.units (cs.map encodeChange) with
        | none => simp [happ] at hstep
        | some us =>
          simp [happ] at hstep
          subst hstep
          rw [← htext] at happ hg
          obtain ⟨s', hs', he'⟩ := applyContentChanges_spec cs d.text us hg happ
          have hne : cs.isEmpty = false := by
            cases cs with
            | nil => simp at hemp
            | cons _ _ => rfl
          exact ⟨{ text := s', version := v, isOpen := true, analysed := s' },
            by simp [Impl.step, hne, hs'], he', rfl, rfl, rfl⟩

/-- Whatever the events: the analysis database reads the document's `content`. -/
theorem step_analysed (srv : Option Impl.Doc) (e : Impl.Event)
    (h : ∀ d, srv = some d → d.analysed = d.text) :
    ∀ d, Impl.step srv e = some d → d.analysed = d.text := by
  intro d hd
  cases e with
  | didOpen v t => simp [Impl.step] at hd; subst hd; rfl
  | didClose =>
    cases srv with
    | none => simp [Impl.step] at hd
    | some d0 => simp [Impl.step] at hd; subst hd; exact h d0 rfl
  | didSave => exact h d hd
  | watchedDeleted =>
    cases srv with
    | none => simp [Impl.step] at hd
    | some d0 =>
      simp only [Impl.step] at hd
      split at hd
      · cases hd; exact h _ rfl
      · cases hd
  | watchedChanged disk =>
    cases disk with
    | none => exact h d hd
    | some disk =>
      cases srv with
      | none => simp [Impl.step] at hd; subst hd; rfl
      | some d0 =>
        simp only [Impl.step] at hd
        split at hd
        · cases hd; exact h _ rfl
        · split at hd
          · cases hd; exact h _ rfl
          · cases hd; rfl
  | didChange v cs =>
    simp only [Impl.step] at hd
    split at hd
    · exact h d hd
    · cases srv with
      | none => simp at hd
      | some d0 =>
        simp only at hd
        split at hd
        · cases hd; rfl
        · cases hd; exact h _ rfl

theorem run_analysed : ∀ (evs : List Impl.Event) (srv : Option Impl.Doc),
    (∀ d, srv = some d → d.analysed = d.text) →
    ∀ d, Impl.run srv evs = some d → d.analysed = d.text := by
  intro evs
  induction evs with
  | nil => intro srv h d hd; exact h d hd
  | cons e es ih => intro srv h d hd; exact ih (Impl.step srv e) (step_analysed srv e h) d hd

theorem run_agree : ∀ (evs : List Impl.Event) (srv : Option Impl.Doc) (ed ed' : Option Spec.Doc),
    Agree srv ed →
    Spec.lfHistory ed (evs.map encodeEvent) = true →
    Spec.run ed (evs.map encodeEvent) = some ed' →
    Agree (Impl.run srv evs) ed' := by
  intro evs
  induction evs with
  | nil =>
    intro srv ed ed' hag _ hrun
    simp [Spec.run] at hrun
    subst hrun
    exact hag
  | cons e es ih =>
    intro srv ed ed' hag hg hrun
    simp only [List.map_cons, Spec.run] at hrun
    simp only [List.map_cons, Spec.lfHistory, Bool.and_eq_true] at hg
    cases hstep : Spec.step ed (encodeEvent e) with
    | none => simp [hstep] at hrun
    | some ed1 =>
      simp only [hstep] at hrun hg
      exact ih _ ed1 ed' (step_agree srv ed ed1 e hag hg.1 hstep) hg.2 hrun

/-! ### Offset → position → offset -/

theorem offsetToLineColAux_mono (off : Nat) :
    ∀ (s : List Char) (i line col : Nat),
      (Impl.offsetToLineColAux off s i line col).1 > line ∨
      ((Impl.offsetToLineColAux off s i line col).1 = line ∧
        (Impl.offsetToLineColAux off s i line col).2 ≥ col) := by
  intro s
  induction s with
  | nil => intro i line col; simp [Impl.offsetToLineColAux]
  | cons c cs ih =>
    intro i line col
    simp only [Impl.offsetToLineColAux]
    split
    · simp
    · split
      · rcases ih (i + utf8Len c) (line + 1) 0 with h | h <;> omega
      · rcases ih (i + utf8Len c) line (col + utf16Len c) with h | h
        · exact Or.inl h
        · exact Or.inr ⟨h.1, by omega⟩

theorem roundtrip_aux :
    ∀ (pre post : List Char) (i line col : Nat),
      Impl.positionToOffsetAux
        (Impl.offsetToLineColAux (i + len8 pre) (pre ++ post) i line col).1
        (Impl.offsetToLineColAux (i + len8 pre) (pre ++ post) i line col).2
        (pre ++ post) i line col = some (i + len8 pre) := by
  intro pre
  induction pre with
  | nil =>
    intro post i line col
    have h : Impl.offsetToLineColAux (i + len8 []) ([] ++ post) i line col = (line, col) := by
      cases post <;> simp [Impl.offsetToLineColAux, len8]
    rw [h]
    simpa [len8] using Impl.aux_stop line col post i line col rfl (Nat.le_refl _)
  | cons c pre' ih =>
    intro post i line col
    have hpos := utf8Len_pos c
    have hoff : i + len8 (c :: pre') = (i + utf8Len c) + len8 pre' := by simp [len8]; omega
    have hlt : ¬ i ≥ i + len8 (c :: pre') := by simp [len8]; omega
    by_cases hn : c = '\n'
    · subst hn
      have h : Impl.offsetToLineColAux (i + len8 ('\n' :: pre')) ('\n' :: pre' ++ post) i line col =
          Impl.offsetToLineColAux ((i + 1) + len8 pre') (pre' ++ post) (i + 1) (line + 1) 0 := by
        rw [hoff]
        simp only [List.cons_append, Impl.offsetToLineColAux, utf8Len_lf]
        rw [if_neg (by omega)]
        simp
      rw [h]
      have hm := offsetToLineColAux_mono ((i + 1) + len8 pre') (pre' ++ post) (i + 1) (line + 1) 0
      rw [List.cons_append, Impl.aux_step_lf _ _ _ _ _ _ (by omega), ih post (i + 1) (line + 1) 0]
      simp [len8, utf8Len_lf]; omega
    · have h : Impl.offsetToLineColAux (i + len8 (c :: pre')) (c :: pre' ++ post) i line col =
          Impl.offsetToLineColAux ((i + utf8Len c) + len8 pre') (pre' ++ post) (i + utf8Len c) line
            (col + utf16Len c) := by
        rw [hoff]
        simp only [List.cons_append, Impl.offsetToLineColAux]
        rw [if_neg (by omega), if_neg hn]
      rw [h]
      have hm := offsetToLineColAux_mono ((i + utf8Len c) + len8 pre') (pre' ++ post) (i + utf8Len c) line
        (col + utf16Len c)
      have h16 := utf16Len_pos c
      rw [List.cons_append, Impl.aux_step_other _ _ _ _ _ _ _ hn (by omega),
        ih post (i + utf8Len c) line (col + utf16Len c)]
      simp [len8]; omega

/-! ### `encode16` loses nothing -/

theorem char_valid (c : Char) : c.toNat < 0xD800 ∨ (0xDFFF < c.toNat ∧ c.toNat < 0x110000) := by
  have h := c.valid
  simp only [UInt32.isValidChar, Nat.isValidChar] at h
  exact h

theorem decode16_encode16 (s : List Char) : decode16 (encode16 s) = s := by
  induction s with
  | nil => rfl
  | cons c cs ih =>
    have hv := char_valid c
    by_cases hb : c.toNat < 0x10000
    · have hu : encUnits c = [c.toNat] := by simp [encUnits, hb]
      have hnh : isHighSurrogate c.toNat = false := by simp [isHighSurrogate]; omega
      have hnl : isLowSurrogate c.toNat = false := by simp [isLowSurrogate]; omega
      simp only [encode16, hu, List.cons_append, List.nil_append]
      cases hX : encode16 cs with
      | nil =>
        rw [hX] at ih
        simp [decode16, hnh, hnl, Char.ofNat_toNat]
        simpa [decode16] using ih
      | cons v rest =>
        rw [hX] at ih
        simp [decode16, hnh, hnl, Char.ofNat_toNat, ih]
    · have hu : encUnits c = [0xD800 + (c.toNat - 0x10000) / 0x400, 0xDC00 + (c.toNat - 0x10000) % 0x400] := by
        simp [encUnits, hb]
      have hh : isHighSurrogate (0xD800 + (c.toNat - 0x10000) / 0x400) = true := by
        simp [isHighSurrogate]; omega
      have hl : isLowSurrogate (0xDC00 + (c.toNat - 0x10000) % 0x400) = true := by
        simp [isLowSurrogate]; omega
      have hn : 0x10000 + (0xD800 + (c.toNat - 0x10000) / 0x400 - 0xD800) * 0x400 +
          (0xDC00 + (c.toNat - 0x10000) % 0x400 - 0xDC00) = c.toNat := by omega
      simp only [encode16, hu, List.cons_append, List.nil_append, decode16, hh, hl, Bool.and_self, if_true]
      rw [hn, Char.ofNat_toNat, ih]

/-! ### Positions the server emits, read by the editor -/

theorem splitsCrlf_tail (ch : Char) (pre' post : List Char) (h : splitsCrlf (ch :: pre') post = false) :
    splitsCrlf pre' post = false := by
  cases pre' with
  | nil => simp [splitsCrlf]
  | cons c cs => simpa [splitsCrlf, List.getLast?_cons_cons] using h

/-- The first unit of a character is never a low surrogate, and is 10 only for `\n`. -/
theorem head_encUnits (c : Char) :
    ∃ u rest, encUnits c = u :: rest ∧ isLowSurrogate u = false ∧ (u = 10 → c = '\n') := by
  have hv := char_valid c
  by_cases hb : c.toNat < 0x10000
  · exact ⟨c.toNat, [], by simp [encUnits, hb], by simp [isLowSurrogate]; omega, toNat_eq_lf⟩
  · exact ⟨_, _, by simp [encUnits, hb]; exact ⟨rfl, rfl⟩, by simp [isLowSurrogate]; omega, by omega⟩

theorem head_encode16_lf {s : List Char} (h : (encode16 s).head? = some 10) : s.head? = some '\n' := by
  cases s with
  | nil => simp [encode16] at h
  | cons c cs =>
    obtain ⟨u, rest, hu, _, h10⟩ := head_encUnits c
    simp [encode16, hu] at h
    simp [h10 h]

theorem onBoundary_encode16 (pre post : List Char) :
    Spec.onBoundary (encode16 (pre ++ post)) (len16 pre) = true := by
  rw [encode16_append, Spec.onBoundary, ← length_encode16 pre,
    List.getElem?_append_right (Nat.le_refl _), Nat.sub_self]
  cases post with
  | nil => simp [encode16]
  | cons c cs =>
    obtain ⟨u, rest, hu, hlow, _⟩ := head_encUnits c
    simp [encode16, hu, hlow]

theorem emit_aux :
    ∀ (pre post : List Char) (i line col : Nat),
      Spec.lfOrCrlf (encode16 (pre ++ post)) = true → splitsCrlf pre post = false →
      ∃ L C, Impl.offsetToLineColAux (i + len8 pre) (pre ++ post) i line col =
                (line + L, if L = 0 then col + C else C) ∧
             Spec.offsetOf (encode16 (pre ++ post)) L C = some (len16 pre) := by
  intro pre
  induction pre with
  | nil =>
    intro post i line col _ _
    refine ⟨0, 0, ?_, ?_⟩
    · cases post <;> simp [Impl.offsetToLineColAux, len8]
    · exact (Spec.offsetOf_zero _ _ _).2 ⟨Nat.zero_le _, by simp [len16]⟩
  | cons ch pre' ih =>
    intro post i line col hlf hsp
    have hsp' := splitsCrlf_tail ch pre' post hsp
    have hpos := utf8Len_pos ch
    have hoff : i + len8 (ch :: pre') = (i + utf8Len ch) + len8 pre' := by simp [len8]; omega
    by_cases hn : ch = '\n'
    · subst hn
      have hstep : Impl.offsetToLineColAux (i + len8 ('\n' :: pre')) ('\n' :: pre' ++ post) i line col =
          Impl.offsetToLineColAux ((i + 1) + len8 pre') (pre' ++ post) (i + 1) (line + 1) 0 := by
        rw [hoff]
        simp only [List.cons_append, Impl.offsetToLineColAux, utf8Len_lf]
        rw [if_neg (by omega)]
        simp
      simp only [List.cons_append, encode16, encUnits_lf, List.nil_append] at hlf ⊢
      have hlf' : Spec.lfOrCrlf (encode16 (pre' ++ post)) = true := by simpa [Spec.lfOrCrlf] using hlf
      obtain ⟨L', C', h1, h2⟩ := ih post (i + 1) (line + 1) 0 hlf' hsp'
      refine ⟨L' + 1, C', ?_, ?_⟩
      · rw [← List.cons_append, hstep, h1]
        by_cases h0 : L' = 0 <;> simp [h0] <;> omega
      · rw [Spec.offsetOf_succ_lf, h2]
        simp [len16, utf16Len_lf]; omega
    · by_cases hr : ch = '\r'
      · subst hr
        have hstep : Impl.offsetToLineColAux (i + len8 ('\r' :: pre')) ('\r' :: pre' ++ post) i line col =
            Impl.offsetToLineColAux ((i + 1) + len8 pre') (pre' ++ post) (i + 1) line (col + 1) := by
          rw [hoff]
          simp only [List.cons_append, Impl.offsetToLineColAux, utf8Len_cr, utf16Len_cr]
          rw [if_neg (by omega), if_neg (by decide)]
        simp only [List.cons_append, encode16, encUnits_cr, List.nil_append] at hlf ⊢
        have hboth : (encode16 (pre' ++ post)).head? = some 10 ∧
            Spec.lfOrCrlf (encode16 (pre' ++ post)) = true := by simpa [Spec.lfOrCrlf] using hlf
        obtain ⟨hh, hlf'⟩ := hboth
        have hhead := head_encode16_lf hh
        -- `pre'` is not empty: otherwise the offset would sit between `\r` and `\n`
        cases hp : pre' with
        | nil =>
          subst hp
          simp [splitsCrlf] at hsp
          simp at hhead
          exact absurd hhead hsp
        | cons c' pre'' =>
          rw [← hp]
          obtain ⟨L', C', h1, h2⟩ := ih post (i + 1) line (col + 1) hlf' hsp'
          have hc' : c' = '\n' := by simpa [hp] using hhead
          have hX : ∃ X, encode16 (pre' ++ post) = 10 :: X := by
            rw [hp, hc']; exact ⟨encode16 (pre'' ++ post), by simp [encode16, encUnits_lf]⟩
          obtain ⟨X, hX⟩ := hX
          have hlen : 1 ≤ len16 pre' := by rw [hp]; simp [len16]; have := utf16Len_pos c'; omega
          cases L' with
          | zero =>
            rw [hX] at h2
            have := (Spec.offsetOf_zero _ _ _).1 h2
            rw [Spec.lineLen_cons_lf] at this
            omega
          | succ L'' =>
            refine ⟨L'' + 1, C', ?_, ?_⟩
            · rw [← List.cons_append, hstep, h1]; simp
            · rw [hX, Spec.offsetOf_succ_lf] at h2
              rw [hX, Spec.offsetOf_succ_crlf]
              cases hq : Spec.offsetOf X L'' C' with
              | none => simp [hq] at h2
              | some q =>
                simp [hq] at h2
                simp [len16, utf16Len_cr]; omega
      · have hstep : Impl.offsetToLineColAux (i + len8 (ch :: pre')) (ch :: pre' ++ post) i line col =
            Impl.offsetToLineColAux ((i + utf8Len ch) + len8 pre') (pre' ++ post) (i + utf8Len ch) line
              (col + utf16Len ch) := by
          rw [hoff]
          simp only [List.cons_append, Impl.offsetToLineColAux]
          rw [if_neg (by omega), if_neg hn]
        rcases encUnits_other ch hn hr with ⟨u, hu, hu10, hu13, h16⟩ | ⟨hi, lo, hu, hi10, hi13, lo10, lo13, _, h16⟩
        · simp only [List.cons_append, encode16, hu, List.nil_append] at hlf ⊢
          rw [lfOrCrlf_cons_ord _ hu13] at hlf
          obtain ⟨L', C', h1, h2⟩ := ih post (i + utf8Len ch) line (col + utf16Len ch) hlf hsp'
          cases L' with
          | zero =>
            refine ⟨0, C' + 1, ?_, ?_⟩
            · rw [← List.cons_append, hstep, h1, h16]; simp; omega
            · have := (Spec.offsetOf_zero _ _ _).1 h2
              refine (Spec.offsetOf_zero _ _ _).2 ⟨?_, ?_⟩
              · rw [Spec.lineLen_cons_ord _ hu10 hu13]; omega
              · simp [len16, h16]; omega
          | succ L'' =>
            refine ⟨L'' + 1, C', ?_, ?_⟩
            · rw [← List.cons_append, hstep, h1]; simp
            · rw [Spec.offsetOf_succ_cons_ord _ _ _ hu10 hu13, h2]
              simp [len16, h16]; omega
        · simp only [List.cons_append, encode16, hu, List.nil_append] at hlf ⊢
          rw [lfOrCrlf_cons_ord _ hi13, lfOrCrlf_cons_ord _ lo13] at hlf
          obtain ⟨L', C', h1, h2⟩ := ih post (i + utf8Len ch) line (col + utf16Len ch) hlf hsp'
          cases L' with
          | zero =>
            refine ⟨0, C' + 2, ?_, ?_⟩
            · rw [← List.cons_append, hstep, h1, h16]; simp; omega
            · have := (Spec.offsetOf_zero _ _ _).1 h2
              refine (Spec.offsetOf_zero _ _ _).2 ⟨?_, ?_⟩
              · rw [Spec.lineLen_cons_ord _ hi10 hi13, Spec.lineLen_cons_ord _ lo10 lo13]; omega
              · simp [len16, h16]; omega
          | succ L'' =>
            refine ⟨L'' + 1, C', ?_, ?_⟩
            · rw [← List.cons_append, hstep, h1]; simp
            · rw [Spec.offsetOf_succ_cons_ord _ _ _ hi10 hi13,
                Spec.offsetOf_succ_cons_ord _ _ _ lo10 lo13, h2]
              simp [len16, h16]; omega

/-! ### No slice panic, whatever the positions -/

theorem positionToOffsetAux_boundary (pl pc : Nat) :
    ∀ (s : List Char) (i line col o : Nat),
      Impl.positionToOffsetAux pl pc s i line col = some o →
      ∃ pre post, s = pre ++ post ∧ o = i + len8 pre := by
  intro s
  induction s with
  | nil =>
    intro i line col o h
    simp only [Impl.positionToOffsetAux] at h
    split at h
    · exact ⟨[], [], rfl, by simp [len8] at *; omega⟩
    · cases h
  | cons c cs ih =>
    intro i line col o h
    simp only [Impl.positionToOffsetAux] at h
    split at h
    · exact ⟨[], c :: cs, rfl, by simp [len8] at *; omega⟩
    · split at h
      · split at h
        · exact ⟨[], c :: cs, rfl, by simp [len8] at *; omega⟩
        · obtain ⟨pre, post, h1, h2⟩ := ih _ _ _ _ h
          exact ⟨c :: pre, post, by simp [h1], by simp [len8]; omega⟩
      · obtain ⟨pre, post, h1, h2⟩ := ih _ _ _ _ h
        exact ⟨c :: pre, post, by simp [h1], by simp [len8]; omega⟩

theorem applyChange_no_panic (s : List Char) (c : Impl.Change) : Impl.applyChange s c ≠ .panic := by
  cases c with
  | full t => simp [Impl.applyChange]
  | range sl sc el ec t =>
    simp only [Impl.applyChange]
    cases h1 : Impl.positionToOffset s sl sc with
    | none => simp
    | some a =>
      cases h2 : Impl.positionToOffset s el ec with
      | none => simp
      | some b =>
        obtain ⟨p1, q1, hs1, ha⟩ := positionToOffsetAux_boundary sl sc s 0 0 0 a h1
        obtain ⟨p2, q2, hs2, hb⟩ := positionToOffsetAux_boundary el ec s 0 0 0 b h2
        have ht : Impl.takeBytes a s = some p1 := by
          rw [ha, Nat.zero_add]; conv => lhs; rw [hs1]
          exact takeBytes_append _ _
        have hd : Impl.dropBytes b s = some q2 := by
          rw [hb, Nat.zero_add]; conv => lhs; rw [hs2]
          exact dropBytes_append _ _
        simp only [ht, hd]
        split <;> simp

theorem applyContentChanges_no_panic : ∀ (cs : List Impl.Change) (s : List Char),
    Impl.applyContentChanges s cs ≠ .panic := by
  intro cs
  induction cs with
  | nil => intro s; simp [Impl.applyContentChanges]
  | cons c cs ih =>
    intro s
    simp only [Impl.applyContentChanges]
    have := applyChange_no_panic s c
    cases h : Impl.applyChange s c with
    | ok s' => exact ih s'
    | rejected => simp
    | panic => exact absurd h this

/-! ### Character boundaries -/

theorem takeBytes_some : ∀ (s : List Char) (o : Nat) (pre : List Char),
    Impl.takeBytes o s = some pre → ∃ post, s = pre ++ post ∧ o = len8 pre := by
  intro s
  induction s with
  | nil =>
    intro o pre h
    simp only [Impl.takeBytes] at h
    split at h
    · cases h; exact ⟨[], rfl, by simp [len8]; omega⟩
    · cases h
  | cons c cs ih =>
    intro o pre h
    simp only [Impl.takeBytes] at h
    split at h
    · cases h; exact ⟨c :: cs, rfl, by simp [len8]; omega⟩
    · split at h
      · cases h' : Impl.takeBytes (o - utf8Len c) cs with
        | none => simp [h'] at h
        | some p =>
          simp [h'] at h
          subst h
          obtain ⟨post, h1, h2⟩ := ih _ _ h'
          exact ⟨post, by simp [h1], by simp [len8]; omega⟩
      · cases h

/-! ### Prefixes of editor histories are editor histories -/

theorem Spec.run_prefix : ∀ (x y : List Spec.Event) (d : Option Spec.Doc) (ed : Option Spec.Doc),
    Spec.run d (x ++ y) = some ed → ∃ ed1, Spec.run d x = some ed1 ∧ Spec.run ed1 y = some ed := by
  intro x
  induction x with
  | nil => intro y d ed h; exact ⟨d, rfl, h⟩
  | cons e es ih =>
    intro y d ed h
    simp only [List.cons_append, Spec.run] at h ⊢
    cases hs : Spec.step d e with
    | none => simp [hs] at h
    | some d1 =>
      simp only [hs] at h ⊢
      exact ih y d1 ed h

theorem Spec.lfHistory_prefix : ∀ (x y : List Spec.Event) (d : Option Spec.Doc),
    Spec.lfHistory d (x ++ y) = true → Spec.lfHistory d x = true := by
  intro x
  induction x with
  | nil => intro y d _; rfl
  | cons e es ih =>
    intro y d h
    simp only [List.cons_append, Spec.lfHistory, Bool.and_eq_true] at h ⊢
    refine ⟨h.1, ?_⟩
    cases hs : Spec.step d e with
    | none => rfl
    | some d1 =>
      have h2 := h.2
      simp only [hs] at h2
      exact ih y d1 h2

/-! ### Workspaces: several documents, renames -/

theorem agree_none_none : Agree none none := by intro d hd; cases hd

theorem wstep_agree (srv : Impl.Store) (ed ed' : Spec.Store) (e : Impl.WEvent)
    (hag : AgreeAll srv ed)
    (hg : Spec.lfWEvent ed (encodeWEvent e) = true)
    (hstep : Spec.wstep ed (encodeWEvent e) = some ed') :
    AgreeAll (Impl.wstep srv e) ed' := by
  cases e with
  | doc u e =>
    simp only [encodeWEvent, Spec.wstep] at hstep
    simp only [encodeWEvent, Spec.lfWEvent] at hg
    cases hs : Spec.step (ed u) (encodeEvent e) with
    | none => simp [hs] at hstep
    | some d1 =>
      simp [hs] at hstep
      subst hstep
      intro v
      by_cases hv : v = u
      · subst hv
        simpa [Impl.wstep, Impl.Store.set, Spec.Store.set] using step_agree _ _ _ e (hag v) hg hs
      · simpa [Impl.wstep, Impl.Store.set, Spec.Store.set, hv] using hag v
  | renamed o n disk =>
    simp only [encodeWEvent, Spec.wstep] at hstep
    cases heo : ed o with
    | some de =>
      -- the editor has the document open: the server moves the entry as it is
      obtain ⟨d, hsrv, h1, h2, hopen, h3⟩ := (by simpa [heo, Agree] using hag o :
        ∃ d, srv o = some d ∧ encode16 d.text = de.units ∧ d.version = de.version ∧
          d.isOpen = true ∧ d.analysed = d.text)
      simp only [heo] at hstep
      split at hstep
      · cases hstep
        intro v
        simp only [Impl.wstep, hsrv, hopen, if_true, Impl.Store.set, Spec.Store.set]
        by_cases hvn : v = n
        · simp only [hvn, if_true]
          exact ⟨_, rfl, h1, h2, rfl, rfl⟩
        · simp only [hvn, if_false]
          by_cases hvo : v = o
          · simp only [hvo, if_true]; exact agree_none_none
          · simp only [hvo, if_false]; exact hag v
      · cases hstep
    | none =>
      simp only [heo] at hstep
      cases hstep
      -- not open in the editor: the old entry goes, the new path is registered from disk
      have hwc : ∀ (s : Option Impl.Doc) (x : Option Spec.Doc), Agree s x →
          Agree (Impl.step s (.watchedChanged disk)) x := by
        intro s x hx
        exact step_agree s x x (.watchedChanged disk) hx (by simp [encodeEvent, Spec.lfEvent])
          (by simp [encodeEvent, Spec.step])
      intro v
      cases hso : srv o with
      | none =>
        simp only [Impl.wstep, hso, Impl.Store.set]
        by_cases hvn : v = n
        · simp only [hvn, if_true]; exact hwc _ _ (hag n)
        · simp only [hvn, if_false]; exact hag v
      | some d =>
        have hclosed : d.isOpen = false := by
          have := hag o
          rw [heo, hso] at this
          exact this d rfl
        have hw : Impl.wstep srv (.renamed o n disk) =
            (srv.set o none).set n (Impl.step ((srv.set o none) n) (.watchedChanged disk)) := by
          simp [Impl.wstep, hso, hclosed]
        rw [hw]
        by_cases hvn : v = n
        · subst hvn
          by_cases hno : v = o
          · subst hno
            simp only [Impl.Store.set, if_true]
            rw [heo]
            exact hwc none none agree_none_none
          · simp only [Impl.Store.set, if_true, hno, if_false]
            exact hwc _ _ (hag v)
        · by_cases hvo : v = o
          · subst hvo
            simp only [Impl.Store.set, hvn, if_false, if_true]
            rw [heo]; exact agree_none_none
          · simp only [Impl.Store.set, hvn, hvo, if_false]
            exact hag v

theorem wrun_agree : ∀ (evs : List Impl.WEvent) (srv : Impl.Store) (ed ed' : Spec.Store),
    AgreeAll srv ed →
    Spec.lfWHistory ed (evs.map encodeWEvent) = true →
    Spec.wrun ed (evs.map encodeWEvent) = some ed' →
    AgreeAll (Impl.wrun srv evs) ed' := by
  intro evs
  induction evs with
  | nil =>
    intro srv ed ed' hag _ hrun
    simp [Spec.wrun] at hrun
    subst hrun
    exact hag
  | cons e es ih =>
    intro srv ed ed' hag hg hrun
    simp only [List.map_cons, Spec.wrun] at hrun
    simp only [List.map_cons, Spec.lfWHistory, Bool.and_eq_true] at hg
    cases hstep : Spec.wstep ed (encodeWEvent e) with
    | none => simp [hstep] at hrun
    | some ed1 =>
      simp only [hstep] at hrun hg
      exact ih _ ed1 ed' (wstep_agree srv ed ed1 e hag hg.1 hstep) hg.2 hrun

/-! ### Token deltas -/

theorem lcp_le_left {α : Type} [DecidableEq α] : ∀ (a b : List α), Impl.lcp a b ≤ a.length := by
  intro a
  induction a with
  | nil => intro b; simp [Impl.lcp]
  | cons x xs ih =>
    intro b
    cases b with
    | nil => simp [Impl.lcp]
    | cons y ys =>
      simp only [Impl.lcp]
      split
      · have := ih ys; simp; omega
      · simp

theorem lcp_le_right {α : Type} [DecidableEq α] : ∀ (a b : List α), Impl.lcp a b ≤ b.length := by
  intro a
  induction a with
  | nil => intro b; simp [Impl.lcp]
  | cons x xs ih =>
    intro b
    cases b with
    | nil => simp [Impl.lcp]
    | cons y ys =>
      simp only [Impl.lcp]
      split
      · have := ih ys; simp; omega
      · simp

/-- The first `k ≤ lcp a b` elements agree. -/
theorem take_of_le_lcp {α : Type} [DecidableEq α] :
    ∀ (a b : List α) (k : Nat), k ≤ Impl.lcp a b → a.take k = b.take k := by
  intro a
  induction a with
  | nil => intro b k h; simp [Impl.lcp] at h; simp [h]
  | cons x xs ih =>
    intro b k h
    cases b with
    | nil => simp [Impl.lcp] at h; simp [h]
    | cons y ys =>
      cases k with
      | zero => simp
      | succ k =>
        simp only [Impl.lcp] at h
        split at h
        · rename_i hxy
          subst hxy
          simp [ih ys k (by omega)]
        · omega

/-- The last `k ≤ lcp a.reverse b.reverse` elements agree. -/
theorem drop_of_le_lcp_reverse {α : Type} [DecidableEq α] (a b : List α) (k : Nat)
    (h : k ≤ Impl.lcp a.reverse b.reverse) :
    a.drop (a.length - k) = b.drop (b.length - k) := by
  have h1 := take_of_le_lcp a.reverse b.reverse k h
  have ha : a.drop (a.length - k) = (a.reverse.take k).reverse := by
    rw [List.take_reverse]; simp
  have hb : b.drop (b.length - k) = (b.reverse.take k).reverse := by
    rw [List.take_reverse]; simp
  rw [ha, hb, h1]

theorem split3 {α : Type} (l : List α) (p s : Nat) (h : p + s ≤ l.length) :
    l.take p ++ (l.drop p).take (l.length - s - p) ++ l.drop (l.length - s) = l := by
  have e : l.drop (l.length - s) = (l.drop p).drop (l.length - s - p) := by
    rw [List.drop_drop]; congr 1; omega
  rw [e, List.append_assoc, List.take_append_drop, List.take_append_drop]

theorem applyTokEdits_deltaEdits {α : Type} [DecidableEq α] (previous current : List α) :
    Spec.applyTokEdits previous (Impl.deltaEdits previous current) = current := by
  unfold Impl.deltaEdits
  by_cases heq : previous = current
  · simp [heq, Spec.applyTokEdits]
  · simp only [heq, if_false, Spec.applyTokEdits, Spec.applyTokEdit]
    have hp1 := lcp_le_left previous current
    have hp2 := lcp_le_right previous current
    generalize hpre : Impl.lcp previous current = pre at *
    generalize hsuf : min (min previous.length current.length - pre)
      (Impl.lcp previous.reverse current.reverse) = suf
    have hs1 : suf ≤ Impl.lcp previous.reverse current.reverse := by omega
    have hs2 : pre + suf ≤ previous.length := by omega
    have hs3 : pre + suf ≤ current.length := by omega
    have htake : previous.take pre = current.take pre :=
      take_of_le_lcp previous current pre (by omega)
    have hdrop := drop_of_le_lcp_reverse previous current suf hs1
    have e : pre + (previous.length - (pre + suf)) = previous.length - suf := by omega
    rw [e, htake, hdrop]
    exact split3 current pre suf hs3

/-! ### Token sessions -/

/-- Invariant of a token session: result ids handed out are below the counter, and whenever the
server's cached entry carries the id the editor holds, the cached array IS the editor's array
(ids are drawn from a counter, so an id names one answer). -/
def TokInv {α : Type} (st : TokState α) : Prop :=
  (∀ id prev, st.srv.cache = some (id, prev) → id < st.srv.nextId) ∧
  (∀ id arr, st.held = some (id, arr) →
    id < st.srv.nextId ∧ ∀ prev, st.srv.cache = some (id, prev) → prev = arr)

theorem tokInv_init {α : Type} : TokInv (tokInit : TokState α) := by
  constructor
  · intro id prev h; simp [tokInit] at h
  · intro id arr h; simp [tokInit] at h

/-- What a consumed delta answer leaves in the editor's hands. -/
theorem tokDelta_consumed {α : Type} [DecidableEq α] (srv : Impl.TokSrv α) (hid : Nat)
    (harr cur : List α)
    (hinv : ∀ prev, srv.cache = some (hid, prev) → prev = harr) :
    Spec.tokConsume (some (hid, harr)) (Impl.tokDelta srv hid cur).2 = some (srv.nextId, cur) := by
  unfold Impl.tokDelta
  cases hc : srv.cache with
  | none => simp [Spec.tokConsume]
  | some e =>
    obtain ⟨id, prev⟩ := e
    by_cases hid' : id = hid
    · subst hid'
      have := hinv prev hc
      subst this
      simp [Spec.tokConsume, applyTokEdits_deltaEdits]
    · simp [hid', Spec.tokConsume]

theorem tokDelta_srv {α : Type} [DecidableEq α] (srv : Impl.TokSrv α) (hid : Nat) (cur : List α) :
    (Impl.tokDelta srv hid cur).1 = { nextId := srv.nextId + 1, cache := some (srv.nextId, cur) } := by
  unfold Impl.tokDelta
  cases srv.cache with
  | none => rfl
  | some e =>
    obtain ⟨id, prev⟩ := e
    by_cases h : id = hid <;> simp [h]

/-- After a request that stored `(n, cur)` under a counter that moved to `n + 1`, the invariant
holds for an editor that took the answer `(n, cur)` or kept what it held. -/
theorem tokInv_after {α : Type} (st : TokState α) (cur : List α) (held' : Option (Nat × List α))
    (hinv : TokInv st)
    (hheld : held' = some (st.srv.nextId, cur) ∨ held' = st.held) :
    TokInv { srv := { nextId := st.srv.nextId + 1, cache := some (st.srv.nextId, cur) }, held := held' } := by
  constructor
  · intro id prev h
    simp only [Option.some.injEq, Prod.mk.injEq] at h
    show id < st.srv.nextId + 1
    omega
  · intro id arr h
    simp only at h
    show id < st.srv.nextId + 1 ∧ ∀ prev, some (st.srv.nextId, cur) = some (id, prev) → prev = arr
    rcases hheld with hh | hh
    · rw [hh] at h
      simp only [Option.some.injEq, Prod.mk.injEq] at h
      obtain ⟨h1, h2⟩ := h
      subst h1; subst h2
      refine ⟨by omega, ?_⟩
      intro prev hp
      simp only [Option.some.injEq, Prod.mk.injEq] at hp
      exact hp.2.symm
    · rw [hh] at h
      have := (hinv.2 id arr h).1
      refine ⟨by omega, ?_⟩
      intro prev hp
      simp only [Option.some.injEq, Prod.mk.injEq] at hp
      omega

theorem tokStep_inv {α : Type} [DecidableEq α] (st st' : TokState α) (e : TokEv α)
    (hinv : TokInv st) (h : tokStep st e = some st') : TokInv st' := by
  cases e with
  | full cur c =>
    simp only [tokStep, Impl.tokFull, Option.some.injEq] at h
    subst h
    apply tokInv_after st cur _ hinv
    cases c <;> simp [Spec.tokConsume]
  | delta cur c =>
    simp only [tokStep] at h
    cases hh : st.held with
    | none => simp [hh] at h
    | some hd =>
      obtain ⟨hid, harr⟩ := hd
      simp only [hh, Option.some.injEq] at h
      subst h
      rw [tokDelta_srv]
      apply tokInv_after st cur _ hinv
      cases c with
      | false => right; simp [hh]
      | true =>
        left
        simp only [if_true]
        exact tokDelta_consumed st.srv hid harr cur (hinv.2 hid harr hh).2
  | forget =>
    simp only [tokStep, Impl.tokForget, Option.some.injEq] at h
    subst h
    constructor
    · intro id prev hc; simp at hc
    · intro id arr hh
      exact ⟨(hinv.2 id arr hh).1, by intro prev hc; simp at hc⟩
  | other =>
    simp only [tokStep, Impl.tokOther, Option.some.injEq] at h
    subst h
    constructor
    · intro id prev hc
      have := hinv.1 id prev hc
      simp; omega
    · intro id arr hh
      have := hinv.2 id arr hh
      exact ⟨by simp; omega, this.2⟩

theorem tokRun_inv {α : Type} [DecidableEq α] (evs : List (TokEv α)) (st st' : TokState α)
    (hinv : TokInv st) (h : tokRun st evs = some st') : TokInv st' := by
  induction evs generalizing st with
  | nil => simp only [tokRun, Option.some.injEq] at h; subst h; exact hinv
  | cons e es ih =>
    simp only [tokRun] at h
    cases hs : tokStep st e with
    | none => simp [hs] at h
    | some st1 =>
      simp only [hs] at h
      exact ih st1 (tokStep_inv st st1 e hinv hs) h

theorem tokRun_append {α : Type} [DecidableEq α] (a b : List (TokEv α)) (st st' : TokState α)
    (h : tokRun st (a ++ b) = some st') : ∃ st1, tokRun st a = some st1 ∧ tokRun st1 b = some st' := by
  induction a generalizing st with
  | nil => exact ⟨st, rfl, h⟩
  | cons e es ih =>
    simp only [List.cons_append, tokRun] at h ⊢
    cases hs : tokStep st e with
    | none => simp [hs] at h
    | some st1 => simp only [hs] at h ⊢; exact ih st1 h

/-- The answer the editor consumes leaves it with the tokens of the current text. -/
theorem tokStep_consumed {α : Type} [DecidableEq α] (st st' : TokState α) (cur : List α)
    (e : TokEv α) (he : e = .full cur true ∨ e = .delta cur true)
    (hinv : TokInv st) (h : tokStep st e = some st') : ∃ id, st'.held = some (id, cur) := by
  rcases he with he | he
  · subst he
    simp only [tokStep, Impl.tokFull, Option.some.injEq] at h
    subst h
    exact ⟨st.srv.nextId, by simp [Spec.tokConsume]⟩
  · subst he
    simp only [tokStep] at h
    cases hh : st.held with
    | none => simp [hh] at h
    | some hd =>
      obtain ⟨hid, harr⟩ := hd
      simp only [hh, Option.some.injEq] at h
      subst h
      exact ⟨st.srv.nextId, by
        simp only [if_true]
        exact tokDelta_consumed st.srv hid harr cur (hinv.2 hid harr hh).2⟩

/-! ### Sources by key -/

/-- The per-URI field `analysed` is what the shared database holds for the URI's key. -/
def DbInv (key : Nat → Nat) (st : Impl.KStore) : Prop :=
  ∀ v, st.db (key v) = (st.docs v).map (·.analysed)

theorem db_set_key (key : Nat → Nat) (hk : ∀ a b, key a = key b → a = b)
    (docs : Impl.Store) (db : Impl.Db) (u : Nat) (x : Option Impl.Doc)
    (hinv : ∀ v, db (key v) = (docs v).map (·.analysed)) :
    ∀ v, (db.set (key u) (x.map (·.analysed))) (key v) = ((docs.set u x) v).map (·.analysed) := by
  intro v
  by_cases hv : v = u
  · subst hv; simp [Impl.Db.set, Impl.Store.set]
  · have : key v ≠ key u := fun h => hv (hk _ _ h)
    simp [Impl.Db.set, Impl.Store.set, hv, this, hinv v]

theorem store_set_self (docs : Impl.Store) (u : Nat) : docs.set u (docs u) = docs := by
  funext v
  by_cases hv : v = u
  · subst hv; simp [Impl.Store.set]
  · simp [Impl.Store.set, hv]

theorem dbIndex_inv (key : Nat → Nat) (hk : ∀ a b, key a = key b → a = b)
    (docs : Impl.Store) (db : Impl.Db) (u : Nat) (disk : Option (List Char))
    (hinv : ∀ v, db (key v) = (docs v).map (·.analysed)) :
    ∀ v, (Impl.dbIndex key docs db u disk) (key v) =
      ((docs.set u (Impl.step (docs u) (.watchedChanged disk))) v).map (·.analysed) := by
  cases disk with
  | none => simp only [Impl.dbIndex, Impl.step]; rw [store_set_self]; exact hinv
  | some d =>
    cases hd : docs u with
    | none =>
      simp only [Impl.dbIndex, Impl.step, hd]
      exact db_set_key key hk docs db u (some { text := d, version := 0, isOpen := false, analysed := d }) hinv
    | some doc =>
      simp only [Impl.dbIndex, Impl.step, hd]
      by_cases ho : doc.isOpen = true
      · simp only [ho, if_true]; rw [← hd, store_set_self]; exact hinv
      · simp only [ho]
        by_cases ht : doc.text = d
        · simp only [ht, if_true]
          have : (if False then some doc else some doc) = some doc := by simp
          simp only [Bool.false_eq_true, if_false]
          rw [← hd, store_set_self]; exact hinv
        · simp only [ht, Bool.false_eq_true, if_false]
          exact db_set_key key hk docs db u (some { text := d, version := 0, isOpen := false, analysed := d }) hinv

theorem kstep_inv (key : Nat → Nat) (hk : ∀ a b, key a = key b → a = b) (st : Impl.KStore)
    (e : Impl.WEvent) (hinv : DbInv key st) : DbInv key (Impl.kstep key st e) := by
  unfold DbInv Impl.kstep
  simp only
  cases e with
  | doc u ev =>
    cases ev with
    | didOpen v t =>
      simp only [Impl.dbStep, Impl.wstep, Impl.step]
      exact db_set_key key hk st.docs st.db u (some { text := t, version := v, isOpen := true, analysed := t }) hinv
    | didChange v cs =>
      simp only [Impl.dbStep, Impl.wstep, Impl.step]
      by_cases hc : cs.isEmpty = true
      · simp only [hc, if_true]; rw [store_set_self]; exact hinv
      · simp only [hc, Bool.false_eq_true, if_false]
        cases hd : st.docs u with
        | none => simp only []; rw [← hd, store_set_self]; exact hinv
        | some doc =>
          simp only []
          cases ha : Impl.applyContentChanges doc.text cs with
          | ok t =>
            simp only []
            exact db_set_key key hk st.docs st.db u (some { text := t, version := v, isOpen := true, analysed := t }) hinv
          | rejected => simp only []; rw [← hd, store_set_self]; exact hinv
          | panic => simp only []; rw [← hd, store_set_self]; exact hinv
    | didClose =>
      simp only [Impl.dbStep, Impl.wstep, Impl.step]
      intro w
      by_cases hw : w = u
      · subst hw
        simp only [Impl.Store.set, if_true]
        rw [hinv w]; cases st.docs w <;> simp
      · simp only [Impl.Store.set, hw, if_false]; exact hinv w
    | didSave =>
      simp only [Impl.dbStep, Impl.wstep, Impl.step]; rw [store_set_self]; exact hinv
    | watchedChanged disk =>
      simp only [Impl.dbStep, Impl.wstep]
      exact dbIndex_inv key hk st.docs st.db u disk hinv
    | watchedDeleted =>
      simp only [Impl.dbStep, Impl.wstep, Impl.step]
      cases hd : st.docs u with
      | none => simp only []; rw [← hd, store_set_self]; exact hinv
      | some doc =>
        simp only []
        by_cases ho : doc.isOpen = true
        · simp only [ho, if_true]; rw [← hd, store_set_self]; exact hinv
        · simp only [ho, Bool.false_eq_true, if_false]
          exact db_set_key key hk st.docs st.db u none hinv
  | renamed o n disk =>
    simp only [Impl.dbStep, Impl.wstep]
    cases hd : st.docs o with
    | none => simp only []; exact dbIndex_inv key hk st.docs st.db n disk hinv
    | some d =>
      simp only []
      have h1 := db_set_key key hk st.docs st.db o none hinv
      by_cases ho : d.isOpen = true
      · simp only [ho, if_true]
        have h2 := db_set_key key hk (st.docs.set o none) (st.db.set (key o) none) n none h1
        exact db_set_key key hk ((st.docs.set o none).set n none) (((st.db.set (key o) none).set (key n) none)) n
          (some { d with analysed := d.text }) h2 |> fun h => by
            intro w
            have := h w
            by_cases hw : w = n
            · subst hw; simpa [Impl.Store.set] using this
            · simpa [Impl.Store.set, hw] using this
      · simp only [ho, Bool.false_eq_true, if_false]
        exact dbIndex_inv key hk (st.docs.set o none) (st.db.set (key o) none) n disk h1

theorem krun_inv (key : Nat → Nat) (hk : ∀ a b, key a = key b → a = b) (evs : List Impl.WEvent)
    (st : Impl.KStore) (hinv : DbInv key st) : DbInv key (Impl.krun key st evs) := by
  induction evs generalizing st with
  | nil => exact hinv
  | cons e es ih => exact ih _ (kstep_inv key hk st e hinv)

theorem krun_docs (key : Nat → Nat) (evs : List Impl.WEvent) (st : Impl.KStore) :
    (Impl.krun key st evs).docs = Impl.wrun st.docs evs := by
  induction evs generalizing st with
  | nil => rfl
  | cons e es ih => simp only [Impl.krun, Impl.wrun]; rw [ih]; rfl

theorem sourceKey_injective (a b : Impl.Uri) (h : Impl.sourceKey a = Impl.sourceKey b) : a = b := by
  unfold Impl.sourceKey at h
  split at h <;> split at h
  · rename_i ha hb
    cases a; cases b
    simp_all
  · simp at h
  · simp at h
  · simpa using h

end TrustVerif.C14
