import TrustVerif.Model.C14

namespace TrustVerif.C14

end TrustVerif.C14
