import TrustVerif.Model.C15

/-
Helper lemmas for the C15 theorems: `splitOn` / `joinWith`, the trimming functions, the web formatter's
per-line step.
-/
namespace TrustVerif.C15

/-! ## splitOn / joinWith -/

theorem splitOn_ne_nil (sep : Char) (s : Text) : splitOn sep s ≠ [] := by
  induction s with
  | nil => simp [splitOn]
  | cons c cs ih =>
    unfold splitOn
    split
    · simp
    · split <;> simp

theorem splitOn_append_sep (sep : Char) (l rest : Text) (h : sep ∉ l) :
    splitOn sep (l ++ sep :: rest) = l :: splitOn sep rest := by
  induction l with
  | nil => simp [splitOn]
  | cons c cs ih =>
    have hc : c ≠ sep := by
      intro e; apply h; simp [e]
    have hcs : sep ∉ cs := by
      intro e; apply h; simp [e]
    simp only [List.cons_append]
    rw [splitOn]
    simp only [hc, if_false]
    rw [ih hcs]

theorem splitOn_no_sep (sep : Char) (l : Text) (h : sep ∉ l) : splitOn sep l = [l] := by
  induction l with
  | nil => simp [splitOn]
  | cons c cs ih =>
    have hc : c ≠ sep := by
      intro e; apply h; simp [e]
    have hcs : sep ∉ cs := by
      intro e; apply h; simp [e]
    rw [splitOn]
    simp only [hc, if_false]
    rw [ih hcs]

theorem splitOn_mem_no_sep (sep : Char) (s : Text) : ∀ p ∈ splitOn sep s, sep ∉ p := by
  induction s with
  | nil => simp [splitOn]
  | cons c cs ih =>
    intro p hp
    rw [splitOn] at hp
    split at hp
    · rcases List.mem_cons.mp hp with h | h
      · simp [h]
      · exact ih p h
    · rename_i hc
      split at hp
      · rename_i hd tl heq
        rcases List.mem_cons.mp hp with h | h
        · subst h
          have : sep ∉ hd := ih hd (by rw [heq]; simp)
          intro hm
          rcases List.mem_cons.mp hm with e | e
          · exact hc e.symm
          · exact this e
        · exact ih p (by rw [heq]; simp [h])
      · rename_i heq
        exact absurd heq (splitOn_ne_nil sep cs)

theorem joinWith_splitOn (sep : Char) (s : Text) : joinWith [sep] (splitOn sep s) = s := by
  induction s with
  | nil => simp [splitOn, joinWith]
  | cons c cs ih =>
    rw [splitOn]
    split
    · rename_i hc
      cases hs : splitOn sep cs with
      | nil => exact absurd hs (splitOn_ne_nil sep cs)
      | cons h t =>
        rw [hs] at ih
        simp [joinWith, ih, hc]
    · split
      · rename_i hd tl heq
        rw [heq] at ih
        cases tl with
        | nil => simp [joinWith] at ih ⊢; exact ih
        | cons t2 tl2 => simp [joinWith] at ih ⊢; exact ih
      · rename_i heq
        exact absurd heq (splitOn_ne_nil sep cs)

theorem splitOn_joinWith (sep : Char) (ls : List Text) (hne : ls ≠ []) (h : ∀ l ∈ ls, sep ∉ l) :
    splitOn sep (joinWith [sep] ls) = ls := by
  induction ls with
  | nil => exact absurd rfl hne
  | cons a rest ih =>
    cases rest with
    | nil =>
      simp only [joinWith]
      exact splitOn_no_sep sep a (h a (by simp))
    | cons b rest2 =>
      simp only [joinWith, List.singleton_append, List.append_assoc]
      rw [splitOn_append_sep sep a _ (h a (by simp))]
      rw [ih (by simp) (fun l hl => h l (by simp [hl]))]

theorem splitOn_joinWith_append (sep : Char) (ls : List Text) (rest : Text) (hne : ls ≠ [])
    (h : ∀ l ∈ ls, sep ∉ l) :
    splitOn sep (joinWith [sep] ls ++ sep :: rest) = ls ++ splitOn sep rest := by
  induction ls with
  | nil => exact absurd rfl hne
  | cons a tl ih =>
    cases tl with
    | nil =>
      simp only [joinWith]
      rw [splitOn_append_sep sep a _ (h a (by simp))]
      simp
    | cons b tl2 =>
      simp only [joinWith, List.append_assoc, List.cons_append]
      rw [splitOn_append_sep sep a _ (h a (by simp))]
      have := ih (by simp) (fun l hl => h l (by simp [hl]))
      simp only [List.nil_append, List.cons_append] at this ⊢
      rw [this]

/-! ## white space -/

theorem isBlank_isWs (c : Char) (h : isBlank c = true) : isWs c = true := by
  unfold isBlank at h
  rcases Bool.or_eq_true _ _ |>.mp h with h | h
  · rcases Bool.or_eq_true _ _ |>.mp h with h | h
    · have : c = ' ' := by simpa using h
      subst this; decide
    · have : c = '\t' := by simpa using h
      subst this; decide
  · have : c = '\r' := by simpa using h
    subst this; decide

theorem filter_dropWhile {α} (p q : α → Bool) (h : ∀ x, q x = true → p x = false) (l : List α) :
    (l.dropWhile q).filter p = l.filter p := by
  induction l with
  | nil => simp
  | cons x xs ih =>
    by_cases hq : q x = true
    · simp [hq, ih, h x hq]
    · simp [hq]

theorem nonWs_append (a b : Text) : nonWs (a ++ b) = nonWs a ++ nonWs b := by
  simp [nonWs]

theorem nonWs_trimStart (l : Text) : nonWs (trimStart l) = nonWs l := by
  unfold nonWs trimStart
  exact filter_dropWhile _ _ (fun x hx => by simp [hx]) l

theorem nonWs_trimEndBlanks (l : Text) : nonWs (trimEndBlanks l) = nonWs l := by
  unfold nonWs trimEndBlanks
  rw [List.filter_reverse, filter_dropWhile _ _ (fun x hx => by simp [isBlank_isWs x hx]), List.filter_reverse,
    List.reverse_reverse]

theorem nonWs_webCore (raw : Text) : nonWs (webCore raw) = nonWs raw := by
  unfold webCore
  rw [nonWs_trimStart, nonWs_trimEndBlanks]

theorem nonWs_spaces (n : Nat) : nonWs (spaces n) = [] := by
  unfold nonWs spaces
  rw [List.filter_eq_nil_iff]
  intro a ha
  have : a = ' ' := List.eq_of_mem_replicate ha
  subst this; decide

theorem nonWs_stripCR (l : Text) : nonWs (stripCR l) = nonWs l := by
  unfold stripCR
  split
  · rename_i r heq
    have hl : l = r.reverse ++ ['\r'] := by
      have := congrArg List.reverse heq
      simpa using this
    rw [hl, nonWs_append]
    have : nonWs ['\r'] = [] := by decide
    simp [this]
  · rfl

theorem nonWs_webStepCore (lvl : Nat) (t : Text) : nonWs (webStepCore lvl t).1 = nonWs t := by
  unfold webStepCore
  split
  · rename_i h
    have : t = [] := by simpa using h
    simp [this]
  · split <;> simp [nonWs_append, webIndent, nonWs_spaces]

theorem nonWs_webStep (lvl : Nat) (raw : Text) : nonWs (webStep lvl raw).1 = nonWs raw := by
  unfold webStep
  rw [nonWs_webStepCore, nonWs_webCore]

theorem nonWs_joinWith_nl (ls : List Text) : nonWs (joinWith ['\n'] ls) = (ls.map nonWs).flatten := by
  induction ls with
  | nil => simp [joinWith, nonWs]
  | cons a rest ih =>
    cases rest with
    | nil => simp [joinWith]
    | cons b r2 =>
      simp only [joinWith, nonWs_append, List.map_cons, List.flatten_cons]
      rw [ih]
      have : nonWs ['\n'] = [] := by decide
      simp [this]

theorem nonWs_webLines (lvl : Nat) (raws : List Text) :
    ((webLines lvl raws).map nonWs).flatten = (raws.map nonWs).flatten := by
  induction raws generalizing lvl with
  | nil => simp [webLines]
  | cons r rest ih =>
    simp only [webLines, List.map_cons, List.flatten_cons, nonWs_webStep, ih]

theorem nonWs_rustLines_go (ps : List Text) :
    ((rustLines.go ps).map nonWs).flatten = (ps.map nonWs).flatten := by
  induction ps with
  | nil => simp [rustLines.go]
  | cons a rest ih =>
    cases rest with
    | nil =>
      simp only [rustLines.go]
      split
      · rename_i h
        have : a = [] := by simpa using h
        simp [this, nonWs]
      · simp
    | cons b r2 =>
      simp only [rustLines.go, List.map_cons, List.flatten_cons, nonWs_stripCR]
      have := ih
      simp only [List.map_cons, List.flatten_cons] at this
      rw [this]

theorem nonWs_rustLines (s : Text) : ((rustLines s).map nonWs).flatten = nonWs s := by
  unfold rustLines
  rw [nonWs_rustLines_go, ← nonWs_joinWith_nl, joinWith_splitOn]

/-! ## the kept part of a line (`webCore`) -/

/-- Shape of `webCore raw`: empty, or starts with a non-white-space char and ends with a non-blank. -/
def IsCore (t : Text) : Prop :=
  t = [] ∨ ((∃ c cs, t = c :: cs ∧ isWs c = false) ∧ (∃ x r, t.reverse = x :: r ∧ isBlank x = false))

theorem dropWhile_nil_or_head {α} (p : α → Bool) (l : List α) :
    l.dropWhile p = [] ∨ ∃ c cs, l.dropWhile p = c :: cs ∧ p c = false := by
  induction l with
  | nil => simp
  | cons x xs ih =>
    by_cases hp : p x = true
    · simp only [List.dropWhile_cons, hp, if_true]; exact ih
    · right
      refine ⟨x, xs, ?_, by simpa using hp⟩
      simp [hp]

theorem dropWhile_suffix {α} (p : α → Bool) (l : List α) : ∃ pre, l = pre ++ l.dropWhile p := by
  induction l with
  | nil => exact ⟨[], rfl⟩
  | cons x xs ih =>
    by_cases hp : p x = true
    · obtain ⟨pre, hpre⟩ := ih
      refine ⟨x :: pre, ?_⟩
      simp only [List.dropWhile_cons, hp, if_true, List.cons_append]
      rw [← hpre]
    · exact ⟨[], by simp [hp]⟩

theorem isCore_webCore (raw : Text) : IsCore (webCore raw) := by
  unfold webCore trimStart
  rcases dropWhile_nil_or_head isWs (trimEndBlanks raw) with h | ⟨c, cs, h, hc⟩
  · left; exact h
  · right
    refine ⟨⟨c, cs, h, hc⟩, ?_⟩
    obtain ⟨pre, hpre⟩ := dropWhile_suffix isWs (trimEndBlanks raw)
    rw [h] at hpre
    -- the last char of the suffix is the last char of `trimEndBlanks raw`
    unfold trimEndBlanks at hpre
    rcases dropWhile_nil_or_head isBlank raw.reverse with h2 | ⟨x, r, h2, hx⟩
    · rw [h2] at hpre
      have : pre ++ c :: cs = [] := by simpa using hpre.symm
      simp at this
    · rw [h2] at hpre
      have hrev : (c :: cs).reverse ++ pre.reverse = x :: r := by
        have := congrArg List.reverse hpre
        simp only [List.reverse_reverse, List.reverse_append] at this
        exact this.symm
      rw [h]
      cases hcr : (c :: cs).reverse with
      | nil => simp at hcr
      | cons y ys =>
        rw [hcr] at hrev
        simp only [List.cons_append, List.cons.injEq] at hrev
        exact ⟨y, ys, rfl, by rw [hrev.1]; exact hx⟩

theorem dropWhile_spaces_append (n : Nat) (c : Char) (cs : Text) (hc : isWs c = false) :
    (spaces n ++ c :: cs).dropWhile isWs = c :: cs := by
  induction n with
  | zero => simp [spaces, hc]
  | succ k ih =>
    have : isWs ' ' = true := by decide
    simp only [spaces, List.replicate_succ, List.cons_append, List.dropWhile_cons, this, if_true]
    exact ih

theorem trimEndBlanks_spaces (n : Nat) : trimEndBlanks (spaces n) = [] := by
  unfold trimEndBlanks spaces
  rw [List.reverse_replicate]
  have : (List.replicate n ' ').dropWhile isBlank = [] := by
    induction n with
    | zero => rfl
    | succ k ih =>
      have hb : isBlank ' ' = true := by decide
      simp only [List.replicate_succ, List.dropWhile_cons, hb, if_true]
      exact ih
  rw [this]; rfl

theorem webCore_indent (n : Nat) (t : Text) (h : IsCore t) : webCore (spaces n ++ t) = t := by
  rcases h with h | ⟨⟨c, cs, ht, hc⟩, ⟨x, r, hrev, hx⟩⟩
  · subst h
    unfold webCore
    simp [trimEndBlanks_spaces, trimStart]
  · unfold webCore trimEndBlanks trimStart
    have : (spaces n ++ t).reverse.dropWhile isBlank = (spaces n ++ t).reverse := by
      rw [List.reverse_append, hrev]
      simp [hx]
    rw [this, List.reverse_reverse, ht]
    exact dropWhile_spaces_append n c cs hc

theorem webCore_webStepCore (lvl : Nat) (t : Text) (h : IsCore t) : webCore (webStepCore lvl t).1 = t := by
  unfold webStepCore
  split
  · rename_i he
    have : t = [] := by simpa using he
    subst this
    show webCore [] = []
    decide
  · split
    · exact webCore_indent _ t h
    · exact webCore_indent _ t h

theorem webCore_webStep (lvl : Nat) (raw : Text) : webCore (webStep lvl raw).1 = webCore raw := by
  unfold webStep
  exact webCore_webStepCore lvl _ (isCore_webCore raw)

theorem webStep_idem (lvl : Nat) (raw : Text) : webStep lvl (webStep lvl raw).1 = webStep lvl raw := by
  show webStepCore lvl (webCore (webStep lvl raw).1) = webStepCore lvl (webCore raw)
  rw [webCore_webStep]

theorem webLines_idem (lvl : Nat) (raws : List Text) :
    webLines lvl (webLines lvl raws) = webLines lvl raws := by
  induction raws generalizing lvl with
  | nil => simp [webLines]
  | cons r rest ih =>
    simp only [webLines, webStep_idem, ih]

/-! ## text level: `webFormat` -/

theorem mem_of_mem_dropWhile' {α} (p : α → Bool) (l : List α) (c : α) (h : c ∈ l.dropWhile p) : c ∈ l := by
  obtain ⟨pre, hpre⟩ := dropWhile_suffix p l
  rw [hpre]; simp [h]

theorem mem_stripCR (l : Text) (c : Char) (h : c ∈ stripCR l) : c ∈ l := by
  unfold stripCR at h
  split at h
  · rename_i r heq
    have hl : l = r.reverse ++ ['\r'] := by
      have := congrArg List.reverse heq
      simpa using this
    rw [hl]; simp [h]
  · exact h

theorem mem_webCore (raw : Text) (c : Char) (h : c ∈ webCore raw) : c ∈ raw := by
  unfold webCore trimStart trimEndBlanks at h
  have h1 := mem_of_mem_dropWhile' _ _ _ h
  have h2 : c ∈ raw.reverse.dropWhile isBlank := by simpa using h1
  have h3 := mem_of_mem_dropWhile' _ _ _ h2
  simpa using h3

theorem webStepCore_cases (lvl : Nat) (t : Text) :
    ((webStepCore lvl t).1 = [] ∧ t = []) ∨ (∃ n, (webStepCore lvl t).1 = spaces n ++ t ∧ t ≠ []) := by
  unfold webStepCore
  split
  · rename_i h
    left; exact ⟨rfl, by simpa using h⟩
  · rename_i h
    have hne : t ≠ [] := by simpa using h
    right
    split
    · exact ⟨_, rfl, hne⟩
    · exact ⟨_, rfl, hne⟩

theorem webStep_no_nl (lvl : Nat) (raw : Text) (h : '\n' ∉ raw) : '\n' ∉ (webStep lvl raw).1 := by
  unfold webStep
  rcases webStepCore_cases lvl (webCore raw) with ⟨h1, _⟩ | ⟨n, h1, _⟩
  · rw [h1]; simp
  · rw [h1]
    intro hm
    rcases List.mem_append.mp hm with hm | hm
    · have : '\n' = ' ' := List.eq_of_mem_replicate hm
      exact absurd this (by decide)
    · exact h (mem_webCore raw _ hm)

theorem webLines_no_nl (lvl : Nat) (raws : List Text) (h : ∀ r ∈ raws, '\n' ∉ r) :
    ∀ o ∈ webLines lvl raws, '\n' ∉ o := by
  induction raws generalizing lvl with
  | nil => simp [webLines]
  | cons r rest ih =>
    intro o ho
    simp only [webLines, List.mem_cons] at ho
    rcases ho with ho | ho
    · rw [ho]; exact webStep_no_nl lvl r (h r (by simp))
    · exact ih _ (fun x hx => h x (by simp [hx])) o ho

theorem getLast?_append_ne_nil {α} (a b : List α) (hb : b ≠ []) : (a ++ b).getLast? = b.getLast? := by
  cases b with
  | nil => exact absurd rfl hb
  | cons x xs =>
    rw [List.getLast?_append]
    cases h : (x :: xs).getLast? with
    | none => simp at h
    | some y => simp

theorem webLines_last_ne_cr (lvl : Nat) (raws : List Text)
    (h : ∀ r ∈ raws, (webCore r).getLast? ≠ some '\r') :
    ∀ o ∈ webLines lvl raws, o.getLast? ≠ some '\r' := by
  induction raws generalizing lvl with
  | nil => simp [webLines]
  | cons r rest ih =>
    intro o ho
    simp only [webLines, List.mem_cons] at ho
    rcases ho with ho | ho
    · rw [ho]
      unfold webStep
      rcases webStepCore_cases lvl (webCore r) with ⟨h1, _⟩ | ⟨n, h1, hne⟩
      · rw [h1]; simp
      · rw [h1, getLast?_append_ne_nil _ _ hne]
        exact h r (by simp)
    · exact ih _ (fun x hx => h x (by simp [hx])) o ho

theorem stripCR_eq_self (l : Text) (h : l.getLast? ≠ some '\r') : stripCR l = l := by
  unfold stripCR
  split
  · rename_i r heq
    exfalso
    apply h
    have hl : l = r.reverse ++ ['\r'] := by
      have := congrArg List.reverse heq
      simpa using this
    rw [hl]; simp
  · rfl

theorem rustLines_go_append_nil (outs : List Text) : rustLines.go (outs ++ [[]]) = outs.map stripCR := by
  induction outs with
  | nil => simp [rustLines.go]
  | cons a rest ih =>
    cases rest with
    | nil => simp [rustLines.go]
    | cons b r2 =>
      simp only [List.cons_append, rustLines.go, List.map_cons]
      have := ih
      simp only [List.cons_append, List.map_cons] at this
      rw [this]

theorem rustLines_go_no_nl (ps : List Text) (h : ∀ p ∈ ps, '\n' ∉ p) : ∀ l ∈ rustLines.go ps, '\n' ∉ l := by
  induction ps with
  | nil => simp [rustLines.go]
  | cons a rest ih =>
    cases rest with
    | nil =>
      simp only [rustLines.go]
      split
      · simp
      · intro l hl
        have : l = a := by simpa using hl
        rw [this]; exact h a (by simp)
    | cons b r2 =>
      intro l hl
      simp only [rustLines.go, List.mem_cons] at hl
      rcases hl with hl | hl
      · rw [hl]
        intro hm
        exact h a (by simp) (mem_stripCR a _ hm)
      · exact ih (fun p hp => h p (by simp [hp])) l (by simpa [rustLines.go] using hl)

theorem rustLines_no_nl (s : Text) : ∀ l ∈ rustLines s, '\n' ∉ l := by
  unfold rustLines
  exact rustLines_go_no_nl _ (splitOn_mem_no_sep '\n' s)

theorem joinWith_eq_nil_of_webLines_nil : joinWith ['\n'] ([] : List Text) = [] := rfl

/-- `webFormat` in the form the proofs use. -/
theorem webFormat_eq (s : Text) :
    webFormat s =
      if joinWith ['\n'] (webLines 0 (rustLines s)) = [] then []
      else joinWith ['\n'] (webLines 0 (rustLines s)) ++ ['\n'] := by
  unfold webFormat
  by_cases hf : joinWith ['\n'] (webLines 0 (rustLines s)) = []
  · simp [hf]
  · have hs : s ≠ [] := by
      intro e
      apply hf
      subst e
      decide
    have h1 : (joinWith ['\n'] (webLines 0 (rustLines s))).isEmpty = false := by
      simpa using hf
    have h2 : s.isEmpty = false := by simpa using hs
    simp [hf, h1, h2]

/-! ## whole-line edits -/

theorem splitOn_flatMap_append (xs : List Text) (rest : Text) (h : ∀ x ∈ xs, '\n' ∉ x) :
    splitOn '\n' (xs.flatMap (· ++ ['\n']) ++ rest) = xs ++ splitOn '\n' rest := by
  induction xs with
  | nil => simp
  | cons x tl ih =>
    simp only [List.flatMap_cons, List.append_assoc, List.cons_append]
    rw [splitOn_append_sep '\n' x _ (h x (by simp))]
    simp only [List.nil_append]
    rw [ih (fun y hy => h y (by simp [hy]))]

/-! ## helpers of the property theorems and witness data -/

open TrustVerif.C15.Gen

theorem Cls.mem_all (a : Cls) : a ∈ Cls.all := by
  cases a with
  | k x => cases x <;> decide
  | temporal => decide

theorem formatLineTokensFrom_eq_render (kc : KwCase) (st : Style) (prev : Option Tok) (ts : List Tok) :
    formatLineTokensFrom kc st (prev.map (·.kind)) ts =
      renderFrom (fun a b => shouldGlue a.kind b.kind st) (prev.map (recaseTok kc)) (ts.map (recaseTok kc)) := by
  induction ts generalizing prev with
  | nil => simp [formatLineTokensFrom, renderFrom]
  | cons t rest ih =>
    have := ih (some t)
    simp only [Option.map_some] at this
    cases prev with
    | none => simp [formatLineTokensFrom, renderFrom, sepBefore, recaseTok, this]
    | some p => simp [formatLineTokensFrom, renderFrom, sepBefore, recaseTok, this]

theorem recaseTok_cls (L : LexIface) (kc : KwCase) (t : Tok) (hv : L.valid t) : (recaseTok kc t).cls = t.cls := by
  unfold recaseTok Tok.cls recase
  cases kc with
  | preserve => rfl
  | upper =>
    cases hk : t.isKw with
    | false => simp
    | true =>
      have := L.valid_kw t hv hk
      simp [classify, this]
  | lower =>
    cases hk : t.isKw with
    | false => simp
    | true =>
      have := L.valid_kw t hv hk
      simp [classify, this]

theorem adjAll_of_no_hazards (L : LexIface) (kc : KwCase) (st : Style) (ts : List Tok)
    (hv : ∀ t ∈ ts, L.valid t) (hh : lineHazards st ts = []) :
    AdjAll (fun a b => (fun (a b : Tok) => shouldGlue a.kind b.kind st) a b = true →
        classSafe a.cls b.cls = true) (ts.map (recaseTok kc)) := by
  induction ts with
  | nil => simp [AdjAll]
  | cons a rest ih =>
    cases rest with
    | nil => simp [AdjAll]
    | cons b r2 =>
      simp only [lineHazards, List.append_eq_nil_iff] at hh
      simp only [List.map_cons, AdjAll]
      refine ⟨?_, ?_⟩
      · intro hg
        rw [recaseTok_cls L kc a (hv a (by simp)), recaseTok_cls L kc b (hv b (by simp))]
        have hg' : shouldGlue a.kind b.kind st = true := by simpa [recaseTok] using hg
        cases hc : classSafe a.cls b.cls with
        | true => rfl
        | false =>
          have : gluedUnsafe a.cls b.cls st = true := by
            have ka : a.cls.kind = a.kind := by
              unfold Tok.cls classify; split <;> simp_all [Cls.kind]
            have kb : b.cls.kind = b.kind := by
              unfold Tok.cls classify; split <;> simp_all [Cls.kind]
            simp [gluedUnsafe, ka, kb, hg', hc]
          simp [this] at hh
      · have := ih (fun t ht => hv t (by simp [ht])) hh.2
        simpa [List.map_cons] using this

theorem curIndent_nonneg (cfg : Config) (indent : Int) (toks : List Tok) (hi : 0 ≤ indent) :
    0 ≤ (curIndent cfg indent toks).1 := by
  unfold curIndent
  cases toks.head? with
  | none => exact hi
  | some first =>
    simp only []
    by_cases hd : isDedentToken first = true
    · simp only [hd, if_true]
      cases cfg.endStyle
      · show 0 ≤ max (indent - 1) 0
        omega
      · by_cases he : (!isEndKeyword first) = true
        · simp only [he, if_true]
          show 0 ≤ max (indent - 1) 0
          omega
        · simp only [he, Bool.false_eq_true, if_false]
          exact hi
    · simp only [hd, Bool.false_eq_true, if_false]
      exact hi

theorem nextIndent_nonneg (cur : Int) (d : Bool) (toks : List Tok) (h : 0 ≤ cur) : 0 ≤ nextIndent cur d toks := by
  unfold nextIndent
  cases d <;> simp only [Bool.false_eq_true, if_false, if_true] <;> split <;> omega

theorem renderFrom_false_some (p : Tok) (l : List Tok) (hl : l ≠ []) :
    renderFrom (fun _ _ => false) (some p) l = ' ' :: renderFrom (fun _ _ => false) none l := by
  cases l with
  | nil => exact absurd rfl hl
  | cons x xs => simp [renderFrom]

/-- The one-space fallback is the rendering that glues nothing. -/
theorem spacedLine_eq_render (kc : KwCase) (ts : List Tok) :
    spacedLine ts kc = render (fun _ _ => false) (ts.map (recaseTok kc)) := by
  unfold spacedLine render
  induction ts with
  | nil => rfl
  | cons t rest ih =>
    cases rest with
    | nil => simp [joinWith, renderFrom, recaseTok]
    | cons u r2 =>
      simp only [List.map_cons, joinWith] at ih ⊢
      rw [ih]
      have h1 : ∀ (x : Tok) (l : List Tok),
          renderFrom (fun _ _ => false) none (x :: l) = x.text ++ renderFrom (fun _ _ => false) (some x) l := by
        intro x l; simp [renderFrom]
      rw [h1 (recaseTok kc t), renderFrom_false_some _ _ (by simp)]
      simp [recaseTok]

theorem adjAll_never_glued (P : Tok → Tok → Prop) (ts : List Tok) :
    AdjAll (fun a b => (fun (_ _ : Tok) => false) a b = true → P a b) ts := by
  induction ts with
  | nil => simp [AdjAll]
  | cons a rest ih =>
    cases rest with
    | nil => simp [AdjAll]
    | cons b r2 => exact ⟨fun h => absurd h (by simp), ih⟩

/-- The kept part of a line never ends in a carriage return ('\r' is trimmed with the blanks). -/
theorem webCore_last_ne_cr (raw : Text) : (webCore raw).getLast? ≠ some '\r' := by
  rcases isCore_webCore raw with h | ⟨_, ⟨x, r, hrev, hx⟩⟩
  · rw [h]; simp
  · intro hl
    have : (webCore raw).reverse.head? = some '\r' := by
      rw [List.head?_reverse]; exact hl
    rw [hrev] at this
    simp only [List.head?_cons, Option.some.injEq] at this
    rw [this] at hx
    exact absurd hx (by decide)

def tk (name : String) (kind : K) (text : String) : Tok := { name := name, kind := kind, text := text.toList }

def lineOf (text : String) (toks : List Tok) : LineIn :=
  { text := text.toList, toks := toks, inBlockComment := false, hasLineComment := false, hasPragma := false,
    hasString := false }

def cfgDefault : Config :=
  { indentWidth := 4, insertSpaces := true, kwCase := .preserve, alignVar := true, alignAsg := true,
    maxLen := none, style := .spaced, endStyle := .aligned }

def wrapSrc : Text := txt "foo(aaaaaaaa, bbbbbbbbb, ccccccccc);\nx := 1;\n"

def wrapDoc : Doc :=
  { lines := [
      lineOf "foo(aaaaaaaa, bbbbbbbbb, ccccccccc);"
        [tk "Ident" .Ident "foo", tk "LParen" .LParen "(", tk "Ident" .Ident "aaaaaaaa", tk "Comma" .Comma ",",
         tk "Ident" .Ident "bbbbbbbbb", tk "Comma" .Comma ",", tk "Ident" .Ident "ccccccccc", tk "RParen" .RParen ")",
         tk "Semicolon" .Semicolon ";"],
      lineOf "x := 1;"
        [tk "Ident" .Ident "x", tk "Assign" .Assign ":=", tk "IntLiteral" .IntLiteral "1", tk "Semicolon" .Semicolon ";"],
      lineOf "" []],
    crlf := false, endsNl := true }


/-! ## the alignment and wrapping passes leave verbatim lines alone -/

/-- `y` is `x` except possibly for its text, and the text is kept when `x` is verbatim. -/
def SameBut (x y : OutLine) : Prop :=
  y.inVar = x.inVar ∧ y.colon = x.colon ∧ y.skipAlign = x.skipAlign ∧ (x.verbatim = true → y.text = x.text)

theorem SameBut.refl (x : OutLine) : SameBut x x := ⟨rfl, rfl, rfl, fun _ => rfl⟩

theorem SameBut.setText (x : OutLine) (t : Text) (h : x.verbatim = false) : SameBut x { x with text := t } :=
  ⟨rfl, rfl, rfl, fun hv => by rw [h] at hv; exact absurd hv (by simp)⟩

theorem SameBut.verbatim_eq {x y : OutLine} (h : SameBut x y) : y.verbatim = x.verbatim := by
  unfold OutLine.verbatim; rw [h.2.2.1, h.2.1]

theorem SameBut.trans {x y z : OutLine} (h1 : SameBut x y) (h2 : SameBut y z) : SameBut x z :=
  ⟨h2.1.trans h1.1, h2.2.1.trans h1.2.1, h2.2.2.1.trans h1.2.2.1,
   fun hv => (h2.2.2.2 (by rw [h1.verbatim_eq]; exact hv)).trans (h1.2.2.2 hv)⟩

inductive Rel : List OutLine → List OutLine → Prop
  | nil : Rel [] []
  | cons {x y xs ys} : SameBut x y → Rel xs ys → Rel (x :: xs) (y :: ys)

theorem Rel.refl (l : List OutLine) : Rel l l := by
  induction l with
  | nil => exact Rel.nil
  | cons x xs ih => exact Rel.cons (SameBut.refl x) ih

theorem Rel.append {a b c d : List OutLine} (h1 : Rel a b) (h2 : Rel c d) : Rel (a ++ c) (b ++ d) := by
  induction h1 with
  | nil => exact h2
  | cons hs _ ih => exact Rel.cons hs ih

theorem Rel.map (f : OutLine → OutLine) (l : List OutLine) (h : ∀ x ∈ l, SameBut x (f x)) : Rel l (l.map f) := by
  induction l with
  | nil => exact Rel.nil
  | cons x xs ih => exact Rel.cons (h x (by simp)) (ih (fun y hy => h y (by simp [hy])))

theorem Rel.trans {a b c : List OutLine} (h1 : Rel a b) (h2 : Rel b c) : Rel a c := by
  induction h1 generalizing c with
  | nil => cases h2; exact Rel.nil
  | cons hs _ ih =>
    cases h2 with
    | cons hs2 hr2 => exact Rel.cons (hs.trans hs2) (ih hr2)

theorem Rel.filter_verbatim {a b : List OutLine} (h : Rel a b) :
    (a.filter (·.verbatim)).map (·.text) = (b.filter (·.verbatim)).map (·.text) := by
  induction h with
  | nil => rfl
  | @cons x y xs ys hs _ ih =>
    simp only [List.filter_cons, hs.verbatim_eq]
    cases hv : x.verbatim with
    | false => simpa using ih
    | true =>
      simp only [if_true, List.map_cons, ih, hs.2.2.2 hv]

theorem mem_takeWhile_prop {α} (p : α → Bool) (l : List α) (x : α) (h : x ∈ l.takeWhile p) : p x = true := by
  induction l with
  | nil => simp at h
  | cons y ys ih =>
    by_cases hp : p y = true
    · simp only [List.takeWhile_cons, hp, if_true, List.mem_cons] at h
      rcases h with h | h
      · rw [h]; exact hp
      · exact ih h
    · simp [hp] at h

theorem takeWhile_append_drop_length {α} (p : α → Bool) (l : List α) :
    l.takeWhile p ++ l.drop (l.takeWhile p).length = l := by
  induction l with
  | nil => simp
  | cons y ys ih =>
    by_cases hp : p y = true
    · simp only [List.takeWhile_cons, hp, if_true, List.length_cons, List.drop_succ_cons, List.cons_append]
      rw [ih]
    · simp [hp]

theorem rel_alignVarColons_go (fuel : Nat) (ls : List OutLine) : Rel ls (alignVarColons.go ls fuel) := by
  induction fuel generalizing ls with
  | zero =>
    cases ls with
    | nil => unfold alignVarColons.go; exact Rel.nil
    | cons o rest => unfold alignVarColons.go; exact Rel.refl _
  | succ n ih =>
    cases ls with
    | nil => unfold alignVarColons.go; exact Rel.nil
    | cons o rest =>
      unfold alignVarColons.go
      split
      · exact Rel.cons (SameBut.refl o) (ih rest)
      · have hsplit : (o :: rest) =
            (o :: rest).takeWhile alignVarColons.inGroup ++ (o :: rest).dropWhile alignVarColons.inGroup :=
          (List.takeWhile_append_dropWhile).symm
        simp only []
        conv => lhs; rw [hsplit]
        apply Rel.append _ (ih _)
        split
        · exact Rel.refl _
        · apply Rel.map
          intro x _
          split
          · rename_i c hc
            split
            · exact SameBut.refl x
            · apply SameBut.setText
              unfold OutLine.verbatim
              simp [hc]
          · exact SameBut.refl x

theorem rel_alignAssignOps_go (fuel : Nat) (ls : List OutLine) : Rel ls (alignAssignOps.go ls fuel) := by
  induction fuel generalizing ls with
  | zero =>
    cases ls with
    | nil => unfold alignAssignOps.go; exact Rel.nil
    | cons o rest => unfold alignAssignOps.go; exact Rel.refl _
  | succ n ih =>
    cases ls with
    | nil => unfold alignAssignOps.go; exact Rel.nil
    | cons o rest =>
      unfold alignAssignOps.go
      split
      · exact Rel.cons (SameBut.refl o) (ih rest)
      · rename_i hsk
        split
        · exact Rel.cons (SameBut.refl o) (ih rest)
        · rename_i op0 hop
          simp only []
          generalize hP : (fun (x : OutLine) =>
            !x.skipAlign && leadingWs x.text == leadingWs o.text && (findAssignOp x).isSome) = P
          have hsplit := takeWhile_append_drop_length P rest
          have : o :: rest = (o :: rest.takeWhile P) ++ rest.drop (rest.takeWhile P).length := by
            simp [hsplit]
          conv => lhs; rw [this]
          apply Rel.append _ (ih _)
          apply Rel.map
          intro x hx
          have hxs : x.skipAlign = false := by
            rcases List.mem_cons.mp hx with h | h
            · rw [h]; simpa using hsk
            · have := mem_takeWhile_prop P rest x h
              rw [← hP] at this
              simp only [Bool.and_eq_true, Bool.not_eq_true'] at this
              exact this.1.1
          have hxv : x.verbatim = false := by unfold OutLine.verbatim; simp [hxs]
          split
          · split
            · exact SameBut.setText x _ hxv
            · exact SameBut.refl x
          · exact SameBut.refl x

/-! ## `align_assignment_ops` inserts white space only -/

theorem splitAtByte_append (t : Text) (i : Nat) : (splitAtByte t i).1 ++ (splitAtByte t i).2 = t := by
  induction t generalizing i with
  | nil => simp [splitAtByte]
  | cons c cs ih =>
    unfold splitAtByte
    split
    · simp
    · simp only [List.cons_append, ih]

theorem nonWs_padAt (t : Text) (i n : Nat) : nonWs (padAt t i n) = nonWs t := by
  have h : padAt t i n = (splitAtByte t i).1 ++ spaces n ++ (splitAtByte t i).2 := rfl
  rw [h, nonWs_append, nonWs_append, nonWs_spaces, List.append_nil, ← nonWs_append, splitAtByte_append]

theorem offsetAfter_go_ge (t : Text) (n off : Nat) : off ≤ offsetAfter.go t n off := by
  induction t generalizing n off with
  | nil => simp [offsetAfter.go]
  | cons c cs ih =>
    unfold offsetAfter.go
    split
    · exact Nat.le_trans (Nat.le_add_right _ _) (ih n _)
    · split
      · exact Nat.le_refl _
      · exact Nat.le_trans (Nat.le_add_right _ _) (ih _ _)

theorem nonWs_splitAt_offsetAfter_go (t : Text) (n off : Nat) (hn : n < (nonWs t).length) :
    (nonWs (splitAtByte t (offsetAfter.go t n off - off)).1).length = n := by
  induction t generalizing n off with
  | nil => simp [nonWs] at hn
  | cons c cs ih =>
    have hpos : 0 < c.utf8Size := Char.utf8Size_pos c
    unfold offsetAfter.go
    by_cases hw : isWs c = true
    · have hn' : n < (nonWs cs).length := by simpa [nonWs, List.filter_cons, hw] using hn
      have hge := offsetAfter_go_ge cs n (off + c.utf8Size)
      simp only [hw, if_true]
      unfold splitAtByte
      have hne : ¬ (offsetAfter.go cs n (off + c.utf8Size) - off = 0) := by omega
      simp only [hne, if_false]
      have : offsetAfter.go cs n (off + c.utf8Size) - off - c.utf8Size =
          offsetAfter.go cs n (off + c.utf8Size) - (off + c.utf8Size) := by omega
      rw [this]
      simpa [nonWs, List.filter_cons, hw] using ih n (off + c.utf8Size) hn'
    · simp only [hw, Bool.false_eq_true, if_false]
      cases n with
      | zero => simp [splitAtByte, nonWs]
      | succ m =>
        have hn' : m < (nonWs cs).length := by simpa [nonWs, List.filter_cons, hw] using hn
        have hge := offsetAfter_go_ge cs m (off + c.utf8Size)
        simp only []
        unfold splitAtByte
        have hne : ¬ (offsetAfter.go cs m (off + c.utf8Size) - off = 0) := by omega
        simp only [hne, if_false]
        have : offsetAfter.go cs m (off + c.utf8Size) - off - c.utf8Size =
            offsetAfter.go cs m (off + c.utf8Size) - (off + c.utf8Size) := by omega
        rw [this]
        simpa [nonWs, List.filter_cons, hw] using ih m (off + c.utf8Size) hn'

theorem nonWs_splitAt_offsetAfter (t : Text) (n : Nat) (hn : n < (nonWs t).length) :
    (nonWs (splitAtByte t (offsetAfter t n)).1).length = n := by
  have := nonWs_splitAt_offsetAfter_go t n 0 hn
  simpa [offsetAfter] using this

theorem nonWs_alignAssignOps_go (fuel : Nat) (ls : List OutLine) :
    (alignAssignOps.go ls fuel).map (fun x => nonWs x.text) = ls.map (fun x => nonWs x.text) := by
  induction fuel generalizing ls with
  | zero =>
    cases ls with
    | nil => unfold alignAssignOps.go; rfl
    | cons o rest => unfold alignAssignOps.go; rfl
  | succ n ih =>
    cases ls with
    | nil => unfold alignAssignOps.go; rfl
    | cons o rest =>
      unfold alignAssignOps.go
      split
      · simp only [List.map_cons, ih rest]
      · split
        · simp only [List.map_cons, ih rest]
        · rename_i op0 hop
          simp only []
          generalize hP : (fun (x : OutLine) =>
            !x.skipAlign && leadingWs x.text == leadingWs o.text && (findAssignOp x).isSome) = P
          have hsplit := takeWhile_append_drop_length P rest
          have : o :: rest = (o :: rest.takeWhile P) ++ rest.drop (rest.takeWhile P).length := by
            simp [hsplit]
          conv => rhs; rw [this]
          rw [List.map_append, List.map_append, ih, List.map_map]
          congr 1
          apply List.map_congr_left
          intro x _
          simp only [Function.comp]
          split
          · split
            · exact nonWs_padAt _ _ _
            · rfl
          · rfl

theorem rel_alignedLines (cfg : Config) (ls : List OutLine) : Rel ls (alignedLines cfg ls) := by
  unfold alignedLines
  cases cfg.alignVar <;> cases cfg.alignAsg
  · exact Rel.refl _
  · exact rel_alignAssignOps_go _ _
  · exact rel_alignVarColons_go _ _
  · exact (rel_alignVarColons_go _ _).trans (rel_alignAssignOps_go _ _)

theorem sublist_filter_flatMap {α β} (p : α → Bool) (f : α → β) (g : α → List β) (l : List α)
    (h : ∀ x, p x = true → g x = [f x]) : ((l.filter p).map f).Sublist (l.flatMap g) := by
  induction l with
  | nil => simp
  | cons x xs ih =>
    simp only [List.filter_cons, List.flatMap_cons]
    cases hp : p x with
    | false =>
      simp only [Bool.false_eq_true, if_false]
      exact List.Sublist.trans ih (List.sublist_append_right _ _)
    | true =>
      simp only [if_true, List.map_cons, h x hp, List.singleton_append]
      exact List.Sublist.cons_cons _ ih

theorem Rel.length {a b : List OutLine} (h : Rel a b) : b.length = a.length := by
  induction h with
  | nil => rfl
  | cons _ _ ih => simp [ih]

theorem runLines_length (cfg : Config) (ls : List LineIn) (st : St) (outs : List OutLine)
    (h : runLines cfg st ls = some outs) : outs.length = ls.length := by
  induction ls generalizing st outs with
  | nil =>
    simp only [runLines, Option.some.injEq] at h
    subst h
    rfl
  | cons l rest ih =>
    unfold runLines at h
    split at h
    · exact absurd h (by simp)
    · rename_i o st' _
      split at h
      · exact absurd h (by simp)
      · rename_i os hos
        simp only [Option.some.injEq] at h
        rw [← h]
        simp [ih st' os hos]


end TrustVerif.C15
