import TrustVerif.Model.C16

namespace TrustVerif.C16

end TrustVerif.C16
