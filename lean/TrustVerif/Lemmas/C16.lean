import TrustVerif.Model.C16

/-!
Helper lemmas for C16: case-insensitive equality, how the structural candidate lists change under
`applyRename` (they are mapped through `renameDecl`), and the lookup-stability lemma behind
binding preservation.
-/
namespace TrustVerif.C16

/-! ## eqv -/

theorem eqv_iff {a b : Name} : eqv a b = true ↔ norm a = norm b := by
  simp [eqv]

theorem eqv_refl (a : Name) : eqv a a = true := by simp [eqv]

theorem eqv_symm {a b : Name} : eqv a b = eqv b a := by
  unfold eqv
  exact BEq.comm

theorem eqv_trans {a b c : Name} (h1 : eqv a b = true) (h2 : eqv b c = true) : eqv a c = true := by
  rw [eqv_iff] at *; exact h1.trans h2

/-- equivalent names are interchangeable as lookup keys -/
theorem eqv_congr_right {a b : Name} (h : eqv a b = true) (c : Name) : eqv c a = eqv c b := by
  rw [eqv_iff] at h
  simp [eqv, h]

theorem eqv_congr_left {a b : Name} (h : eqv a b = true) (c : Name) : eqv a c = eqv b c := by
  rw [eqv_iff] at h
  simp [eqv, h]

/-! ## renameDecl -/

section rename
variable (d : Decl) (n : Name)

@[simp] theorem renameDecl_id (c : Decl) : (renameDecl d n c).id = c.id := by
  unfold renameDecl; split <;> rfl
@[simp] theorem renameDecl_file (c : Decl) : (renameDecl d n c).file = c.file := by
  unfold renameDecl; split <;> rfl
@[simp] theorem renameDecl_scope (c : Decl) : (renameDecl d n c).scope = c.scope := by
  unfold renameDecl; split <;> rfl
@[simp] theorem renameDecl_kind (c : Decl) : (renameDecl d n c).kind = c.kind := by
  unfold renameDecl; split <;> rfl
@[simp] theorem renameDecl_tyocc (c : Decl) : (renameDecl d n c).tyocc = c.tyocc := by
  unfold renameDecl; split <;> rfl

theorem renameDecl_name (c : Decl) : (renameDecl d n c).name = if c.id = d.id then n else c.name := by
  unfold renameDecl
  by_cases h : c.id = d.id <;> simp [h]

theorem renameDecl_of_ne {c : Decl} (h : c.id ≠ d.id) : renameDecl d n c = c := by
  unfold renameDecl; simp [h]

@[simp] theorem renameOccName_file (P : Project) (o : Occ) : (renameOccName P d n o).file = o.file := by
  unfold renameOccName; split <;> rfl
@[simp] theorem renameOccName_scope (P : Project) (o : Occ) : (renameOccName P d n o).scope = o.scope := by
  unfold renameOccName; split <;> rfl
@[simp] theorem renameOccName_kind (P : Project) (o : Occ) : (renameOccName P d n o).kind = o.kind := by
  unfold renameOccName; split <;> rfl
@[simp] theorem renameOccName_link (P : Project) (o : Occ) : (renameOccName P d n o).link = o.link := by
  unfold renameOccName; split <;> rfl
@[simp] theorem renameOccName_pre (P : Project) (o : Occ) : (renameOccName P d n o).pre = o.pre := by
  unfold renameOccName; split <;> rfl

theorem renameOccName_name (P : Project) (o : Occ) :
    (renameOccName P d n o).name = if refsTo P d o then n else o.name := by
  unfold renameOccName; split <;> rfl

/-! ## structure is preserved, candidate lists are mapped -/

@[simp] theorem applyRename_scopes (P : Project) : (applyRename P d n).scopes = P.scopes := rfl
@[simp] theorem applyRename_tails (P : Project) : (applyRename P d n).tails = P.tails := rfl
@[simp] theorem applyRename_decls (P : Project) : (applyRename P d n).decls = P.decls.map (renameDecl d n) := rfl
@[simp] theorem applyRename_occs (P : Project) : (applyRename P d n).occs = P.occs.map (renameOccName P d n) := rfl

theorem declsIn_rename (P : Project) (s : Nat) :
    declsIn (applyRename P d n) s = (declsIn P s).map (renameDecl d n) := by
  simp only [declsIn, applyRename_decls, List.filter_map]
  have : ((fun c : Decl => c.scope == s) ∘ renameDecl d n) = (fun c => c.scope == s) := by
    funext c; simp [Function.comp]
  rw [this]

theorem globalView_rename (P : Project) (f : Nat) :
    globalView (applyRename P d n) f = (globalView P f).map (renameDecl d n) := by
  simp only [globalView, applyRename_decls, List.filter_map, List.map_append]
  have h1 : ((fun c : Decl => c.scope == 0 && c.file == f) ∘ renameDecl d n) = (fun c => c.scope == 0 && c.file == f) := by
    funext c; simp [Function.comp]
  have h2 : ((fun c : Decl => c.scope == 0 && c.file != f && c.kind != .var && c.kind != .enumval) ∘ renameDecl d n) =
      (fun c => c.scope == 0 && c.file != f && c.kind != .var && c.kind != .enumval) := by
    funext c; simp [Function.comp]
  rw [h1, h2]

theorem cands_rename (P : Project) (f s : Nat) :
    cands (applyRename P d n) f s = (cands P f s).map (renameDecl d n) := by
  simp only [cands, applyRename_scopes, List.map_append, globalView_rename, List.map_flatMap]
  congr 1
  congr 1
  funext t
  exact declsIn_rename d n P t

theorem scopeOwnedBy_rename (P : Project) (i : Nat) :
    scopeOwnedBy (applyRename P d n) i = scopeOwnedBy P i := rfl

theorem membersOf_rename (P : Project) (T : Decl) :
    membersOf (applyRename P d n) (renameDecl d n T) = (membersOf P T).map (renameDecl d n) := by
  simp only [membersOf, renameDecl_id, scopeOwnedBy_rename]
  cases scopeOwnedBy P T.id with
  | none => rfl
  | some s => exact declsIn_rename d n P s

end rename

/-! ## lookup stability -/

theorem lookup_nil (k : Name) : lookup [] k = none := rfl

theorem lookup_mem {L : List Decl} {k : Name} {c : Decl} (h : lookup L k = some c) : c ∈ L :=
  List.mem_of_find?_eq_some h

theorem lookup_eqv {L : List Decl} {k : Name} {c : Decl} (h : lookup L k = some c) : eqv c.name k = true := by
  unfold lookup at h
  exact List.find?_some (p := fun (c : Decl) => eqv c.name k) h

/-- unique ids: a declaration of the project with `d`'s id is `d` -/
def UniqueIds (P : Project) : Prop := ∀ a ∈ P.decls, ∀ b ∈ P.decls, a.id = b.id → a = b

theorem lookup_map_rename (d : Decl) (n : Name) (L : List Decl) (k' : Name) :
    lookup (L.map (renameDecl d n)) k' =
      (L.find? (fun c => eqv (renameDecl d n c).name k')).map (renameDecl d n) := by
  simp only [lookup, List.find?_map]
  rfl

/-- pointwise equal predicates on the list give the same `find?` -/
theorem find?_congr' {α} {p q : α → Bool} {L : List α} (h : ∀ c ∈ L, p c = q c) : L.find? p = L.find? q := by
  induction L with
  | nil => rfl
  | cons a L ih =>
    have ha : p a = q a := h a (List.mem_cons_self)
    have ih' := ih (fun c hc => h c (List.mem_cons_of_mem _ hc))
    simp [List.find?_cons, ha, ih']

/-- Case-only rename (`n ≡ old`): every lookup with an equivalent key gives the same answer. -/
theorem find?_rename_same (d : Decl) (n : Name) (hn : eqv n d.name = true)
    (L : List Decl) (hL : ∀ c ∈ L, c.id = d.id → c = d) (k k' : Name) (hk : eqv k' k = true) :
    L.find? (fun c => eqv (renameDecl d n c).name k') = L.find? (fun c => eqv c.name k) := by
  apply find?_congr'
  intro c hc
  rw [renameDecl_name]
  by_cases h : c.id = d.id
  · have : c = d := hL c hc h
    subst this
    simp only [if_true]
    rw [eqv_congr_right hk, eqv_congr_left hn]
  · simp only [h, if_false]
    exact eqv_congr_right hk _

/-- [A] an edited occurrence (it found `d`) still finds `d` under the new name when nothing called
`n` precedes `d`. -/
theorem find?_rename_edited (d : Decl) (n : Name) (L : List Decl)
    (hL : ∀ c ∈ L, c.id = d.id → c = d) (k : Name)
    (hfound : L.find? (fun c => eqv c.name k) = some d)
    (hA : (L.takeWhile (fun c => c != d)).all (fun c => !eqv c.name n) = true) :
    L.find? (fun c => eqv (renameDecl d n c).name n) = some d := by
  induction L with
  | nil => simp at hfound
  | cons a L ih =>
    by_cases had : a = d
    · subst had
      simp [renameDecl_name, eqv_refl]
    · have hid : a.id ≠ d.id := fun e => had (hL a List.mem_cons_self e)
      have hne : (a != d) = true := by simp [had]
      rw [List.takeWhile_cons] at hA
      simp only [hne, if_true, List.all_cons, Bool.and_eq_true] at hA
      have hpa : eqv a.name k = false := by
        cases hp : eqv a.name k with
        | false => rfl
        | true =>
          rw [List.find?_cons] at hfound
          simp only [hp] at hfound
          exact absurd (Option.some.inj hfound) had
      rw [List.find?_cons] at hfound
      simp only [hpa] at hfound
      rw [List.find?_cons]
      have : eqv (renameDecl d n a).name n = false := by
        rw [renameDecl_of_ne d n hid]
        simpa using hA.1
      simp only [this]
      exact ih (fun c hc => hL c (List.mem_cons_of_mem _ hc)) hfound hA.2

/-- [B] an unedited occurrence called `n` keeps its answer when `d` does not precede that answer. -/
theorem find?_rename_newname (d : Decl) (n : Name) (L : List Decl)
    (hL : ∀ c ∈ L, c.id = d.id → c = d) (k : Name)
    (hold : eqv d.name k = false)
    (hB : (L.takeWhile (fun c => !eqv c.name k)).all (fun c => c != d) = true) :
    L.find? (fun c => eqv (renameDecl d n c).name k) = L.find? (fun c => eqv c.name k) := by
  induction L with
  | nil => rfl
  | cons a L ih =>
    have hL' : ∀ c ∈ L, c.id = d.id → c = d := fun c hc => hL c (List.mem_cons_of_mem _ hc)
    cases hp : eqv a.name k with
    | true =>
      have had : a ≠ d := by
        intro e; subst e; rw [hp] at hold; exact Bool.noConfusion hold
      have hid : a.id ≠ d.id := fun e => had (hL a List.mem_cons_self e)
      simp [renameDecl_of_ne d n hid, hp]
    | false =>
      rw [List.takeWhile_cons] at hB
      simp only [hp, Bool.not_false, if_true, List.all_cons, Bool.and_eq_true] at hB
      have had : a ≠ d := by simpa using hB.1
      have hid : a.id ≠ d.id := fun e => had (hL a List.mem_cons_self e)
      simp only [List.find?_cons, renameDecl_of_ne d n hid, hp]
      exact ih hL' hB.2

/-- [D] an unedited occurrence whose lookup does not find `d` and whose key is not the new name keeps
its answer. -/
theorem find?_rename_other (d : Decl) (n : Name) (L : List Decl)
    (hL : ∀ c ∈ L, c.id = d.id → c = d) (k : Name)
    (hnew : eqv n k = false)
    (hnot : L.find? (fun c => eqv c.name k) ≠ some d) :
    L.find? (fun c => eqv (renameDecl d n c).name k) = L.find? (fun c => eqv c.name k) := by
  induction L with
  | nil => rfl
  | cons a L ih =>
    have hL' : ∀ c ∈ L, c.id = d.id → c = d := fun c hc => hL c (List.mem_cons_of_mem _ hc)
    by_cases had : a = d
    · subst had
      cases hp : eqv a.name k with
      | true => simp [hp] at hnot
      | false =>
        rw [List.find?_cons, List.find?_cons] at *
        simp only [hp] at hnot ⊢
        have : eqv (renameDecl a n a).name k = false := by
          rw [renameDecl_name]; simp [hnew]
        simp only [this]
        exact ih hL' hnot
    · have hid : a.id ≠ d.id := fun e => had (hL a List.mem_cons_self e)
      cases hp : eqv a.name k with
      | true => simp [renameDecl_of_ne d n hid, hp]
      | false =>
        rw [List.find?_cons] at hnot
        simp only [hp] at hnot
        simp only [List.find?_cons, renameDecl_of_ne d n hid, hp]
        exact ih hL' hnot

/-- **Lookup stability.**  Under `stableQ`, renaming `d` to `n` maps the answer of the lookup through
`renameDecl` (so the denoted declaration id is unchanged).  `edited` must tell whether the lookup finds `d`. -/
theorem lookup_stable (d : Decl) (n : Name) (L : List Decl)
    (hL : ∀ c ∈ L, c.id = d.id → c = d) (k : Name) (edited : Bool)
    (hed : edited = true → lookup L k = some d)
    (hned : edited = false → lookup L k ≠ some d)
    (hst : stableQ d n L k edited = true) :
    lookup (L.map (renameDecl d n)) (if edited then n else k) = (lookup L k).map (renameDecl d n) := by
  rw [lookup_map_rename]
  congr 1
  unfold stableQ at hst
  by_cases hsame : eqv n d.name = true
  · -- case-only rename
    apply find?_rename_same d n hsame L hL
    cases edited with
    | false => exact eqv_refl k
    | true =>
      have hk : eqv d.name k = true := lookup_eqv (hed rfl)
      exact eqv_trans hsame hk
  · simp only [hsame] at hst
    cases edited with
    | true =>
      simp only [if_true] at hst ⊢
      have hfound := hed rfl
      rw [find?_rename_edited d n L hL k hfound hst]
      exact hfound.symm
    | false =>
      have hnot := hned rfl
      simp only [Bool.false_eq_true, if_false] at hst ⊢
      by_cases hkn : eqv k n = true
      · simp only [hkn, if_true] at hst
        have hold : eqv d.name k = false := by
          cases h : eqv d.name k with
          | false => rfl
          | true =>
            have : eqv n d.name = true := by
              rw [eqv_symm]; exact eqv_trans h hkn
            exact absurd this hsame
        exact find?_rename_newname d n L hL k hold hst
      · have hnew : eqv n k = false := by
          rw [eqv_symm]; simpa using hkn
        exact find?_rename_other d n L hL k hnew hnot

/-! ## well-formedness consequences -/

theorem wf_ids {P : Project} (h : wf P = true) : P.decls.map (·.id) = List.range P.decls.length := by
  unfold wf at h
  simp only [Bool.and_eq_true, beq_iff_eq] at h
  exact h.1.1.1

theorem uniqueIds_of_wf {P : Project} (h : wf P = true) : UniqueIds P := by
  intro a ha b hb hab
  have hids := wf_ids h
  obtain ⟨i, hi, rfl⟩ := List.mem_iff_getElem.mp ha
  obtain ⟨j, hj, rfl⟩ := List.mem_iff_getElem.mp hb
  have h1 : (P.decls.map (·.id))[i]'(by simpa using hi) = i := by
    simp only [hids]; exact List.getElem_range _
  have h2 : (P.decls.map (·.id))[j]'(by simpa using hj) = j := by
    simp only [hids]; exact List.getElem_range _
  rw [List.getElem_map] at h1 h2
  have : i = j := by rw [← h1, ← h2]; exact hab
  subst this
  rfl

def TypesGlobal (P : Project) : Prop := ∀ c ∈ P.decls, isType c.kind = true → c.scope = 0

theorem typesGlobal_of_wf {P : Project} (h : wf P = true) : TypesGlobal P := by
  unfold wf at h
  simp only [Bool.and_eq_true, List.all_eq_true] at h
  intro c hc ht
  have := h.1.1.2 c hc
  simpa [ht] using this

theorem wf_mem_base {P : Project} (h : wf P = true) {o b : Occ} (ho : o ∈ P.occs) (hk : o.kind = .mem)
    (hb : baseOf P o = some b) : b.kind = .ref := by
  unfold wf at h
  simp only [Bool.and_eq_true, List.all_eq_true] at h
  have := (h.1.2 o ho).1
  simpa [hk, hb] using this

theorem wf_arg_base {P : Project} (h : wf P = true) {o c : Occ} (ho : o ∈ P.occs) (hk : o.kind = .arg)
    (hb : baseOf P o = some c) : c.kind = .ref ∨ c.kind = .mem := by
  unfold wf at h
  simp only [Bool.and_eq_true, List.all_eq_true] at h
  have := (h.1.2 o ho).2
  simpa [hk, hb] using this

theorem wf_tyocc {P : Project} (h : wf P = true) {v : Decl} (hv : v ∈ P.decls) {ti : Nat} {t : Occ}
    (h1 : v.tyocc = some ti) (h2 : P.occs[ti]? = some t) : t.kind = .typ := by
  unfold wf at h
  simp only [Bool.and_eq_true, List.all_eq_true] at h
  have := h.2 v hv
  simpa [h1, h2] using this

theorem baseOf_mem {P : Project} {o b : Occ} (h : baseOf P o = some b) : b ∈ P.occs := by
  unfold baseOf at h
  cases hl : o.link with
  | none => simp [hl] at h
  | some bi => simp only [hl] at h; exact List.mem_of_getElem? h

/-! ## candidate lists only contain declarations of the project -/

theorem declsIn_sub (P : Project) (s : Nat) : ∀ c ∈ declsIn P s, c ∈ P.decls := by
  intro c hc; exact (List.mem_filter.mp hc).1

theorem globalView_sub (P : Project) (f : Nat) : ∀ c ∈ globalView P f, c ∈ P.decls := by
  intro c hc
  simp only [globalView, List.mem_append, List.mem_filter] at hc
  rcases hc with h | h <;> exact h.1

theorem cands_sub (P : Project) (f s : Nat) : ∀ c ∈ cands P f s, c ∈ P.decls := by
  intro c hc
  simp only [cands, List.mem_append, List.mem_flatMap] at hc
  rcases hc with ⟨t, _, h⟩ | h
  · exact declsIn_sub P t c h
  · exact globalView_sub P f c h

theorem membersOf_sub (P : Project) (T : Decl) : ∀ c ∈ membersOf P T, c ∈ P.decls := by
  intro c hc
  unfold membersOf at hc
  cases h : scopeOwnedBy P T.id with
  | none => simp [h] at hc
  | some s => simp only [h] at hc; exact declsIn_sub P s c hc

theorem resolveName_mem {P : Project} {o : Occ} {c : Decl} (h : resolveName P o = some c) : c ∈ P.decls :=
  cands_sub P _ _ c (lookup_mem h)

theorem typeFallback_mem {P : Project} {o : Occ} {c : Decl} (h : typeFallback P o = some c) : c ∈ P.decls := by
  unfold typeFallback at h
  cases hl : lookup (globalView P o.file) o.name with
  | none => simp [hl] at h
  | some x =>
    simp only [hl, Option.filter] at h
    split at h
    · cases h; exact globalView_sub P _ _ (lookup_mem hl)
    · cases h

theorem resolveType_mem {P : Project} {o : Occ} {c : Decl} (h : resolveType P o = some c) : c ∈ P.decls := by
  unfold resolveType at h
  split at h
  · next x hx =>
    split at h
    · cases h; exact resolveName_mem hx
    · exact typeFallback_mem h
  · exact typeFallback_mem h

theorem typeOfDecl_mem {P : Project} {v T : Decl} (h : typeOfDecl P v = some T) : T ∈ P.decls := by
  unfold typeOfDecl at h
  split at h
  · cases h
  · split at h
    · cases h
    · exact resolveType_mem h

theorem memberList_sub (P : Project) (b : Occ) : ∀ c ∈ memberList P b, c ∈ P.decls := by
  intro c hc
  unfold memberList at hc
  split at hc
  · simp at hc
  · split at hc
    · simp at hc
    · split at hc
      · simp at hc
      · exact membersOf_sub P _ c hc

theorem resolveMember_mem {P : Project} {o : Occ} {c : Decl} (h : resolveMember P o = some c) : c ∈ P.decls := by
  unfold resolveMember at h
  split at h
  · cases h
  · exact memberList_sub P _ c (lookup_mem h)

theorem resolveCallee_mem {P : Project} {o : Occ} {c : Decl} (h : resolveCallee P o = some c) : c ∈ P.decls := by
  unfold resolveCallee at h
  split at h
  · exact resolveMember_mem h
  · exact resolveName_mem h

theorem paramList_sub (P : Project) (c0 : Occ) : ∀ c ∈ paramList P c0, c ∈ P.decls := by
  intro c hc
  unfold paramList at hc
  split at hc
  · simp at hc
  · simp only at hc
    split at hc
    · simp at hc
    · exact membersOf_sub P _ c (List.mem_filter.mp hc).1

theorem resolveArg_mem {P : Project} {o : Occ} {c : Decl} (h : resolveArg P o = some c) : c ∈ P.decls := by
  unfold resolveArg at h
  split at h
  · cases h
  · exact paramList_sub P _ c (lookup_mem h)

theorem resolveCTask_mem {P : Project} {o : Occ} {c : Decl} (h : resolveCTask P o = some c) : c ∈ P.decls :=
  declsIn_sub P _ c (List.mem_filter.mp (lookup_mem h)).1

theorem resolveCProg_mem {P : Project} {o : Occ} {c : Decl} (h : resolveCProg P o = some c) : c ∈ P.decls := by
  unfold resolveCProg at h
  cases hl : lookup (globalView P o.file) o.name with
  | none => simp [hl] at h
  | some x =>
    simp only [hl, Option.filter] at h
    split at h
    · cases h; exact globalView_sub P _ _ (lookup_mem hl)
    · cases h

theorem finalList_sub (P : Project) (o : Occ) : ∀ c ∈ finalList P o, c ∈ P.decls := by
  intro c hc
  unfold finalList at hc
  split at hc
  · simp at hc
  · exact cands_sub P _ _ c hc
  · exact globalView_sub P _ c hc
  · split at hc
    · simp at hc
    · exact memberList_sub P _ c hc
  · split at hc
    · simp at hc
    · exact paramList_sub P _ c hc
  · exact declsIn_sub P _ c (List.mem_filter.mp hc).1
  · exact globalView_sub P _ c hc
  · simp at hc

/-! ## the type-name lookup under `TypesGlobal` -/

theorem chain_ne_zero (scopes : List Scope) : ∀ fuel s t, t ∈ chain scopes fuel s → t ≠ 0 := by
  intro fuel
  induction fuel with
  | zero => intro s t h; simp [chain] at h
  | succ fuel ih =>
    intro s t h
    unfold chain at h
    split at h
    · simp at h
    · next hs =>
      split at h
      · simp at h
      · simp only [List.mem_cons] at h
        rcases h with h | h
        · subst h; exact hs
        · exact ih _ _ h

/-- a type symbol is never found in the local part of the scope chain -/
theorem resolveName_type_global {P : Project} (hT : TypesGlobal P) {o : Occ} {c : Decl}
    (h : resolveName P o = some c) (hc : isType c.kind = true) :
    lookup (globalView P o.file) o.name = some c := by
  unfold resolveName lookup cands at h
  rw [List.find?_append, Option.or_eq_some_iff] at h
  rcases h with h | ⟨_, h⟩
  · exfalso
    have hm := List.mem_of_find?_eq_some h
    simp only [List.mem_flatMap] at hm
    obtain ⟨t, ht, hct⟩ := hm
    have hne := chain_ne_zero _ _ _ _ ht
    have hs : c.scope = t := by
      have := (List.mem_filter.mp hct).2
      simpa using this
    have h0 := hT c (declsIn_sub P t c hct) hc
    omega
  · exact h

theorem resolveType_eq_fallback {P : Project} (hT : TypesGlobal P) (o : Occ) :
    resolveType P o = typeFallback P o := by
  unfold resolveType
  split
  · next c hc =>
    split
    · next ht =>
      have := resolveName_type_global hT hc ht
      simp [typeFallback, this, Option.filter, ht]
    · rfl
  · rfl

theorem typesGlobal_rename (d : Decl) (n : Name) {P : Project} (hT : TypesGlobal P) :
    TypesGlobal (applyRename P d n) := by
  intro c hc ht
  simp only [applyRename_decls, List.mem_map] at hc
  obtain ⟨c0, hc0, rfl⟩ := hc
  simp only [renameDecl_kind, renameDecl_scope] at *
  exact hT c0 hc0 ht

/-! ## binding preservation -/

section preservation
variable {P : Project} {d : Decl} {n : Name}

theorem occs_getElem?_rename (P : Project) (d : Decl) (n : Name) (i : Nat) :
    (applyRename P d n).occs[i]? = (P.occs[i]?).map (renameOccName P d n) := by
  simp [applyRename_occs, List.getElem?_map]

theorem baseOf_rename (P : Project) (d : Decl) (n : Name) (o : Occ) :
    baseOf (applyRename P d n) (renameOccName P d n o) = (baseOf P o).map (renameOccName P d n) := by
  unfold baseOf
  simp only [renameOccName_link]
  cases o.link with
  | none => rfl
  | some bi => exact occs_getElem?_rename P d n bi

theorem comp_renameDecl (d : Decl) (n : Name) (q : Decl → Bool) (hq : ∀ c, q (renameDecl d n c) = q c) :
    q ∘ renameDecl d n = q := funext hq

theorem declById_rename (P : Project) (d : Decl) (n : Name) (i : Nat) :
    declById (applyRename P d n) i = (declById P i).map (renameDecl d n) := by
  simp only [declById, applyRename_decls, List.find?_map]
  rw [comp_renameDecl d n _ (by intro c; simp)]

/-- the list-level facts every preservation proof needs -/
structure Ctx (P : Project) (d : Decl) (n : Name) : Prop where
  wf : wf P = true
  hd : d ∈ P.decls
  clash : noClash P d n = true
  blind : noBlind P d = true

theorem Ctx.uniq (h : Ctx P d n) : ∀ L : List Decl, (∀ c ∈ L, c ∈ P.decls) → ∀ c ∈ L, c.id = d.id → c = d :=
  fun _ hL c hc hid => uniqueIds_of_wf h.wf c (hL c hc) d h.hd hid

theorem id_eq_of_map_id {P : Project} (hw : wf P = true) {d c : Decl} (hd : d ∈ P.decls) (hc : c ∈ P.decls)
    (h : c.id = d.id) : c = d := uniqueIds_of_wf hw c hc d hd h

/-- an occurrence the implementation reports really looks `d` up (soundness of `refsTo`) -/
theorem refsTo_lookup (h : Ctx P d n) {o : Occ} (hk : o.kind ≠ .decl) (hr : refsTo P d o = true) :
    lookup (finalList P o) o.name = some d := by
  have hT := typesGlobal_of_wf h.wf
  unfold refsTo at hr
  unfold finalList
  cases hkind : o.kind with
  | decl => exact absurd hkind hk
  | ref =>
    simp only [hkind, Bool.and_eq_true, beq_iff_eq] at hr ⊢
    obtain ⟨_, hr⟩ := hr
    cases hres : resolveName P o with
    | none => simp [hres] at hr
    | some c =>
      simp only [hres, Option.map_some, Option.some.injEq] at hr
      have := id_eq_of_map_id h.wf h.hd (resolveName_mem hres) hr
      subst this
      exact hres
  | typ =>
    simp only [hkind, Bool.and_eq_true, beq_iff_eq] at hr ⊢
    obtain ⟨hty, hr⟩ := hr
    rw [resolveType_eq_fallback hT] at hr
    cases hres : typeFallback P o with
    | none => simp [hres] at hr
    | some c =>
      simp only [hres, Option.map_some, Option.some.injEq] at hr
      have := id_eq_of_map_id h.wf h.hd (typeFallback_mem hres) hr
      subst this
      unfold typeFallback at hres
      cases hl : lookup (globalView P o.file) o.name with
      | none => simp [hl] at hres
      | some x =>
        simp only [hl, Option.filter] at hres
        split at hres
        · cases hres; rfl
        · cases hres
  | mem =>
    simp only [hkind, Bool.and_eq_true, beq_iff_eq] at hr ⊢
    obtain ⟨_, hr⟩ := hr
    cases hres : resolveMember P o with
    | none => simp [hres] at hr
    | some c =>
      simp only [hres, Option.map_some, Option.some.injEq] at hr
      have := id_eq_of_map_id h.wf h.hd (resolveMember_mem hres) hr
      subst this
      unfold resolveMember memberVia at hres
      cases hb : baseOf P o with
      | none => simp [hb] at hres
      | some b => simp only [hb] at hres ⊢; exact hres
  | arg =>
    simp only [hkind, Bool.and_eq_true, beq_iff_eq] at hr ⊢
    obtain ⟨_, hr⟩ := hr
    cases hres : resolveArg P o with
    | none => simp [hres] at hr
    | some c =>
      simp only [hres, Option.map_some, Option.some.injEq] at hr
      have := id_eq_of_map_id h.wf h.hd (resolveArg_mem hres) hr
      subst this
      unfold resolveArg at hres
      cases hb : baseOf P o with
      | none => simp [hb] at hres
      | some b => simp only [hb] at hres ⊢; exact hres
  | ctask =>
    simp only [hkind, Bool.and_eq_true, beq_iff_eq] at hr ⊢
    obtain ⟨_, hr⟩ := hr
    cases hres : resolveCTask P o with
    | none => simp [hres] at hr
    | some c =>
      simp only [hres, Option.map_some, Option.some.injEq] at hr
      have := id_eq_of_map_id h.wf h.hd (resolveCTask_mem hres) hr
      subst this
      exact hres
  | cprog =>
    simp only [hkind, Bool.and_eq_true, beq_iff_eq] at hr ⊢
    obtain ⟨_, hr⟩ := hr
    cases hres : resolveCProg P o with
    | none => simp [hres] at hr
    | some c =>
      simp only [hres, Option.map_some, Option.some.injEq] at hr
      have := id_eq_of_map_id h.wf h.hd (resolveCProg_mem hres) hr
      subst this
      unfold resolveCProg at hres
      cases hl : lookup (globalView P o.file) o.name with
      | none => simp [hl] at hres
      | some x =>
        simp only [hl, Option.filter] at hres
        split at hres
        · cases hres; rfl
        · cases hres
  | misc => simp [hkind] at hr

/-- **the final lookup of every occurrence is stable** -/
theorem final_stable (h : Ctx P d n) {o : Occ} (ho : o ∈ P.occs) :
    lookup ((finalList P o).map (renameDecl d n)) (renameOccName P d n o).name =
      (lookup (finalList P o) o.name).map (renameDecl d n) := by
  by_cases hk : o.kind = .decl
  · simp [finalList, hk, lookup]
  · have hc := h.clash
    have hb := h.blind
    unfold noClash at hc
    unfold noBlind at hb
    rw [List.all_eq_true] at hc hb
    have hco := hc o ho
    have hbo := hb o ho
    rw [renameOccName_name]
    have := lookup_stable d n (finalList P o) (h.uniq _ (finalList_sub P o)) o.name (refsTo P d o)
      (fun he => refsTo_lookup h hk he)
      (fun he => by
        simp only [he, Bool.or_false, bne_iff_ne, ne_eq] at hbo
        exact hbo)
      hco
    simpa using this

theorem resolveName_stable (h : Ctx P d n) {o : Occ} (ho : o ∈ P.occs) (hk : o.kind = .ref) :
    resolveName (applyRename P d n) (renameOccName P d n o) = (resolveName P o).map (renameDecl d n) := by
  have := final_stable h ho
  simp only [finalList, hk] at this
  unfold resolveName
  simp only [renameOccName_file, renameOccName_scope, cands_rename]
  exact this

theorem typeFallback_stable (h : Ctx P d n) {o : Occ} (ho : o ∈ P.occs) (hk : o.kind = .typ) :
    typeFallback (applyRename P d n) (renameOccName P d n o) = (typeFallback P o).map (renameDecl d n) := by
  have := final_stable h ho
  simp only [finalList, hk] at this
  unfold typeFallback
  simp only [renameOccName_file, globalView_rename, this, Option.filter_map]
  rw [comp_renameDecl d n _ (by intro c; simp)]

theorem resolveType_stable (h : Ctx P d n) {o : Occ} (ho : o ∈ P.occs) (hk : o.kind = .typ) :
    resolveType (applyRename P d n) (renameOccName P d n o) = (resolveType P o).map (renameDecl d n) := by
  have hT := typesGlobal_of_wf h.wf
  rw [resolveType_eq_fallback (typesGlobal_rename d n hT), resolveType_eq_fallback hT]
  exact typeFallback_stable h ho hk

theorem typeOfDecl_stable (h : Ctx P d n) {v : Decl} (hv : v ∈ P.decls) :
    typeOfDecl (applyRename P d n) (renameDecl d n v) = (typeOfDecl P v).map (renameDecl d n) := by
  unfold typeOfDecl
  simp only [renameDecl_tyocc]
  cases hty : v.tyocc with
  | none => rfl
  | some ti =>
    simp only [occs_getElem?_rename]
    cases ht : P.occs[ti]? with
    | none => rfl
    | some t =>
      simp only [Option.map_some]
      exact resolveType_stable h (List.mem_of_getElem? ht) (wf_tyocc h.wf hv hty ht)

theorem memberList_stable (h : Ctx P d n) {b : Occ} (hb : b ∈ P.occs) (hk : b.kind = .ref) :
    memberList (applyRename P d n) (renameOccName P d n b) = (memberList P b).map (renameDecl d n) := by
  unfold memberList
  rw [resolveName_stable h hb hk]
  cases hres : resolveName P b with
  | none => rfl
  | some v =>
    simp only [Option.map_some, renameDecl_kind]
    split
    · rfl
    · rw [typeOfDecl_stable h (resolveName_mem hres)]
      cases hT : typeOfDecl P v with
      | none => rfl
      | some T => simp only [Option.map_some]; exact membersOf_rename d n P T

theorem resolveMember_stable (h : Ctx P d n) {o : Occ} (ho : o ∈ P.occs) (hk : o.kind = .mem) :
    resolveMember (applyRename P d n) (renameOccName P d n o) = (resolveMember P o).map (renameDecl d n) := by
  have hfin := final_stable h ho
  simp only [finalList, hk] at hfin
  unfold resolveMember memberVia
  rw [baseOf_rename]
  cases hb : baseOf P o with
  | none => rfl
  | some b =>
    simp only [Option.map_some, hb] at hfin ⊢
    rw [memberList_stable h (baseOf_mem hb) (wf_mem_base h.wf ho hk hb)]
    exact hfin

theorem resolveCallee_stable (h : Ctx P d n) {c : Occ} (hc : c ∈ P.occs) (hk : c.kind = .ref ∨ c.kind = .mem) :
    resolveCallee (applyRename P d n) (renameOccName P d n c) = (resolveCallee P c).map (renameDecl d n) := by
  unfold resolveCallee
  simp only [renameOccName_kind]
  rcases hk with hk | hk
  · simp only [hk]
    exact resolveName_stable h hc hk
  · simp only [hk]
    exact resolveMember_stable h hc hk

theorem paramList_stable (h : Ctx P d n) {c : Occ} (hc : c ∈ P.occs) (hk : c.kind = .ref ∨ c.kind = .mem) :
    paramList (applyRename P d n) (renameOccName P d n c) = (paramList P c).map (renameDecl d n) := by
  unfold paramList
  rw [resolveCallee_stable h hc hk]
  cases hres : resolveCallee P c with
  | none => rfl
  | some callee =>
    simp only [Option.map_some, renameDecl_kind]
    have hfil : ∀ L : List Decl, (L.map (renameDecl d n)).filter (fun c => c.kind == DKind.param) =
        (L.filter (fun c => c.kind == DKind.param)).map (renameDecl d n) := by
      intro L
      rw [List.filter_map, comp_renameDecl d n _ (by intro c; simp)]
    by_cases hfm : (callee.kind == DKind.func || callee.kind == DKind.method || callee.kind == DKind.fb) = true
    · simp only [hfm, if_true, membersOf_rename, hfil]
    · simp only [hfm]
      rw [typeOfDecl_stable h (resolveCallee_mem hres)]
      cases hT : typeOfDecl P callee with
      | none => rfl
      | some T => simp [membersOf_rename, hfil]

theorem resolveArg_stable (h : Ctx P d n) {o : Occ} (ho : o ∈ P.occs) (hk : o.kind = .arg) :
    resolveArg (applyRename P d n) (renameOccName P d n o) = (resolveArg P o).map (renameDecl d n) := by
  have hfin := final_stable h ho
  simp only [finalList, hk] at hfin
  unfold resolveArg
  rw [baseOf_rename]
  cases hb : baseOf P o with
  | none => rfl
  | some c =>
    simp only [Option.map_some, hb] at hfin ⊢
    rw [paramList_stable h (baseOf_mem hb) (wf_arg_base h.wf ho hk hb)]
    exact hfin

theorem resolveCTask_stable (h : Ctx P d n) {o : Occ} (ho : o ∈ P.occs) (hk : o.kind = .ctask) :
    resolveCTask (applyRename P d n) (renameOccName P d n o) = (resolveCTask P o).map (renameDecl d n) := by
  have hfin := final_stable h ho
  simp only [finalList, hk] at hfin
  unfold resolveCTask
  simp only [renameOccName_link, declsIn_rename]
  rw [List.filter_map, comp_renameDecl d n _ (by intro c; simp)]
  exact hfin

theorem resolveCProg_stable (h : Ctx P d n) {o : Occ} (ho : o ∈ P.occs) (hk : o.kind = .cprog) :
    resolveCProg (applyRename P d n) (renameOccName P d n o) = (resolveCProg P o).map (renameDecl d n) := by
  have hfin := final_stable h ho
  simp only [finalList, hk] at hfin
  unfold resolveCProg
  simp only [renameOccName_file, globalView_rename, hfin, Option.filter_map]
  rw [comp_renameDecl d n _ (by intro c; simp)]

/-- **Binding preservation, list form**: after the rename every occurrence denotes the renamed image
of what it denoted before. -/
theorem binding_stable (h : Ctx P d n) {o : Occ} (ho : o ∈ P.occs) :
    binding (applyRename P d n) (renameOccName P d n o) = (binding P o).map (renameDecl d n) := by
  unfold binding
  simp only [renameOccName_kind]
  cases hk : o.kind with
  | decl =>
    simp only [renameOccName_link]
    cases o.link with
    | none => rfl
    | some i => exact declById_rename P d n i
  | ref => exact resolveName_stable h ho hk
  | typ => exact resolveType_stable h ho hk
  | mem => exact resolveMember_stable h ho hk
  | arg => exact resolveArg_stable h ho hk
  | ctask => exact resolveCTask_stable h ho hk
  | cprog => exact resolveCProg_stable h ho hk
  | misc => rfl

theorem bindingId_stable (h : Ctx P d n) {o : Occ} (ho : o ∈ P.occs) :
    bindingId (applyRename P d n) (renameOccName P d n o) = bindingId P o := by
  unfold bindingId
  rw [binding_stable h ho, Option.map_map]
  congr 1
  funext c
  simp

end preservation

/-! ## reversibility -/

section reversible
variable {P : Project} {d : Decl} {n : Name}

theorem map_id_rename (d : Decl) (n : Name) (x : Option Decl) :
    (x.map (renameDecl d n)).map (·.id) = x.map (·.id) := by
  cases x <;> simp

theorem renameOccName_pos (Q : Project) (e : Decl) (m : Name) (o : Occ) (hr : refsTo Q e o = true) :
    renameOccName Q e m o = { o with name := m } := by
  unfold renameOccName; simp [hr]

theorem renameOccName_neg (Q : Project) (e : Decl) (m : Name) (o : Occ) (hr : refsTo Q e o = false) :
    renameOccName Q e m o = o := by
  unfold renameOccName; simp [hr]

theorem refsTo_stable (h : Ctx P d n) {o : Occ} (ho : o ∈ P.occs) :
    refsTo (applyRename P d n) (renameDecl d n d) (renameOccName P d n o) = refsTo P d o := by
  unfold refsTo
  simp only [renameOccName_kind, renameDecl_id, renameDecl_kind, renameOccName_link]
  cases hk : o.kind with
  | decl => rfl
  | ref => simp only [resolveName_stable h ho hk, map_id_rename]
  | typ => simp only [resolveType_stable h ho hk, map_id_rename]
  | mem => simp only [resolveMember_stable h ho hk, map_id_rename]
  | arg => simp only [resolveArg_stable h ho hk, map_id_rename]
  | ctask => simp only [resolveCTask_stable h ho hk, map_id_rename]
  | cprog => simp only [resolveCProg_stable h ho hk, map_id_rename]
  | misc => rfl

theorem renameDecl_back (h : Ctx P d n) {c : Decl} (hc : c ∈ P.decls) :
    renameDecl (renameDecl d n d) d.name (renameDecl d n c) = c := by
  by_cases hid : c.id = d.id
  · have := id_eq_of_map_id h.wf h.hd hc hid
    subst this
    simp [renameDecl]
  · rw [renameDecl_of_ne d n hid]
    exact renameDecl_of_ne _ _ (by simpa using hid)

theorem renameOcc_back (h : Ctx P d n) (hu : uniform P d = true) {o : Occ} (ho : o ∈ P.occs) :
    renameOccName (applyRename P d n) (renameDecl d n d) d.name (renameOccName P d n o) = o := by
  unfold uniform at hu
  rw [List.all_eq_true] at hu
  have huo := hu o ho
  have hstab := refsTo_stable h ho
  cases hr : refsTo P d o with
  | true =>
    rw [hr] at hstab
    rw [renameOccName_pos _ _ _ _ hstab, renameOccName_pos _ _ _ _ hr]
    simp only [hr, Bool.not_true, Bool.false_or, beq_iff_eq] at huo
    cases o
    simp_all
  | false =>
    rw [hr] at hstab
    rw [renameOccName_neg _ _ _ _ hstab, renameOccName_neg _ _ _ _ hr]

theorem map_id_of_forall {α} {f : α → α} {l : List α} (h : ∀ a ∈ l, f a = a) : l.map f = l := by
  induction l with
  | nil => rfl
  | cons a l ih =>
    simp only [List.map_cons]
    rw [h a List.mem_cons_self, ih (fun b hb => h b (List.mem_cons_of_mem _ hb))]

/-- applying the inverse rename to the renamed project gives the original project back -/
theorem applyRename_back (h : Ctx P d n) (hu : uniform P d = true) :
    applyRename (applyRename P d n) (renameDecl d n d) d.name = P := by
  cases hP : P with
  | mk tails scopes decls occs =>
    subst hP
    unfold applyRename
    simp only [Project.mk.injEq, true_and, List.map_map]
    constructor
    · apply map_id_of_forall
      intro c hc
      exact renameDecl_back h hc
    · apply map_id_of_forall
      intro o ho
      exact renameOcc_back h hu ho

theorem declById_self (hw : wf P = true) (hd : d ∈ P.decls) : declById P d.id = some d := by
  unfold declById
  cases hf : P.decls.find? (fun c => c.id == d.id) with
  | none =>
    rw [List.find?_eq_none] at hf
    have := hf d hd
    simp at this
  | some c =>
    have h1 := List.find?_some hf
    have h2 := List.mem_of_find?_eq_some hf
    simp only [beq_iff_eq] at h1
    rw [id_eq_of_map_id hw hd h2 h1]

theorem conflict_back (h : Ctx P d n) (hnd : noDupScope P = true) (f : Nat) :
    conflict (applyRename P d n) f (renameDecl d n d) d.name = false := by
  unfold conflict
  simp only [applyRename_decls, List.any_map, renameDecl_id, renameDecl_file, renameDecl_scope]
  have : P.decls.any ((fun c => c.id != d.id && c.file == d.file && c.scope == d.scope && eqv c.name d.name) ∘
      renameDecl d n) = false := by
    rw [List.any_eq_false]
    intro c hc
    simp only [Function.comp, renameDecl_id, renameDecl_file, renameDecl_scope]
    by_cases hid : c.id = d.id
    · simp [hid]
    · rw [renameDecl_of_ne d n hid]
      unfold noDupScope at hnd
      rw [List.all_eq_true] at hnd
      have h1 := hnd c hc
      rw [List.all_eq_true] at h1
      have h2 := h1 d h.hd
      have hne : (c == d) = false := by
        simp only [beq_eq_false_iff_ne, ne_eq]
        intro e; subst e; exact hid rfl
      simp only [hne, Bool.false_or, Bool.not_eq_true', Bool.and_eq_false_iff] at h2
      simp only [Bool.not_eq_true, Bool.and_eq_false_iff]
      rcases h2 with (h2 | h2) | h2
      · left; left; right; exact h2
      · left; right; exact h2
      · right; exact h2
  simp [this]

end reversible

/-! ## layout -/

theorem layoutAux_start_ge : ∀ (os : List Occ) (offs : Nat → Nat) (p : Occ × Edit),
    p ∈ layoutAux offs os → p.2.file = p.1.file ∧ offs p.2.file ≤ p.2.start ∧
      p.2.stop = p.2.start + p.1.name.length := by
  intro os
  induction os with
  | nil => intro offs p h; simp [layoutAux] at h
  | cons o os ih =>
    intro offs p h
    simp only [layoutAux, List.mem_cons] at h
    rcases h with h | h
    · subst h; simp
    · obtain ⟨h1, h2, h3⟩ := ih _ p h
      refine ⟨h1, ?_, h3⟩
      unfold updOff at h2
      split at h2
      · next hg => rw [hg]; omega
      · exact h2

theorem layoutAux_pairwise : ∀ (os : List Occ) (offs : Nat → Nat),
    (layoutAux offs os).Pairwise (fun a b => a.2.file ≠ b.2.file ∨ a.2.stop ≤ b.2.start) := by
  intro os
  induction os with
  | nil => intro offs; simp [layoutAux]
  | cons o os ih =>
    intro offs
    simp only [layoutAux, List.pairwise_cons]
    refine ⟨?_, ih _⟩
    intro p hp
    obtain ⟨_, h2, _⟩ := layoutAux_start_ge os _ p hp
    by_cases hf : o.file = p.2.file
    · right
      unfold updOff at h2
      simp only [← hf, if_true] at h2
      exact h2
    · left; exact hf

theorem endOffs_mono : ∀ (os : List Occ) (offs : Nat → Nat) (g : Nat), offs g ≤ endOffs offs os g := by
  intro os
  induction os with
  | nil => intro offs g; simp [endOffs]
  | cons o os ih =>
    intro offs g
    simp only [endOffs]
    refine Nat.le_trans ?_ (ih _ g)
    unfold updOff
    split
    · next hg => rw [hg]; omega
    · exact Nat.le_refl _

theorem layoutAux_stop_le : ∀ (os : List Occ) (offs : Nat → Nat) (p : Occ × Edit),
    p ∈ layoutAux offs os → p.2.stop ≤ endOffs offs os p.2.file := by
  intro os
  induction os with
  | nil => intro offs p h; simp [layoutAux] at h
  | cons o os ih =>
    intro offs p h
    simp only [layoutAux, List.mem_cons] at h
    simp only [endOffs]
    rcases h with h | h
    · subst h
      refine Nat.le_trans ?_ (endOffs_mono os _ _)
      simp [updOff]
    · exact ih _ p h

theorem layout_occs (P : Project) : (layout P).map (·.1) = P.occs := by
  unfold layout
  generalize (fun _ => 0 : Nat → Nat) = offs
  induction P.occs generalizing offs with
  | nil => rfl
  | cons o os ih => simp [layoutAux, ih]

/-! ## the rename target is a declaration of the project -/

theorem declById_mem {P : Project} {i : Nat} {c : Decl} (h : declById P i = some c) : c ∈ P.decls :=
  List.mem_of_find?_eq_some h

theorem orElse_some {α} {a b : Option α} {x : α} (h : orElse a b = some x) : a = some x ∨ b = some x := by
  unfold orElse at h
  split at h
  · left; exact h
  · right; exact h

theorem target_mem {P : Project} {o : Occ} {c : Decl} (h : target P o = some c) : c ∈ P.decls := by
  have plain : ∀ {x}, orElse (resolveName P o) (typeFallback P o) = some x → x ∈ P.decls := by
    intro x hx
    rcases orElse_some hx with h1 | h1
    · exact resolveName_mem h1
    · exact typeFallback_mem h1
  unfold target at h
  split at h
  · cases hl : o.link with
    | none => simp [hl] at h
    | some i => simp only [hl, Option.bind_some] at h; exact declById_mem h
  · rcases orElse_some h with h1 | h1
    · exact resolveType_mem h1
    · exact resolveName_mem h1
  · rcases orElse_some h with h1 | h1
    · exact resolveMember_mem h1
    · exact plain h1
  · rcases orElse_some h with h1 | h1
    · split at h1
      · exact memberList_sub P _ c (lookup_mem h1)
      · cases h1
    · exact plain h1
  · exact plain h

theorem renameTarget_spec {P : Project} {o : Occ} {n : Name} {d : Decl} (h : renameTarget P o n = some d) :
    target P o = some d ∧ validIdent n = true ∧ reserved n = false ∧ conflict P o.file d n = false := by
  unfold renameTarget at h
  split at h
  · cases h
  · next d' hd' =>
    split at h
    · cases h
    · next hg =>
      split at h
      · cases h
      · next hc =>
        cases h
        simp only [Bool.or_eq_true, Bool.not_eq_true', not_or, Bool.not_eq_true] at hg
        refine ⟨hd', ?_, hg.2, by simpa using hc⟩
        simpa using hg.1

end TrustVerif.C16
