import TrustVerif.Model.C17

namespace TrustVerif.C17

end TrustVerif.C17
