import TrustVerif.Model.C17

/-!
Helper lemmas for C17: association lists, the statement hook piece by piece, the invariants of the
transition system.
-/
namespace TrustVerif.C17


/-! ### association lists -/

theorem mem_ainsert {β : Type} (m : List (Nat × β)) (k : Nat) (v : β) (x : Nat × β)
    (h : x ∈ ainsert m k v) : x ∈ m ∨ x = (k, v) := by
  induction m with
  | nil => simp_all [ainsert]
  | cons y rest ih =>
    obtain ⟨k', v'⟩ := y
    simp only [ainsert] at h
    split at h
    · simp only [List.mem_cons] at h ⊢
      rcases h with h | h
      · subst_vars; simp
      · simp [h]
    · simp only [List.mem_cons] at h ⊢
      rcases h with h | h
      · simp [h]
      · rcases ih h with h | h <;> simp [h]

theorem mem_aerase {β : Type} (m : List (Nat × β)) (k : Nat) (x : Nat × β)
    (h : x ∈ aerase m k) : x ∈ m := by
  induction m with
  | nil => simp_all [aerase]
  | cons y rest ih =>
    obtain ⟨k', v'⟩ := y
    simp only [aerase] at h
    split at h
    · simp [ih h]
    · simp only [List.mem_cons] at h ⊢
      rcases h with h | h
      · simp [h]
      · simp [ih h]

theorem alookup_ainsert_self {β : Type} (m : List (Nat × β)) (k : Nat) (v : β) :
    alookup (ainsert m k v) k = some v := by
  induction m with
  | nil => simp [ainsert, alookup]
  | cons y rest ih =>
    obtain ⟨k', v'⟩ := y
    simp only [ainsert]
    split
    · simp_all [alookup]
    · simp_all [alookup]



theorem alookup_mem {β : Type} {m : List (Nat × β)} {k : Nat} {v : β} (h : alookup m k = some v) :
    (k, v) ∈ m := by
  induction m with
  | nil => simp [alookup] at h
  | cons x rest ih =>
    obtain ⟨k', v'⟩ := x
    simp only [alookup] at h
    split at h
    · simp_all
    · simp [ih h]

/-- `stepCheck` only touches `steps`. -/
theorem stepCheck_frame (d : DState) (depth : Nat) :
    ∃ st', (stepCheck d depth).1 = { d with steps := st' } := by
  unfold stepCheck
  split
  · exact ⟨d.steps, rfl⟩
  · split
    · exact ⟨d.steps, rfl⟩
    · split
      · exact ⟨_, rfl⟩
      · split
        · exact ⟨_, rfl⟩
        · exact ⟨d.steps, rfl⟩

/-- When `stepCheck` asks for a pause, a started step entry justifies it. -/
theorem stepCheck_pause (d : DState) (depth : Nat) (h : (stepCheck d depth).2 = true) :
    ∃ k st, (k, st) ∈ d.steps ∧ st.started = true ∧ st.pausesAt depth = true := by
  unfold stepCheck at h
  split at h
  · simp at h
  · rename_i k _
    split at h
    · simp at h
    · rename_i st hl
      split at h
      · simp at h
      · rename_i hs
        split at h
        · rename_i hp
          exact ⟨k, st, alookup_mem hl, by simpa using hs, hp⟩
        · simp at h



/-! ### breakpoints: where a Breakpoint stop's generation comes from -/

theorem bpOutcome_pause_file (bp : Bp) (loc : Loc) (ctx : Bool) (h : bpOutcome bp loc ctx = .pause) :
    bp.loc.file = loc.file := by
  unfold bpOutcome at h
  split at h
  · cases h
  · rename_i hf; simpa using hf

theorem matchBps_some (bps : List Bp) (loc : Loc) (ctx : Bool) (g : Nat)
    (h : (matchBps bps loc ctx).2.2 = some g) : ∃ bp ∈ bps, bp.gen = g ∧ bp.loc.file = loc.file := by
  induction bps with
  | nil => simp [matchBps] at h
  | cons bp rest ih =>
    simp only [matchBps] at h
    cases ho : bpOutcome bp loc ctx <;> simp only [ho] at h
    · obtain ⟨b, hb, h1, h2⟩ := ih h; exact ⟨b, by simp [hb], h1, h2⟩
    · obtain ⟨b, hb, h1, h2⟩ := ih h; exact ⟨b, by simp [hb], h1, h2⟩
    · obtain ⟨b, hb, h1, h2⟩ := ih h; exact ⟨b, by simp [hb], h1, h2⟩
    · exact ⟨bp, by simp, by simpa using h, bpOutcome_pause_file bp loc ctx ho⟩

theorem matchBps_wf (bps : List Bp) (loc : Loc) (ctx : Bool) :
    ∀ b' ∈ (matchBps bps loc ctx).1, ∃ b ∈ bps, b'.loc = b.loc ∧ b'.gen = b.gen := by
  induction bps with
  | nil => simp [matchBps]
  | cons bp rest ih =>
    intro b' hb'
    have hrec : ∀ (x : Bp), x.loc = bp.loc → x.gen = bp.gen → b' ∈ x :: (matchBps rest loc ctx).1 →
        ∃ b ∈ bp :: rest, b'.loc = b.loc ∧ b'.gen = b.gen := by
      intro x hx1 hx2 hm
      rcases List.mem_cons.1 hm with h | h
      · exact ⟨bp, by simp, h ▸ hx1, h ▸ hx2⟩
      · obtain ⟨b, hb, h1, h2⟩ := ih b' h; exact ⟨b, by simp [hb], h1, h2⟩
    simp only [matchBps] at hb'
    cases ho : bpOutcome bp loc ctx <;> simp only [ho] at hb'
    · exact hrec bp rfl rfl hb'
    · exact hrec { bp with hits := bp.hits + 1 } rfl rfl hb'
    · exact hrec { bp with hits := bp.hits + 1 } rfl rfl hb'
    · rcases List.mem_cons.1 hb' with h | h
      · exact ⟨bp, by simp, by simp [h], by simp [h]⟩
      · exact ⟨b', by simp [h], rfl, rfl⟩

/-- Breakpoints of `e` are those of `d` up to hit counters; generations map unchanged. -/
def BpsSame (e d : DState) : Prop :=
  e.bpGeneration = d.bpGeneration ∧
  ∀ b' ∈ e.breakpoints, ∃ b ∈ d.breakpoints, b'.loc = b.loc ∧ b'.gen = b.gen

theorem BpsSame.refl (d : DState) : BpsSame d d := ⟨rfl, fun b hb => ⟨b, hb, rfl, rfl⟩⟩

theorem BpsSame.of_eq {e d : DState} (h1 : e.bpGeneration = d.bpGeneration)
    (h2 : e.breakpoints = d.breakpoints) : BpsSame e d :=
  ⟨h1, fun b hb => ⟨b, h2 ▸ hb, rfl, rfl⟩⟩

theorem BpsSame.trans {a b c : DState} (h1 : BpsSame a b) (h2 : BpsSame b c) : BpsSame a c := by
  refine ⟨h1.1.trans h2.1, ?_⟩
  intro x hx
  obtain ⟨y, hy, e1, e2⟩ := h1.2 x hx
  obtain ⟨z, hz, f1, f2⟩ := h2.2 y hy
  exact ⟨z, hz, e1.trans f1, e2.trans f2⟩

theorem consumePending_bps (d : DState) (tgt : Bool) (loc : Option Loc) :
    BpsSame (consumePending d tgt loc) d := by
  unfold consumePending
  split
  · split
    · exact BpsSame.of_eq rfl rfl
    · exact BpsSame.refl d
  · exact BpsSame.refl d

/-- `bpBlock`: either a Breakpoint stop justified by a breakpoint of the same file, or nothing. -/
theorem bpBlock_cases (d : DState) (l : Loc) (ctx : Bool) :
    (bpBlock d l ctx).currentThread = d.currentThread ∧
    (bpBlock d l ctx).lastCallDepth = d.lastCallDepth ∧
    (bpBlock d l ctx).lastCallDepths = d.lastCallDepths ∧
    BpsSame (bpBlock d l ctx) d ∧
    ((∃ bp ∈ d.breakpoints, bp.loc.file = l.file ∧ (bpBlock d l ctx).mode = .paused ∧
        (bpBlock d l ctx).pendingStop = none ∧ (bpBlock d l ctx).targetThread = none ∧
        (bpBlock d l ctx).steps = [] ∧
        (bpBlock d l ctx).stops = d.stops ++ [⟨.breakpoint, some l, d.currentThread, some bp.gen⟩])
     ∨ ((bpBlock d l ctx).mode = d.mode ∧ (bpBlock d l ctx).pendingStop = d.pendingStop ∧
        (bpBlock d l ctx).targetThread = d.targetThread ∧ (bpBlock d l ctx).stops = d.stops ∧
        (bpBlock d l ctx).steps = d.steps)) := by
  have hwf := matchBps_wf d.breakpoints l ctx
  cases hm : (matchBps d.breakpoints l ctx).2.2 with
  | none =>
    have he : bpBlock d l ctx =
        { d with breakpoints := (matchBps d.breakpoints l ctx).1,
                 logs := d.logs + (matchBps d.breakpoints l ctx).2.1 } := by
      simp only [bpBlock, hm]
    rw [he]
    exact ⟨rfl, rfl, rfl, ⟨rfl, hwf⟩, Or.inr ⟨rfl, rfl, rfl, rfl, rfl⟩⟩
  | some g =>
    obtain ⟨bp, hbp, h1, h2⟩ := matchBps_some d.breakpoints l ctx g hm
    have he : bpBlock d l ctx =
        emitStop { d with breakpoints := (matchBps d.breakpoints l ctx).1,
                          logs := d.logs + (matchBps d.breakpoints l ctx).2.1,
                          steps := [], targetThread := none, mode := .paused, pendingStop := none }
          .breakpoint (some l) (some g) := by
      simp only [bpBlock, hm]
    rw [he]
    refine ⟨rfl, rfl, rfl, ⟨rfl, hwf⟩, Or.inl ⟨bp, hbp, h2, rfl, rfl, rfl, rfl, ?_⟩⟩
    simp [emitStop, h1]

/-- The three ways out of the `Running` block: a step stop, a breakpoint stop, or nothing. -/
theorem runningBlock_cases (d : DState) (tgt : Bool) (l : Loc) (depth : Nat) (ctx : Bool) :
    (runningBlock d tgt l depth ctx).currentThread = d.currentThread ∧
    (((runningBlock d tgt l depth ctx).mode = .paused ∧
        (runningBlock d tgt l depth ctx).pendingStop = none ∧
        (runningBlock d tgt l depth ctx).targetThread = d.targetThread ∧
        (runningBlock d tgt l depth ctx).stops = d.stops ++ [⟨.step, some l, d.currentThread, none⟩] ∧
        tgt = true ∧ (stepCheck d depth).2 = true)
     ∨ (∃ g, (runningBlock d tgt l depth ctx).mode = .paused ∧
        (runningBlock d tgt l depth ctx).pendingStop = none ∧
        (runningBlock d tgt l depth ctx).targetThread = none ∧
        (runningBlock d tgt l depth ctx).stops = d.stops ++ [⟨.breakpoint, some l, d.currentThread, some g⟩])
     ∨ ((runningBlock d tgt l depth ctx).mode = d.mode ∧
        (runningBlock d tgt l depth ctx).pendingStop = d.pendingStop ∧
        (runningBlock d tgt l depth ctx).targetThread = d.targetThread ∧
        (runningBlock d tgt l depth ctx).stops = d.stops)) := by
  obtain ⟨st', hf⟩ := stepCheck_frame d depth
  have hb : ∀ (d1 : DState), d1.currentThread = d.currentThread → d1.mode = d.mode →
      d1.pendingStop = d.pendingStop → d1.targetThread = d.targetThread → d1.stops = d.stops →
      (bpBlock d1 l ctx).currentThread = d.currentThread ∧
      ((∃ g, (bpBlock d1 l ctx).mode = .paused ∧ (bpBlock d1 l ctx).pendingStop = none ∧
          (bpBlock d1 l ctx).targetThread = none ∧
          (bpBlock d1 l ctx).stops = d.stops ++ [⟨.breakpoint, some l, d.currentThread, some g⟩])
       ∨ ((bpBlock d1 l ctx).mode = d.mode ∧ (bpBlock d1 l ctx).pendingStop = d.pendingStop ∧
          (bpBlock d1 l ctx).targetThread = d.targetThread ∧ (bpBlock d1 l ctx).stops = d.stops)) := by
    intro d1 e1 e2 e3 e4 e5
    obtain ⟨c1, _, _, _, c⟩ := bpBlock_cases d1 l ctx
    refine ⟨c1.trans e1, ?_⟩
    rcases c with ⟨bp, _, _, k1, k2, k3, _, k5⟩ | ⟨k1, k2, k3, k4, _⟩
    · exact Or.inl ⟨bp.gen, k1, k2, k3, by rw [k5, e5, e1]⟩
    · exact Or.inr ⟨k1.trans e2, k2.trans e3, k3.trans e4, k4.trans e5⟩
  cases tgt
  · -- not the target thread: no step check
    simp only [runningBlock, Bool.false_eq_true, if_false]
    obtain ⟨h0, h⟩ := hb d rfl rfl rfl rfl rfl
    exact ⟨h0, Or.inr h⟩
  · simp only [runningBlock, if_true]
    by_cases hs : (stepCheck d depth).2 = true
    · simp [hs, hf, emitStop]
    · simp only [hs, Bool.false_eq_true, if_false]
      obtain ⟨h0, h⟩ := hb (stepCheck d depth).1 (by simp [hf]) (by simp [hf]) (by simp [hf]) (by simp [hf])
        (by simp [hf])
      exact ⟨h0, Or.inr h⟩

@[simp] theorem recordHook_mode (d : DState) (loc : Option Loc) (n : Nat) : (recordHook d loc n).mode = d.mode := rfl
@[simp] theorem recordHook_pending (d : DState) (loc : Option Loc) (n : Nat) : (recordHook d loc n).pendingStop = d.pendingStop := rfl
@[simp] theorem recordHook_target (d : DState) (loc : Option Loc) (n : Nat) : (recordHook d loc n).targetThread = d.targetThread := rfl
@[simp] theorem recordHook_current (d : DState) (loc : Option Loc) (n : Nat) : (recordHook d loc n).currentThread = d.currentThread := rfl
@[simp] theorem recordHook_stops (d : DState) (loc : Option Loc) (n : Nat) : (recordHook d loc n).stops = d.stops := rfl
@[simp] theorem recordHook_steps (d : DState) (loc : Option Loc) (n : Nat) : (recordHook d loc n).steps = d.steps := rfl
@[simp] theorem recordHook_isTarget (d : DState) (loc : Option Loc) (n : Nat) : isTarget (recordHook d loc n) = isTarget d := rfl
@[simp] theorem recordHook_breakpoints (d : DState) (loc : Option Loc) (n : Nat) : (recordHook d loc n).breakpoints = d.breakpoints := rfl
@[simp] theorem recordHook_bpGeneration (d : DState) (loc : Option Loc) (n : Nat) : (recordHook d loc n).bpGeneration = d.bpGeneration := rfl

/-- Why a stop with reason `r` was announced by a hook call at call depth `depth` from state `d`:
a started step entry that pauses at this depth, a breakpoint, or the pending stop. -/
def StopWhy (d : DState) (depth : Nat) (r : Reason) : Prop :=
  (r = .step ∧ ∃ k ss, (k, ss) ∈ d.steps ∧ ss.started = true ∧ ss.pausesAt depth = true)
  ∨ r = .breakpoint ∨ d.pendingStop = some r

/-- `hookBody` either announces exactly one stop (then: `Paused`, nothing pending, this thread is the
target), or changes nothing that matters (and no pending stop was due for this thread). -/
theorem hookBody_cases (d : DState) (tgt : Bool) (ht : isTarget d = tgt) (loc : Option Loc) (depth : Nat)
    (ctx : Bool) :
    (hookBody d tgt loc depth ctx).currentThread = d.currentThread ∧
    (((hookBody d tgt loc depth ctx).mode = .paused ∧ (hookBody d tgt loc depth ctx).pendingStop = none ∧
        isTarget (hookBody d tgt loc depth ctx) = true ∧
        ∃ r g, (hookBody d tgt loc depth ctx).stops = d.stops ++ [⟨r, loc, d.currentThread, g⟩] ∧
          StopWhy d depth r)
     ∨ ((hookBody d tgt loc depth ctx).mode = d.mode ∧
        (hookBody d tgt loc depth ctx).pendingStop = d.pendingStop ∧
        (hookBody d tgt loc depth ctx).targetThread = d.targetThread ∧
        (hookBody d tgt loc depth ctx).stops = d.stops ∧
        ¬ (d.mode = .paused ∧ tgt = true ∧ d.pendingStop ≠ none))) := by
  cases tgt
  · -- another thread is the target: the hook behaves as in Running mode, breakpoints only
    simp only [hookBody, consumePending, Bool.and_false, Bool.false_eq_true, if_false]
    cases loc with
    | none => simp
    | some l =>
      simp only []
      obtain ⟨h0, h⟩ := runningBlock_cases d false l depth ctx
      refine ⟨h0, ?_⟩
      rcases h with ⟨_, _, _, _, h5, _⟩ | ⟨g, h1, h2, h3, h4⟩ | ⟨h1, h2, h3, h4⟩
      · simp at h5
      · exact Or.inl ⟨h1, h2, by simp [isTarget, h3], .breakpoint, some g, h4, Or.inr (Or.inl rfl)⟩
      · exact Or.inr ⟨h1, h2, h3, h4, by simp⟩
  · cases hm : d.mode
    · -- Running
      have hc : consumePending d true loc = d := by simp [consumePending, hm]
      simp only [hookBody, hc, if_true, hm]
      cases loc with
      | none => simp [hm]
      | some l =>
        simp only []
        obtain ⟨h0, h⟩ := runningBlock_cases d true l depth ctx
        refine ⟨h0, ?_⟩
        rcases h with ⟨h1, h2, h3, h4, _, h6⟩ | ⟨g, h1, h2, h3, h4⟩ | ⟨h1, h2, h3, h4⟩
        · refine Or.inl ⟨h1, h2, ?_, .step, none, h4, Or.inl ⟨rfl, stepCheck_pause d depth h6⟩⟩
          simp only [isTarget, h3, h0]
          simpa [isTarget] using ht
        · exact Or.inl ⟨h1, h2, by simp [isTarget, h3], .breakpoint, some g, h4, Or.inr (Or.inl rfl)⟩
        · exact Or.inr ⟨by simpa [hm] using h1, h2, h3, h4, by simp⟩
    · -- Paused and this thread is the target
      cases hp : d.pendingStop with
      | none =>
        have hc : consumePending d true loc = d := by simp [consumePending, hp]
        simp only [hookBody, hc, if_true, hm]
        cases loc <;> simp [hp]
      | some r =>
        have hc : consumePending d true loc = emitStop { d with pendingStop := none } r loc none := by
          simp [consumePending, hm, hp]
        have hmode : (emitStop { d with pendingStop := none } r loc none).mode = .paused := by
          simp [emitStop, hm]
        simp only [hookBody, hc, if_true, hmode]
        refine ⟨by simp [emitStop], Or.inl ⟨trivial, by simp [emitStop], ?_, r, none, by simp [emitStop], Or.inr (Or.inr hp)⟩⟩
        simp only [isTarget, emitStop]
        simpa [isTarget] using ht

theorem hookEntry_cases (d : DState) (loc : Option Loc) (depth : Nat) (ctx : Bool) :
    (hookEntry d loc depth ctx).currentThread = d.currentThread ∧
    (((hookEntry d loc depth ctx).mode = .paused ∧ (hookEntry d loc depth ctx).pendingStop = none ∧
        isTarget (hookEntry d loc depth ctx) = true ∧
        ∃ r g, (hookEntry d loc depth ctx).stops = d.stops ++ [⟨r, loc, d.currentThread, g⟩] ∧
          StopWhy d depth r)
     ∨ ((hookEntry d loc depth ctx).mode = d.mode ∧
        (hookEntry d loc depth ctx).pendingStop = d.pendingStop ∧
        (hookEntry d loc depth ctx).targetThread = d.targetThread ∧
        (hookEntry d loc depth ctx).stops = d.stops ∧
        ¬ (d.mode = .paused ∧ isTarget d = true ∧ d.pendingStop ≠ none))) := by
  have h := hookBody_cases (recordHook d loc depth) (isTarget (recordHook d loc depth)) rfl loc depth ctx
  simpa [hookEntry, StopWhy] using h


/-- One iteration of the wait loop: the thread leaves (state unchanged; `Running`, or another
thread is the target), or it sleeps (again) in a state where it has to — after announcing the
pending stop if there was one. -/
theorem hookLoop_cases (d : DState) (loc : Option Loc) :
    ((hookLoop d loc).2 = true ∧ (hookLoop d loc).1 = d ∧ (d.mode = .running ∨ isTarget d = false))
    ∨ ((hookLoop d loc).2 = false ∧ d.mode = .paused ∧ isTarget d = true ∧
        (hookLoop d loc).1.mode = .paused ∧ isTarget (hookLoop d loc).1 = true ∧
        (hookLoop d loc).1.pendingStop = none ∧
        (hookLoop d loc).1.currentThread = d.currentThread ∧
        ((d.pendingStop = none ∧ (hookLoop d loc).1 = d)
         ∨ (∃ r, d.pendingStop = some r ∧
              (hookLoop d loc).1.stops = d.stops ++ [⟨r, loc, d.currentThread, none⟩]))) := by
  cases hm : d.mode
  · left
    simp [hookLoop, consumePending, hm]
  · cases ht : isTarget d
    · left
      simp [hookLoop, consumePending, hm, ht]
    · right
      cases hp : d.pendingStop with
      | none => simp [hookLoop, consumePending, hm, ht, hp]
      | some r =>
        have : isTarget (emitStop { d with pendingStop := none } r loc none) = true := by
          simp only [isTarget, emitStop]; simpa [isTarget] using ht
        simp [hookLoop, consumePending, hm, ht, hp, emitStop]
        simpa [isTarget, emitStop] using this

/-- A whole hook call up to its return or its first wait, from a state in which a `Paused` mode
always has its stop still pending (true whenever the cycle thread is outside the monitor, see
`Inv`): it parks after exactly one stop, or comes back without any. -/
theorem onStatement_cases (d : DState) (loc : Option Loc) (depth : Nat) (ctx : Bool)
    (hidle : d.mode = .paused → d.pendingStop ≠ none) :
    ((onStatement d loc depth ctx).2 = false ∧
        (onStatement d loc depth ctx).1.mode = .paused ∧
        isTarget (onStatement d loc depth ctx).1 = true ∧
        (onStatement d loc depth ctx).1.pendingStop = none ∧
        ∃ r g, (onStatement d loc depth ctx).1.stops = d.stops ++ [⟨r, loc, d.currentThread, g⟩] ∧
          StopWhy d depth r)
    ∨ ((onStatement d loc depth ctx).2 = true ∧
        (onStatement d loc depth ctx).1.stops = d.stops ∧
        (onStatement d loc depth ctx).1.mode = d.mode ∧
        (onStatement d loc depth ctx).1.pendingStop = d.pendingStop ∧
        (onStatement d loc depth ctx).1.targetThread = d.targetThread ∧
        (onStatement d loc depth ctx).1.currentThread = d.currentThread) := by
  obtain ⟨hcur, he⟩ := hookEntry_cases d loc depth ctx
  unfold onStatement
  rcases he with ⟨h1, h2, h3, r, g, h4, hw⟩ | ⟨h1, h2, h3, h4, h5⟩
  · -- a stop was announced: the loop sleeps without touching the state
    left
    rcases hookLoop_cases (hookEntry d loc depth ctx) loc with ⟨_, _, h | h⟩ | ⟨k1, _, _, _, _, _, _, k | ⟨r', k, _⟩⟩
    · simp [h1] at h
    · simp [h3] at h
    · rw [k.2]; exact ⟨k1, h1, h3, h2, r, g, h4, hw⟩
    · simp [h2] at k
  · -- nothing announced
    right
    rcases hookLoop_cases (hookEntry d loc depth ctx) loc with ⟨k1, k2, _⟩ | ⟨_, k2, k3, _⟩
    · rw [k2]; exact ⟨k1, h4, h1, h2, h3, hcur⟩
    · exfalso
      apply h5
      have ht : isTarget d = true := by
        simp only [isTarget, h3, hcur] at k3
        simpa [isTarget] using k3
      rw [h1] at k2
      exact ⟨k2, ht, hidle k2⟩

theorem consumePending_depths (d : DState) (tgt : Bool) (loc : Option Loc) :
    (consumePending d tgt loc).lastCallDepth = d.lastCallDepth ∧
    (consumePending d tgt loc).lastCallDepths = d.lastCallDepths ∧
    (consumePending d tgt loc).steps = d.steps ∧
    (consumePending d tgt loc).currentThread = d.currentThread := by
  unfold consumePending
  split
  · split <;> simp [emitStop]
  · simp

theorem runningBlock_depths (d : DState) (tgt : Bool) (l : Loc) (depth : Nat) (ctx : Bool) :
    (runningBlock d tgt l depth ctx).lastCallDepth = d.lastCallDepth ∧
    (runningBlock d tgt l depth ctx).lastCallDepths = d.lastCallDepths := by
  obtain ⟨st', hf⟩ := stepCheck_frame d depth
  cases tgt
  · simp only [runningBlock, Bool.false_eq_true, if_false]
    obtain ⟨_, c2, c3, _⟩ := bpBlock_cases d l ctx
    exact ⟨c2, c3⟩
  · simp only [runningBlock, if_true]
    split
    · simp [emitStop, hf]
    · obtain ⟨_, c2, c3, _⟩ := bpBlock_cases (stepCheck d depth).1 l ctx
      exact ⟨c2.trans (by simp [hf]), c3.trans (by simp [hf])⟩

theorem hookBody_depths (d : DState) (tgt : Bool) (loc : Option Loc) (depth : Nat) (ctx : Bool) :
    (hookBody d tgt loc depth ctx).lastCallDepth = d.lastCallDepth ∧
    (hookBody d tgt loc depth ctx).lastCallDepths = d.lastCallDepths := by
  obtain ⟨c1, c2, _, _⟩ := consumePending_depths d tgt loc
  cases loc with
  | none =>
    simp only [hookBody]
    split
    · rename_i h; cases h
    · exact ⟨c1, c2⟩
  | some l =>
    obtain ⟨r1, r2⟩ := runningBlock_depths (consumePending d tgt (some l)) tgt l depth ctx
    simp only [hookBody]
    split
    · rename_i h
      cases h
      exact ⟨r1.trans c1, r2.trans c2⟩
    · exact ⟨c1, c2⟩

theorem hookLoop_fst (d : DState) (loc : Option Loc) :
    (hookLoop d loc).1 = consumePending d (isTarget d) loc := by
  simp only [hookLoop]
  split
  · rfl
  · split <;> rfl

theorem hookLoop_depths (d : DState) (loc : Option Loc) :
    (hookLoop d loc).1.lastCallDepth = d.lastCallDepth ∧
    (hookLoop d loc).1.lastCallDepths = d.lastCallDepths ∧
    (hookLoop d loc).1.steps = d.steps ∧
    (hookLoop d loc).1.currentThread = d.currentThread := by
  rw [hookLoop_fst]
  exact consumePending_depths d (isTarget d) loc

theorem onStatement_current (d : DState) (loc : Option Loc) (depth : Nat) (ctx : Bool) :
    (onStatement d loc depth ctx).1.currentThread = d.currentThread := by
  obtain ⟨_, _, _, l4⟩ := hookLoop_depths (hookEntry d loc depth ctx) loc
  unfold onStatement
  rw [l4]
  exact (hookEntry_cases d loc depth ctx).1

theorem onStatement_depths (d : DState) (loc : Option Loc) (depth : Nat) (ctx : Bool) :
    (onStatement d loc depth ctx).1.lastCallDepth = depth ∧
    (∀ t, d.currentThread = some t → alookup (onStatement d loc depth ctx).1.lastCallDepths t = some depth) := by
  obtain ⟨l1, l2, _, _⟩ := hookLoop_depths (hookEntry d loc depth ctx) loc
  obtain ⟨b1, b2⟩ := hookBody_depths (recordHook d loc depth) (isTarget (recordHook d loc depth)) loc depth ctx
  unfold onStatement
  rw [l1, l2]
  unfold hookEntry
  rw [b1, b2]
  refine ⟨rfl, ?_⟩
  intro t ht
  simp [recordHook, ht, alookup_ainsert_self]

theorem applyAction_depths (d : DState) (a : Action) :
    (applyAction d a).1.lastCallDepth = d.lastCallDepth ∧
    (applyAction d a).1.lastCallDepths = d.lastCallDepths ∧
    (applyAction d a).1.currentThread = d.currentThread ∧
    (applyAction d a).1.stops = d.stops := by
  cases a <;> simp [applyAction, armStep] <;> split <;> simp

theorem applyAction_resume_mode (d : DState) (a : Action) (ha : a.isResume = true) :
    (applyAction d a).1.mode = .running ∧ (applyAction d a).1.pendingStop = none ∧
    (applyAction d a).2.2 = true ∧ (applyAction d a).1.stops = d.stops ∧ (applyAction d a).2.1 = .applied := by
  cases a <;> simp_all [applyAction, armStep, Action.isResume]

theorem hookLoop_running (d : DState) (loc : Option Loc) (h : d.mode = .running) :
    hookLoop d loc = (d, true) := by
  simp [hookLoop, consumePending, h]

/-- Invariant of the transition system (all reachable states, all interleavings). -/
structure Inv {M W : Type} (p : Prog M W) (s : Sys M W) : Prop where
  /-- outside the monitor, a `Paused` mode still has its stop pending -/
  idle_pending : s.rt = .idle → s.d.mode = .paused → s.d.pendingStop ≠ none
  /-- a sleeping thread that was not notified is in a state in which it has to sleep -/
  wait_sleep : ∀ loc, s.rt = .waiting loc → s.notified = false →
    s.d.mode = .paused ∧ s.d.pendingStop = none
  wait_target : ∀ loc, s.rt = .waiting loc → s.d.mode = .paused → s.d.pendingStop = none →
    isTarget s.d = true
  /-- the sleeping thread is inside the hook of the statement at `pc` -/
  wait_item : ∀ loc, s.rt = .waiting loc → ∃ depth ctx, p.item s.pc = .stmt loc depth ctx ∧
    s.d.lastCallDepth = depth ∧ (∀ t, s.d.currentThread = some t → alookup s.d.lastCallDepths t = some depth)

theorem inv_init {M W : Type} (p : Prog M W) (m0 : M) : Inv p (Sys.init m0 : Sys M W) := by
  constructor <;> simp [Sys.init, DState.init]

theorem applyAction_pause_cases (d : DState) (t : Option Nat) :
    (d.mode = .paused ∧ applyAction d (.pause t) = (d, .ignored, false))
    ∨ (d.mode = .running ∧ (applyAction d (.pause t)).1.mode = .paused ∧
        (applyAction d (.pause t)).1.pendingStop = some .pause ∧ (applyAction d (.pause t)).2.2 = false) := by
  cases hm : d.mode <;> simp [applyAction, hm]

theorem pauseEntry_cases (d : DState) :
    (d.mode = .paused ∧ pauseEntry d = d)
    ∨ (d.mode = .running ∧ (pauseEntry d).mode = .paused ∧ (pauseEntry d).pendingStop = some .entry ∧
        (pauseEntry d).lastCallDepth = d.lastCallDepth ∧ (pauseEntry d).lastCallDepths = d.lastCallDepths ∧
        (pauseEntry d).currentThread = d.currentThread) := by
  cases hm : d.mode <;> simp [pauseEntry, hm]

theorem inv_step {M W : Type} (p : Prog M W) (s : Sys M W) (l : Label W) (h : Inv p s) :
    Inv p (step p s l) := by
  cases l with
  | run =>
    cases hrt : s.rt with
    | waiting loc => simpa [step, hrt] using h
    | idle =>
      cases hit : p.item s.pc with
      | stmt loc depth ctx =>
        have hidle := h.idle_pending hrt
        obtain ⟨dd, dt⟩ := onStatement_depths s.d loc depth ctx
        have hcur := onStatement_current s.d loc depth ctx
        rcases onStatement_cases s.d loc depth ctx hidle with ⟨h1, h2, h3, h4, _⟩ | ⟨h1, _, h3, h4, _⟩
        · -- parks
          have hs : step p s .run = { s with d := (onStatement s.d loc depth ctx).1, rt := .waiting loc, notified := false } := by
            simp [step, hrt, hit, h1]
          rw [hs]
          constructor
          · simp
          · intro loc' _ _; exact ⟨h2, h4⟩
          · intro loc' _ _ _; exact h3
          · intro loc' hl
            simp at hl
            subst hl
            refine ⟨depth, ctx, hit, dd, ?_⟩
            intro t ht
            exact dt t (hcur ▸ ht)
        · -- comes back
          have hs : step p s .run = { s with d := (onStatement s.d loc depth ctx).1, pc := s.pc + 1, mem := p.exec s.pc s.mem } := by
            simp [step, hrt, hit, h1]
          rw [hs]
          constructor
          · intro _ hm
            simp only [] at hm ⊢
            rw [h4]; exact hidle (h3 ▸ hm)
          · intro loc' hl; simp [hrt] at hl
          · intro loc' hl; simp [hrt] at hl
          · intro loc' hl; simp [hrt] at hl
      | thread t =>
        have hs : step p s .run = { s with d := setCurrentThread s.d t, pc := s.pc + 1 } := by
          simp [step, hrt, hit]
        rw [hs]
        constructor
        · intro _ hm; exact h.idle_pending hrt hm
        · intro loc' hl; simp [hrt] at hl
        · intro loc' hl; simp [hrt] at hl
        · intro loc' hl; simp [hrt] at hl
      | boundary =>
        have hs : step p s .run = { s with mem := s.queue.foldl (fun m w => p.applyW w m) s.mem, queue := [], pc := s.pc + 1 } := by
          simp [step, hrt, hit]
        rw [hs]
        constructor
        · intro _ hm; exact h.idle_pending hrt hm
        · intro loc' hl; simp [hrt] at hl
        · intro loc' hl; simp [hrt] at hl
        · intro loc' hl; simp [hrt] at hl
  | wake =>
    cases hrt : s.rt with
    | idle => simpa [step, hrt] using h
    | waiting loc =>
      obtain ⟨l1, l2, _, l4⟩ := hookLoop_depths s.d loc
      rcases hookLoop_cases s.d loc with ⟨k1, k2, k3⟩ | ⟨k1, _, _, k4, k5, k6, _⟩
      · -- leaves the hook
        have hs : step p s .wake = { s with d := (hookLoop s.d loc).1, rt := .idle, notified := false, pc := s.pc + 1, mem := p.exec s.pc s.mem } := by
          simp [step, hrt, k1]
        rw [hs, k2]
        constructor
        · intro _ hm hp
          rcases k3 with k3 | k3
          · rw [k3] at hm; cases hm
          · have := h.wait_target loc hrt hm hp
            rw [this] at k3; cases k3
        · intro loc' hl; simp at hl
        · intro loc' hl; simp at hl
        · intro loc' hl; simp at hl
      · -- sleeps again
        have hs : step p s .wake = { s with d := (hookLoop s.d loc).1, notified := false } := by
          simp [step, hrt, k1]
        rw [hs]
        constructor
        · intro hl; simp [hrt] at hl
        · intro loc' _ _; exact ⟨k4, k6⟩
        · intro loc' _ _ _; exact k5
        · intro loc' hl
          have hl' : s.rt = .waiting loc' := hl
          obtain ⟨depth, ctx, h1, h2, h3⟩ := h.wait_item loc' hl'
          refine ⟨depth, ctx, h1, l1.trans h2, ?_⟩
          intro t ht
          rw [l2]; exact h3 t (l4 ▸ ht)
  | act a =>
    obtain ⟨a1, a2, a3, _⟩ := applyAction_depths s.d a
    have hs : step p s (.act a) = { s with d := (applyAction s.d a).1, notified := s.notified || (applyAction s.d a).2.2 } := rfl
    rw [hs]
    cases a with
    | pause t =>
      rcases applyAction_pause_cases s.d t with ⟨hm, he⟩ | ⟨hm, e1, e2, e3⟩
      · simp only [he, Bool.or_false]; exact h
      · constructor
        · intro _ _; simp [e2]
        · intro loc' hl hn
          simp only [e3, Bool.or_false] at hn
          have := (h.wait_sleep loc' hl hn).1
          simp [hm] at this
        · intro loc' _ _ hp; simp [e2] at hp
        · intro loc' hl
          obtain ⟨depth, ctx, h1, h2, h3⟩ := h.wait_item loc' hl
          exact ⟨depth, ctx, h1, a1.trans h2, fun t ht => by rw [a2]; exact h3 t (a3 ▸ ht)⟩
    | continue_ =>
      obtain ⟨r1, r2, r3, _⟩ := applyAction_resume_mode s.d .continue_ rfl
      constructor
      · intro _ hm; simp [r1] at hm
      · intro loc' _ hn; simp [r3] at hn
      · intro loc' _ hm; simp [r1] at hm
      · intro loc' hl
        obtain ⟨depth, ctx, h1, h2, h3⟩ := h.wait_item loc' hl
        exact ⟨depth, ctx, h1, a1.trans h2, fun t ht => by rw [a2]; exact h3 t (a3 ▸ ht)⟩
    | stepIn t =>
      obtain ⟨r1, r2, r3, _⟩ := applyAction_resume_mode s.d (.stepIn t) rfl
      constructor
      · intro _ hm; simp [r1] at hm
      · intro loc' _ hn; simp [r3] at hn
      · intro loc' _ hm; simp [r1] at hm
      · intro loc' hl
        obtain ⟨depth, ctx, h1, h2, h3⟩ := h.wait_item loc' hl
        exact ⟨depth, ctx, h1, a1.trans h2, fun t ht => by rw [a2]; exact h3 t (a3 ▸ ht)⟩
    | stepOver t =>
      obtain ⟨r1, r2, r3, _⟩ := applyAction_resume_mode s.d (.stepOver t) rfl
      constructor
      · intro _ hm; simp [r1] at hm
      · intro loc' _ hn; simp [r3] at hn
      · intro loc' _ hm; simp [r1] at hm
      · intro loc' hl
        obtain ⟨depth, ctx, h1, h2, h3⟩ := h.wait_item loc' hl
        exact ⟨depth, ctx, h1, a1.trans h2, fun t ht => by rw [a2]; exact h3 t (a3 ▸ ht)⟩
    | stepOut t =>
      obtain ⟨r1, r2, r3, _⟩ := applyAction_resume_mode s.d (.stepOut t) rfl
      constructor
      · intro _ hm; simp [r1] at hm
      · intro loc' _ hn; simp [r3] at hn
      · intro loc' _ hm; simp [r1] at hm
      · intro loc' hl
        obtain ⟨depth, ctx, h1, h2, h3⟩ := h.wait_item loc' hl
        exact ⟨depth, ctx, h1, a1.trans h2, fun t ht => by rw [a2]; exact h3 t (a3 ▸ ht)⟩
  | pauseEntry =>
    have hs : step p s .pauseEntry = { s with d := pauseEntry s.d } := rfl
    rw [hs]
    rcases pauseEntry_cases s.d with ⟨_, he⟩ | ⟨hm, e1, e2, e3, e4, e5⟩
    · rw [he]; exact h
    · constructor
      · intro _ _; simp [e2]
      · intro loc' hl hn
        have := (h.wait_sleep loc' hl hn).1
        simp [hm] at this
      · intro loc' _ _ hp; simp [e2] at hp
      · intro loc' hl
        obtain ⟨depth, ctx, h1, h2, h3⟩ := h.wait_item loc' hl
        exact ⟨depth, ctx, h1, e3.trans h2, fun t ht => by rw [e4]; exact h3 t (e5 ▸ ht)⟩
  | setBps f bps => exact ⟨h.idle_pending, h.wait_sleep, h.wait_target, h.wait_item⟩
  | clearBps => exact ⟨h.idle_pending, h.wait_sleep, h.wait_target, h.wait_item⟩
  | enqueue w => exact ⟨h.idle_pending, h.wait_sleep, h.wait_target, h.wait_item⟩

theorem reachable_inv {M W : Type} (p : Prog M W) (m0 : M) (s : Sys M W) (h : Reachable p m0 s) :
    Inv p s := by
  induction h with
  | init => exact inv_init p m0
  | step l _ ih => exact inv_step p _ l ih

/-- Only `Pause` and `Entry` are ever left pending. -/
def PendingKind (d : DState) : Prop := ∀ r, d.pendingStop = some r → r = .pause ∨ r = .entry

theorem pendingKind_of_none {d : DState} (h : d.pendingStop = none) : PendingKind d := by
  intro r hr; simp [h] at hr

theorem pendingKind_applyAction (d : DState) (a : Action) (h : PendingKind d) :
    PendingKind (applyAction d a).1 := by
  cases a with
  | pause t =>
    rcases applyAction_pause_cases d t with ⟨_, he⟩ | ⟨_, _, e2, _⟩
    · rw [he]; exact h
    · intro r hr; simp [e2] at hr; exact Or.inl hr.symm
  | continue_ => exact pendingKind_of_none (applyAction_resume_mode d _ rfl).2.1
  | stepIn t => exact pendingKind_of_none (applyAction_resume_mode d _ rfl).2.1
  | stepOver t => exact pendingKind_of_none (applyAction_resume_mode d _ rfl).2.1
  | stepOut t => exact pendingKind_of_none (applyAction_resume_mode d _ rfl).2.1

theorem pendingKind_pauseEntry (d : DState) (h : PendingKind d) : PendingKind (pauseEntry d) := by
  rcases pauseEntry_cases d with ⟨_, he⟩ | ⟨_, _, e2, _⟩
  · rw [he]; exact h
  · intro r hr; simp [e2] at hr; exact Or.inr hr.symm

theorem pendingKind_hookLoop (d : DState) (loc : Option Loc) (h : PendingKind d) :
    PendingKind (hookLoop d loc).1 := by
  rcases hookLoop_cases d loc with ⟨_, k2, _⟩ | ⟨_, _, _, _, _, k6, _⟩
  · rw [k2]; exact h
  · exact pendingKind_of_none k6

theorem pendingKind_onStatement (d : DState) (loc : Option Loc) (depth : Nat) (ctx : Bool)
    (h : PendingKind d) : PendingKind (onStatement d loc depth ctx).1 := by
  unfold onStatement
  apply pendingKind_hookLoop
  rcases (hookEntry_cases d loc depth ctx).2 with ⟨_, h2, _⟩ | ⟨_, h2, _⟩
  · exact pendingKind_of_none h2
  · intro r hr; exact h r (h2 ▸ hr)

theorem pendingKind_step {M W : Type} (p : Prog M W) (s : Sys M W) (l : Label W)
    (h : PendingKind s.d) : PendingKind (step p s l).d := by
  cases l with
  | run =>
    cases hrt : s.rt with
    | waiting loc => simpa [step, hrt] using h
    | idle =>
      cases hit : p.item s.pc with
      | stmt loc depth ctx =>
        have := pendingKind_onStatement s.d loc depth ctx h
        simp only [step, hrt, hit]
        split <;> exact this
      | thread t => simpa [step, hrt, hit, setCurrentThread, PendingKind] using h
      | boundary => simpa [step, hrt, hit] using h
  | wake =>
    cases hrt : s.rt with
    | idle => simpa [step, hrt] using h
    | waiting loc =>
      have := pendingKind_hookLoop s.d loc h
      simp only [step, hrt]
      split <;> exact this
  | act a => exact pendingKind_applyAction s.d a h
  | pauseEntry => exact pendingKind_pauseEntry s.d h
  | setBps f bps => exact h
  | clearBps => exact h
  | enqueue w => exact h

theorem reachable_pendingKind {M W : Type} (p : Prog M W) (m0 : M) (s : Sys M W)
    (h : Reachable p m0 s) : PendingKind s.d := by
  induction h with
  | init => intro r hr; simp [Sys.init, DState.init] at hr
  | step l _ ih => exact pendingKind_step p _ l ih

/-- Every entry of `new` has the kind and target depth of some entry of `old`. -/
def StepsFrom (new old : List (Nat × StepState)) : Prop :=
  ∀ x ∈ new, ∃ y ∈ old, x.2.kind = y.2.kind ∧ x.2.targetDepth = y.2.targetDepth

theorem StepsFrom.refl (m : List (Nat × StepState)) : StepsFrom m m :=
  fun x hx => ⟨x, hx, rfl, rfl⟩

theorem StepsFrom.nil (m : List (Nat × StepState)) : StepsFrom [] m := by
  intro x hx; simp at hx

theorem StepsFrom.trans {a b c : List (Nat × StepState)} (h1 : StepsFrom a b) (h2 : StepsFrom b c) :
    StepsFrom a c := by
  intro x hx
  obtain ⟨y, hy, e1, e2⟩ := h1 x hx
  obtain ⟨z, hz, f1, f2⟩ := h2 y hy
  exact ⟨z, hz, e1.trans f1, e2.trans f2⟩

theorem stepCheck_steps (d : DState) (depth : Nat) : StepsFrom (stepCheck d depth).1.steps d.steps := by
  unfold stepCheck
  split
  · exact StepsFrom.refl _
  · split
    · exact StepsFrom.refl _
    · rename_i k _ _ st hl
      split
      · intro x hx
        rcases mem_ainsert _ _ _ _ hx with h | h
        · exact ⟨x, h, rfl, rfl⟩
        · exact ⟨(k, st), alookup_mem hl, by simp [h], by simp [h]⟩
      · split
        · intro x hx
          exact ⟨x, mem_aerase _ _ _ hx, rfl, rfl⟩
        · exact StepsFrom.refl _

theorem runningBlock_steps (d : DState) (tgt : Bool) (l : Loc) (depth : Nat) (ctx : Bool) :
    StepsFrom (runningBlock d tgt l depth ctx).steps d.steps := by
  have hs := stepCheck_steps d depth
  have hb : ∀ d1 : DState, StepsFrom (bpBlock d1 l ctx).steps d1.steps := by
    intro d1
    obtain ⟨_, _, _, _, c⟩ := bpBlock_cases d1 l ctx
    rcases c with ⟨_, _, _, _, _, _, k, _⟩ | ⟨_, _, _, _, k⟩
    · rw [k]; exact StepsFrom.nil _
    · rw [k]; exact StepsFrom.refl _
  cases tgt
  · simp only [runningBlock, Bool.false_eq_true, if_false]
    exact hb d
  · simp only [runningBlock, if_true]
    split
    · simpa [emitStop] using hs
    · exact (hb _).trans hs

theorem hookBody_steps (d : DState) (tgt : Bool) (loc : Option Loc) (depth : Nat) (ctx : Bool) :
    StepsFrom (hookBody d tgt loc depth ctx).steps d.steps := by
  obtain ⟨_, _, c3, _⟩ := consumePending_depths d tgt loc
  cases loc with
  | none =>
    simp only [hookBody]
    split
    · rename_i h; cases h
    · rw [c3]; exact StepsFrom.refl _
  | some l =>
    have r := runningBlock_steps (consumePending d tgt (some l)) tgt l depth ctx
    simp only [hookBody]
    split
    · rename_i h
      cases h
      rw [c3] at r; exact r
    · rw [c3]; exact StepsFrom.refl _

theorem onStatement_steps (d : DState) (loc : Option Loc) (depth : Nat) (ctx : Bool) :
    StepsFrom (onStatement d loc depth ctx).1.steps d.steps := by
  obtain ⟨_, _, l3, _⟩ := hookLoop_depths (hookEntry d loc depth ctx) loc
  unfold onStatement
  rw [l3]
  exact hookBody_steps (recordHook d loc depth) _ loc depth ctx

theorem applyAction_steps (d : DState) (a : Action) (ha : a.isStep = false) :
    StepsFrom (applyAction d a).1.steps d.steps := by
  cases a with
  | pause t =>
    rcases applyAction_pause_cases d t with ⟨_, he⟩ | ⟨hm, _⟩
    · rw [he]; exact StepsFrom.refl _
    · simp [applyAction, hm]; exact StepsFrom.nil _
  | continue_ => simp [applyAction]; exact StepsFrom.nil _
  | stepIn t => simp [Action.isStep] at ha
  | stepOver t => simp [Action.isStep] at ha
  | stepOut t => simp [Action.isStep] at ha

theorem pauseEntry_steps (d : DState) : StepsFrom (pauseEntry d).steps d.steps := by
  cases hm : d.mode
  · simp [pauseEntry, hm]; exact StepsFrom.nil _
  · simp [pauseEntry, hm]; exact StepsFrom.refl _

/-- No label other than a step action creates or retargets a step. -/
theorem step_steps {M W : Type} (p : Prog M W) (s : Sys M W) (l : Label W) (hl : l.isStepAct = false) :
    StepsFrom (step p s l).d.steps s.d.steps := by
  cases l with
  | run =>
    cases hrt : s.rt with
    | waiting loc => simp only [step, hrt]; exact StepsFrom.refl _
    | idle =>
      cases hit : p.item s.pc with
      | stmt loc depth ctx =>
        have := onStatement_steps s.d loc depth ctx
        simp only [step, hrt, hit]
        split <;> exact this
      | thread t => simp only [step, hrt, hit, setCurrentThread]; exact StepsFrom.refl _
      | boundary => simp only [step, hrt, hit]; exact StepsFrom.refl _
  | wake =>
    cases hrt : s.rt with
    | idle => simp only [step, hrt]; exact StepsFrom.refl _
    | waiting loc =>
      obtain ⟨_, _, l3, _⟩ := hookLoop_depths s.d loc
      simp only [step, hrt]
      split <;> (simp only [l3]; exact StepsFrom.refl _)
  | act a => exact applyAction_steps s.d a hl
  | pauseEntry => exact pauseEntry_steps s.d
  | setBps f bps => exact StepsFrom.refl _
  | clearBps => exact StepsFrom.refl _
  | enqueue w => exact StepsFrom.refl _

def StepsAre (d : DState) (kinds : StepKind → Prop) (D : Nat) : Prop :=
  ∀ x ∈ d.steps, kinds x.2.kind ∧ x.2.targetDepth = D

theorem StepsAre.mono {d e : DState} {kinds : StepKind → Prop} {D : Nat} (h : StepsAre d kinds D)
    (hs : StepsFrom e.steps d.steps) : StepsAre e kinds D := by
  intro x hx
  obtain ⟨y, hy, e1, e2⟩ := hs x hx
  obtain ⟨k1, k2⟩ := h y hy
  exact ⟨e1 ▸ k1, e2.trans k2⟩

theorem drop_len_append {α : Type} (l : List α) (x : α) : (l ++ [x]).drop l.length = [x] := by
  simp

/-- The stops a single label adds, with a justification for a `Step` reason. -/
theorem step_new_stops {M W : Type} (p : Prog M W) (s : Sys M W) (l : Label W)
    (hpk : PendingKind s.d) (hinv : Inv p s) :
    (step p s l).d.stops = s.d.stops
    ∨ ∃ st, (step p s l).d.stops = s.d.stops ++ [st] ∧
        (st.reason = .step → ∃ k ss, (k, ss) ∈ s.d.steps ∧ ss.started = true ∧
            ss.pausesAt (p.item s.pc).depth = true) := by
  cases l with
  | run =>
    cases hrt : s.rt with
    | waiting loc => left; simp [step, hrt]
    | idle =>
      cases hit : p.item s.pc with
      | stmt loc depth ctx =>
        rcases onStatement_cases s.d loc depth ctx (hinv.idle_pending hrt) with
          ⟨h1, _, _, _, r, g, h5, hw⟩ | ⟨h1, h2, _⟩
        · right
          refine ⟨⟨r, loc, s.d.currentThread, g⟩, by simp [step, hrt, hit, h1, h5], ?_⟩
          intro hr
          simp only at hr
          rcases hw with ⟨_, hw⟩ | hw | hw
          · simpa [Item.depth] using hw
          · rw [hr] at hw; cases hw
          · rcases hpk r hw with h | h <;> (rw [hr] at h; cases h)
        · left; simp [step, hrt, hit, h1, h2]
      | thread t => left; simp [step, hrt, hit, setCurrentThread]
      | boundary => left; simp [step, hrt, hit]
  | wake =>
    cases hrt : s.rt with
    | idle => left; simp [step, hrt]
    | waiting loc =>
      rcases hookLoop_cases s.d loc with ⟨k1, k2, _⟩ | ⟨k1, _, _, _, _, _, _, k | ⟨r, k, k'⟩⟩
      · left; simp [step, hrt, k1, k2]
      · left; simp [step, hrt, k1, k.2]
      · right
        refine ⟨⟨r, loc, s.d.currentThread, none⟩, by simp [step, hrt, k1, k'], ?_⟩
        intro hr
        simp only at hr
        rcases hpk r k with h | h <;> (rw [hr] at h; cases h)
  | act a => left; exact (applyAction_depths s.d a).2.2.2
  | pauseEntry =>
    left
    rcases pauseEntry_cases s.d with ⟨_, he⟩ | ⟨hm, _⟩
    · simp [step, he]
    · simp [step, pauseEntry, hm]
  | setBps f bps => left; simp [step, setBreakpointsForFile]
  | clearBps => left; simp [step, clearBreakpoints]
  | enqueue w => left; rfl

theorem reachable_step {M W : Type} {p : Prog M W} {m0 : M} {s : Sys M W} (h : Reachable p m0 s)
    (l : Label W) : Reachable p m0 (step p s l) := Reachable.step l h

/-- Along any run without further step actions, a `Step` stop is justified by the (unique) kind and
target depth the steps had at the start. -/
theorem stopEvents_step_bound {M W : Type} (p : Prog M W) (m0 : M) (ls : List (Label W))
    (hns : ∀ l ∈ ls, l.isStepAct = false) (D : Nat) :
    ∀ (s : Sys M W), Reachable p m0 s → StepsAre s.d (fun k => k = .over ∨ k = .out) D →
    ∀ e ∈ stopEvents p s ls, e.1.reason = .step → e.2 ≤ D := by
  induction ls with
  | nil => intro s _ _ e he; simp [stopEvents] at he
  | cons l ls ih =>
    intro s hr hs e he hreason
    have hl : l.isStepAct = false := hns l (by simp)
    have hs' : StepsAre (step p s l).d (fun k => k = .over ∨ k = .out) D := hs.mono (step_steps p s l hl)
    simp only [stopEvents, List.mem_append, List.mem_map] at he
    rcases he with ⟨st, hst, rfl⟩ | he
    · rcases step_new_stops p s l (reachable_pendingKind p m0 s hr) (reachable_inv p m0 s hr) with h | ⟨st', h, hj⟩
      · simp [h] at hst
      · rw [h, drop_len_append] at hst
        simp at hst
        subst hst
        obtain ⟨k, ss, hmem, _, hp⟩ := hj hreason
        obtain ⟨hk, hD⟩ := hs (k, ss) hmem
        simp only at hk hD
        simp only
        rcases hk with hk | hk <;> simp [StepState.pausesAt, hk, hD] at hp <;> exact hp
    · exact ih (fun l' hl' => hns l' (by simp [hl'])) (step p s l) (reachable_step hr l) hs' e he hreason

theorem acontains_single (k : Nat) (v : StepState) : acontains [(k, v)] k = true := by
  simp [acontains, alookup]

theorem stepIn_then_hook (d : DState) (th : Option Nat) (hth : th = none ∨ th = d.currentThread)
    (hm : d.mode = .paused) (l : Loc) (depth : Nat) (ctx : Bool) :
    (onStatement (applyAction d (.stepIn th)).1 (some l) depth ctx).2 = false ∧
    (onStatement (applyAction d (.stepIn th)).1 (some l) depth ctx).1.stops =
      d.stops ++ [⟨.step, some l, d.currentThread, none⟩] := by
  have ho : orCurrent d th = d.currentThread := by
    rcases hth with h | h
    · simp [orCurrent, h]
    · cases hc : d.currentThread <;> simp_all [orCurrent]
  cases hc : d.currentThread with
  | none =>
    simp [onStatement, hookEntry, hookBody, recordHook, applyAction, armStep, ho, hc, hm, isTarget,
      consumePending, runningBlock, stepCheck, stepKey, acontains, alookup, StepState.pausesAt, emitStop,
      hookLoop, aerase]
  | some t =>
    simp [onStatement, hookEntry, hookBody, recordHook, applyAction, armStep, ho, hc, hm, isTarget,
      consumePending, runningBlock, stepCheck, stepKey, acontains, alookup, StepState.pausesAt, emitStop,
      hookLoop, aerase]

/-! ### adapter layer: provenance of breakpoint stops -/
/-- Provenance of a Breakpoint stop: a breakpoint of the statement's file with that generation. -/
def BpProv (d : DState) (loc : Option Loc) (st : Stop) : Prop :=
  st.reason = .breakpoint →
    ∃ l bp, loc = some l ∧ st.loc = some l ∧ bp ∈ d.breakpoints ∧ st.gen = some bp.gen ∧ bp.loc.file = l.file

theorem runningBlock_bps (d : DState) (tgt : Bool) (l : Loc) (depth : Nat) (ctx : Bool) :
    BpsSame (runningBlock d tgt l depth ctx) d ∧
    ∀ st, (runningBlock d tgt l depth ctx).stops = d.stops ++ [st] → BpProv d (some l) st := by
  obtain ⟨st', hf⟩ := stepCheck_frame d depth
  have hb : ∀ (d1 : DState), d1.breakpoints = d.breakpoints → d1.bpGeneration = d.bpGeneration →
      d1.stops = d.stops → d1.currentThread = d.currentThread →
      BpsSame (bpBlock d1 l ctx) d ∧
      ∀ st, (bpBlock d1 l ctx).stops = d.stops ++ [st] → BpProv d (some l) st := by
    intro d1 e1 e2 e3 e4
    obtain ⟨_, _, _, c4, c⟩ := bpBlock_cases d1 l ctx
    refine ⟨c4.trans (BpsSame.of_eq e2 e1), ?_⟩
    intro st hst _
    rcases c with ⟨bp, hbp, hfile, _, _, _, _, k⟩ | ⟨_, _, _, k, _⟩
    · rw [k, e3] at hst
      simp at hst
      subst hst
      exact ⟨l, bp, rfl, rfl, e1 ▸ hbp, rfl, hfile⟩
    · rw [k, e3] at hst
      simp at hst
  cases tgt
  · simpa [runningBlock] using hb d rfl rfl rfl rfl
  · by_cases hsp : (stepCheck d depth).2 = true
    · refine ⟨?_, ?_⟩
      · simp only [runningBlock, if_true, hsp]
        exact BpsSame.of_eq (by simp [emitStop, hf]) (by simp [emitStop, hf])
      · intro st hst hr
        simp [runningBlock, hsp, emitStop, hf] at hst
        subst hst
        cases hr
    · have := hb (stepCheck d depth).1 (by simp [hf]) (by simp [hf]) (by simp [hf]) (by simp [hf])
      simpa [runningBlock, hsp] using this

theorem hookBody_bps (d : DState) (tgt : Bool) (loc : Option Loc) (depth : Nat) (ctx : Bool)
    (hpk : PendingKind d) :
    BpsSame (hookBody d tgt loc depth ctx) d ∧
    ∀ st, (hookBody d tgt loc depth ctx).stops = d.stops ++ [st] → BpProv d loc st := by
  -- the state after `consumePending`: same breakpoints; stops either unchanged or one pending stop
  have hc := consumePending_bps d tgt loc
  have hcs : (consumePending d tgt loc).stops = d.stops ∨
      ∃ r, d.pendingStop = some r ∧ (consumePending d tgt loc).stops = d.stops ++ [⟨r, loc, d.currentThread, none⟩] := by
    unfold consumePending
    split
    · cases hp : d.pendingStop with
      | none => left; rfl
      | some r => right; exact ⟨r, rfl, by simp [emitStop]⟩
    · left; rfl
  have hnone : ∀ st, (consumePending d tgt loc).stops = d.stops ++ [st] → BpProv d loc st := by
    intro st hst hr
    rcases hcs with h | ⟨r, hp, h⟩
    · rw [h] at hst; simp at hst
    · rw [h] at hst
      simp at hst
      subst hst
      rcases hpk r hp with h' | h' <;> (rw [h'] at hr; cases hr)
  cases loc with
  | none =>
    simp only [hookBody]
    split
    · rename_i h; cases h
    · exact ⟨hc, hnone⟩
  | some l =>
    simp only [hookBody]
    split
    · rename_i h
      cases h
      rename_i heff
      -- Running block reached: `consumePending` emitted nothing (mode running or not the target)
      have hsame : (consumePending d tgt (some l)).stops = d.stops := by
        rcases hcs with h | ⟨r, hp, h⟩
        · exact h
        · exfalso
          -- a pending stop was consumed, so mode = paused ∧ tgt, hence eff = paused
          unfold consumePending at h heff
          split at h
          · rename_i hcond
            simp only [hp] at h heff
            have hm : d.mode = .paused := by
              cases hm : d.mode <;> simp_all
            have ht : tgt = true := by cases tgt <;> simp_all
            simp [ht, emitStop, hm] at heff
          · simp at h
      obtain ⟨r1, r2⟩ := runningBlock_bps (consumePending d tgt (some l)) tgt l depth ctx
      refine ⟨r1.trans hc, ?_⟩
      intro st hst hr
      obtain ⟨l', bp, e1, e2, e3, e4, e5⟩ := r2 st (by rw [hsame]; exact hst) hr
      obtain ⟨b, hb, f1, f2⟩ := hc.2 bp e3
      exact ⟨l', b, e1, e2, hb, by rw [e4, f2], by rw [← f1]; exact e5⟩
    · exact ⟨hc, hnone⟩

theorem hookLoop_bps (d : DState) (loc : Option Loc) : BpsSame (hookLoop d loc).1 d := by
  rw [hookLoop_fst]; exact consumePending_bps d _ loc

theorem onStatement_bps (d : DState) (loc : Option Loc) (depth : Nat) (ctx : Bool) (hpk : PendingKind d) :
    BpsSame (onStatement d loc depth ctx).1 d := by
  unfold onStatement hookEntry
  have hpk' : PendingKind (recordHook d loc depth) := hpk
  have h1 := (hookBody_bps (recordHook d loc depth) (isTarget (recordHook d loc depth)) loc depth ctx hpk').1
  have h2 := hookLoop_bps (hookBody (recordHook d loc depth) (isTarget (recordHook d loc depth)) loc depth ctx) loc
  exact h2.trans (h1.trans (BpsSame.of_eq rfl rfl))

/-- A stop announced by a parking hook call has breakpoint provenance. -/
theorem onStatement_prov (d : DState) (loc : Option Loc) (depth : Nat) (ctx : Bool) (hpk : PendingKind d)
    (hidle : d.mode = .paused → d.pendingStop ≠ none) (st : Stop)
    (h : (onStatement d loc depth ctx).1.stops = d.stops ++ [st]) : BpProv d loc st := by
  have hpk' : PendingKind (recordHook d loc depth) := hpk
  have hb := (hookBody_bps (recordHook d loc depth) (isTarget (recordHook d loc depth)) loc depth ctx hpk').2
  -- the wait loop adds nothing when the hook body already announced a stop, and when it did not,
  -- `onStatement_cases` says no stop at all
  rcases onStatement_cases d loc depth ctx hidle with ⟨_, _, _, _, r, g, h5, _⟩ | ⟨_, h2, _⟩
  · rcases (hookEntry_cases d loc depth ctx).2 with ⟨_, e2, _, r', g', e4, _⟩ | ⟨_, _, _, e4, _⟩
    · -- hook body announced it
      have : (hookEntry d loc depth ctx).stops = d.stops ++ [st] := by
        rcases hookLoop_cases (hookEntry d loc depth ctx) loc with ⟨_, k2, _⟩ | ⟨_, _, _, _, _, _, _, k | ⟨r'', k, _⟩⟩
        · unfold onStatement at h; rw [k2] at h; exact h
        · unfold onStatement at h; rw [k.2] at h; exact h
        · simp [e2] at k
      intro hr
      obtain ⟨l, bp, a1, a2, a3, a4, a5⟩ := hb st (by simpa [hookEntry] using this) hr
      exact ⟨l, bp, a1, a2, by simpa using a3, a4, a5⟩
    · -- hook body announced nothing: the stop is the pending one, consumed in the loop
      intro hr
      rcases hookLoop_cases (hookEntry d loc depth ctx) loc with ⟨_, k2, _⟩ | ⟨_, _, _, _, _, _, kc, k | ⟨r'', k, k'⟩⟩
      · unfold onStatement at h; rw [k2, e4] at h; simp at h
      · unfold onStatement at h; rw [k.2, e4] at h; simp at h
      · unfold onStatement at h
        rw [k', e4] at h
        simp at h
        subst h
        have hpk2 : PendingKind (hookEntry d loc depth ctx) := by
          intro x hx
          rcases (hookEntry_cases d loc depth ctx).2 with ⟨_, p2, _⟩ | ⟨_, p2, _⟩
          · simp [p2] at hx
          · exact hpk x (p2 ▸ hx)
        rcases hpk2 r'' k with h' | h' <;> (simp only at hr; rw [h'] at hr; cases hr)
  · rw [h2] at h; simp at h

theorem applyAction_bps (d : DState) (a : Action) :
    (applyAction d a).1.breakpoints = d.breakpoints ∧ (applyAction d a).1.bpGeneration = d.bpGeneration := by
  cases a <;> simp [applyAction, armStep] <;> split <;> simp

/-! ### adapter layer: the invariant behind the partial theorem -/

/-- `last_stop` is the last element of the cumulative stop log. -/
def LastOk (d : DState) : Prop := d.lastStop = d.stops.getLast?

theorem lastOk_emitStop (d : DState) (r : Reason) (loc : Option Loc) (g : Option Nat) :
    LastOk (emitStop d r loc g) := by
  simp [LastOk, emitStop]

theorem lastOk_of_eq {e d : DState} (h : LastOk d) (h1 : e.lastStop = d.lastStop) (h2 : e.stops = d.stops) :
    LastOk e := by
  unfold LastOk at *; rw [h1, h2]; exact h

theorem lastOk_consumePending (d : DState) (tgt : Bool) (loc : Option Loc) (h : LastOk d) :
    LastOk (consumePending d tgt loc) := by
  unfold consumePending
  split
  · split
    · exact lastOk_emitStop _ _ _ _
    · exact h
  · exact h

theorem lastOk_bpBlock (d : DState) (l : Loc) (ctx : Bool) (h : LastOk d) : LastOk (bpBlock d l ctx) := by
  cases hm : (matchBps d.breakpoints l ctx).2.2 with
  | none =>
    have he : bpBlock d l ctx =
        { d with breakpoints := (matchBps d.breakpoints l ctx).1,
                 logs := d.logs + (matchBps d.breakpoints l ctx).2.1 } := by
      simp only [bpBlock, hm]
    rw [he]; exact lastOk_of_eq h rfl rfl
  | some g =>
    have he : bpBlock d l ctx =
        emitStop { d with breakpoints := (matchBps d.breakpoints l ctx).1,
                          logs := d.logs + (matchBps d.breakpoints l ctx).2.1,
                          steps := [], targetThread := none, mode := .paused, pendingStop := none }
          .breakpoint (some l) (some g) := by
      simp only [bpBlock, hm]
    rw [he]; exact lastOk_emitStop _ _ _ _

theorem lastOk_runningBlock (d : DState) (tgt : Bool) (l : Loc) (depth : Nat) (ctx : Bool) (h : LastOk d) :
    LastOk (runningBlock d tgt l depth ctx) := by
  obtain ⟨st', hf⟩ := stepCheck_frame d depth
  have hsc : LastOk (stepCheck d depth).1 := lastOk_of_eq h (by simp [hf]) (by simp [hf])
  cases tgt
  · simp only [runningBlock, Bool.false_eq_true, if_false]
    exact lastOk_bpBlock d l ctx h
  · simp only [runningBlock, if_true]
    split
    · exact lastOk_emitStop _ _ _ _
    · exact lastOk_bpBlock _ l ctx hsc

theorem lastOk_hookBody (d : DState) (tgt : Bool) (loc : Option Loc) (depth : Nat) (ctx : Bool) (h : LastOk d) :
    LastOk (hookBody d tgt loc depth ctx) := by
  have hc := lastOk_consumePending d tgt loc h
  cases loc with
  | none =>
    simp only [hookBody]
    split
    · rename_i h'; cases h'
    · exact hc
  | some l =>
    simp only [hookBody]
    split
    · rename_i h'; cases h'
      exact lastOk_runningBlock _ tgt l depth ctx hc
    · exact hc

theorem lastOk_hookLoop (d : DState) (loc : Option Loc) (h : LastOk d) : LastOk (hookLoop d loc).1 := by
  rw [hookLoop_fst]; exact lastOk_consumePending d _ loc h

theorem lastOk_onStatement (d : DState) (loc : Option Loc) (depth : Nat) (ctx : Bool) (h : LastOk d) :
    LastOk (onStatement d loc depth ctx).1 := by
  unfold onStatement hookEntry
  apply lastOk_hookLoop
  apply lastOk_hookBody
  exact lastOk_of_eq h rfl rfl

theorem applyAction_last (d : DState) (a : Action) :
    (applyAction d a).1.lastStop = d.lastStop := by
  cases a <;> simp [applyAction, armStep] <;> split <;> simp



/-- What the filter does with a stop the runtime is still parked on: Pause/Entry iff expected,
everything else is emitted. -/
def idealEmit (st : Stop) (pe : Bool) : Bool :=
  match st.reason with
  | .pause | .entry => pe
  | _ => true

/-- Processing the whole channel in order, starting with flag `pe`: is some stop emitted?  (The flag
is `false` after every processed stop.) -/
def willEmit : Bool → List Stop → Bool
  | _, [] => false
  | pe, st :: rest => idealEmit st pe || willEmit false rest

/-- The runtime is still parked, for good, on the Breakpoint stop `st`. -/
def BpSettled (s : ASys) (st : Stop) : Prop :=
  st.reason = .breakpoint →
    s.parked = true ∧ s.d.mode = .paused ∧ s.d.pendingStop = none ∧ isTarget s.d = true ∧
    s.d.lastStop = some st ∧ (∃ l, st.loc = some l) ∧ (∃ g, st.gen = some g)

theorem shouldEmit_ideal (s : ASys) (st : Stop) (pe : Bool) (h : BpSettled s st) :
    shouldEmitStop st pe s.d.bpGeneration (stillParkedOn s.d st) = (idealEmit st pe, false) := by
  cases hr : st.reason
  · obtain ⟨_, hm, _, _, hl, ⟨l, hloc⟩, ⟨g, hg⟩⟩ := h hr
    simp [shouldEmitStop, idealEmit, hr, hloc, hg, stillParkedOn, hm, hl]
  · simp [shouldEmitStop, idealEmit, hr]
  · simp [shouldEmitStop, idealEmit, hr]
  · simp [shouldEmitStop, idealEmit, hr]

theorem willEmit_append_always (x : Stop) (hx : ∀ pe, idealEmit x pe = true) :
    ∀ (chan : List Stop) (pe : Bool), willEmit pe (chan ++ [x]) = true := by
  intro chan
  induction chan with
  | nil => intro pe; simp [willEmit, hx]
  | cons st rest ih => intro pe; simp [willEmit, ih]

theorem willEmit_true (chan : List Stop) (hne : chan ≠ []) : willEmit true chan = true := by
  cases chan with
  | nil => exact absurd rfl hne
  | cons st rest =>
    have : idealEmit st true = true := by unfold idealEmit; cases st.reason <;> rfl
    simp [willEmit, this]

/-- The settled clause after a stop `x` was appended to the channel. -/
theorem settled_append (chan : List Stop) (x : Stop) (pe cs : Bool)
    (hpe : x.reason = .pause ∨ x.reason = .entry → pe = true ∨ cs = true) :
    cs = true ∨ willEmit pe (chan ++ [x]) = true := by
  by_cases hr : x.reason = .pause ∨ x.reason = .entry
  · rcases hpe hr with h | h
    · right; subst h; exact willEmit_true _ (by simp)
    · exact Or.inl h
  · right
    apply willEmit_append_always
    intro pe'
    unfold idealEmit
    cases hx : x.reason <;> simp_all

/-- Invariant of the adapter-level system along runs whose resume requests are all safe. -/
structure AInv (s : ASys) : Prop where
  last : LastOk s.d
  bpset : ∀ st ∈ s.chan, BpSettled s st
  pend : s.d.pendingStop ≠ none → s.pauseExpected = true ∨ s.clientStopped = true
  settled : s.parked = true → s.d.mode = .paused → isTarget s.d = true → s.d.pendingStop = none →
    s.clientStopped = true ∨ willEmit s.pauseExpected s.chan = true
  idle : s.parked = false → s.d.mode = .paused → s.d.pendingStop ≠ none
  wtarget : s.parked = true → s.d.mode = .paused → s.d.pendingStop = none → isTarget s.d = true
  pk : PendingKind s.d

theorem ainv_init : AInv ASys.init := by
  constructor <;> simp [ASys.init, DState.init, LastOk, PendingKind]

theorem ainv_hook (s : ASys) (loc : Option Loc) (depth : Nat) (h : AInv s) :
    AInv (astep s (.hook loc depth)) := by
  by_cases hp' : s.parked = true
  · simpa [astep, hp'] using h
  have hp : s.parked = false := by simpa using hp'
  have hidle := h.idle hp
  have hnb : ∀ st ∈ s.chan, st.reason ≠ .breakpoint := by
    intro st hst hr
    have := (h.bpset st hst hr).1
    rw [hp] at this; cases this
  have hlast := lastOk_onStatement s.d loc depth false h.last
  have hpk' := pendingKind_onStatement s.d loc depth false h.pk
  rcases onStatement_cases s.d loc depth false hidle with ⟨h1, h2, h3, h4, r, g, h5, hw⟩ | ⟨h1, h2, h3, h4, h5, h6⟩
  · -- parks after one stop `x`
    have hs : astep s (.hook loc depth) =
        { s with d := (onStatement s.d loc depth false).1, parked := true, parkLoc := loc,
                 chan := s.chan ++ [⟨r, loc, s.d.currentThread, g⟩] } := by
      simp [astep, hp, h1, h5]
    have hprov := onStatement_prov s.d loc depth false h.pk hidle _ h5
    have hl : (onStatement s.d loc depth false).1.lastStop = some ⟨r, loc, s.d.currentThread, g⟩ := by
      rw [hlast, h5]; simp
    rw [hs]
    constructor
    · exact hlast
    · intro st hst hr
      rcases List.mem_append.1 hst with hm | hm
      · exact absurd hr (hnb st hm)
      · simp at hm
        subst hm
        obtain ⟨l, bp, _, a2, _, a4, _⟩ := hprov hr
        exact ⟨rfl, h2, h4, h3, hl, ⟨l, a2⟩, ⟨bp.gen, a4⟩⟩
    · intro hne; exact absurd h4 hne
    · intro _ _ _ _
      apply settled_append
      intro hr
      simp only at hr
      rcases hw with ⟨hs', _⟩ | hb | hpend
      · rcases hr with hr | hr <;> (rw [hs'] at hr; cases hr)
      · rcases hr with hr | hr <;> (rw [hb] at hr; cases hr)
      · exact h.pend (by simp [hpend])
    · intro hf; cases hf
    · intro _ _ _; exact h3
    · exact hpk'
  · -- comes back
    have hs : astep s (.hook loc depth) =
        { s with d := (onStatement s.d loc depth false).1, parked := false, parkLoc := loc } := by
      simp [astep, hp, h1, h2]
    rw [hs]
    constructor
    · exact hlast
    · intro st hst hr; exact absurd hr (hnb st hst)
    · intro hne; exact h.pend (h4 ▸ hne)
    · intro hf; cases hf
    · intro _ hm; rw [h4]; exact hidle (h3 ▸ hm)
    · intro hf; cases hf
    · exact hpk'

theorem ainv_wake (s : ASys) (h : AInv s) : AInv (astep s .wake) := by
  cases hp : s.parked
  · simpa [astep, hp] using h
  have hlast := lastOk_hookLoop s.d s.parkLoc h.last
  have hpk' := pendingKind_hookLoop s.d s.parkLoc h.pk
  rcases hookLoop_cases s.d s.parkLoc with ⟨k1, k2, k3⟩ | ⟨k1, km, kt, k4, k5, k6, k7, k | ⟨r, k, k'⟩⟩
  · -- leaves the hook, state unchanged
    have hs : astep s .wake = { s with parked := false } := by
      simp [astep, hp, k1, k2]
    rw [hs]
    constructor
    · exact h.last
    · intro st hst hr
      obtain ⟨_, b2, _, b4, _⟩ := h.bpset st hst hr
      rcases k3 with k3 | k3
      · rw [k3] at b2; cases b2
      · rw [k3] at b4; cases b4
    · exact h.pend
    · intro hf; cases hf
    · intro _ hm hpn
      rcases k3 with k3 | k3
      · rw [k3] at hm; cases hm
      · have := h.wtarget hp hm hpn
        rw [this] at k3; cases k3
    · intro hf; cases hf
    · exact h.pk
  · -- nothing pending: nothing changes
    have hs : astep s .wake = s := by
      cases s
      simp_all [astep]
    rw [hs]; exact h
  · -- the pending stop is announced, the thread parks again
    have hs : astep s .wake =
        { s with d := (hookLoop s.d s.parkLoc).1, parked := true,
                 chan := s.chan ++ [⟨r, s.parkLoc, s.d.currentThread, none⟩] } := by
      simp [astep, hp, k1, k']
    have hnb : ∀ st ∈ s.chan, st.reason ≠ .breakpoint := by
      intro st hst hr
      have := (h.bpset st hst hr).2.2.1
      rw [k] at this; cases this
    rw [hs]
    constructor
    · exact hlast
    · intro st hst hr
      rcases List.mem_append.1 hst with hm | hm
      · exact absurd hr (hnb st hm)
      · simp at hm; subst hm
        rcases h.pk r k with h' | h' <;> (simp only at hr; rw [h'] at hr; cases hr)
    · intro hne; exact absurd k6 hne
    · intro _ _ _ _
      apply settled_append
      intro _
      exact h.pend (by simp [k])
    · intro hf; cases hf
    · intro _ _ _; exact k5
    · exact hpk'

theorem ainv_resume (s : ASys) (a : Action) (ha : a.isResume = true) (pe : Bool) (h : AInv s)
    (hnb : ∀ st ∈ s.chan, st.reason ≠ .breakpoint) :
    AInv { s with pauseExpected := pe, d := (applyAction s.d a).1, clientStopped := false } := by
  obtain ⟨r1, r2, _, r4, _⟩ := applyAction_resume_mode s.d a ha
  constructor
  · exact lastOk_of_eq h.last (applyAction_last s.d a) r4
  · intro st hst hr; exact absurd hr (hnb st hst)
  · intro hne; exact absurd r2 hne
  · intro _ hm; simp only at hm; rw [r1] at hm; cases hm
  · intro _ hm; simp only at hm; rw [r1] at hm; cases hm
  · intro _ hm; simp only at hm; rw [r1] at hm; cases hm
  · exact pendingKind_of_none r2

theorem ainv_step (s : ASys) (l : ALabel) (h : AInv s) (hok : s.okLabel l = true) :
    AInv (astep s l) := by
  cases l with
  | hook loc depth => exact ainv_hook s loc depth h
  | wake => exact ainv_wake s h
  | reqPause =>
    rcases applyAction_pause_cases s.d none with ⟨hm, _⟩ | ⟨hm, e1, e2, _⟩
    · simpa [astep, hm] using h
    · have hs : astep s .reqPause = { s with pauseExpected := true, d := (applyAction s.d (.pause none)).1 } := by
        simp [astep, hm]
      rw [hs]
      constructor
      · exact lastOk_of_eq h.last (applyAction_last s.d _) (applyAction_depths s.d _).2.2.2
      · intro st hst hr
        have := (h.bpset st hst hr).2.1
        rw [hm] at this; cases this
      · intro _; exact Or.inl rfl
      · intro _ _ _ hpn; simp only at hpn; rw [e2] at hpn; cases hpn
      · intro _ _; simp [e2]
      · intro _ _ hpn; simp only at hpn; rw [e2] at hpn; cases hpn
      · exact pendingKind_applyAction s.d _ h.pk
  | reqContinue =>
    have hnb : ∀ st ∈ s.chan, st.reason ≠ .breakpoint := by
      simp only [ASys.okLabel, List.all_eq_true] at hok
      intro st hst; simpa using hok st hst
    exact ainv_resume s .continue_ rfl false h hnb
  | reqStep a =>
    cases ha : a.isStep
    · simpa [astep, ha] using h
    · have hr : a.isResume = true := by cases a <;> simp_all [Action.isStep, Action.isResume]
      have hnb : ∀ st ∈ s.chan, st.reason ≠ .breakpoint := by
        simp only [ASys.okLabel, ha, Bool.not_true, Bool.false_or, List.all_eq_true] at hok
        intro st hst; simpa using hok st hst
      have hs : astep s (.reqStep a) = { s with pauseExpected := s.pauseExpected, d := (applyAction s.d a).1, clientStopped := false } := by
        simp [astep, ha]
      rw [hs]; exact ainv_resume s a hr s.pauseExpected h hnb
  | reqSetBps file bps =>
    have hs : astep s (.reqSetBps file bps) = { s with d := setBreakpointsForFile s.d file bps } := rfl
    rw [hs]
    exact ⟨h.last, h.bpset, h.pend, h.settled, h.idle, h.wtarget, h.pk⟩
  | coord =>
    cases hc : s.chan with
    | nil => simpa [astep, hc] using h
    | cons st rest =>
      have hid := shouldEmit_ideal s st s.pauseExpected (h.bpset st (by simp [hc]))
      have hs : astep s .coord =
          { s with chan := rest, pauseExpected := false,
                   emitted := if idealEmit st s.pauseExpected then s.emitted ++ [st] else s.emitted,
                   clientStopped := s.clientStopped || idealEmit st s.pauseExpected } := by
        simp [astep, hc, hid]
      rw [hs]
      constructor
      · exact h.last
      · intro x hx; exact h.bpset x (by simp [hc, hx])
      · intro hne
        right
        rcases h.pend hne with hpe | hcs
        · have : idealEmit st true = true := by unfold idealEmit; cases st.reason <;> rfl
          simp [hpe, this]
        · simp [hcs]
      · intro a1 a2 a3 a4
        rcases h.settled a1 a2 a3 a4 with hcs | hwe
        · left; simp [hcs]
        · rw [hc] at hwe
          simp only [willEmit, Bool.or_eq_true] at hwe
          rcases hwe with hwe | hwe
          · left; simp [hwe]
          · right; exact hwe
      · exact h.idle
      · exact h.wtarget
      · exact h.pk

theorem ainv_exec (ls : List ALabel) : ∀ (s : ASys), AInv s → s.runOk ls = true → AInv (aexec s ls) := by
  induction ls with
  | nil => intro s h _; exact h
  | cons l ls ih =>
    intro s h hok
    simp only [ASys.runOk, Bool.and_eq_true] at hok
    exact ih _ (ainv_step s l h hok.1) hok.2

theorem told_of_ainv (s : ASys) (h : AInv s) : s.told = true := by
  simp only [ASys.told, ASys.quiescentParked, Bool.or_eq_true, Bool.not_eq_true', Bool.and_eq_false_iff,
    decide_eq_false_iff_not]
  by_cases hq : s.parked = true ∧ s.chan.isEmpty = true ∧ hookLoop s.d s.parkLoc = (s.d, false)
  · right
    obtain ⟨hp, hc, hl⟩ := hq
    rcases hookLoop_cases s.d s.parkLoc with ⟨k1, _⟩ | ⟨_, km, kt, _, _, _, _, k | ⟨r, k, k'⟩⟩
    · rw [hl] at k1; cases k1
    · have hce : s.chan = [] := by simpa using hc
      rcases h.settled hp km kt k.1 with hcs | hwe
      · exact hcs
      · rw [hce] at hwe; simp [willEmit] at hwe
    · rw [hl] at k'; simp at k'
  · left
    by_cases hp : s.parked = true
    · by_cases hc : s.chan.isEmpty = true
      · right
        intro hl; exact hq ⟨hp, hc, hl⟩
      · left; right; simpa using hc
    · left; left; simpa using hp

/-! ### the expression guard: `calls` finds every call -/
mutual
theorem hasCall_of_mem_calls : ∀ (e : DExpr) (t : Option String), t ∈ e.calls → HasCall e t
  | .leaf, t, h => by simp [DExpr.calls] at h
  | .node cs, t, h => by
    simp only [DExpr.calls] at h
    obtain ⟨e, he, hc⟩ := hasCall_of_mem_callsList cs t h
    exact HasCall.inNode cs e t he hc
  | .call t' cs, t, h => by
    simp only [DExpr.calls, List.mem_cons] at h
    rcases h with h | h
    · subst h; exact HasCall.here _ cs
    · obtain ⟨e, he, hc⟩ := hasCall_of_mem_callsList cs t h
      exact HasCall.inCall t' cs e t he hc
theorem hasCall_of_mem_callsList : ∀ (es : List DExpr) (t : Option String), t ∈ callsList es →
    ∃ e ∈ es, HasCall e t
  | [], t, h => by simp [callsList] at h
  | e :: es, t, h => by
    simp only [callsList, List.mem_append] at h
    rcases h with h | h
    · exact ⟨e, by simp, hasCall_of_mem_calls e t h⟩
    · obtain ⟨e', he', hc⟩ := hasCall_of_mem_callsList es t h
      exact ⟨e', by simp [he'], hc⟩
end

theorem mem_callsList_of_mem (es : List DExpr) (e : DExpr) (t : Option String) (he : e ∈ es)
    (h : t ∈ e.calls) : t ∈ callsList es := by
  induction es with
  | nil => simp at he
  | cons x xs ih =>
    simp only [callsList, List.mem_append]
    rcases List.mem_cons.1 he with rfl | he
    · exact Or.inl h
    · exact Or.inr (ih he)

theorem mem_calls_of_hasCall (e : DExpr) (t : Option String) (h : HasCall e t) : t ∈ e.calls := by
  induction h with
  | here t cs => simp [DExpr.calls]
  | inCall t' cs e t he _ ih =>
    simp only [DExpr.calls, List.mem_cons]
    exact Or.inr (mem_callsList_of_mem cs e t he ih)
  | inNode cs e t he _ ih =>
    simp only [DExpr.calls]
    exact mem_callsList_of_mem cs e t he ih

/-! ### a concrete program for the non-vacuity examples -/

/-- Straight-line program: statement `i` spans bytes `[10 i, 10 i + 5)` of file 0 at depth `i % 2`;
the program state counts executed statements. -/
def demoProg : Prog Nat Unit :=
  { item := fun i => .stmt (some ⟨0, 10 * i, 10 * i + 5⟩) (i % 2) false,
    exec := fun _ m => m + 1, applyW := fun _ m => m }

def demoParked : Sys Nat Unit := exec demoProg (Sys.init 0) [.run, .act (.pause none), .run]

theorem reachable_exec {M W : Type} (p : Prog M W) (m0 : M) (ls : List (Label W)) :
    ∀ s, Reachable p m0 s → Reachable p m0 (exec p s ls) := by
  induction ls with
  | nil => intro s h; exact h
  | cons l ls ih => intro s h; exact ih _ (Reachable.step l h)

def demoBp : Bp :=
  { loc := ⟨0, 0, 10⟩, cond := none, hitCond := none, isLog := false, hits := 0, gen := 0 }

def demoAllowed (n : String) : Bool := ["ABS", "MAX", "INT_TO_DINT"].contains n

end TrustVerif.C17
