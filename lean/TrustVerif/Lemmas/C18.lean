import TrustVerif.Model.C18

/-!
# C18 — helper lemmas (pruning, role resolution, the refusing branches of the gate)
-/
namespace TrustVerif.C18
open Gen

/-! ## Role order -/

theorem allows_iff (a r : Role) : allows a r = true ↔ r.rank ≤ a.rank := by
  simp [allows]

theorem rank_injective (a b : Role) (h : a.rank = b.rank) : a = b := by
  cases a <;> cases b <;> simp_all [Role.rank]

/-! ## Pruning -/

theorem prune_prune_le {a b : Nat} (h : a ≤ b) (ts : List PToken) :
    prune b (prune a ts) = prune b ts := by
  unfold prune
  rw [List.filter_filter]
  congr 1
  funext t
  by_cases hb : b ≤ t.expiresAt
  · have : a ≤ t.expiresAt := by omega
    simp [hb, this]
  · simp [hb]

theorem prune_prune (now : Nat) (ts : List PToken) : prune now (prune now ts) = prune now ts :=
  prune_prune_le (Nat.le_refl now) ts

theorem pruned_pruned (ep : Endpoint) : ep.pruned.pruned = ep.pruned := by
  cases ep with
  | mk a b c d p n =>
    cases p with
    | none => rfl
    | some p => simp [Endpoint.pruned, prune_prune]

theorem lookupToken_none_prune {ts : List PToken} {tok : String} (now : Nat)
    (h : lookupToken ts tok = none) : lookupToken (prune now ts) tok = none := by
  unfold lookupToken at *
  simp only [Option.map_eq_none_iff, List.find?_eq_none] at *
  intro x hx
  exact h x (List.mem_filter.1 hx).1

/-! ## Role resolution -/

/-- `resolve_request_role` leaves the endpoint as it is or with expired tokens dropped. -/
theorem resolveRole_fst (ep : Endpoint) (auth : Option String) :
    (resolveRole ep auth).1 = ep ∨ (resolveRole ep auth).1 = ep.pruned := by
  cases ep with
  | mk tokn ra de dm p n =>
    cases tokn <;> cases auth <;> cases p <;>
      simp [resolveRole, Pairing.validate, Endpoint.pruned]
    all_goals (try split) <;> simp_all
    all_goals (try split) <;> simp_all

theorem resolveRole_fst_pruned (ep : Endpoint) (auth : Option String) :
    (resolveRole ep auth).1.pruned = ep.pruned := by
  rcases resolveRole_fst ep auth with h | h <;> rw [h]
  exact pruned_pruned ep

theorem resolveRole_fst_debugEnabled (ep : Endpoint) (auth : Option String) :
    (resolveRole ep auth).1.debugEnabled = ep.debugEnabled := by
  rcases resolveRole_fst ep auth with h | h <;> rw [h]
  rfl

/-- With a token configured, the role of a credential: the token itself is admin, anything else must be
a live pairing token. -/
theorem credentialRole_token (ep : Endpoint) (t : String) (htok : ep.authToken = some t)
    (auth : Option String) :
    credentialRole ep auth =
      if auth = some t then some .admin
      else match auth, ep.pairing with
        | some tok, some store => lookupToken (prune ep.now store.tokens) tok
        | _, _ => none := by
  cases ep with
  | mk tokn ra de dm p n =>
    simp only at htok
    subst htok
    by_cases h : auth = some t
    · simp [credentialRole, resolveRole, h]
    · cases auth <;> cases p <;> simp_all [credentialRole, resolveRole, Pairing.validate]

/-- Without a configured token nobody is ever unauthorized. -/
theorem credentialRole_open (ep : Endpoint) (htok : ep.authToken = none) (auth : Option String) :
    credentialRole ep auth =
      match auth, ep.pairing with
      | some tok, some store => some ((lookupToken (prune ep.now store.tokens) tok).getD .admin)
      | _, _ => some .admin := by
  cases ep with
  | mk tokn ra de dm p n =>
    simp only at htok
    subst htok
    cases auth <;> cases p <;> simp [credentialRole, resolveRole, Pairing.validate]
    split <;> simp_all

/-! ## The gate -/

/-- The gate's four refusals and the "no handler" answer: no effect, no data, endpoint unchanged up to
pruning.  `Refused` collects what all of them have in common. -/
def Refused (ep : Endpoint) (res : Endpoint × Out) : Prop :=
  res.2.fx = [] ∧ res.2.reply.carriesData = false ∧ res.1.pruned = ep.pruned

/-- Either the request was refused, or every gate was passed and a handler ran. -/
theorem handleRequest_cases (ep : Endpoint) (r : Request) :
    (Refused ep (handleRequest ep r) ∧
      ((handleRequest ep r).2.reply = .unauthorized r.id ∧ credentialRole ep r.auth = none ∨
       (∃ role, credentialRole ep r.auth = some role ∧
          ((handleRequest ep r).2.reply = .forbidden r.id (requiredRole r.type r.params) ∧
            ¬ (requiredRole r.type r.params).rank ≤ role.rank ∨
           (handleRequest ep r).2.reply = .debugDisabled r.id ∧ ep.debugEnabled = false ∧
            isDebugRequest r.type = true ∨
           (handleRequest ep r).2.reply = .unsupported r.id ∧ findHandler r.type = none)))) ∨
    (∃ role m h, credentialRole ep r.auth = some role ∧
      (requiredRole r.type r.params).rank ≤ role.rank ∧
      (isDebugRequest r.type = true → ep.debugEnabled = true) ∧
      findHandler r.type = some (m, h) ∧
      handleRequest ep r =
        ((runHandler (resolveRole ep r.auth).1 r).1,
         ⟨.handled r.id m h.fn, (runHandler (resolveRole ep r.auth).1 r).2⟩)) := by
  have hp := resolveRole_fst_pruned ep r.auth
  have hd := resolveRole_fst_debugEnabled ep r.auth
  unfold credentialRole
  rcases hres : resolveRole ep r.auth with ⟨ep1, role?⟩
  rw [hres] at hp hd
  simp only at hp hd
  cases role? with
  | none =>
    have hH : handleRequest ep r = (ep1, ⟨.unauthorized r.id, []⟩) := by
      simp [handleRequest, hres]
    rw [hH]
    left
    exact ⟨⟨rfl, rfl, hp⟩, Or.inl ⟨rfl, rfl⟩⟩
  | some role =>
    by_cases hal : allows role (requiredRole r.type r.params) = true
    · have hrank := (allows_iff _ _).1 hal
      cases hde : ep1.debugEnabled with
      | false =>
        cases hdr : isDebugRequest r.type with
        | true =>
          have hH : handleRequest ep r = (ep1, ⟨.debugDisabled r.id, []⟩) := by
            simp [handleRequest, hres, hal, hde, hdr]
          rw [hH]
          left
          exact ⟨⟨rfl, rfl, hp⟩, Or.inr ⟨role, rfl, Or.inr (Or.inl ⟨rfl, hd ▸ hde, rfl⟩)⟩⟩
        | false =>
          cases hf : findHandler r.type with
          | none =>
            have hH : handleRequest ep r = (ep1, ⟨.unsupported r.id, []⟩) := by
              simp [handleRequest, hres, hal, hde, hdr, hf]
            rw [hH]
            left
            exact ⟨⟨rfl, rfl, hp⟩, Or.inr ⟨role, rfl, Or.inr (Or.inr ⟨rfl, rfl⟩)⟩⟩
          | some mh =>
            have hH : handleRequest ep r =
                ((runHandler ep1 r).1, ⟨.handled r.id mh.1 mh.2.fn, (runHandler ep1 r).2⟩) := by
              simp [handleRequest, hres, hal, hde, hdr, hf]
            right
            exact ⟨role, mh.1, mh.2, rfl, hrank, by simp, rfl, hH⟩
      | true =>
        cases hf : findHandler r.type with
        | none =>
          have hH : handleRequest ep r = (ep1, ⟨.unsupported r.id, []⟩) := by
            simp [handleRequest, hres, hal, hde, hf]
          rw [hH]
          left
          exact ⟨⟨rfl, rfl, hp⟩, Or.inr ⟨role, rfl, Or.inr (Or.inr ⟨rfl, rfl⟩)⟩⟩
        | some mh =>
          have hH : handleRequest ep r =
              ((runHandler ep1 r).1, ⟨.handled r.id mh.1 mh.2.fn, (runHandler ep1 r).2⟩) := by
            simp [handleRequest, hres, hal, hde, hf]
          right
          exact ⟨role, mh.1, mh.2, rfl, hrank, fun _ => hd ▸ hde, rfl, hH⟩
    · have hal' : allows role (requiredRole r.type r.params) = false := by simpa using hal
      have hH : handleRequest ep r = (ep1, ⟨.forbidden r.id (requiredRole r.type r.params), []⟩) := by
        simp [handleRequest, hres, hal']
      rw [hH]
      left
      refine ⟨⟨rfl, rfl, hp⟩, Or.inr ⟨role, rfl, Or.inl ⟨rfl, ?_⟩⟩⟩
      intro hle
      exact hal ((allows_iff _ _).2 hle)

/-! ## Dispatcher -/

theorem findHandler_isSome_iff (t : String) : (findHandler t).isSome = true ↔ t ∈ dispatched := by
  unfold findHandler dispatched
  generalize dispatchModules = ms
  induction ms with
  | nil => simp
  | cons m ms ih =>
    simp only [List.findSome?_cons, List.flatMap_cons, List.mem_append, List.mem_map]
    cases hf : m.2.find? (fun h => decide (h.name = t)) with
    | none =>
      simp only [Option.map_none]
      rw [ih]
      constructor
      · exact Or.inr
      · rintro (⟨h, hh, rfl⟩ | h)
        · have := List.find?_eq_none.1 hf h hh
          simp at this
        · exact h
    | some h =>
      simp only [Option.map_some, Option.isSome_some, true_iff]
      left
      have := List.find?_some hf
      exact ⟨h, List.mem_of_find?_eq_some hf, by simpa using this⟩

/-! ## Required role: a floor that does not depend on the parameters -/

def minRole (a b : Role) : Role := if a.rank ≤ b.rank then a else b

/-- The least role `required_role_for_control_request` can return for a request type, over all params. -/
def requiredFloor (t : String) : Role :=
  match lookupArm t with
  | some (.fixed r) => r
  | some .configSet => minRole configSetNoObject (minRole configSetIfListed configSetOtherwise)
  | none => permissionDefault

theorem requiredFloor_le (t : String) (p : Params) :
    (requiredFloor t).rank ≤ (requiredRole t p).rank := by
  unfold requiredFloor requiredRole
  cases lookupArm t with
  | none => exact Nat.le_refl _
  | some a =>
    cases a with
    | fixed r => exact Nat.le_refl _
    | configSet =>
      cases p with
      | missing => decide
      | nonObject => decide
      | object es =>
        simp only [requiredRoleForConfigSet]
        split <;> decide

/-! ## Histories -/

theorem credentialRole_pruned (ep : Endpoint) (auth : Option String) :
    credentialRole ep.pruned auth = credentialRole ep auth := by
  cases ep with
  | mk tokn ra de dm p n =>
    cases tokn <;> cases auth <;> cases p <;>
      simp [credentialRole, resolveRole, Pairing.validate, Endpoint.pruned, prune_prune]
    split <;> rfl

theorem credentialRole_congr {a b : Endpoint} (h : a.pruned = b.pruned) (auth : Option String) :
    credentialRole a auth = credentialRole b auth := by
  rw [← credentialRole_pruned a, h, credentialRole_pruned b]

/-- A credential that is not valid now is not valid later (tokens only expire). -/
theorem credentialRole_none_later (ep : Endpoint) (t : String) (htok : ep.authToken = some t)
    (auth : Option String) (h : credentialRole ep auth = none) (n : Nat) (hn : ep.now ≤ n) :
    credentialRole { ep with now := n } auth = none := by
  rw [credentialRole_token ep t htok] at h
  rw [credentialRole_token { ep with now := n } t htok]
  by_cases ha : auth = some t
  · simp [ha] at h
  · simp only [ha, if_false] at h ⊢
    cases auth with
    | none => rfl
    | some tok =>
      cases hp : ep.pairing with
      | none => simp
      | some store =>
        simp only [hp] at h ⊢
        rw [← prune_prune_le hn]
        exact lookupToken_none_prune n h

theorem pruned_now (ep : Endpoint) : ep.pruned.now = ep.now := rfl

theorem pruned_later {a b : Endpoint} (h : a.pruned = b.pruned) (n : Nat) (hn : a.now ≤ n) :
    ({ a with now := n } : Endpoint).pruned = ({ b with now := n } : Endpoint).pruned := by
  have hnow : a.now = b.now := by
    have := congrArg Endpoint.now h
    simpa [pruned_now] using this
  cases a with
  | mk ta ra da ma pa na =>
    cases b with
    | mk tb rb db mb pb nb =>
      simp only at hnow hn
      subst hnow
      cases pa <;> cases pb <;> simp_all [Endpoint.pruned]
      rename_i sa sb
      cases sa; cases sb
      simp_all
      rw [← prune_prune_le hn, h.2.2.2.2.1, prune_prune_le hn]

theorem step_malformed (ep : Endpoint) (l : Line) (h : ∀ r, l ≠ .request r) :
    (step ep l).1 = ep ∧ (step ep l).2.fx = [] ∧ (step ep l).2.reply.carriesData = false := by
  cases l with
  | request r => exact absurd rfl (h r)
  | notJson => exact ⟨rfl, rfl, rfl⟩
  | notRequest => exact ⟨rfl, rfl, rfl⟩

/-! ## Reload (runtime restart) -/

/-- Re-opening the store does not change what any credential maps to. -/
theorem credentialRole_reload (ep : Endpoint) (auth : Option String) :
    credentialRole ep.reload auth = credentialRole ep auth := by
  cases htok : ep.authToken with
  | some t =>
    rw [credentialRole_token ep.reload t (by simpa [Endpoint.reload] using htok),
      credentialRole_token ep t htok]
    cases hp : ep.pairing <;> cases auth <;> simp [Endpoint.reload, Pairing.reload, hp]
  | none =>
    rw [credentialRole_open ep.reload (by simpa [Endpoint.reload] using htok),
      credentialRole_open ep htok]
    cases hp : ep.pairing <;> cases auth <;> simp [Endpoint.reload, Pairing.reload, hp]

theorem reload_pruned (ep : Endpoint) : ep.reload.pruned = ep.pruned.reload := by
  cases ep with
  | mk tokn ra de dm p n => cases p <;> simp [Endpoint.reload, Endpoint.pruned, Pairing.reload]

theorem reload_pruned_congr {a b : Endpoint} (h : a.pruned = b.pruned) :
    a.reload.pruned = b.reload.pruned := by
  rw [reload_pruned, reload_pruned, h]

/-- The pairing list (`PairingStore::list`) is the same before and after a reload. -/
theorem pairingView_reload (ep : Endpoint) : ep.reload.pairingView = ep.pairingView := by
  cases ep with
  | mk tokn ra de dm p n => cases p <;> simp [Endpoint.reload, Endpoint.pairingView, Pairing.reload]

/-! ## Revocation by id (ids are `pair-<seconds>`, hence not unique) -/

theorem revoke_disables_id (p : Pairing) (now : Nat) (id : String) :
    ∀ e ∈ (p.revoke now id).1.tokens, e.id = id → e.enabled = false := by
  intro e he hid
  simp only [Pairing.revoke, List.mem_map] at he
  obtain ⟨t, _, rfl⟩ := he
  by_cases h : t.id = id
  · simp [h]
  · simp [h] at hid

theorem revoke_token_none (p : Pairing) (now : Nat) (id tok : String)
    (h : ∀ e ∈ p.tokens, e.token = tok → e.id = id) :
    lookupToken (prune now (p.revoke now id).1.tokens) tok = none := by
  unfold lookupToken
  simp only [Option.map_eq_none_iff, List.find?_eq_none]
  intro x hx
  have hx' := (List.mem_filter.1 hx).1
  simp only [Pairing.revoke, List.mem_map] at hx'
  obtain ⟨t, ht, rfl⟩ := hx'
  have htm : t ∈ p.tokens := (List.mem_filter.1 ht).1
  by_cases hid : t.id = id
  · simp [hid]
  · simp only [hid, if_false, Bool.and_eq_true, decide_eq_true_eq, not_and]
    intro _ htok
    exact hid (h t htm htok)

/-! ## Token-count bound -/

/-- Number of enabled entries (what `PAIRING_MAX_TOKENS` bounds). -/
def enabledCount (ts : List PToken) : Nat := (ts.filter (·.enabled)).length

theorem enabledCount_prune_le (now : Nat) (ts : List PToken) :
    enabledCount (prune now ts) ≤ enabledCount ts := by
  unfold enabledCount prune
  rw [List.filter_filter]
  have : ts.filter (fun a => a.enabled && decide (now ≤ a.expiresAt)) =
      (ts.filter (·.enabled)).filter (fun a => decide (now ≤ a.expiresAt)) := by
    rw [List.filter_filter]
    congr 1
    funext a
    exact Bool.and_comm _ _
  rw [this]
  exact List.length_filter_le _ _

end TrustVerif.C18
