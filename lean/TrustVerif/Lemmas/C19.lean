import TrustVerif.Model.C19

/-!
# C19 — helper lemmas
-/
deriving instance DecidableEq for Except

namespace TrustVerif.C19

/-! ## A. normalisation -/

theorem splitSlash_ne_nil (s : List Char) : splitSlash s ≠ [] := by
  induction s with
  | nil => simp [splitSlash]
  | cons c cs ih =>
    unfold splitSlash
    split
    · simp
    · split <;> simp

theorem splitSlash_no_slash (s : List Char) : ∀ p ∈ splitSlash s, '/' ∉ p := by
  induction s with
  | nil => simp [splitSlash]
  | cons c cs ih =>
    unfold splitSlash
    split
    · intro p hp
      simp only [List.mem_cons] at hp
      rcases hp with rfl | hp
      · simp
      · exact ih p hp
    · rename_i hc
      split
      · intro p hp
        simp only [List.mem_cons, List.not_mem_nil, or_false] at hp
        subst hp
        simp [Ne.symm hc]
      · rename_i p ps heq
        intro q hq
        simp only [List.mem_cons] at hq
        have hmem : ∀ x ∈ p :: ps, '/' ∉ x := by
          intro x hx
          exact ih x (heq ▸ hx)
        rcases hq with rfl | hq
        · have := hmem p (by simp)
          simp [Ne.symm hc, this]
        · exact hmem q (by simp [hq])

/-- splitting a `/`-free piece followed by nothing -/
theorem splitSlash_piece (a : List Char) (h : '/' ∉ a) : splitSlash a = [a] := by
  induction a with
  | nil => simp [splitSlash]
  | cons c cs ih =>
    have hc : c ≠ '/' := fun e => h (by simp [e])
    have hcs : '/' ∉ cs := fun e => h (by simp [e])
    unfold splitSlash
    simp [hc, ih hcs]

theorem splitSlash_append (a : List Char) (rest : List Char) (h : '/' ∉ a) :
    splitSlash (a ++ '/' :: rest) = a :: splitSlash rest := by
  induction a with
  | nil => simp [splitSlash]
  | cons c cs ih =>
    have hc : c ≠ '/' := fun e => h (by simp [e])
    have hcs : '/' ∉ cs := fun e => h (by simp [e])
    simp only [List.cons_append, splitSlash, hc, if_false, ih hcs]

/-- Re-splitting a joined list of `/`-free pieces gives the pieces back: the OS sees exactly the
components that `normalize_workspace_path` emitted. -/
theorem splitSlash_joinSlash (ps : List Name) (hne : ps ≠ []) (h : ∀ p ∈ ps, '/' ∉ p) :
    splitSlash (joinSlash ps) = ps := by
  induction ps with
  | nil => exact absurd rfl hne
  | cons a rest ih =>
    cases rest with
    | nil => simpa [joinSlash] using splitSlash_piece a (h a (by simp))
    | cons b rest' =>
      simp only [joinSlash]
      rw [splitSlash_append a _ (h a (by simp))]
      rw [ih (by simp) (fun p hp => h p (by simp [hp]))]

/-- what the `for component in …` loop accepts -/
theorem normLoop_ok (cs : List Component) (ps : List Name) (h : normLoop cs = .ok ps) :
    ps = cs.filterMap (fun c => match c with | .normal s => some s | _ => none) ∧
    (∀ c ∈ cs, c = .curDir ∨ ∃ s, c = .normal s ∧ isHiddenName s = false) := by
  induction cs generalizing ps with
  | nil => simp [normLoop] at h; simp [h]
  | cons c rest ih =>
    cases c with
    | rootDir => simp [normLoop] at h
    | parentDir => simp [normLoop] at h
    | curDir =>
      simp only [normLoop] at h
      obtain ⟨h1, h2⟩ := ih ps h
      refine ⟨by simpa using h1, ?_⟩
      intro c hc
      simp only [List.mem_cons] at hc
      rcases hc with rfl | hc
      · exact Or.inl rfl
      · exact h2 c hc
    | normal s =>
      simp only [normLoop] at h
      split at h
      · simp at h
      · rename_i hh
        split at h
        · rename_i ps' hps'
          simp only [Except.ok.injEq] at h
          obtain ⟨h1, h2⟩ := ih ps' hps'
          subst h
          refine ⟨by simp [h1], ?_⟩
          intro c hc
          simp only [List.mem_cons] at hc
          rcases hc with rfl | hc
          · exact Or.inr ⟨s, rfl, by simpa using hh⟩
          · exact h2 c hc
        · simp at h

/-- every `Normal` component of `components t` is a non-empty `/`-free piece other than `.`/`..` -/
theorem components_normal (t : List Char) (s : Name) (h : Component.normal s ∈ components t) :
    s ≠ [] ∧ '/' ∉ s ∧ s ≠ ['.'] ∧ s ≠ ['.', '.'] := by
  have key : ∀ pieces : List (List Char), (∀ p ∈ pieces, '/' ∉ p) →
      Component.normal s ∈ pieces.filterMap (fun p =>
        if p = [] then none
        else if p = ['.'] then none
        else if p = ['.', '.'] then some Component.parentDir
        else some (Component.normal p)) →
      s ≠ [] ∧ '/' ∉ s ∧ s ≠ ['.'] ∧ s ≠ ['.', '.'] := by
    intro pieces hp hm
    simp only [List.mem_filterMap] at hm
    obtain ⟨p, hpm, hpe⟩ := hm
    split at hpe
    · simp at hpe
    · split at hpe
      · simp at hpe
      · split at hpe
        · simp at hpe
        · simp only [Option.some.injEq, Component.normal.injEq] at hpe
          subst hpe
          exact ⟨by assumption, hp p hpm, by assumption, by assumption⟩
  unfold components at h
  simp only at h
  split at h
  · simp only [List.mem_cons] at h
    rcases h with h | h
    · cases h
    · exact key _ (splitSlash_no_slash t) h
  · split at h
    · simp only [List.mem_cons] at h
      rcases h with h | h
      · cases h
      · exact key _ (splitSlash_no_slash t) h
    · exact key _ (splitSlash_no_slash t) h

theorem not_hidden_ne_dots (s : Name) (h : isHiddenName s = false) : s ≠ ['.'] ∧ s ≠ ['.', '.'] := by
  constructor <;> (intro e; subst e; simp [isHiddenName] at h)

/-- the components of an accepted, re-joined path are exactly the accepted parts -/
theorem components_joinSlash (ps : List Name) (hne : ps ≠ [])
    (h : ∀ p ∈ ps, p ≠ [] ∧ '/' ∉ p ∧ isHiddenName p = false) :
    components (joinSlash ps) = ps.map Component.normal := by
  have hsplit := splitSlash_joinSlash ps hne (fun p hp => (h p hp).2.1)
  obtain ⟨a, rest, rfl⟩ : ∃ a rest, ps = a :: rest := by
    cases ps with
    | nil => exact absurd rfl hne
    | cons a rest => exact ⟨a, rest, rfl⟩
  have ha := h a (by simp)
  have hbody : (a :: rest).filterMap (fun p =>
        if p = [] then none
        else if p = ['.'] then none
        else if p = ['.', '.'] then some Component.parentDir
        else some (Component.normal p)) = (a :: rest).map Component.normal := by
    generalize (a :: rest) = l at h
    induction l with
    | nil => rfl
    | cons p l ih =>
      obtain ⟨h1, _, h3⟩ := h p (by simp)
      obtain ⟨h4, h5⟩ := not_hidden_ne_dots p h3
      simp only [List.filterMap_cons, h1, h4, h5, if_false, List.map_cons]
      rw [ih (fun q hq => h q (by simp [hq]))]
  -- the joined string starts with the first character of `a`, which is neither `/` nor `.`-only
  have hhead : (joinSlash (a :: rest)).head? = a.head? := by
    cases a with
    | nil => exact absurd rfl ha.1
    | cons c cs => cases rest <;> simp [joinSlash]
  have hnoslash : (joinSlash (a :: rest)).head? ≠ some '/' := by
    rw [hhead]
    cases a with
    | nil => exact absurd rfl ha.1
    | cons c cs =>
      have : c ≠ '/' := fun e => ha.2.1 (by simp [e])
      simpa using this
  unfold components
  simp only [hsplit, hnoslash, if_false, List.head?_cons]
  have : a ≠ ['.'] := (not_hidden_ne_dots a ha.2.2).1
  simp only [Option.some.injEq, this, if_false]
  exact hbody

/-- what `normalize_workspace_path` accepts -/
theorem normalizeParts_ok (p : List Char) (ps : List Name) (h : normalizeParts p = .ok ps) :
    ps ≠ [] ∧ ∀ c ∈ ps, c ≠ [] ∧ '/' ∉ c ∧ isHiddenName c = false := by
  unfold normalizeParts at h
  simp only at h
  split at h
  · simp at h
  · split at h
    · simp at h
    · split at h
      · simp at h
      · simp at h
      · rename_i ps' hne hloop
        simp only [Except.ok.injEq] at h
        subst h
        obtain ⟨hps, hall⟩ := normLoop_ok _ _ hloop
        refine ⟨fun e => hne e, ?_⟩
        intro c hc
        rw [hps] at hc
        simp only [List.mem_filterMap] at hc
        obtain ⟨comp, hm, hcomp⟩ := hc
        cases comp with
        | normal s =>
          simp only [Option.some.injEq] at hcomp
          subst hcomp
          obtain ⟨h1, h2, _, _⟩ := components_normal _ _ hm
          rcases hall _ hm with h | ⟨s', hs', hh⟩
          · cases h
          · cases hs'
            exact ⟨h1, h2, hh⟩
        | rootDir => simp at hcomp
        | curDir => simp at hcomp
        | parentDir => simp at hcomp

/-! ## C. gates before effects -/

theorem ensureSession_editor (i : Inner) (tok now : Nat) (i' : Inner) (s : Session)
    (h : ensureSession i tok now = (i', some s)) : liveEditor i tok now = s.editor := by
  unfold ensureSession at h
  unfold liveEditor
  simp only at h
  split at h
  · simp at h
  · rename_i s0 hs0
    simp only [Prod.mk.injEq, Option.some.injEq] at h
    rw [hs0, ← h.2]

theorem ensureSession_none (i : Inner) (tok now : Nat) (i' : Inner)
    (h : ensureSession i tok now = (i', none)) : liveEditor i tok now = false := by
  unfold ensureSession at h
  unfold liveEditor
  simp only at h
  split at h
  · rename_i hs0; rw [hs0]
  · simp at h

theorem ensureEditor_ok (i : Inner) (tok now : Nat) (i' : Inner)
    (h : ensureEditor i tok now = (i', none)) : liveEditor i tok now = true := by
  unfold ensureEditor at h
  split at h
  · simp at h
  · rename_i i1 s hs
    split at h
    · rename_i hed
      rw [ensureSession_editor i tok now i1 s hs, hed]
    · simp at h

/-- what a refused / read-only operation leaves behind -/
def Quiet (w : World) (o : Out) : Prop :=
  o.world.fs = w.fs ∧ (o.world.inner.docs, o.world.inner.floor) = (w.inner.docs, w.inner.floor) ∧
  o.world.inner.audit = w.inner.audit ∧
  ∀ e ∈ o.effects, e.isMutation = false

theorem quiet_fail (w : World) (i : Inner) (e : Err) (effs : List Effect)
    (hd : (i.docs, i.floor) = (w.inner.docs, w.inner.floor)) (ha : i.audit = w.inner.audit)
    (he : ∀ x ∈ effs, x.isMutation = false) : Quiet w (fail { w with inner := i } e effs) :=
  ⟨rfl, hd, ha, he⟩

theorem quiet_fail' (w : World) (e : Err) (effs : List Effect)
    (he : ∀ x ∈ effs, x.isMutation = false) : Quiet w (fail w e effs) :=
  ⟨rfl, rfl, rfl, he⟩

theorem prune_docs (i : Inner) (now : Nat) :
    ((prune i now).docs, (prune i now).floor) = (i.docs, i.floor) ∧ (prune i now).audit = i.audit :=
  ⟨rfl, rfl⟩

theorem ensureSession_docs (i : Inner) (tok now : Nat) :
    ((ensureSession i tok now).1.docs, (ensureSession i tok now).1.floor) = (i.docs, i.floor) ∧
    (ensureSession i tok now).1.audit = i.audit := by
  unfold ensureSession
  simp only
  split <;> exact ⟨rfl, rfl⟩

theorem ensureEditor_docs (i : Inner) (tok now : Nat) :
    ((ensureEditor i tok now).1.docs, (ensureEditor i tok now).1.floor) = (i.docs, i.floor) ∧
    (ensureEditor i tok now).1.audit = i.audit := by
  have h := ensureSession_docs i tok now
  unfold ensureEditor
  split
  · rename_i i1 hs; rw [hs] at h; exact h
  · rename_i i1 s hs
    rw [hs] at h
    split <;> exact h

theorem applySource_quiet (w : World) (tok : Nat) (path : List Char) (expected : Nat)
    (content : List Char) (we : Bool) (h : (we && liveEditor w.inner tok w.now) = false) :
    Quiet w (applySource w tok path expected content we) := by
  unfold applySource
  split
  · exact quiet_fail' w _ _ (by simp)
  · rename_i hwe
    have hwe' : we = true := by simpa using hwe
    have hlive : liveEditor w.inner tok w.now = false := by simpa [hwe'] using h
    split
    · exact quiet_fail' w _ _ (by simp)
    · split
      · exact quiet_fail' w _ _ (by simp)
      · split
        · exact quiet_fail' w _ _ (by simp)
        · split
          · exact quiet_fail' w _ _ (by simp)
          · rename_i q disk _
            have hd := ensureSession_docs w.inner tok w.now
            split
            · rename_i i hs
              rw [hs] at hd
              exact quiet_fail w i _ _ hd.1 hd.2 (by simp [Effect.isMutation])
            · rename_i i s hs
              rw [hs] at hd
              have hed := ensureSession_editor _ _ _ _ _ hs
              rw [hlive] at hed
              simp only [← hed]
              exact quiet_fail w i _ _ hd.1 hd.2 (by simp [Effect.isMutation])

theorem createEntry_quiet (w : World) (tok : Nat) (path : List Char) (isDir : Bool)
    (content : Option (List Char)) (we : Bool) (h : (we && liveEditor w.inner tok w.now) = false) :
    Quiet w (createEntry w tok path isDir content we) := by
  unfold createEntry
  split
  · exact quiet_fail' w _ _ (by simp)
  · rename_i hwe
    have hwe' : we = true := by simpa using hwe
    have hlive : liveEditor w.inner tok w.now = false := by simpa [hwe'] using h
    split
    · exact quiet_fail' w _ _ (by simp)
    · split
      · exact quiet_fail' w _ _ (by simp)
      · split
        · exact quiet_fail' w _ _ (by simp)
        · have hd := ensureEditor_docs w.inner tok w.now
          split
          · rename_i i e hs
            rw [hs] at hd
            exact quiet_fail w i _ _ hd.1 hd.2 (by simp)
          · rename_i i hs
            have := ensureEditor_ok _ _ _ _ hs
            rw [hlive] at this
            cases this

theorem renameEntry_quiet (w : World) (tok : Nat) (path newPath : List Char) (we : Bool)
    (h : (we && liveEditor w.inner tok w.now) = false) :
    Quiet w (renameEntry w tok path newPath we) := by
  unfold renameEntry
  split
  · exact quiet_fail' w _ _ (by simp)
  · rename_i hwe
    have hwe' : we = true := by simpa using hwe
    have hlive : liveEditor w.inner tok w.now = false := by simpa [hwe'] using h
    split
    · exact quiet_fail' w _ _ (by simp)
    · split
      · exact quiet_fail' w _ _ (by simp)
      · split
        · exact quiet_fail' w _ _ (by simp)
        · simp only
          split
          · exact quiet_fail' w _ _ (by simp)
          · split
            · exact quiet_fail' w _ _ (by simp)
            · split
              · exact quiet_fail' w _ _ (by simp)
              · have hd := ensureEditor_docs w.inner tok w.now
                split
                · rename_i i e hs
                  rw [hs] at hd
                  exact quiet_fail w i _ _ hd.1 hd.2 (by simp)
                · rename_i i hs
                  have := ensureEditor_ok _ _ _ _ hs
                  rw [hlive] at this
                  cases this

theorem deleteEntry_quiet (w : World) (tok : Nat) (path : List Char) (we : Bool)
    (h : (we && liveEditor w.inner tok w.now) = false) :
    Quiet w (deleteEntry w tok path we) := by
  unfold deleteEntry
  split
  · exact quiet_fail' w _ _ (by simp)
  · rename_i hwe
    have hwe' : we = true := by simpa using hwe
    have hlive : liveEditor w.inner tok w.now = false := by simpa [hwe'] using h
    split
    · exact quiet_fail' w _ _ (by simp)
    · split
      · exact quiet_fail' w _ _ (by simp)
      · split
        · exact quiet_fail' w _ _ (by simp)
        · simp only
          have hd := ensureEditor_docs w.inner tok w.now
          split
          · rename_i i e hs
            rw [hs] at hd
            exact quiet_fail w i _ _ hd.1 hd.2 (by simp)
          · rename_i i hs
            have := ensureEditor_ok _ _ _ _ hs
            rw [hlive] at this
            cases this

/-- a read-only operation: the file system is untouched, whoever calls it -/
def ReadOnly (w : World) (o : Out) : Prop :=
  o.world.fs = w.fs ∧ ∀ e ∈ o.effects, e.isMutation = false

theorem Quiet.readOnly {w : World} {o : Out} (h : Quiet w o) : ReadOnly w o := ⟨h.1, h.2.2.2⟩

theorem withSession_readOnly (w : World) (tok : Nat) (k : World → Out)
    (hk : ∀ w', w'.fs = w.fs → ReadOnly w' (k w')) : ReadOnly w (withSession w tok k) := by
  unfold withSession
  split
  · exact ⟨rfl, by simp [fail]⟩
  · rename_i i _ _
    have := hk { w with inner := i } rfl
    exact ⟨this.1, this.2⟩

theorem mem_map_list_nonmut (ds : List Path) : ∀ e ∈ ds.map Effect.list, e.isMutation = false := by
  intro e he
  simp only [List.mem_map] at he
  obtain ⟨d, _, rfl⟩ := he
  rfl

theorem readonly_ops (w : World) (op : Op) (h : op.mayMutate w = false) :
    ReadOnly w (step w op) := by
  cases op with
  | createSession e =>
    simp only [step, createSession]
    split
    · exact ⟨rfl, by simp [fail]⟩
    · exact ⟨rfl, by simp⟩
  | listSources t =>
    simp only [step, listSources]
    apply withSession_readOnly
    intro w' hw'
    split
    · exact ⟨rfl, by simp [fail]⟩
    · exact ⟨rfl, mem_map_list_nonmut _⟩
  | listTree t =>
    simp only [step, listTree]
    apply withSession_readOnly
    intro w' hw'
    split
    · exact ⟨rfl, by simp [fail]⟩
    · exact ⟨rfl, mem_map_list_nonmut _⟩
  | search t q l =>
    simp only [step, workspaceSearch]
    apply withSession_readOnly
    intro w' hw'
    split
    · exact ⟨rfl, by simp⟩
    · split
      · exact ⟨rfl, by simp [fail]⟩
      · refine ⟨rfl, ?_⟩
        intro e he
        simp only [List.mem_append, List.mem_map, List.mem_filterMap] at he
        rcases he with ⟨d, _, rfl⟩ | ⟨x, _, hx⟩
        · rfl
        · cases hx2 : x.2 with
          | none => simp [hx2] at hx
          | some r => simp [hx2] at hx; subst hx; rfl
  | «open» t p =>
    simp only [step, openSource]
    split
    · exact ⟨rfl, by simp [fail]⟩
    · split
      · exact ⟨rfl, by simp [fail]⟩
      · split
        · exact ⟨rfl, by simp [fail]⟩
        · split
          · exact ⟨rfl, by simp [fail, Effect.isMutation]⟩
          · split
            · exact ⟨rfl, by simp [fail, Effect.isMutation]⟩
            · exact ⟨rfl, by simp [Effect.isMutation]⟩
  | format t p c =>
    simp only [step, formatSource]
    split
    · exact ⟨rfl, by simp [fail]⟩
    · apply withSession_readOnly
      intro w' hw'
      split
      · split
        · exact ⟨rfl, by simp [fail]⟩
        · exact ⟨rfl, by simp⟩
      · split
        · exact ⟨rfl, by simp [fail]⟩
        · split
          · exact ⟨rfl, by simp [fail]⟩
          · split
            · exact ⟨rfl, by simp [fail, Effect.isMutation]⟩
            · exact ⟨rfl, by simp [Effect.isMutation]⟩
  | health t =>
    simp only [step, health]
    apply withSession_readOnly
    intro w' hw'
    exact ⟨rfl, by simp⟩
  | apply t p e c we => exact (applySource_quiet w t p e c we h).readOnly
  | create t p d c we => exact (createEntry_quiet w t p d c we h).readOnly
  | rename t p n we => exact (renameEntry_quiet w t p n we h).readOnly
  | delete t p we => exact (deleteEntry_quiet w t p we h).readOnly

/-! ## D. protocol invariant -/
namespace Proto

/-- the tracked document advanced: the version did not decrease, an unchanged version means an
unchanged document, and a document that starts being tracked is above the retired floor -/
def Adv (old : Option Doc) (floor : Nat) (new : Doc) : Prop :=
  match old with
  | none => floor < new.version
  | some e => e.version ≤ new.version ∧ (e.version = new.version → new = e)

theorem Adv.ver {s : PState} {new : Doc} (h : Adv s.entry s.floor new) :
    curVer s ≤ new.version ∧ (∀ e, s.entry = some e → e.version = new.version → new = e) ∧
    (s.entry = none → s.floor < new.version) := by
  cases he : s.entry with
  | none =>
    rw [he] at h
    simp only [Adv] at h
    simp only [curVer, he]
    exact ⟨by omega, by simp, fun _ => h⟩
  | some e =>
    rw [he] at h
    simp only [Adv] at h
    simp only [curVer, he]
    refine ⟨h.1, ?_, by simp⟩
    intro e' he' hv
    cases he'
    exact h.2 hv

theorem syncDoc_content (e : Option Doc) (d : Content) (f : Nat) : (syncDoc e d f).content = d := by
  unfold syncDoc
  cases e with
  | none => rfl
  | some e =>
    simp only
    split
    · rfl
    · rename_i h; simpa using h

theorem sync_adv (s : PState) (d : Content) (hv : curVer s < u64Max) :
    Adv s.entry s.floor (syncDoc s.entry d (firstVersion s.floor)) ∧
    (syncDoc s.entry d (firstVersion s.floor)).version ≤ curVer s + 1 := by
  unfold curVer at hv ⊢
  unfold syncDoc
  cases he : s.entry with
  | none =>
    rw [he] at hv
    simp only at hv
    simp only [Adv, firstVersion, satSucc, hv, if_true]
    omega
  | some e =>
    rw [he] at hv
    simp only at hv
    simp only [Adv]
    split
    · simp only [satSucc, hv, if_true]
      refine ⟨⟨by omega, fun h => by omega⟩, by omega⟩
    · exact ⟨⟨Nat.le_refl _, fun _ => rfl⟩, by omega⟩

theorem lookupIssued_mem (l : List (Nat × Content)) (v : Nat) (c : Content)
    (h : lookupIssued l v = some c) : (v, c) ∈ l := by
  induction l with
  | nil => simp [lookupIssued] at h
  | cons a rest ih =>
    obtain ⟨v', c'⟩ := a
    simp only [lookupIssued] at h
    split at h
    · rename_i hv
      simp only [Option.some.injEq] at h
      subst hv; subst h
      simp
    · exact List.mem_cons_of_mem _ (ih h)

theorem lastContent_append (d : Content) (l : List Success) (ev : Success) :
    lastContent d (l ++ [ev]) = ev.content := by
  simp [lastContent]

theorem chainOk_append (d : Content) (l : List Success) (ev : Success) :
    chainOk d (l ++ [ev]) ↔ chainOk d l ∧
      (ev.diskBefore = some (lastContent d l) ∨ ev.diskBefore = none) := by
  induction l generalizing d with
  | nil => simp [chainOk, lastContent]
  | cons a rest ih =>
    simp only [List.cons_append, chainOk, ih, and_assoc]
    have : lastContent a.content rest = lastContent d (a :: rest) := by
      unfold lastContent
      cases rest with
      | nil => simp
      | cons b rest' =>
        simp only [List.getLast?_cons_cons]
        cases hgl : (b :: rest').getLast? with
        | none => simp at hgl
        | some x => rfl
    rw [this]

/-- The invariant of the protocol, starting from disk content `d0`; `b` bounds the version
counters. -/
structure Inv (d0 : Content) (s : PState) (b : Nat) : Prop where
  bound : curVer s ≤ b ∧ s.floor ≤ b
  issued_ok : ∀ i v c, (v, c) ∈ (s.clients i).issued →
    (∀ e, s.entry = some e → v ≤ e.version ∧ (v = e.version → c = e.content)) ∧
    (s.entry = none → v ≤ s.floor)
  pending_ok : ∀ i p, (s.clients i).pending = some p →
    p.seenVersion ≤ curVer s ∧
    (∀ e, s.entry = some e → e.version = p.seenVersion → s.disk = some p.disk) ∧
    (∀ c, p.base = some c → p.expected ≤ p.seenVersion ∧ (p.expected, c) ∈ (s.clients i).issued)
  succ_ok : ∀ ev ∈ s.successes, ev.version = ev.expected + 1 ∧ ev.version ≤ curVer s ∧
    (∀ c, ev.base = some c → ev.diskBefore = some c)
  sorted : s.successes.Pairwise (fun a b => a.version < b.version)
  disk_ok : ∀ c, s.disk = some c → c = lastContent d0 s.successes
  chain : chainOk d0 s.successes

theorem inv_init (d0 : Content) : Inv d0 (init d0) 0 := by
  refine ⟨by simp [init, curVer], ?_, ?_, ?_, ?_, ?_, ?_⟩ <;> simp [init, chainOk, lastContent]

theorem Inv.mono {d0 : Content} {s : PState} {b b' : Nat} (h : Inv d0 s b) (hb : b ≤ b') :
    Inv d0 s b' :=
  ⟨⟨by have := h.bound.1; omega, by have := h.bound.2; omega⟩, h.issued_ok, h.pending_ok, h.succ_ok,
    h.sorted, h.disk_ok, h.chain⟩

/-- every issued version is at most the current one -/
theorem Inv.issued_le {d0 : Content} {s : PState} {b : Nat} (h : Inv d0 s b) (i v : Nat) (c : Content)
    (hm : (v, c) ∈ (s.clients i).issued) : v ≤ curVer s := by
  obtain ⟨h1, h2⟩ := h.issued_ok i v c hm
  unfold curVer
  cases he : s.entry with
  | none => exact h2 he
  | some e => exact (h1 e he).1

/-- the tracked document advances; clients only gain the pair just issued and lose pendings -/
theorem Inv.step_entry {d0 : Content} {s : PState} {b : Nat} (h : Inv d0 s b) (new : Doc)
    (hadv : Adv s.entry s.floor new) (hv : new.version ≤ b + 2) (cl : Nat → Client)
    (hiss : ∀ i v c, (v, c) ∈ (cl i).issued →
      (v, c) ∈ (s.clients i).issued ∨ (v = new.version ∧ c = new.content))
    (hpend : ∀ i p, (cl i).pending = some p → (s.clients i).pending = some p ∧
      ∀ v c, (v, c) ∈ (s.clients i).issued → (v, c) ∈ (cl i).issued) :
    Inv d0 { s with entry := some new, clients := cl } (b + 2) := by
  obtain ⟨hle, heq, hnone⟩ := hadv.ver
  refine ⟨⟨by simpa [curVer] using hv, by have := h.bound.2; simp only; omega⟩, ?_, ?_, ?_,
    h.sorted, h.disk_ok, h.chain⟩
  · intro i v c hm
    refine ⟨?_, by simp⟩
    intro e' he'
    simp only [Option.some.injEq] at he'
    subst he'
    rcases hiss i v c hm with hm | ⟨rfl, rfl⟩
    · have hvle := h.issued_le i v c hm
      refine ⟨by omega, ?_⟩
      intro hvn
      obtain ⟨h1, h2⟩ := h.issued_ok i v c hm
      cases he : s.entry with
      | none => have := hnone he; have := h2 he; omega
      | some e =>
        obtain ⟨h3, h4⟩ := h1 e he
        have hcur : curVer s = e.version := by simp [curVer, he]
        have hne : new = e := heq e he (by omega)
        rw [hne]
        exact h4 (by rw [← hne]; exact hvn)
    · exact ⟨Nat.le_refl _, fun _ => rfl⟩
  · intro i p hp
    obtain ⟨hp', hsub⟩ := hpend i p hp
    obtain ⟨h1, h2, h3⟩ := h.pending_ok i p hp'
    refine ⟨by simp only [curVer]; omega, ?_, ?_⟩
    · intro e' he' hcur
      simp only [Option.some.injEq] at he'
      subst he'
      cases he : s.entry with
      | none =>
        have := hnone he
        have : curVer s = s.floor := by simp [curVer, he]
        omega
      | some e =>
        have hcur' : curVer s = e.version := by simp [curVer, he]
        have hne : new = e := heq e he (by omega)
        exact h2 e he (by rw [← hne]; exact hcur)
    · intro c hc
      obtain ⟨h4, h5⟩ := h3 c hc
      exact ⟨h4, hsub _ _ h5⟩
  · intro ev hev
    obtain ⟨h1, h2, h3⟩ := h.succ_ok ev hev
    exact ⟨h1, by simp only [curVer]; omega, h3⟩

/-- a client starts an operation: only a pending read is added -/
theorem Inv.step_begin {d0 : Content} {s : PState} {b : Nat} (h : Inv d0 s b) (i : Nat) (p : Pending)
    (d : Content) (hd : s.disk = some d) (hpd : p.disk = d) (hseen : p.seenVersion = curVer s)
    (hbase : ∀ c, p.base = some c → (p.expected, c) ∈ (s.clients i).issued) :
    Inv d0 { s with clients := upd s.clients i { (s.clients i) with pending := some p } } b := by
  refine ⟨h.bound, ?_, ?_, h.succ_ok, h.sorted, h.disk_ok, h.chain⟩
  · intro j v c hm
    simp only [upd] at hm
    split at hm
    · rename_i hj; subst hj; exact h.issued_ok j v c hm
    · exact h.issued_ok j v c hm
  · intro j q hq
    simp only [upd] at hq ⊢
    split at hq
    · rename_i hj
      subst hj
      simp only [Option.some.injEq] at hq
      subst hq
      simp only [if_true]
      refine ⟨by show p.seenVersion ≤ curVer s; omega, fun _ _ _ => by rw [hd, hpd], ?_⟩
      intro c hc
      have hm := hbase c hc
      have := h.issued_le j _ c hm
      exact ⟨by omega, hm⟩
    · rename_i hj
      simp only [hj, if_false]
      exact h.pending_ok j q hq

theorem curVer_le_retired (s : PState) : curVer s ≤ retired s ∧ s.floor ≤ retired s := by
  unfold curVer retired
  cases s.entry with
  | none => simp
  | some e => simp only; omega

theorem retired_le (s : PState) (b : Nat) (h1 : curVer s ≤ b) (h2 : s.floor ≤ b) : retired s ≤ b := by
  unfold curVer at h1
  unfold retired
  cases he : s.entry with
  | none => exact h2
  | some e => rw [he] at h1; simp only at h1 ⊢; omega

/-- the tracked document is retired (`delete`, `evict`); the file stays or goes -/
theorem Inv.step_drop {d0 : Content} {s : PState} {b : Nat} (h : Inv d0 s b) (dk : Option Content)
    (hdk : ∀ c, dk = some c → s.disk = some c) :
    Inv d0 { s with disk := dk, entry := none, floor := retired s } b := by
  obtain ⟨hc, hf⟩ := curVer_le_retired s
  have hr := retired_le s b h.bound.1 h.bound.2
  refine ⟨⟨by simpa [curVer] using hr, hr⟩, ?_, ?_, ?_, h.sorted, ?_, h.chain⟩
  · intro i v c hm
    refine ⟨by simp, fun _ => ?_⟩
    have := h.issued_le i v c hm
    simp only; omega
  · intro i p hp
    obtain ⟨h1, _, h3⟩ := h.pending_ok i p hp
    exact ⟨by simp only [curVer]; omega, by simp, h3⟩
  · intro ev hev
    obtain ⟨h1, h2, h3⟩ := h.succ_ok ev hev
    exact ⟨h1, by simp only [curVer]; omega, h3⟩
  · intro c hc
    exact h.disk_ok c (hdk c hc)

/-- a document of another file is retired: only the shared floor moves -/
theorem Inv.step_floor {d0 : Content} {s : PState} {b : Nat} (h : Inv d0 s b) (k : Nat) :
    Inv d0 { s with floor := max s.floor k } (b + (k + 2)) := by
  have hcur : curVer { s with floor := max s.floor k } ≤ max (curVer s) k ∧
      curVer s ≤ curVer { s with floor := max s.floor k } := by
    unfold curVer
    cases s.entry with
    | none => simp only; omega
    | some e => simp only; omega
  refine ⟨⟨by have := h.bound.1; omega, by have := h.bound.2; simp only; omega⟩, ?_, ?_, ?_,
    h.sorted, h.disk_ok, h.chain⟩
  · intro i v c hm
    obtain ⟨h1, h2⟩ := h.issued_ok i v c hm
    exact ⟨h1, fun hn => by have := h2 hn; simp only; omega⟩
  · intro i p hp
    obtain ⟨h1, h2, h3⟩ := h.pending_ok i p hp
    exact ⟨by omega, h2, h3⟩
  · intro ev hev
    obtain ⟨h1, h2, h3⟩ := h.succ_ok ev hev
    exact ⟨h1, by omega, h3⟩

/-- a successful write `ev` of content `new` at version `v` above everything issued so far
(`apply_source`, `rename_symbol`, `create_entry`) -/
theorem Inv.step_write {d0 : Content} {s : PState} {b : Nat} (h : Inv d0 s b) (i v : Nat)
    (new : Content) (fl : Nat) (ci : Client) (ev : Success)
    (hv : curVer s < v) (hvb : v ≤ b + 2) (hfl : fl ≤ b + 2)
    (hci : ci.issued = (v, new) :: (s.clients i).issued)
    (hpe : ∀ p, ci.pending = some p → (s.clients i).pending = some p)
    (hev1 : ev.version = v) (hev2 : ev.version = ev.expected + 1) (hev3 : ev.content = new)
    (hev4 : ev.diskBefore = s.disk) (hev5 : ∀ c, ev.base = some c → s.disk = some c) :
    Inv d0 { s with disk := some new, entry := some { content := new, version := v }, floor := fl
                    clients := upd s.clients i ci
                    successes := s.successes ++ [ev] } (b + 2) := by
  refine ⟨⟨by simpa [curVer] using hvb, hfl⟩, ?_, ?_, ?_, ?_, ?_, ?_⟩
  · intro j w c hm
    refine ⟨?_, by simp⟩
    intro e' he'
    simp only [Option.some.injEq] at he'
    subst he'
    have hold : (w, c) ∈ (s.clients j).issued → w < v := by
      intro hm'
      have := h.issued_le j w c hm'
      omega
    simp only [upd] at hm
    split at hm
    · rename_i hj; subst hj
      rw [hci] at hm
      simp only [List.mem_cons, Prod.mk.injEq] at hm
      rcases hm with ⟨rfl, rfl⟩ | hm
      · exact ⟨Nat.le_refl _, fun _ => rfl⟩
      · have := hold hm
        exact ⟨by simp only; omega, fun hw => by simp only at hw; omega⟩
    · have := hold hm
      exact ⟨by simp only; omega, fun hw => by simp only at hw; omega⟩
  · intro j q hq
    have hq' : (s.clients j).pending = some q ∧
        ∀ w c, (w, c) ∈ (s.clients j).issued →
          (w, c) ∈ ((upd s.clients i ci) j).issued := by
      simp only [upd] at hq ⊢
      split at hq
      · rename_i hj; subst hj
        simp only [if_true]
        exact ⟨hpe q hq, fun w c hm => by rw [hci]; exact List.mem_cons_of_mem _ hm⟩
      · rename_i hj
        simp only [hj, if_false]
        exact ⟨hq, fun w c hm => hm⟩
    obtain ⟨h1, h2, h3⟩ := h.pending_ok j q hq'.1
    refine ⟨by simp only [curVer]; omega, ?_, ?_⟩
    · intro e' he' hcur
      simp only [Option.some.injEq] at he'
      subst he'
      simp only at hcur
      omega
    · intro c hc
      obtain ⟨h4, h5⟩ := h3 c hc
      exact ⟨h4, hq'.2 _ _ h5⟩
  · intro e hev
    simp only [List.mem_append, List.mem_singleton] at hev
    rcases hev with hev | rfl
    · obtain ⟨h1, h2, h3⟩ := h.succ_ok e hev
      exact ⟨h1, by simp only [curVer]; omega, h3⟩
    · refine ⟨hev2, by simp [curVer, hev1], ?_⟩
      intro c hc
      rw [hev4]
      exact hev5 c hc
  · simp only
    rw [List.pairwise_append]
    refine ⟨h.sorted, by simp, ?_⟩
    intro a ha x hx
    simp only [List.mem_singleton] at hx
    subst hx
    obtain ⟨_, h2, _⟩ := h.succ_ok a ha
    omega
  · intro c hc
    simp only [Option.some.injEq] at hc
    rw [lastContent_append, hev3, hc]
  · simp only
    rw [chainOk_append]
    refine ⟨h.chain, ?_⟩
    rw [hev4]
    cases hd : s.disk with
    | none => exact Or.inr rfl
    | some c => exact Or.inl (by rw [h.disk_ok c hd])

/-- the locked section of `apply_source` for a request whose read `p.disk` is not newer than the
tracked state it saw; `hbase`: an honest request that passes the check finds its base on disk -/
theorem applyLocked_inv {d0 : Content} {s : PState} {b : Nat} (h : Inv d0 s b) (i : Nat) (p : Pending)
    (hb : b + 2 < u64Max)
    (hbase : ∀ c, p.base = some c →
      (syncDoc s.entry p.disk (firstVersion s.floor)).version = p.expected → s.disk = some c) :
    Inv d0 (applyLocked s i p) (b + 2) := by
  have hvlt : curVer s < u64Max := by have := h.bound.1; omega
  obtain ⟨hadv, hle⟩ := sync_adv s p.disk hvlt
  obtain ⟨hle', _, _⟩ := hadv.ver
  have hbd := h.bound
  by_cases hexp : (syncDoc s.entry p.disk (firstVersion s.floor)).version = p.expected
  · -- success
    have hsv : (syncDoc s.entry p.disk (firstVersion s.floor)).version < u64Max := by omega
    have hsat : satSucc (syncDoc s.entry p.disk (firstVersion s.floor)).version = p.expected + 1 := by
      simp only [satSucc, hsv, if_true]; omega
    have happ : applyDoc s.entry p.disk p.expected p.new (firstVersion s.floor) =
        ({ content := p.new, version := p.expected + 1 }, some (p.expected + 1)) := by
      rw [hexp] at hsat
      simp [applyDoc, hexp, hsat]
    unfold applyLocked
    rw [happ]
    simp only
    exact h.step_write i (p.expected + 1) p.new s.floor
      { issued := (p.expected + 1, p.new) :: (s.clients i).issued, pending := none }
      { client := i, expected := p.expected, version := p.expected + 1, content := p.new
        base := p.base, diskBefore := s.disk }
      (by omega) (by omega) (by omega) rfl (by simp) rfl rfl rfl rfl
      (fun c hc => hbase c hc hexp)
  · -- conflict: the synced entry stays
    have happ : applyDoc s.entry p.disk p.expected p.new (firstVersion s.floor) =
        (syncDoc s.entry p.disk (firstVersion s.floor), none) := by
      simp [applyDoc, hexp]
    unfold applyLocked
    rw [happ]
    simp only
    refine h.step_entry _ hadv (by omega) _ ?_ ?_
    · intro j v c hm
      simp only [upd] at hm
      split at hm
      · rename_i hj; subst hj; exact Or.inl hm
      · exact Or.inl hm
    · intro j q hq
      simp only [upd] at hq
      split at hq
      · simp at hq
      · rename_i hj
        refine ⟨hq, fun v c hm => ?_⟩
        simp only [upd, hj, if_false]; exact hm

theorem step_inv {d0 : Content} {s : PState} {b : Nat} (h : Inv d0 s b) (st : Step)
    (hst : st.covered = true) (hn : b + st.cost < u64Max) : Inv d0 (next s st) (b + st.cost) := by
  have hbd := h.bound
  cases st with
  | aliasWrite _ => simp [Step.covered] at hst
  | splitCheck _ => simp [Step.covered] at hst
  | splitWrite _ => simp [Step.covered] at hst
  | splitCommit _ => simp [Step.covered] at hst
  | retireOther k => exact h.step_floor k
  | delete => exact (h.step_drop none (by simp)).mono (by simp [Step.cost])
  | evict => exact (h.step_drop s.disk (fun _ hc => hc)).mono (by simp [Step.cost])
  | override t =>
    simp only [Step.cost] at hn ⊢
    obtain ⟨hadv, hle⟩ := sync_adv s t (by omega)
    exact h.step_entry _ hadv (by omega) s.clients (fun i v c hm => Or.inl hm)
      (fun i p hp => ⟨hp, fun _ _ hm => hm⟩)
  | syncAll =>
    simp only [Step.cost] at hn ⊢
    simp only [next]
    split
    · rename_i d hd
      obtain ⟨hadv, hle⟩ := sync_adv s d (by omega)
      exact h.step_entry _ hadv (by omega) s.clients (fun i v c hm => Or.inl hm)
        (fun i p hp => ⟨hp, fun _ _ hm => hm⟩)
    · exact h.mono (by omega)
  | beginOpen i =>
    simp only [Step.cost] at hn ⊢
    simp only [next]
    split
    · rename_i d hd hp
      exact (h.step_begin i _ d hd rfl rfl (by simp)).mono (by omega)
    · exact h.mono (by omega)
  | beginApply i expected new =>
    simp only [Step.cost] at hn ⊢
    simp only [next]
    split
    · rename_i d hd hp
      exact (h.step_begin i _ d hd rfl rfl (fun c hc => lookupIssued_mem _ _ _ hc)).mono (by omega)
    · exact h.mono (by omega)
  | create i payload =>
    simp only [Step.cost] at hn ⊢
    simp only [next]
    split
    · rename_i hd hp
      obtain ⟨hc, hf⟩ := curVer_le_retired s
      have hr := retired_le s b hbd.1 hbd.2
      have hfv : firstVersion (retired s) = retired s + 1 := by
        simp only [firstVersion, satSucc]
        rw [if_pos (by omega)]
      rw [hfv]
      exact h.step_write i (retired s + 1) payload (retired s)
        { (s.clients i) with issued := (retired s + 1, payload) :: (s.clients i).issued }
        { client := i, expected := retired s, version := retired s + 1, content := payload
          base := none, diskBefore := none }
        (by omega) (by omega) (by omega) rfl (fun p hp' => hp') rfl rfl rfl (by simp [hd]) (by simp)
    · exact h.mono (by omega)
  | symRename i buffer result =>
    simp only [Step.cost] at hn ⊢
    simp only [next]
    split
    · rename_i d hd hp
      split
      · obtain ⟨hadv, hle⟩ := sync_adv s d (by omega)
        exact h.step_entry _ hadv (by omega) s.clients (fun i v c hm => Or.inl hm)
          (fun i p hp => ⟨hp, fun _ _ hm => hm⟩)
      · exact applyLocked_inv h i _ (by omega) (fun c hc _ => by
          simp only [Option.some.injEq] at hc
          rw [hd, hc])
    · exact h.mono (by omega)
  | finish i =>
    simp only [Step.cost] at hn ⊢
    simp only [next]
    split
    · exact h.mono (by omega)
    · rename_i p hp
      obtain ⟨hadv, hle⟩ := sync_adv s p.disk (by omega)
      split
      · -- locked section of open_source
        refine h.step_entry _ hadv (by omega) _ ?_ ?_
        · intro j v c hm
          simp only [upd] at hm
          split at hm
          · rename_i hj; subst hj
            simp only [List.mem_cons, Prod.mk.injEq] at hm
            rcases hm with ⟨rfl, rfl⟩ | hm
            · exact Or.inr ⟨rfl, (syncDoc_content _ _ _).symm⟩
            · exact Or.inl hm
          · exact Or.inl hm
        · intro j q hq
          simp only [upd] at hq
          split at hq
          · simp at hq
          · rename_i hj
            refine ⟨hq, fun v c hm => ?_⟩
            simp only [upd, hj, if_false]; exact hm
      · -- locked section of apply_source
        refine applyLocked_inv h i p (by omega) ?_
        intro c hc hexp
        -- the honest writer: its base is the tracked content, and the disk has not moved
        obtain ⟨hp1, hp2, hp3⟩ := h.pending_ok i p hp
        obtain ⟨hb1, hb2⟩ := hp3 c hc
        obtain ⟨hi1, hi2⟩ := h.issued_ok i _ c hb2
        obtain ⟨hle', heq', hnone'⟩ := hadv.ver
        cases he : s.entry with
        | none =>
          have := hi2 he
          have := hnone' he
          omega
        | some e =>
          obtain ⟨hve, hce⟩ := hi1 e he
          have hcur : curVer s = e.version := by simp [curVer, he]
          have hee : syncDoc s.entry p.disk (firstVersion s.floor) = e := heq' e he (by omega)
          have hc' : c = e.content := hce (by omega)
          have hdisk : s.disk = some p.disk := hp2 e he (by omega)
          rw [hdisk, hc', ← hee, syncDoc_content]

theorem run_inv {d0 : Content} (tr : List Step) : ∀ (s : PState) (b : Nat), Inv d0 s b →
    (∀ st ∈ tr, st.covered = true) → b + traceCost tr < u64Max →
    Inv d0 (run s tr) (b + traceCost tr) := by
  induction tr with
  | nil => intro s b h _ _; simpa [run, traceCost] using h
  | cons st rest ih =>
    intro s b h hv hn
    simp only [traceCost] at hn ⊢
    have h1 := step_inv h st (hv st (by simp)) (by omega)
    have := ih (next s st) (b + st.cost) h1 (fun x hx => hv x (by simp [hx])) (by omega)
    simpa [run, Nat.add_assoc] using this

/-- two honest writers race; the loser re-opens and writes again -/
def raceTrace : List Step :=
  [.beginOpen 0, .finish 0, .beginOpen 1, .finish 1,
   .beginApply 0 1 "A".toList, .beginApply 1 1 "B".toList, .finish 0, .finish 1,
   .beginOpen 1, .finish 1, .beginApply 1 4 "B2".toList, .finish 1]

/-- witness of the repaired finding C19-version-reuse: client 0 holds a snapshot (v1) from before
the deletion, a document of another file is retired in between, client 1 re-creates the file;
client 0's save is refused, re-opens and saves on the new document -/
def reuseTrace : List Step :=
  [.beginOpen 0, .finish 0, .beginOpen 1, .finish 1, .beginApply 1 1 "B1".toList, .finish 1,
   .delete, .retireOther 4, .create 1 "B2".toList, .beginApply 0 1 "A".toList, .finish 0,
   .beginOpen 0, .finish 0, .beginApply 0 5 "A2".toList, .finish 0]

/-- witness of the repaired finding C19-rename-symbol-bypass: client 0's `rename_symbol` on the
stale buffer `v0` is refused; with the buffer the file holds it goes through on `B1`, and client
1's save based on the text before the rename is refused -/
def symRenameTrace : List Step :=
  [.beginOpen 0, .finish 0, .beginOpen 1, .finish 1, .beginApply 1 1 "B1".toList, .finish 1,
   .symRename 0 (some "v0".toList) "renamed(v0)".toList,
   .symRename 0 (some "B1".toList) "renamed(B1)".toList,
   .beginApply 1 2 "B2".toList, .finish 1]

/-- witness of the open finding C19-alias-keys: the other writer's success falls between client
0's unlocked read and its locked section -/
def aliasTrace : List Step :=
  [.beginOpen 0, .finish 0, .beginApply 0 1 "A".toList, .aliasWrite "B1".toList, .finish 0]

/-- two honest writers with the same expected version against the torn (non-atomic) variant of
the locked section: both pass the check before either commits -/
def splitTrace : List Step :=
  [.beginOpen 0, .finish 0, .beginOpen 1, .finish 1,
   .beginApply 0 1 "A".toList, .beginApply 1 1 "B".toList,
   .splitCheck 0, .splitCheck 1, .splitWrite 1, .splitWrite 0, .splitCommit 0, .splitCommit 1]

/-- strictly increasing versions that are each `expected + 1`: no two successes share an expected
version -/
theorem expected_distinct (l : List Success) (h1 : ∀ ev ∈ l, ev.version = ev.expected + 1)
    (h2 : l.Pairwise (fun a b => a.version < b.version)) :
    l.Pairwise (fun a b => a.expected ≠ b.expected) := by
  induction l with
  | nil => exact List.Pairwise.nil
  | cons a rest ih =>
    rw [List.pairwise_cons] at h2 ⊢
    refine ⟨?_, ih (fun ev hev => h1 ev (by simp [hev])) h2.2⟩
    intro b hb
    have ha := h1 a (by simp)
    have hb' := h1 b (by simp [hb])
    have := h2.1 b hb
    omega

end Proto

end TrustVerif.C19
