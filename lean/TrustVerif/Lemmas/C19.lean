import TrustVerif.Model.C19

/-!
# C19 — helper lemmas
-/
deriving instance DecidableEq for Except

namespace TrustVerif.C19

/-! ## A. normalisation -/

theorem splitSlash_ne_nil (s : List Char) : splitSlash s ≠ [] := by
  induction s with
  | nil => simp [splitSlash]
  | cons c cs ih =>
    unfold splitSlash
    split
    · simp
    · split <;> simp

theorem splitSlash_no_slash (s : List Char) : ∀ p ∈ splitSlash s, '/' ∉ p := by
  induction s with
  | nil => simp [splitSlash]
  | cons c cs ih =>
    unfold splitSlash
    split
    · intro p hp
      simp only [List.mem_cons] at hp
      rcases hp with rfl | hp
      · simp
      · exact ih p hp
    · rename_i hc
      split
      · intro p hp
        simp only [List.mem_cons, List.not_mem_nil, or_false] at hp
        subst hp
        simp [Ne.symm hc]
      · rename_i p ps heq
        intro q hq
        simp only [List.mem_cons] at hq
        have hmem : ∀ x ∈ p :: ps, '/' ∉ x := by
          intro x hx
          exact ih x (heq ▸ hx)
        rcases hq with rfl | hq
        · have := hmem p (by simp)
          simp [Ne.symm hc, this]
        · exact hmem q (by simp [hq])

/-- splitting a `/`-free piece followed by nothing -/
theorem splitSlash_piece (a : List Char) (h : '/' ∉ a) : splitSlash a = [a] := by
  induction a with
  | nil => simp [splitSlash]
  | cons c cs ih =>
    have hc : c ≠ '/' := fun e => h (by simp [e])
    have hcs : '/' ∉ cs := fun e => h (by simp [e])
    unfold splitSlash
    simp [hc, ih hcs]

theorem splitSlash_append (a : List Char) (rest : List Char) (h : '/' ∉ a) :
    splitSlash (a ++ '/' :: rest) = a :: splitSlash rest := by
  induction a with
  | nil => simp [splitSlash]
  | cons c cs ih =>
    have hc : c ≠ '/' := fun e => h (by simp [e])
    have hcs : '/' ∉ cs := fun e => h (by simp [e])
    simp only [List.cons_append, splitSlash, hc, if_false, ih hcs]

/-- Re-splitting a joined list of `/`-free pieces gives the pieces back: the OS sees exactly the
components that `normalize_workspace_path` emitted. -/
theorem splitSlash_joinSlash (ps : List Name) (hne : ps ≠ []) (h : ∀ p ∈ ps, '/' ∉ p) :
    splitSlash (joinSlash ps) = ps := by
  induction ps with
  | nil => exact absurd rfl hne
  | cons a rest ih =>
    cases rest with
    | nil => simpa [joinSlash] using splitSlash_piece a (h a (by simp))
    | cons b rest' =>
      simp only [joinSlash]
      rw [splitSlash_append a _ (h a (by simp))]
      rw [ih (by simp) (fun p hp => h p (by simp [hp]))]

/-- what the `for component in …` loop accepts -/
theorem normLoop_ok (cs : List Component) (ps : List Name) (h : normLoop cs = .ok ps) :
    ps = cs.filterMap (fun c => match c with | .normal s => some s | _ => none) ∧
    (∀ c ∈ cs, c = .curDir ∨ ∃ s, c = .normal s ∧ isHiddenName s = false) := by
  induction cs generalizing ps with
  | nil => simp [normLoop] at h; simp [h]
  | cons c rest ih =>
    cases c with
    | rootDir => simp [normLoop] at h
    | parentDir => simp [normLoop] at h
    | curDir =>
      simp only [normLoop] at h
      obtain ⟨h1, h2⟩ := ih ps h
      refine ⟨by simpa using h1, ?_⟩
      intro c hc
      simp only [List.mem_cons] at hc
      rcases hc with rfl | hc
      · exact Or.inl rfl
      · exact h2 c hc
    | normal s =>
      simp only [normLoop] at h
      split at h
      · simp at h
      · rename_i hh
        split at h
        · rename_i ps' hps'
          simp only [Except.ok.injEq] at h
          obtain ⟨h1, h2⟩ := ih ps' hps'
          subst h
          refine ⟨by simp [h1], ?_⟩
          intro c hc
          simp only [List.mem_cons] at hc
          rcases hc with rfl | hc
          · exact Or.inr ⟨s, rfl, by simpa using hh⟩
          · exact h2 c hc
        · simp at h

/-- every `Normal` component of `components t` is a non-empty `/`-free piece other than `.`/`..` -/
theorem components_normal (t : List Char) (s : Name) (h : Component.normal s ∈ components t) :
    s ≠ [] ∧ '/' ∉ s ∧ s ≠ ['.'] ∧ s ≠ ['.', '.'] := by
  have key : ∀ pieces : List (List Char), (∀ p ∈ pieces, '/' ∉ p) →
      Component.normal s ∈ pieces.filterMap (fun p =>
        if p = [] then none
        else if p = ['.'] then none
        else if p = ['.', '.'] then some Component.parentDir
        else some (Component.normal p)) →
      s ≠ [] ∧ '/' ∉ s ∧ s ≠ ['.'] ∧ s ≠ ['.', '.'] := by
    intro pieces hp hm
    simp only [List.mem_filterMap] at hm
    obtain ⟨p, hpm, hpe⟩ := hm
    split at hpe
    · simp at hpe
    · split at hpe
      · simp at hpe
      · split at hpe
        · simp at hpe
        · simp only [Option.some.injEq, Component.normal.injEq] at hpe
          subst hpe
          exact ⟨by assumption, hp p hpm, by assumption, by assumption⟩
  unfold components at h
  simp only at h
  split at h
  · simp only [List.mem_cons] at h
    rcases h with h | h
    · cases h
    · exact key _ (splitSlash_no_slash t) h
  · split at h
    · simp only [List.mem_cons] at h
      rcases h with h | h
      · cases h
      · exact key _ (splitSlash_no_slash t) h
    · exact key _ (splitSlash_no_slash t) h

theorem not_hidden_ne_dots (s : Name) (h : isHiddenName s = false) : s ≠ ['.'] ∧ s ≠ ['.', '.'] := by
  constructor <;> (intro e; subst e; simp [isHiddenName] at h)

/-- the components of an accepted, re-joined path are exactly the accepted parts -/
theorem components_joinSlash (ps : List Name) (hne : ps ≠ [])
    (h : ∀ p ∈ ps, p ≠ [] ∧ '/' ∉ p ∧ isHiddenName p = false) :
    components (joinSlash ps) = ps.map Component.normal := by
  have hsplit := splitSlash_joinSlash ps hne (fun p hp => (h p hp).2.1)
  obtain ⟨a, rest, rfl⟩ : ∃ a rest, ps = a :: rest := by
    cases ps with
    | nil => exact absurd rfl hne
    | cons a rest => exact ⟨a, rest, rfl⟩
  have ha := h a (by simp)
  have hbody : (a :: rest).filterMap (fun p =>
        if p = [] then none
        else if p = ['.'] then none
        else if p = ['.', '.'] then some Component.parentDir
        else some (Component.normal p)) = (a :: rest).map Component.normal := by
    generalize (a :: rest) = l at h
    induction l with
    | nil => rfl
    | cons p l ih =>
      obtain ⟨h1, _, h3⟩ := h p (by simp)
      obtain ⟨h4, h5⟩ := not_hidden_ne_dots p h3
      simp only [List.filterMap_cons, h1, h4, h5, if_false, List.map_cons]
      rw [ih (fun q hq => h q (by simp [hq]))]
  -- the joined string starts with the first character of `a`, which is neither `/` nor `.`-only
  have hhead : (joinSlash (a :: rest)).head? = a.head? := by
    cases a with
    | nil => exact absurd rfl ha.1
    | cons c cs => cases rest <;> simp [joinSlash]
  have hnoslash : (joinSlash (a :: rest)).head? ≠ some '/' := by
    rw [hhead]
    cases a with
    | nil => exact absurd rfl ha.1
    | cons c cs =>
      have : c ≠ '/' := fun e => ha.2.1 (by simp [e])
      simpa using this
  unfold components
  simp only [hsplit, hnoslash, if_false, List.head?_cons]
  have : a ≠ ['.'] := (not_hidden_ne_dots a ha.2.2).1
  simp only [Option.some.injEq, this, if_false]
  exact hbody

end TrustVerif.C19
