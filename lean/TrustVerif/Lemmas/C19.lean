import TrustVerif.Model.C19

/-!
# C19 — helper lemmas
-/
deriving instance DecidableEq for Except

namespace TrustVerif.C19

/-! ## A. normalisation -/

theorem splitSlash_ne_nil (s : List Char) : splitSlash s ≠ [] := by
  induction s with
  | nil => simp [splitSlash]
  | cons c cs ih =>
    unfold splitSlash
    split
    · simp
    · split <;> simp

theorem splitSlash_no_slash (s : List Char) : ∀ p ∈ splitSlash s, '/' ∉ p := by
  induction s with
  | nil => simp [splitSlash]
  | cons c cs ih =>
    unfold splitSlash
    split
    · intro p hp
      simp only [List.mem_cons] at hp
      rcases hp with rfl | hp
      · simp
      · exact ih p hp
    · rename_i hc
      split
      · intro p hp
        simp only [List.mem_cons, List.not_mem_nil, or_false] at hp
        subst hp
        simp [Ne.symm hc]
      · rename_i p ps heq
        intro q hq
        simp only [List.mem_cons] at hq
        have hmem : ∀ x ∈ p :: ps, '/' ∉ x := by
          intro x hx
          exact ih x (heq ▸ hx)
        rcases hq with rfl | hq
        · have := hmem p (by simp)
          simp [Ne.symm hc, this]
        · exact hmem q (by simp [hq])

/-- splitting a `/`-free piece followed by nothing -/
theorem splitSlash_piece (a : List Char) (h : '/' ∉ a) : splitSlash a = [a] := by
  induction a with
  | nil => simp [splitSlash]
  | cons c cs ih =>
    have hc : c ≠ '/' := fun e => h (by simp [e])
    have hcs : '/' ∉ cs := fun e => h (by simp [e])
    unfold splitSlash
    simp [hc, ih hcs]

theorem splitSlash_append (a : List Char) (rest : List Char) (h : '/' ∉ a) :
    splitSlash (a ++ '/' :: rest) = a :: splitSlash rest := by
  induction a with
  | nil => simp [splitSlash]
  | cons c cs ih =>
    have hc : c ≠ '/' := fun e => h (by simp [e])
    have hcs : '/' ∉ cs := fun e => h (by simp [e])
    simp only [List.cons_append, splitSlash, hc, if_false, ih hcs]

/-- Re-splitting a joined list of `/`-free pieces gives the pieces back: the OS sees exactly the
components that `normalize_workspace_path` emitted. -/
theorem splitSlash_joinSlash (ps : List Name) (hne : ps ≠ []) (h : ∀ p ∈ ps, '/' ∉ p) :
    splitSlash (joinSlash ps) = ps := by
  induction ps with
  | nil => exact absurd rfl hne
  | cons a rest ih =>
    cases rest with
    | nil => simpa [joinSlash] using splitSlash_piece a (h a (by simp))
    | cons b rest' =>
      simp only [joinSlash]
      rw [splitSlash_append a _ (h a (by simp))]
      rw [ih (by simp) (fun p hp => h p (by simp [hp]))]

/-- what the `for component in …` loop accepts -/
theorem normLoop_ok (cs : List Component) (ps : List Name) (h : normLoop cs = .ok ps) :
    ps = cs.filterMap (fun c => match c with | .normal s => some s | _ => none) ∧
    (∀ c ∈ cs, c = .curDir ∨ ∃ s, c = .normal s ∧ isHiddenName s = false) := by
  induction cs generalizing ps with
  | nil => simp [normLoop] at h; simp [h]
  | cons c rest ih =>
    cases c with
    | rootDir => simp [normLoop] at h
    | parentDir => simp [normLoop] at h
    | curDir =>
      simp only [normLoop] at h
      obtain ⟨h1, h2⟩ := ih ps h
      refine ⟨by simpa using h1, ?_⟩
      intro c hc
      simp only [List.mem_cons] at hc
      rcases hc with rfl | hc
      · exact Or.inl rfl
      · exact h2 c hc
    | normal s =>
      simp only [normLoop] at h
      split at h
      · simp at h
      · rename_i hh
        split at h
        · rename_i ps' hps'
          simp only [Except.ok.injEq] at h
          obtain ⟨h1, h2⟩ := ih ps' hps'
          subst h
          refine ⟨by simp [h1], ?_⟩
          intro c hc
          simp only [List.mem_cons] at hc
          rcases hc with rfl | hc
          · exact Or.inr ⟨s, rfl, by simpa using hh⟩
          · exact h2 c hc
        · simp at h

/-- every `Normal` component of `components t` is a non-empty `/`-free piece other than `.`/`..` -/
theorem components_normal (t : List Char) (s : Name) (h : Component.normal s ∈ components t) :
    s ≠ [] ∧ '/' ∉ s ∧ s ≠ ['.'] ∧ s ≠ ['.', '.'] := by
  have key : ∀ pieces : List (List Char), (∀ p ∈ pieces, '/' ∉ p) →
      Component.normal s ∈ pieces.filterMap (fun p =>
        if p = [] then none
        else if p = ['.'] then none
        else if p = ['.', '.'] then some Component.parentDir
        else some (Component.normal p)) →
      s ≠ [] ∧ '/' ∉ s ∧ s ≠ ['.'] ∧ s ≠ ['.', '.'] := by
    intro pieces hp hm
    simp only [List.mem_filterMap] at hm
    obtain ⟨p, hpm, hpe⟩ := hm
    split at hpe
    · simp at hpe
    · split at hpe
      · simp at hpe
      · split at hpe
        · simp at hpe
        · simp only [Option.some.injEq, Component.normal.injEq] at hpe
          subst hpe
          exact ⟨by assumption, hp p hpm, by assumption, by assumption⟩
  unfold components at h
  simp only at h
  split at h
  · simp only [List.mem_cons] at h
    rcases h with h | h
    · cases h
    · exact key _ (splitSlash_no_slash t) h
  · split at h
    · simp only [List.mem_cons] at h
      rcases h with h | h
      · cases h
      · exact key _ (splitSlash_no_slash t) h
    · exact key _ (splitSlash_no_slash t) h

theorem not_hidden_ne_dots (s : Name) (h : isHiddenName s = false) : s ≠ ['.'] ∧ s ≠ ['.', '.'] := by
  constructor <;> (intro e; subst e; simp [isHiddenName] at h)

/-- the components of an accepted, re-joined path are exactly the accepted parts -/
theorem components_joinSlash (ps : List Name) (hne : ps ≠ [])
    (h : ∀ p ∈ ps, p ≠ [] ∧ '/' ∉ p ∧ isHiddenName p = false) :
    components (joinSlash ps) = ps.map Component.normal := by
  have hsplit := splitSlash_joinSlash ps hne (fun p hp => (h p hp).2.1)
  obtain ⟨a, rest, rfl⟩ : ∃ a rest, ps = a :: rest := by
    cases ps with
    | nil => exact absurd rfl hne
    | cons a rest => exact ⟨a, rest, rfl⟩
  have ha := h a (by simp)
  have hbody : (a :: rest).filterMap (fun p =>
        if p = [] then none
        else if p = ['.'] then none
        else if p = ['.', '.'] then some Component.parentDir
        else some (Component.normal p)) = (a :: rest).map Component.normal := by
    generalize (a :: rest) = l at h
    induction l with
    | nil => rfl
    | cons p l ih =>
      obtain ⟨h1, _, h3⟩ := h p (by simp)
      obtain ⟨h4, h5⟩ := not_hidden_ne_dots p h3
      simp only [List.filterMap_cons, h1, h4, h5, if_false, List.map_cons]
      rw [ih (fun q hq => h q (by simp [hq]))]
  -- the joined string starts with the first character of `a`, which is neither `/` nor `.`-only
  have hhead : (joinSlash (a :: rest)).head? = a.head? := by
    cases a with
    | nil => exact absurd rfl ha.1
    | cons c cs => cases rest <;> simp [joinSlash]
  have hnoslash : (joinSlash (a :: rest)).head? ≠ some '/' := by
    rw [hhead]
    cases a with
    | nil => exact absurd rfl ha.1
    | cons c cs =>
      have : c ≠ '/' := fun e => ha.2.1 (by simp [e])
      simpa using this
  unfold components
  simp only [hsplit, hnoslash, if_false, List.head?_cons]
  have : a ≠ ['.'] := (not_hidden_ne_dots a ha.2.2).1
  simp only [Option.some.injEq, this, if_false]
  exact hbody

/-- what `normalize_workspace_path` accepts -/
theorem normalizeParts_ok (p : List Char) (ps : List Name) (h : normalizeParts p = .ok ps) :
    ps ≠ [] ∧ ∀ c ∈ ps, c ≠ [] ∧ '/' ∉ c ∧ isHiddenName c = false := by
  unfold normalizeParts at h
  simp only at h
  split at h
  · simp at h
  · split at h
    · simp at h
    · split at h
      · simp at h
      · simp at h
      · rename_i ps' hne hloop
        simp only [Except.ok.injEq] at h
        subst h
        obtain ⟨hps, hall⟩ := normLoop_ok _ _ hloop
        refine ⟨fun e => hne e, ?_⟩
        intro c hc
        rw [hps] at hc
        simp only [List.mem_filterMap] at hc
        obtain ⟨comp, hm, hcomp⟩ := hc
        cases comp with
        | normal s =>
          simp only [Option.some.injEq] at hcomp
          subst hcomp
          obtain ⟨h1, h2, _, _⟩ := components_normal _ _ hm
          rcases hall _ hm with h | ⟨s', hs', hh⟩
          · cases h
          · cases hs'
            exact ⟨h1, h2, hh⟩
        | rootDir => simp at hcomp
        | curDir => simp at hcomp
        | parentDir => simp at hcomp

/-! ## C. gates before effects -/

theorem ensureSession_editor (i : Inner) (tok now : Nat) (i' : Inner) (s : Session)
    (h : ensureSession i tok now = (i', some s)) : liveEditor i tok now = s.editor := by
  unfold ensureSession at h
  unfold liveEditor
  simp only at h
  split at h
  · simp at h
  · rename_i s0 hs0
    simp only [Prod.mk.injEq, Option.some.injEq] at h
    rw [hs0, ← h.2]

theorem ensureSession_none (i : Inner) (tok now : Nat) (i' : Inner)
    (h : ensureSession i tok now = (i', none)) : liveEditor i tok now = false := by
  unfold ensureSession at h
  unfold liveEditor
  simp only at h
  split at h
  · rename_i hs0; rw [hs0]
  · simp at h

theorem ensureEditor_ok (i : Inner) (tok now : Nat) (i' : Inner)
    (h : ensureEditor i tok now = (i', none)) : liveEditor i tok now = true := by
  unfold ensureEditor at h
  split at h
  · simp at h
  · rename_i i1 s hs
    split at h
    · rename_i hed
      rw [ensureSession_editor i tok now i1 s hs, hed]
    · simp at h

/-- what a refused / read-only operation leaves behind -/
def Quiet (w : World) (o : Out) : Prop :=
  o.world.fs = w.fs ∧ o.world.inner.docs = w.inner.docs ∧ o.world.inner.audit = w.inner.audit ∧
  ∀ e ∈ o.effects, e.isMutation = false

theorem quiet_fail (w : World) (i : Inner) (e : Err) (effs : List Effect)
    (hd : i.docs = w.inner.docs) (ha : i.audit = w.inner.audit)
    (he : ∀ x ∈ effs, x.isMutation = false) : Quiet w (fail { w with inner := i } e effs) :=
  ⟨rfl, hd, ha, he⟩

theorem quiet_fail' (w : World) (e : Err) (effs : List Effect)
    (he : ∀ x ∈ effs, x.isMutation = false) : Quiet w (fail w e effs) :=
  ⟨rfl, rfl, rfl, he⟩

theorem prune_docs (i : Inner) (now : Nat) : (prune i now).docs = i.docs ∧ (prune i now).audit = i.audit :=
  ⟨rfl, rfl⟩

theorem ensureSession_docs (i : Inner) (tok now : Nat) :
    (ensureSession i tok now).1.docs = i.docs ∧ (ensureSession i tok now).1.audit = i.audit := by
  unfold ensureSession
  simp only
  split <;> exact ⟨rfl, rfl⟩

theorem ensureEditor_docs (i : Inner) (tok now : Nat) :
    (ensureEditor i tok now).1.docs = i.docs ∧ (ensureEditor i tok now).1.audit = i.audit := by
  have h := ensureSession_docs i tok now
  unfold ensureEditor
  split
  · rename_i i1 hs; rw [hs] at h; exact h
  · rename_i i1 s hs
    rw [hs] at h
    split <;> exact h

theorem applySource_quiet (w : World) (tok : Nat) (path : List Char) (expected : Nat)
    (content : List Char) (we : Bool) (h : (we && liveEditor w.inner tok w.now) = false) :
    Quiet w (applySource w tok path expected content we) := by
  unfold applySource
  split
  · exact quiet_fail' w _ _ (by simp)
  · rename_i hwe
    have hwe' : we = true := by simpa using hwe
    have hlive : liveEditor w.inner tok w.now = false := by simpa [hwe'] using h
    split
    · exact quiet_fail' w _ _ (by simp)
    · split
      · exact quiet_fail' w _ _ (by simp)
      · split
        · exact quiet_fail' w _ _ (by simp)
        · split
          · exact quiet_fail' w _ _ (by simp)
          · rename_i q disk _
            have hd := ensureSession_docs w.inner tok w.now
            split
            · rename_i i hs
              rw [hs] at hd
              exact quiet_fail w i _ _ hd.1 hd.2 (by simp [Effect.isMutation])
            · rename_i i s hs
              rw [hs] at hd
              have hed := ensureSession_editor _ _ _ _ _ hs
              rw [hlive] at hed
              simp only [← hed]
              exact quiet_fail w i _ _ hd.1 hd.2 (by simp [Effect.isMutation])

theorem createEntry_quiet (w : World) (tok : Nat) (path : List Char) (isDir : Bool)
    (content : Option (List Char)) (we : Bool) (h : (we && liveEditor w.inner tok w.now) = false) :
    Quiet w (createEntry w tok path isDir content we) := by
  unfold createEntry
  split
  · exact quiet_fail' w _ _ (by simp)
  · rename_i hwe
    have hwe' : we = true := by simpa using hwe
    have hlive : liveEditor w.inner tok w.now = false := by simpa [hwe'] using h
    split
    · exact quiet_fail' w _ _ (by simp)
    · split
      · exact quiet_fail' w _ _ (by simp)
      · split
        · exact quiet_fail' w _ _ (by simp)
        · have hd := ensureEditor_docs w.inner tok w.now
          split
          · rename_i i e hs
            rw [hs] at hd
            exact quiet_fail w i _ _ hd.1 hd.2 (by simp)
          · rename_i i hs
            have := ensureEditor_ok _ _ _ _ hs
            rw [hlive] at this
            cases this

theorem renameEntry_quiet (w : World) (tok : Nat) (path newPath : List Char) (we : Bool)
    (h : (we && liveEditor w.inner tok w.now) = false) :
    Quiet w (renameEntry w tok path newPath we) := by
  unfold renameEntry
  split
  · exact quiet_fail' w _ _ (by simp)
  · rename_i hwe
    have hwe' : we = true := by simpa using hwe
    have hlive : liveEditor w.inner tok w.now = false := by simpa [hwe'] using h
    split
    · exact quiet_fail' w _ _ (by simp)
    · split
      · exact quiet_fail' w _ _ (by simp)
      · split
        · exact quiet_fail' w _ _ (by simp)
        · simp only
          split
          · exact quiet_fail' w _ _ (by simp)
          · split
            · exact quiet_fail' w _ _ (by simp)
            · split
              · exact quiet_fail' w _ _ (by simp)
              · have hd := ensureEditor_docs w.inner tok w.now
                split
                · rename_i i e hs
                  rw [hs] at hd
                  exact quiet_fail w i _ _ hd.1 hd.2 (by simp)
                · rename_i i hs
                  have := ensureEditor_ok _ _ _ _ hs
                  rw [hlive] at this
                  cases this

theorem deleteEntry_quiet (w : World) (tok : Nat) (path : List Char) (we : Bool)
    (h : (we && liveEditor w.inner tok w.now) = false) :
    Quiet w (deleteEntry w tok path we) := by
  unfold deleteEntry
  split
  · exact quiet_fail' w _ _ (by simp)
  · rename_i hwe
    have hwe' : we = true := by simpa using hwe
    have hlive : liveEditor w.inner tok w.now = false := by simpa [hwe'] using h
    split
    · exact quiet_fail' w _ _ (by simp)
    · split
      · exact quiet_fail' w _ _ (by simp)
      · split
        · exact quiet_fail' w _ _ (by simp)
        · simp only
          have hd := ensureEditor_docs w.inner tok w.now
          split
          · rename_i i e hs
            rw [hs] at hd
            exact quiet_fail w i _ _ hd.1 hd.2 (by simp)
          · rename_i i hs
            have := ensureEditor_ok _ _ _ _ hs
            rw [hlive] at this
            cases this

/-- a read-only operation: the file system is untouched, whoever calls it -/
def ReadOnly (w : World) (o : Out) : Prop :=
  o.world.fs = w.fs ∧ ∀ e ∈ o.effects, e.isMutation = false

theorem Quiet.readOnly {w : World} {o : Out} (h : Quiet w o) : ReadOnly w o := ⟨h.1, h.2.2.2⟩

theorem withSession_readOnly (w : World) (tok : Nat) (k : World → Out)
    (hk : ∀ w', w'.fs = w.fs → ReadOnly w' (k w')) : ReadOnly w (withSession w tok k) := by
  unfold withSession
  split
  · exact ⟨rfl, by simp [fail]⟩
  · rename_i i _ _
    have := hk { w with inner := i } rfl
    exact ⟨this.1, this.2⟩

theorem mem_map_list_nonmut (ds : List Path) : ∀ e ∈ ds.map Effect.list, e.isMutation = false := by
  intro e he
  simp only [List.mem_map] at he
  obtain ⟨d, _, rfl⟩ := he
  rfl

theorem readonly_ops (w : World) (op : Op) (h : op.mayMutate w = false) :
    ReadOnly w (step w op) := by
  cases op with
  | createSession e =>
    simp only [step, createSession]
    split
    · exact ⟨rfl, by simp [fail]⟩
    · exact ⟨rfl, by simp⟩
  | listSources t =>
    simp only [step, listSources]
    apply withSession_readOnly
    intro w' hw'
    split
    · exact ⟨rfl, by simp [fail]⟩
    · exact ⟨rfl, mem_map_list_nonmut _⟩
  | listTree t =>
    simp only [step, listTree]
    apply withSession_readOnly
    intro w' hw'
    split
    · exact ⟨rfl, by simp [fail]⟩
    · exact ⟨rfl, mem_map_list_nonmut _⟩
  | search t q l =>
    simp only [step, workspaceSearch]
    apply withSession_readOnly
    intro w' hw'
    split
    · exact ⟨rfl, by simp⟩
    · split
      · exact ⟨rfl, by simp [fail]⟩
      · refine ⟨rfl, ?_⟩
        intro e he
        simp only [List.mem_append, List.mem_map, List.mem_filterMap] at he
        rcases he with ⟨d, _, rfl⟩ | ⟨x, _, hx⟩
        · rfl
        · cases hx2 : x.2 with
          | none => simp [hx2] at hx
          | some r => simp [hx2] at hx; subst hx; rfl
  | «open» t p =>
    simp only [step, openSource]
    split
    · exact ⟨rfl, by simp [fail]⟩
    · split
      · exact ⟨rfl, by simp [fail]⟩
      · split
        · exact ⟨rfl, by simp [fail]⟩
        · split
          · exact ⟨rfl, by simp [fail, Effect.isMutation]⟩
          · split
            · exact ⟨rfl, by simp [fail, Effect.isMutation]⟩
            · exact ⟨rfl, by simp [Effect.isMutation]⟩
  | format t p c =>
    simp only [step, formatSource]
    split
    · exact ⟨rfl, by simp [fail]⟩
    · apply withSession_readOnly
      intro w' hw'
      split
      · split
        · exact ⟨rfl, by simp [fail]⟩
        · exact ⟨rfl, by simp⟩
      · split
        · exact ⟨rfl, by simp [fail]⟩
        · split
          · exact ⟨rfl, by simp [fail]⟩
          · split
            · exact ⟨rfl, by simp [fail, Effect.isMutation]⟩
            · exact ⟨rfl, by simp [Effect.isMutation]⟩
  | health t =>
    simp only [step, health]
    apply withSession_readOnly
    intro w' hw'
    exact ⟨rfl, by simp⟩
  | apply t p e c we => exact (applySource_quiet w t p e c we h).readOnly
  | create t p d c we => exact (createEntry_quiet w t p d c we h).readOnly
  | rename t p n we => exact (renameEntry_quiet w t p n we h).readOnly
  | delete t p we => exact (deleteEntry_quiet w t p we h).readOnly

/-! ## D. protocol invariant -/
namespace Proto

def verOf : Option Doc → Nat
  | some e => e.version
  | none => 0

theorem curVer_eq (s : PState) : curVer s = verOf s.entry := by
  unfold curVer verOf; cases s.entry <;> rfl

/-- the tracked document advanced: the version did not decrease, and an unchanged version means an
unchanged document -/
def Adv (old : Option Doc) (new : Doc) : Prop :=
  match old with
  | none => 1 ≤ new.version
  | some e => e.version ≤ new.version ∧ (e.version = new.version → new = e)

theorem Adv.ver {old : Option Doc} {new : Doc} (h : Adv old new) :
    verOf old ≤ new.version ∧ (verOf old = new.version → old = some new) := by
  cases old with
  | none => simp only [Adv] at h; simp [verOf]; omega
  | some e =>
    simp only [Adv] at h
    refine ⟨h.1, fun he => ?_⟩
    simp only [verOf] at he
    rw [h.2 he]

theorem syncDoc_content (e : Option Doc) (d : Content) : (syncDoc e d).content = d := by
  unfold syncDoc
  cases e with
  | none => rfl
  | some e =>
    simp only
    split
    · rfl
    · rename_i h; simpa using h

theorem syncDoc_adv (e : Option Doc) (d : Content) (hv : verOf e < u64Max) :
    Adv e (syncDoc e d) ∧ (syncDoc e d).version ≤ verOf e + 1 := by
  unfold syncDoc
  cases e with
  | none => simp [Adv, verOf]
  | some e =>
    simp only [verOf] at hv
    simp only [Adv, verOf]
    split
    · simp only [satSucc, hv, if_true]
      refine ⟨⟨by omega, fun h => by omega⟩, by omega⟩
    · exact ⟨⟨Nat.le_refl _, fun _ => rfl⟩, by omega⟩

theorem lookupIssued_mem (l : List (Nat × Content)) (v : Nat) (c : Content)
    (h : lookupIssued l v = some c) : (v, c) ∈ l := by
  induction l with
  | nil => simp [lookupIssued] at h
  | cons a rest ih =>
    obtain ⟨v', c'⟩ := a
    simp only [lookupIssued] at h
    split at h
    · rename_i hv
      simp only [Option.some.injEq] at h
      subst hv; subst h
      simp
    · exact List.mem_cons_of_mem _ (ih h)

/-- every success found on disk exactly the content of the previous success (or the initial one) -/
def chainOk : Content → List Success → Prop
  | _, [] => True
  | d, ev :: rest => ev.diskBefore = some d ∧ chainOk ev.content rest

theorem chainOk_append (d : Content) (l : List Success) (ev : Success) :
    chainOk d (l ++ [ev]) ↔ chainOk d l ∧
      ev.diskBefore = some (match l.getLast? with | some x => x.content | none => d) := by
  induction l generalizing d with
  | nil => simp [chainOk]
  | cons a rest ih =>
    simp only [List.cons_append, chainOk, ih, and_assoc]
    cases rest with
    | nil => simp
    | cons b rest' =>
      simp only [List.getLast?_cons_cons]
      cases hgl : (b :: rest').getLast? with
      | none => simp at hgl
      | some x => simp

/-- The invariant of the versioned protocol after `n` steps, starting from disk content `d0`. -/
structure Inv (d0 : Content) (s : PState) (n : Nat) : Prop where
  ver_le : verOf s.entry ≤ 2 * n
  issued_ok : ∀ i v c, (v, c) ∈ (s.clients i).issued →
    ∃ e, s.entry = some e ∧ v ≤ e.version ∧ (v = e.version → c = e.content)
  pending_ok : ∀ i p, (s.clients i).pending = some p →
    p.seenVersion ≤ verOf s.entry ∧ (verOf s.entry = p.seenVersion → s.disk = some p.disk) ∧
    (∀ c, p.base = some c → p.expected ≤ p.seenVersion ∧ (p.expected, c) ∈ (s.clients i).issued)
  succ_ok : ∀ ev ∈ s.successes, ev.version = ev.expected + 1 ∧ ev.version ≤ verOf s.entry ∧
    (∀ c, ev.base = some c → ev.diskBefore = some c)
  sorted : s.successes.Pairwise (fun a b => a.version < b.version)
  disk_ok : s.disk = some (match s.successes.getLast? with
    | some ev => ev.content
    | none => d0)
  chain : chainOk d0 s.successes

theorem inv_init (d0 : Content) : Inv d0 (init d0) 0 := by
  refine ⟨by simp [init, verOf], ?_, ?_, ?_, ?_, ?_, ?_⟩ <;> simp [init, chainOk]

/-- the tracked document advances; clients only gain the pair just issued and lose pendings -/
theorem Inv.step_entry {d0 : Content} {s : PState} {n : Nat} (h : Inv d0 s n) (new : Doc)
    (hadv : Adv s.entry new) (hv : new.version ≤ 2 * (n + 1)) (cl : Nat → Client)
    (hiss : ∀ i v c, (v, c) ∈ (cl i).issued →
      (v, c) ∈ (s.clients i).issued ∨ (v = new.version ∧ c = new.content))
    (hpend : ∀ i p, (cl i).pending = some p → (s.clients i).pending = some p ∧
      ∀ v c, (v, c) ∈ (s.clients i).issued → (v, c) ∈ (cl i).issued) :
    Inv d0 { s with entry := some new, clients := cl } (n + 1) := by
  obtain ⟨hle, heq⟩ := hadv.ver
  refine ⟨by simpa [verOf] using hv, ?_, ?_, ?_, h.sorted, h.disk_ok, h.chain⟩
  · intro i v c hm
    rcases hiss i v c hm with hm | ⟨rfl, rfl⟩
    · obtain ⟨e, he, hve, hc⟩ := h.issued_ok i v c hm
      refine ⟨new, rfl, ?_, ?_⟩
      · have : verOf s.entry = e.version := by simp [he, verOf]
        omega
      · intro hvn
        have hver : verOf s.entry = e.version := by simp [he, verOf]
        have : s.entry = some new := heq (by omega)
        rw [he] at this
        cases this
        exact hc hvn
    · exact ⟨new, rfl, Nat.le_refl _, fun _ => rfl⟩
  · intro i p hp
    obtain ⟨hp', hsub⟩ := hpend i p hp
    obtain ⟨h1, h2, h3⟩ := h.pending_ok i p hp'
    refine ⟨by simp only [verOf]; omega, ?_, ?_⟩
    · intro hcur
      simp only [verOf] at hcur
      have : s.entry = some new := heq (by omega)
      apply h2
      rw [this]; simp [verOf, hcur]
    · intro c hc
      obtain ⟨h4, h5⟩ := h3 c hc
      exact ⟨h4, hsub _ _ h5⟩
  · intro ev hev
    obtain ⟨h1, h2, h3⟩ := h.succ_ok ev hev
    exact ⟨h1, by simp only [verOf]; omega, h3⟩

/-- a client starts an operation: only a pending read is added -/
theorem Inv.step_begin {d0 : Content} {s : PState} {n : Nat} (h : Inv d0 s n) (i : Nat) (p : Pending)
    (d : Content) (hd : s.disk = some d) (hpd : p.disk = d) (hseen : p.seenVersion = verOf s.entry)
    (hbase : ∀ c, p.base = some c → (p.expected, c) ∈ (s.clients i).issued) :
    Inv d0 { s with clients := upd s.clients i { (s.clients i) with pending := some p } } (n + 1) := by
  refine ⟨by have := h.ver_le; simp only; omega, ?_, ?_, h.succ_ok, h.sorted, h.disk_ok, h.chain⟩
  · intro j v c hm
    simp only [upd] at hm
    split at hm
    · rename_i hj; subst hj; exact h.issued_ok j v c hm
    · exact h.issued_ok j v c hm
  · intro j q hq
    simp only [upd] at hq ⊢
    split at hq
    · rename_i hj
      subst hj
      simp only [Option.some.injEq] at hq
      subst hq
      simp only [if_true]
      refine ⟨by omega, fun _ => by rw [hd, hpd], ?_⟩
      intro c hc
      have hm := hbase c hc
      obtain ⟨e, he, hve, _⟩ := h.issued_ok j _ c hm
      refine ⟨?_, hm⟩
      rw [hseen, he]; simpa [verOf] using hve
    · rename_i hj
      simp only [hj, if_false]
      exact h.pending_ok j q hq

theorem step_inv {d0 : Content} {s : PState} {n : Nat} (h : Inv d0 s n) (st : Step)
    (hst : st.versioned = true) (hn : 2 * n + 2 < u64Max) : Inv d0 (next s st) (n + 1) := by
  have hvlt : verOf s.entry < u64Max := by have := h.ver_le; omega
  cases st with
  | delete => simp [Step.versioned] at hst
  | create _ => simp [Step.versioned] at hst
  | symRename _ _ => simp [Step.versioned] at hst
  | aliasWrite _ => simp [Step.versioned] at hst
  | splitCheck _ => simp [Step.versioned] at hst
  | splitWrite _ => simp [Step.versioned] at hst
  | splitCommit _ => simp [Step.versioned] at hst
  | override t =>
    obtain ⟨hadv, hle⟩ := syncDoc_adv s.entry t hvlt
    have := h.ver_le
    exact h.step_entry _ hadv (by omega) s.clients (fun i v c hm => Or.inl hm)
      (fun i p hp => ⟨hp, fun _ _ hm => hm⟩)
  | syncAll =>
    simp only [next]
    split
    · rename_i d hd
      obtain ⟨hadv, hle⟩ := syncDoc_adv s.entry d hvlt
      have := h.ver_le
      exact h.step_entry _ hadv (by omega) s.clients (fun i v c hm => Or.inl hm)
        (fun i p hp => ⟨hp, fun _ _ hm => hm⟩)
    · exact ⟨by have := h.ver_le; omega, h.issued_ok, h.pending_ok, h.succ_ok, h.sorted, h.disk_ok, h.chain⟩
  | beginOpen i =>
    simp only [next]
    split
    · rename_i d hd hp
      exact h.step_begin i _ d hd rfl (by simp [curVer_eq]) (by simp)
    · exact ⟨by have := h.ver_le; omega, h.issued_ok, h.pending_ok, h.succ_ok, h.sorted, h.disk_ok, h.chain⟩
  | beginApply i expected new =>
    simp only [next]
    split
    · rename_i d hd hp
      exact h.step_begin i _ d hd rfl (by simp [curVer_eq])
        (fun c hc => lookupIssued_mem _ _ _ hc)
    · exact ⟨by have := h.ver_le; omega, h.issued_ok, h.pending_ok, h.succ_ok, h.sorted, h.disk_ok, h.chain⟩
  | finish i =>
    simp only [next]
    split
    · exact ⟨by have := h.ver_le; omega, h.issued_ok, h.pending_ok, h.succ_ok, h.sorted, h.disk_ok, h.chain⟩
    · rename_i p hp
      obtain ⟨hadv, hle⟩ := syncDoc_adv s.entry p.disk hvlt
      have hver := h.ver_le
      split
      · -- locked section of open_source
        refine h.step_entry _ hadv (by omega) _ ?_ ?_
        · intro j v c hm
          simp only [upd] at hm
          split at hm
          · rename_i hj; subst hj
            simp only [List.mem_cons, Prod.mk.injEq] at hm
            rcases hm with ⟨rfl, rfl⟩ | hm
            · exact Or.inr ⟨rfl, (syncDoc_content _ _).symm⟩
            · exact Or.inl hm
          · exact Or.inl hm
        · intro j q hq
          simp only [upd] at hq
          split at hq
          · simp at hq
          · rename_i hj
            refine ⟨hq, fun v c hm => ?_⟩
            simp only [upd, hj, if_false]; exact hm
      · -- locked section of apply_source
        by_cases hexp : (syncDoc s.entry p.disk).version = p.expected
        · -- success
          obtain ⟨hle', heq'⟩ := hadv.ver
          have hsv : (syncDoc s.entry p.disk).version < u64Max := by omega
          have hsat : satSucc (syncDoc s.entry p.disk).version = p.expected + 1 := by
            simp only [satSucc, hsv, if_true]; omega
          have happ : applyDoc s.entry p.disk p.expected p.new =
              ({ content := p.new, version := p.expected + 1 }, some (p.expected + 1)) := by
            rw [hexp] at hsat
            simp [applyDoc, hexp, hsat]
          unfold applyLocked
          rw [happ]
          simp only
          obtain ⟨hp1, hp2, hp3⟩ := h.pending_ok i p hp
          refine ⟨?_, ?_, ?_, ?_, ?_, ?_, ?_⟩
          · simp only [verOf]; omega
          · intro j v c hm
            simp only [upd] at hm
            refine ⟨_, rfl, ?_⟩
            have hold : (v, c) ∈ (s.clients j).issued → v ≤ p.expected := by
              intro hm'
              obtain ⟨e, he, hve, _⟩ := h.issued_ok j v c hm'
              have : verOf s.entry = e.version := by simp [he, verOf]
              omega
            split at hm
            · rename_i hj; subst hj
              simp only [List.mem_cons, Prod.mk.injEq] at hm
              rcases hm with ⟨rfl, rfl⟩ | hm
              · exact ⟨Nat.le_refl _, fun _ => rfl⟩
              · have := hold hm
                exact ⟨by simp only; omega, fun hv => by simp only at hv; omega⟩
            · have := hold hm
              exact ⟨by simp only; omega, fun hv => by simp only at hv; omega⟩
          · intro j q hq
            simp only [upd] at hq
            split at hq
            · simp at hq
            · rename_i hj
              obtain ⟨h1, h2, h3⟩ := h.pending_ok j q hq
              simp only [verOf]
              refine ⟨by omega, fun hv => by omega, ?_⟩
              intro c hc
              obtain ⟨h4, h5⟩ := h3 c hc
              refine ⟨h4, ?_⟩
              simp only [upd, hj, if_false]; exact h5
          · intro ev hev
            simp only [List.mem_append, List.mem_singleton] at hev
            rcases hev with hev | rfl
            · obtain ⟨h1, h2, h3⟩ := h.succ_ok ev hev
              exact ⟨h1, by simp only [verOf]; omega, h3⟩
            · refine ⟨rfl, by simp [verOf], ?_⟩
              intro c hc
              -- the honest writer: its base is the tracked content, and the disk has not moved
              obtain ⟨hb1, hb2⟩ := hp3 c hc
              obtain ⟨e, he, hve, hce⟩ := h.issued_ok i _ c hb2
              have hve' : verOf s.entry = e.version := by simp [he, verOf]
              have hsame : s.entry = some (syncDoc s.entry p.disk) := heq' (by omega)
              have hee : syncDoc s.entry p.disk = e := by
                have h' := hsame
                rw [he] at h'
                rw [he]
                exact (Option.some.inj h').symm
              have hc' : c = e.content := hce (by rw [← hee]; omega)
              have hdisk : s.disk = some p.disk := hp2 (by omega)
              simp only
              rw [hdisk, hc', ← hee, syncDoc_content]
          · simp only
            rw [List.pairwise_append]
            refine ⟨h.sorted, by simp, ?_⟩
            intro a ha b hb
            simp only [List.mem_singleton] at hb
            subst hb
            obtain ⟨_, h2, _⟩ := h.succ_ok a ha
            simp only; omega
          · simp
          · simp only
            rw [chainOk_append]
            exact ⟨h.chain, h.disk_ok⟩
        · -- conflict: the synced entry stays
          have happ : applyDoc s.entry p.disk p.expected p.new = (syncDoc s.entry p.disk, none) := by
            simp [applyDoc, hexp]
          unfold applyLocked
          rw [happ]
          simp only
          refine h.step_entry _ hadv (by omega) _ ?_ ?_
          · intro j v c hm
            simp only [upd] at hm
            split at hm
            · rename_i hj; subst hj; exact Or.inl hm
            · exact Or.inl hm
          · intro j q hq
            simp only [upd] at hq
            split at hq
            · simp at hq
            · rename_i hj
              refine ⟨hq, fun v c hm => ?_⟩
              simp only [upd, hj, if_false]; exact hm

theorem run_inv {d0 : Content} (tr : List Step) : ∀ (s : PState) (n : Nat), Inv d0 s n →
    (∀ st ∈ tr, st.versioned = true) → 2 * (n + tr.length) + 2 < u64Max →
    Inv d0 (run s tr) (n + tr.length) := by
  induction tr with
  | nil => intro s n h _ _; simpa [run] using h
  | cons st rest ih =>
    intro s n h hv hn
    simp only [List.length_cons] at hn ⊢
    have h1 := step_inv h st (hv st (by simp)) (by omega)
    have := ih (next s st) (n + 1) h1 (fun x hx => hv x (by simp [hx])) (by omega)
    simpa [run, Nat.add_assoc, Nat.add_comm 1] using this

/-- two honest writers race; the loser re-opens and writes again -/
def raceTrace : List Step :=
  [.beginOpen 0, .finish 0, .beginOpen 1, .finish 1,
   .beginApply 0 1 "A".toList, .beginApply 1 1 "B".toList, .finish 0, .finish 1,
   .beginOpen 1, .finish 1, .beginApply 1 4 "B2".toList, .finish 1]

/-- witness of the open finding C19-version-reuse -/
def reuseTrace : List Step :=
  [.beginOpen 0, .finish 0, .beginOpen 1, .finish 1, .beginApply 1 1 "B1".toList, .finish 1,
   .delete, .create "B2".toList, .beginApply 0 1 "A".toList, .finish 0]

/-- witness of the open finding C19-rename-symbol-bypass -/
def symRenameTrace : List Step :=
  [.beginOpen 0, .finish 0, .beginOpen 1, .finish 1, .beginApply 1 1 "B1".toList, .finish 1,
   .symRename (some "v0".toList) "renamed(v0)".toList]

/-- witness of the open finding C19-alias-keys: the other writer's success falls between client
0's unlocked read and its locked section -/
def aliasTrace : List Step :=
  [.beginOpen 0, .finish 0, .beginApply 0 1 "A".toList, .aliasWrite "B1".toList, .finish 0]

/-- two honest writers with the same expected version against the torn (non-atomic) variant of
the locked section: both pass the check before either commits -/
def splitTrace : List Step :=
  [.beginOpen 0, .finish 0, .beginOpen 1, .finish 1,
   .beginApply 0 1 "A".toList, .beginApply 1 1 "B".toList,
   .splitCheck 0, .splitCheck 1, .splitWrite 1, .splitWrite 0, .splitCommit 0, .splitCommit 1]

/-- strictly increasing versions that are each `expected + 1`: no two successes share an expected
version -/
theorem expected_distinct (l : List Success) (h1 : ∀ ev ∈ l, ev.version = ev.expected + 1)
    (h2 : l.Pairwise (fun a b => a.version < b.version)) :
    l.Pairwise (fun a b => a.expected ≠ b.expected) := by
  induction l with
  | nil => exact List.Pairwise.nil
  | cons a rest ih =>
    rw [List.pairwise_cons] at h2 ⊢
    refine ⟨?_, ih (fun ev hev => h1 ev (by simp [hev])) h2.2⟩
    intro b hb
    have ha := h1 a (by simp)
    have hb' := h1 b (by simp [hb])
    have := h2.1 b hb
    omega

end Proto

end TrustVerif.C19
