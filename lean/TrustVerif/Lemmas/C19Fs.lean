import TrustVerif.Lemmas.C19

/-!
# C19 — lemmas about the abstract file system: where the `std::fs` primitives act, given that
`resolve_workspace_path` accepted the path.
-/
namespace TrustVerif.C19

/-- physically inside the project: below the canonical root, through visible names only -/
def Under (cr q : Path) : Prop := ∃ rel, q = cr ++ rel ∧ ∀ c ∈ rel, isHiddenName c = false

def Effect.Confined (cr : Path) (e : Effect) : Prop := ∀ q ∈ e.paths, Under cr q

theorem Under.refl (cr : Path) : Under cr cr := ⟨[], by simp, by simp⟩

theorem Under.append {cr d : Path} (h : Under cr d) (s : List Name)
    (hs : ∀ c ∈ s, isHiddenName c = false) : Under cr (d ++ s) := by
  obtain ⟨rel, rfl, hrel⟩ := h
  refine ⟨rel ++ s, by simp, ?_⟩
  intro c hc
  simp only [List.mem_append] at hc
  rcases hc with hc | hc
  · exact hrel c hc
  · exact hs c hc

theorem Under.snoc {cr d : Path} (h : Under cr d) (l : Name) (hl : isHiddenName l = false) :
    Under cr (d ++ [l]) :=
  h.append [l] (by simpa using hl)

/-! ### `canon`, `lloc`, `stat` one component at a time -/

theorem canonN_succ_nil (fs : FS) (n : Nat) : canonN fs (n + 1) [] = some [] := by
  simp only [canonN, List.reverse_nil, canonStep]

theorem canonN_succ_snoc (fs : FS) (n : Nat) (p : Path) (c : Name) :
    canonN fs (n + 1) (p ++ [c]) =
      match canonN fs (n + 1) p with
      | none => none
      | some d =>
        if isDirNode (node fs d) then
          match fs.get (d ++ [c]) with
          | none => none
          | some (.link t) => canonN fs n t
          | some _ => some (d ++ [c])
        else none := by
  simp only [canonN, List.reverse_append, List.reverse_cons, List.reverse_nil,
    List.nil_append, List.cons_append, canonStep]
  rfl

theorem canon_eq (fs : FS) (p : Path) : canon fs p = canonN fs (39 + 1) p := rfl

theorem canon_nil (fs : FS) : canon fs [] = some [] := by
  rw [canon_eq, canonN_succ_nil]

theorem canon_snoc (fs : FS) (p : Path) (c : Name) :
    canon fs (p ++ [c]) =
      match canon fs p with
      | none => none
      | some d =>
        if isDirNode (node fs d) then
          match fs.get (d ++ [c]) with
          | none => none
          | some (.link t) => canonN fs 39 t
          | some _ => some (d ++ [c])
        else none := by
  rw [canon_eq, canon_eq, canonN_succ_snoc]

theorem lloc_snoc (fs : FS) (p : Path) (l : Name) :
    lloc fs (p ++ [l]) =
      match canon fs p with
      | none => none
      | some d => if isDirNode (node fs d) then some (d ++ [l]) else none := by
  simp only [lloc, List.getLast?_concat, List.dropLast_concat]
  rfl

theorem node_snoc (fs : FS) (d : Path) (l : Name) : node fs (d ++ [l]) = fs.get (d ++ [l]) := by
  simp [node]

/-- If the directory entry named by `p ++ [l]` is not a symbolic link, `stat` (which follows
links) finds the node exactly there. -/
theorem stat_snoc_nolink (fs : FS) (p : Path) (l : Name) (d : Path) (hd : canon fs p = some d)
    (hl : isLinkNode (node fs (d ++ [l])) = false) :
    stat fs (p ++ [l]) =
      if isDirNode (node fs d) then (fs.get (d ++ [l])).map fun n => (d ++ [l], n) else none := by
  unfold stat
  rw [canon_snoc, hd]
  simp only
  rw [node_snoc] at hl
  by_cases hdir : isDirNode (node fs d) = true
  · simp only [hdir, if_true]
    cases hg : fs.get (d ++ [l]) with
    | none => simp
    | some n =>
      cases n with
      | link t => simp [hg, isLinkNode] at hl
      | dir => simp [node_snoc, hg]
      | file c => simp [node_snoc, hg]
  · simp [hdir]

theorem stat_none_of_parent (fs : FS) (p : Path) (l : Name) (h : canon fs p = none) :
    stat fs (p ++ [l]) = none := by
  unfold stat
  rw [canon_snoc, h]

/-! ### `closest_existing_parent` -/

theorem closestExisting_of_exists (fs : FS) (n : Nat) (p : Path) (h : pexists fs p = true) :
    closestExisting fs n p = p := by
  cases n with
  | zero => rfl
  | succ n => simp [closestExisting, h]

theorem closestExisting_step (fs : FS) (n : Nat) (p : Path) (h : pexists fs p = false) :
    closestExisting fs (n + 1) p = closestExisting fs n p.dropLast := by
  simp [closestExisting, h]

theorem closestExisting_prefix (fs : FS) (n : Nat) (p : Path) : closestExisting fs n p <+: p := by
  induction n generalizing p with
  | zero => exact List.prefix_refl p
  | succ n ih =>
    unfold closestExisting
    split
    · exact List.prefix_refl p
    · exact (ih p.dropLast).trans (List.dropLast_prefix p)

/-- the walk never climbs above an existing ancestor -/
theorem closestExisting_above (fs : FS) (n : Nat) (r p : Path) (hr : pexists fs r = true)
    (hrp : r <+: p) : r <+: closestExisting fs n p := by
  induction n generalizing p with
  | zero => exact hrp
  | succ n ih =>
    unfold closestExisting
    split
    · exact hrp
    · rename_i hne
      apply ih
      -- `p ≠ r` because `r` exists, so `r` is still a prefix of `p.dropLast`
      obtain ⟨s, rfl⟩ := hrp
      cases hs : s.reverse with
      | nil =>
        have : s = [] := by simpa using hs
        subst this
        simp only [List.append_nil] at hne
        exact absurd hr hne
      | cons x xs =>
        have : s = xs.reverse ++ [x] := by
          have := congrArg List.reverse hs
          simpa using this
        subst this
        rw [← List.append_assoc, List.dropLast_concat]
        exact List.prefix_append _ _

/-! ### what `resolve_workspace_path` guarantees -/

structure Resolved (fs : FS) (root : Path) (parts : List Name) : Prop where
  rootDir : pisDir fs root = true
  /-- the canonical form of the closest existing ancestor of the parent is inside the project -/
  anc : ∃ ca, canon fs (closestExisting fs (root ++ parts).dropLast.length (root ++ parts).dropLast)
      = some ca ∧ Under (canonRoot fs root) ca
  noLink : lstatIsLink fs (root ++ parts) = false

theorem resolveWs_ok (fs : FS) (root : Path) (parts : List Name) (j : Path)
    (h : resolveWs fs root parts = .ok j) : j = root ++ parts ∧ Resolved fs root parts := by
  unfold resolveWs at h
  split at h
  · simp at h
  · rename_i hroot
    simp only at h
    split at h
    · simp at h
    · rename_i ca hca
      split at h
      · simp at h
      · rename_i hpre
        split at h
        · simp at h
        · rename_i hhid
          split at h
          · simp at h
          · rename_i hlink
            simp only [Except.ok.injEq] at h
            refine ⟨h.symm, ⟨by simpa using hroot, ⟨ca, hca, ?_⟩, by simpa using hlink⟩⟩
            have hp : canonRoot fs root <+: ca := by
              have : (canonRoot fs root).isPrefixOf ca = true := by simpa using hpre
              exact List.isPrefixOf_iff_prefix.1 this
            obtain ⟨rel, hrel⟩ := hp
            refine ⟨rel, hrel.symm, ?_⟩
            have : (List.drop (canonRoot fs root).length ca).any isHiddenName = false := by
              simpa using hhid
            rw [← hrel, List.drop_left] at this
            intro c hc
            have h2 := List.any_eq_false.1 this c hc
            simpa using h2

theorem pexists_of_pisDir (fs : FS) (p : Path) (h : pisDir fs p = true) : pexists fs p = true := by
  unfold pisDir stat at h
  unfold pexists
  cases hc : canon fs p with
  | none => simp [hc] at h
  | some q => rfl

/-- **The gate lemma.**  After `resolve_workspace_path` accepted `root ++ parts`, whenever the
parent directory resolves at all, it resolves to a visible place inside the project. -/
theorem Resolved.parent {fs : FS} {root : Path} {par : List Name} {l : Name}
    (h : Resolved fs root (par ++ [l])) (d : Path) (hd : canon fs (root ++ par) = some d) :
    Under (canonRoot fs root) d := by
  obtain ⟨ca, hca, hu⟩ := h.anc
  have hP : (root ++ (par ++ [l])).dropLast = root ++ par := by
    rw [← List.append_assoc, List.dropLast_concat]
  rw [hP] at hca
  have hex : pexists fs (root ++ par) = true := by simp [pexists, hd]
  rw [closestExisting_of_exists fs _ _ hex, hd] at hca
  cases hca
  exact hu

/-- … and the entry itself is not a symbolic link. -/
theorem Resolved.entry_nolink {fs : FS} {root : Path} {par : List Name} {l : Name}
    (h : Resolved fs root (par ++ [l])) (d : Path) (hd : canon fs (root ++ par) = some d)
    (hdir : isDirNode (node fs d) = true) : isLinkNode (node fs (d ++ [l])) = false := by
  have := h.noLink
  unfold lstatIsLink at this
  rw [← List.append_assoc, lloc_snoc, hd] at this
  simpa [hdir] using this

/-- split the accepted parts into parent and last component -/
theorem parts_snoc (ps : List Name) (h : ps ≠ []) : ∃ par l, ps = par ++ [l] :=
  ⟨ps.dropLast, ps.getLast h, (List.dropLast_concat_getLast h).symm⟩

/-- where a successful `stat` of an accepted path found its node -/
theorem Resolved.stat_loc {fs : FS} {root : Path} {par : List Name} {l : Name}
    (h : Resolved fs root (par ++ [l])) (hl : isHiddenName l = false) (q : Path) (n : Node)
    (hs : stat fs (root ++ (par ++ [l])) = some (q, n)) : Under (canonRoot fs root) q := by
  rw [← List.append_assoc] at hs
  cases hd : canon fs (root ++ par) with
  | none => rw [stat_none_of_parent _ _ _ hd] at hs; cases hs
  | some d =>
    by_cases hdir : isDirNode (node fs d) = true
    · rw [stat_snoc_nolink fs _ l d hd (h.entry_nolink d hd hdir)] at hs
      simp only [hdir, if_true, Option.map_eq_some_iff] at hs
      obtain ⟨n', _, hq⟩ := hs
      cases hq
      exact (h.parent d hd).snoc l hl
    · unfold stat at hs
      rw [canon_snoc, hd] at hs
      simp [hdir] at hs

/-- where the entry of an accepted path is, if its parent exists -/
theorem Resolved.lloc_loc {fs : FS} {root : Path} {par : List Name} {l : Name}
    (h : Resolved fs root (par ++ [l])) (hl : isHiddenName l = false) (q : Path)
    (hs : lloc fs (root ++ (par ++ [l])) = some q) :
    Under (canonRoot fs root) q ∧ isLinkNode (node fs q) = false := by
  rw [← List.append_assoc, lloc_snoc] at hs
  cases hd : canon fs (root ++ par) with
  | none => simp [hd] at hs
  | some d =>
    simp only [hd] at hs
    split at hs
    · rename_i hdir
      cases hs
      exact ⟨(h.parent d hd).snoc l hl, h.entry_nolink d hd hdir⟩
    · cases hs

theorem readFile_loc {fs : FS} {p q : Path} {c : List Char} (h : readFile fs p = some (q, c)) :
    stat fs p = some (q, .file c) := by
  unfold readFile at h
  split at h
  · rename_i q' c' hs
    cases h
    exact hs
  · cases h

theorem writeLoc_nolink (fs : FS) (n : Nat) (p q q' : Path) (hl : lloc fs p = some q)
    (hn : isLinkNode (node fs q) = false) (hw : writeLoc fs n p = some q') : q' = q := by
  cases n with
  | zero => simp [writeLoc] at hw
  | succ n =>
    simp only [writeLoc, hl] at hw
    cases hq : node fs q with
    | none => simp [hq] at hw; exact hw.symm
    | some nd =>
      cases nd with
      | file c => simp [hq] at hw; exact hw.symm
      | dir => simp [hq] at hw
      | link t => simp [hq, isLinkNode] at hn

theorem writeFile_loc {fs fs' : FS} {p q q' : Path} {c : List Char} (hl : lloc fs p = some q)
    (hn : isLinkNode (node fs q) = false) (hw : writeFile fs p c = some (fs', q')) : q' = q := by
  unfold writeFile at hw
  split at hw
  · cases hw
  · rename_i q0 hq0
    cases hw
    exact writeLoc_nolink fs _ p q _ hl hn hq0

theorem writeFile_some_lloc {fs fs' : FS} {p q' : Path} {c : List Char}
    (hw : writeFile fs p c = some (fs', q')) : ∃ q, lloc fs p = some q := by
  unfold writeFile at hw
  split at hw
  · cases hw
  · rename_i q0 hq0
    simp only [linkFuel, writeLoc] at hq0
    cases hl : lloc fs p with
    | none => simp [hl] at hq0
    | some q => exact ⟨q, rfl⟩

theorem removeFile_loc {fs fs' : FS} {p q : Path} (h : removeFile fs p = some (fs', q)) :
    lloc fs p = some q := by
  unfold removeFile at h
  split at h
  · cases h
  · rename_i q0 hq0
    split at h
    · cases h
    · cases h
    · split at h
      · cases h
      · cases h; exact hq0

theorem removeDirAll_loc {fs fs' : FS} {p q : Path} (h : removeDirAll fs p = some (fs', q)) :
    lloc fs p = some q := by
  unfold removeDirAll at h
  split at h
  · cases h
  · rename_i q0 hq0
    split at h
    · cases h
    · cases h
    · cases h; exact hq0
    · split at h
      · cases h
      · simp only at h
        split at h <;> (cases h; exact hq0)

theorem renamePath_loc {fs fs' : FS} {old new qo qn : Path}
    (h : renamePath fs old new = some (fs', qo, qn)) : lloc fs old = some qo ∧ lloc fs new = some qn := by
  unfold renamePath at h
  split at h
  · rename_i qo' qn' ho hn
    split at h
    · cases h
    · split at h
      · cases h
      · split at h
        · cases h; exact ⟨ho, hn⟩
        · split at h
          · cases h
          · split at h
            · cases h
            · split at h
              · cases h
              · cases h; exact ⟨ho, hn⟩
            · cases h; exact ⟨ho, hn⟩
  · cases h

/-! ### a path that went through `normalize_workspace_path` and `resolve_workspace_path` -/

def Accepted (fs : FS) (root joined : Path) : Prop :=
  ∃ par l, joined = root ++ (par ++ [l]) ∧ Resolved fs root (par ++ [l]) ∧
    (∀ c ∈ par, isHiddenName c = false) ∧ isHiddenName l = false

theorem accepted_of {fs : FS} {root joined : Path} {path : List Char} {parts : List Name}
    (hn : normalizeParts path = .ok parts) (hr : resolveWs fs root parts = .ok joined) :
    Accepted fs root joined := by
  obtain ⟨hne, hall⟩ := normalizeParts_ok path parts hn
  obtain ⟨par, l, rfl⟩ := parts_snoc parts hne
  obtain ⟨hj, hres⟩ := resolveWs_ok fs root _ joined hr
  exact ⟨par, l, hj, hres, fun c hc => (hall c (by simp [hc])).2.2, (hall l (by simp)).2.2⟩

theorem Accepted.read {fs : FS} {root joined q : Path} {c : List Char} (h : Accepted fs root joined)
    (hr : readFile fs joined = some (q, c)) : Under (canonRoot fs root) q := by
  obtain ⟨par, l, rfl, hres, _, hl⟩ := h
  exact hres.stat_loc hl q _ (readFile_loc hr)

theorem Accepted.lloc {fs : FS} {root joined q : Path} (h : Accepted fs root joined)
    (hq : lloc fs joined = some q) : Under (canonRoot fs root) q ∧ isLinkNode (node fs q) = false := by
  obtain ⟨par, l, rfl, hres, _, hl⟩ := h
  exact hres.lloc_loc hl q hq

theorem Accepted.write {fs fs' : FS} {root joined q : Path} {c : List Char}
    (h : Accepted fs root joined) (hw : writeFile fs joined c = some (fs', q)) :
    Under (canonRoot fs root) q := by
  obtain ⟨q0, hq0⟩ := writeFile_some_lloc hw
  obtain ⟨hu, hn⟩ := h.lloc hq0
  rw [writeFile_loc hq0 hn hw]
  exact hu

theorem Accepted.removeFile {fs fs' : FS} {root joined q : Path} (h : Accepted fs root joined)
    (hw : removeFile fs joined = some (fs', q)) : Under (canonRoot fs root) q :=
  (h.lloc (removeFile_loc hw)).1

theorem Accepted.removeDirAll {fs fs' : FS} {root joined q : Path} (h : Accepted fs root joined)
    (hw : removeDirAll fs joined = some (fs', q)) : Under (canonRoot fs root) q :=
  (h.lloc (removeDirAll_loc hw)).1

/-! ### operations without `create_dir_all` -/

theorem confined_read {cr q : Path} (h : Under cr q) : ∀ e ∈ [Effect.read q], e.Confined cr := by
  intro e he
  simp only [List.mem_singleton] at he
  subst he
  intro x hx
  simp only [Effect.paths, List.mem_singleton] at hx
  subst hx
  exact h

theorem openSource_confined (w : World) (tok : Nat) (path : List Char) :
    ∀ e ∈ (openSource w tok path).effects, e.Confined (canonRoot w.fs w.root) := by
  unfold openSource
  split
  · simp [fail]
  · rename_i parts hn
    split
    · simp [fail]
    · rename_i joined hr
      have hacc := accepted_of hn hr
      split
      · simp [fail]
      · rename_i q disk hread
        have hu := hacc.read hread
        split
        · exact confined_read hu
        · split
          · exact confined_read hu
          · exact confined_read hu

theorem applySource_confined (w : World) (tok : Nat) (path : List Char) (expected : Nat)
    (content : List Char) (we : Bool) :
    ∀ e ∈ (applySource w tok path expected content we).effects, e.Confined (canonRoot w.fs w.root) := by
  unfold applySource
  split
  · simp [fail]
  · split
    · simp [fail]
    · split
      · simp [fail]
      · rename_i parts hn
        split
        · simp [fail]
        · rename_i joined hr
          have hacc := accepted_of hn hr
          split
          · simp [fail]
          · rename_i q disk hread
            have hu := hacc.read hread
            split
            · exact confined_read hu
            · split
              · exact confined_read hu
              · split
                · exact confined_read hu
                · split
                  · exact confined_read hu
                  · rename_i fs' q' hw
                    have hu' := hacc.write hw
                    intro e he
                    simp only [List.mem_cons, List.not_mem_nil, or_false] at he
                    rcases he with rfl | rfl
                    · intro x hx
                      simp only [Effect.paths, List.mem_singleton] at hx
                      subst hx; exact hu
                    · intro x hx
                      simp only [Effect.paths, List.mem_singleton] at hx
                      subst hx; exact hu'

theorem deleteEntry_confined (w : World) (tok : Nat) (path : List Char) (we : Bool) :
    ∀ e ∈ (deleteEntry w tok path we).effects, e.Confined (canonRoot w.fs w.root) := by
  unfold deleteEntry
  split
  · simp [fail]
  · split
    · simp [fail]
    · rename_i parts hn
      split
      · simp [fail]
      · rename_i joined hr
        have hacc := accepted_of hn hr
        split
        · simp [fail]
        · simp only
          split
          · simp [fail]
          · split
            · simp [fail]
            · rename_i fs' q hrem
              have hu : Under (canonRoot w.fs w.root) q := by
                split at hrem
                · exact hacc.removeDirAll hrem
                · exact hacc.removeFile hrem
              intro e he
              simp only [List.mem_singleton] at he
              subst he
              intro x hx
              simp only [Effect.paths, List.mem_singleton] at hx
              subst hx; exact hu

theorem formatSource_confined (w : World) (tok : Nat) (path : List Char) (content : Option (List Char)) :
    ∀ e ∈ (formatSource w tok path content).effects, e.Confined (canonRoot w.fs w.root) := by
  unfold formatSource
  split
  · simp [fail]
  · rename_i parts hn
    have hn' : normalizeParts path = .ok parts := by
      unfold normalizeSourceParts at hn
      split at hn
      · simp at hn
      · rename_i ps hps
        simp only at hn
        split at hn
        · simp only [Except.ok.injEq] at hn; subst hn; exact hps
        · simp at hn
    unfold withSession
    split
    · simp [fail]
    · cases content with
      | some c =>
        dsimp only
        split <;> simp [fail]
      | none =>
        dsimp only
        split
        · simp [fail]
        · rename_i joined hr
          have hacc := accepted_of hn' hr
          split
          · simp [fail]
          · rename_i q disk hread
            have hu := hacc.read hread
            split
            · exact confined_read hu
            · exact confined_read hu

/-! ### the tree walkers -/

theorem Under.of_child {d0 d : Path} {name : Name} (h : Under (d0 ++ [name]) d)
    (hn : isHiddenName name = false) : Under d0 d := by
  obtain ⟨rel, rfl, hrel⟩ := h
  refine ⟨name :: rel, by simp, ?_⟩
  intro c hc
  simp only [List.mem_cons] at hc
  rcases hc with rfl | hc
  · exact hn
  · exact hrel c hc

/-- `collect_workspace_files` / `collect_workspace_tree` list only directories reached from the
root through visible names, never through a link (link entries are skipped, not followed). -/
theorem walkDirs_under (fs : FS) (n : Nat) (d0 : Path) : ∀ d ∈ walkDirs fs n d0, Under d0 d := by
  induction n generalizing d0 with
  | zero => simp [walkDirs]
  | succ n ih =>
    intro d hd
    simp only [walkDirs, List.mem_cons, List.mem_flatMap] at hd
    rcases hd with hd | ⟨⟨name, nd⟩, _, hmem⟩
    · subst hd; exact Under.refl _
    · simp only at hmem
      split at hmem
      · simp at hmem
      · rename_i hhid
        split at hmem
        · exact (ih _ d hmem).of_child (by simpa using hhid)
        · simp at hmem

theorem walk_effects_confined (fs : FS) (n : Nat) (cr : Path) :
    ∀ e ∈ (walkDirs fs n cr).map Effect.list, e.Confined cr := by
  intro e he
  simp only [List.mem_map] at he
  obtain ⟨d, hd, rfl⟩ := he
  intro x hx
  simp only [Effect.paths, List.mem_singleton] at hx
  rw [hx]
  exact walkDirs_under fs n cr d hd

theorem listSources_confined (w : World) (tok : Nat) :
    ∀ e ∈ (listSources w tok).effects, e.Confined (canonRoot w.fs w.root) := by
  unfold listSources withSession
  split
  · simp [fail]
  · dsimp only
    split
    · simp [fail]
    · exact walk_effects_confined _ _ _

theorem listTree_confined (w : World) (tok : Nat) :
    ∀ e ∈ (listTree w tok).effects, e.Confined (canonRoot w.fs w.root) := by
  unfold listTree withSession
  split
  · simp [fail]
  · dsimp only
    split
    · simp [fail]
    · exact walk_effects_confined _ _ _

theorem workspaceSearch_confined (w : World) (tok : Nat) (query : List Char) (limit : Nat) :
    ∀ e ∈ (workspaceSearch w tok query limit).effects, e.Confined (canonRoot w.fs w.root) := by
  unfold workspaceSearch withSession
  split
  · simp [fail]
  · dsimp only
    split
    · simp
    · split
      · simp [fail]
      · intro e he
        simp only [List.mem_append] at he
        rcases he with he | he
        · exact walk_effects_confined _ _ _ e he
        · simp only [List.mem_filterMap, List.mem_map] at he
          obtain ⟨⟨p, r⟩, ⟨p', _, hp'⟩, hr⟩ := he
          simp only [Prod.mk.injEq] at hp'
          obtain ⟨rfl, hr'⟩ := hp'
          cases r with
          | none => simp at hr
          | some qc =>
            obtain ⟨q, c⟩ := qc
            simp only [Option.map_some, Option.some.injEq] at hr
            subst hr
            -- the read went through normalise + gate
            split at hr'
            · cases hr'
            · rename_i parts hn
              split at hr'
              · cases hr'
              · rename_i joined hres
                have hu := (accepted_of hn hres).read hr'
                intro x hx
                simp only [Effect.paths, List.mem_singleton] at hx
                subst hx
                exact hu

/-! ### `create_dir_all` -/

theorem mkdirs_made (fs : FS) (ca : Path) (rest : List Name) (acc : Path) :
    ∀ q ∈ (mkdirs fs ca rest acc).2, ∃ k, 0 < k ∧ k ≤ rest.length ∧ q = ca ++ acc ++ rest.take k := by
  induction rest generalizing fs acc with
  | nil => simp [mkdirs]
  | cons r rest ih =>
    intro q hq
    simp only [mkdirs, List.mem_cons] at hq
    rcases hq with rfl | hq
    · exact ⟨1, by omega, by simp, by simp⟩
    · obtain ⟨k, hk0, hk, rfl⟩ := ih _ _ q hq
      exact ⟨k + 1, by omega, by simp; omega, by simp⟩

/-- every directory `create_dir_all(root ++ parts')` creates lies below the canonical form of the
closest existing ancestor, through components of `parts'` -/
theorem mkdirAll_under {fs fs1 : FS} {root : Path} {parts' : List Name} {made : List Path} {cr : Path}
    (hroot : pexists fs root = true) (hparts : ∀ c ∈ parts', isHiddenName c = false)
    (hca : ∀ ca, canon fs (closestExisting fs (root ++ parts').length (root ++ parts')) = some ca →
      Under cr ca)
    (hm : mkdirAll fs (root ++ parts') = some (fs1, made)) : ∀ q ∈ made, Under cr q := by
  unfold mkdirAll at hm
  simp only at hm
  split at hm
  · rename_i ca hst
    have hcanon : canon fs (closestExisting fs (root ++ parts').length (root ++ parts')) = some ca := by
      unfold stat at hst
      split at hst
      · cases hst
      · rename_i q0 hq0
        split at hst
        · cases hst
        · simp only [Option.some.injEq, Prod.mk.injEq] at hst
          rw [hq0, hst.1]
    have hu := hca ca hcanon
    -- the dropped suffix consists of components of `parts'`
    have hsuf : ∀ c ∈ (root ++ parts').drop
        (closestExisting fs (root ++ parts').length (root ++ parts')).length, isHiddenName c = false := by
      obtain ⟨s, hs⟩ := closestExisting_above fs (root ++ parts').length root (root ++ parts') hroot
        (List.prefix_append _ _)
      intro c hc
      rw [← hs, List.length_append, List.drop_append] at hc
      simp only [List.mem_append] at hc
      rcases hc with hc | hc
      · have : List.drop (root.length + s.length) root = [] := by
          apply List.drop_eq_nil_of_le; omega
        rw [this] at hc; cases hc
      · exact hparts c (List.mem_of_mem_drop hc)
    split at hm
    · cases hm; simp
    · rename_i r rest hdrop
      split at hm
      · cases hm
      · simp only [Option.some.injEq] at hm
        intro q hq
        have hq' : q ∈ (mkdirs fs ca (r :: rest) []).2 := by rw [hm]; exact hq
        obtain ⟨k, _, _, rfl⟩ := mkdirs_made fs ca (r :: rest) [] q hq'
        simp only [List.append_nil]
        apply hu.append
        intro c hc
        apply hsuf c
        rw [hdrop]
        exact List.mem_of_mem_take hc
  · cases hm

theorem Resolved.mkdirAll_parent {fs fs1 : FS} {root : Path} {par : List Name} {l : Name}
    {made : List Path} (h : Resolved fs root (par ++ [l])) (hpar : ∀ c ∈ par, isHiddenName c = false)
    (hm : mkdirAll fs (root ++ par) = some (fs1, made)) :
    ∀ q ∈ made, Under (canonRoot fs root) q := by
  apply mkdirAll_under (pexists_of_pisDir _ _ h.rootDir) hpar _ hm
  intro ca hca
  obtain ⟨ca', hca', hu⟩ := h.anc
  have hP : (root ++ (par ++ [l])).dropLast = root ++ par := by
    rw [← List.append_assoc, List.dropLast_concat]
  rw [hP, hca] at hca'
  cases hca'
  exact hu

theorem Resolved.mkdirAll_self {fs fs1 : FS} {root : Path} {par : List Name} {l : Name}
    {made : List Path} (h : Resolved fs root (par ++ [l])) (hpar : ∀ c ∈ par, isHiddenName c = false)
    (hl : isHiddenName l = false) (hne : pexists fs (root ++ (par ++ [l])) = false)
    (hm : mkdirAll fs (root ++ (par ++ [l])) = some (fs1, made)) :
    ∀ q ∈ made, Under (canonRoot fs root) q := by
  apply mkdirAll_under (pexists_of_pisDir _ _ h.rootDir) _ _ hm
  · intro c hc
    simp only [List.mem_append, List.mem_singleton] at hc
    rcases hc with hc | rfl
    · exact hpar c hc
    · exact hl
  · intro ca hca
    obtain ⟨ca', hca', hu⟩ := h.anc
    have hlen : (root ++ (par ++ [l])).length = (root ++ (par ++ [l])).dropLast.length + 1 := by
      simp; omega
    rw [hlen, closestExisting_step fs _ _ hne, hca'] at hca
    cases hca
    exact hu

theorem confined_mkdirs {cr : Path} {made : List Path} (h : ∀ q ∈ made, Under cr q) :
    ∀ e ∈ made.map Effect.mkdir, e.Confined cr := by
  intro e he
  simp only [List.mem_map] at he
  obtain ⟨q, hq, rfl⟩ := he
  intro x hx
  simp only [Effect.paths, List.mem_singleton] at hx
  rw [hx]
  exact h q hq

end TrustVerif.C19
