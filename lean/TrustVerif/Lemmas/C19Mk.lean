import TrustVerif.Lemmas.C19Fs

/-!
# C19 — the file system after `create_dir_all`: where the following `fs::write` / `fs::rename` act.
-/
namespace TrustVerif.C19

/-- every node's parent is a directory (an invariant of real file systems) -/
def WF (fs : FS) : Prop :=
  ∀ k n, fs.get k = some n → k ≠ [] → isDirNode (node fs k.dropLast) = true

/-- `fs1` has every node of `fs` -/
def Ext (fs fs1 : FS) : Prop := ∀ k n, fs.get k = some n → fs1.get k = some n

theorem get_erase (fs : FS) (p k : Path) :
    (fs.erase p).get k = if k = p then none else fs.get k := by
  induction fs with
  | nil => simp [FS.erase, FS.get]
  | cons e rest ih =>
    obtain ⟨k', n'⟩ := e
    simp only [FS.erase, List.filter_cons] at ih ⊢
    by_cases h1 : k' = p
    · subst h1
      simp only [ne_eq, not_true_eq_false, decide_false, Bool.false_eq_true, if_false, FS.get]
      rw [ih]
      by_cases h2 : k = k'
      · simp [h2]
      · have : ¬ k' = k := fun e => h2 e.symm
        simp [h2, this]
    · simp only [ne_eq, h1, not_false_eq_true, decide_true, if_true, FS.get]
      by_cases h2 : k' = k
      · subst h2; simp [h1]
      · simp only [h2, if_false]; exact ih

theorem get_set (fs : FS) (p k : Path) (n : Node) :
    (fs.set p n).get k = if k = p then some n else fs.get k := by
  simp only [FS.set, FS.get]
  by_cases h : p = k
  · subst h; simp
  · have : ¬ k = p := fun e => h e.symm
    simp [h, this, get_erase]

theorem mkdirs_get_other (fs : FS) (ca : Path) (rest : List Name) (acc q : Path)
    (hq : q ∉ (mkdirs fs ca rest acc).2) : (mkdirs fs ca rest acc).1.get q = fs.get q := by
  induction rest generalizing fs acc with
  | nil => simp [mkdirs]
  | cons r rest ih =>
    simp only [mkdirs, List.mem_cons, not_or] at hq ⊢
    rw [ih _ _ hq.2, get_set, if_neg hq.1]

theorem mkdirs_get_made (fs : FS) (ca : Path) (rest : List Name) (acc q : Path)
    (hq : q ∈ (mkdirs fs ca rest acc).2) : (mkdirs fs ca rest acc).1.get q = some .dir := by
  induction rest generalizing fs acc with
  | nil => simp [mkdirs] at hq
  | cons r rest ih =>
    simp only [mkdirs, List.mem_cons] at hq ⊢
    by_cases hin : q ∈ (mkdirs (fs.set (ca ++ acc ++ [r]) .dir) ca rest (acc ++ [r])).2
    · exact ih _ _ hin
    · rcases hq with rfl | hq
      · rw [mkdirs_get_other _ _ _ _ _ hin, get_set]; simp
      · exact absurd hq hin

/-- below an absent entry of a well-formed file system there is nothing -/
theorem WF.absent_below {fs : FS} (h : WF fs) (k : Path) (hk : k ≠ []) (hn : fs.get k = none) :
    ∀ s, fs.get (k ++ s) = none := by
  intro s
  generalize hlen : s.length = n
  induction n generalizing s with
  | zero =>
    have : s = [] := List.length_eq_zero_iff.1 hlen
    subst this; simpa using hn
  | succ n ih =>
    have hne : s ≠ [] := by intro e; subst e; simp at hlen
    obtain ⟨s', x, rfl⟩ := parts_snoc s hne
    have hs' : s'.length = n := by simp at hlen; omega
    cases hg : fs.get (k ++ (s' ++ [x])) with
    | none => rfl
    | some nd =>
      have hd := h _ _ hg (by simp)
      rw [← List.append_assoc, List.dropLast_concat] at hd
      have hk' : k ++ s' ≠ [] := by simp [hk]
      simp only [node, hk', if_false, ih s' hs'] at hd
      simp [isDirNode] at hd

theorem isDirNode_ext {fs fs1 : FS} (he : Ext fs fs1) (d : Path) (h : isDirNode (node fs d) = true) :
    isDirNode (node fs1 d) = true := by
  unfold node at h ⊢
  split
  · rfl
  · rename_i hd
    simp only [hd, if_false] at h
    cases hg : fs.get d with
    | none => simp [hg, isDirNode] at h
    | some n =>
      rw [he d n hg]
      rw [hg] at h
      exact h

theorem canonStep_mono {fs fs1 : FS} (he : Ext fs fs1) (f f1 : Path → Option Path)
    (hf : ∀ t q, f t = some q → f1 t = some q) (rp : List Name) (q : Path)
    (h : canonStep fs f rp = some q) : canonStep fs1 f1 rp = some q := by
  induction rp generalizing q with
  | nil => simpa [canonStep] using h
  | cons c rp ih =>
    simp only [canonStep] at h ⊢
    cases hd : canonStep fs f rp with
    | none => simp [hd] at h
    | some d =>
      rw [hd] at h
      rw [ih d hd]
      simp only at h ⊢
      split at h
      · rename_i hdir
        rw [if_pos (isDirNode_ext he d hdir)]
        cases hg : fs.get (d ++ [c]) with
        | none => simp [hg] at h
        | some nd =>
          rw [he _ _ hg]
          rw [hg] at h
          cases nd with
          | link t => exact hf t q h
          | dir => exact h
          | file x => exact h
      · cases h

theorem canonN_mono {fs fs1 : FS} (he : Ext fs fs1) (n : Nat) :
    ∀ p q, canonN fs n p = some q → canonN fs1 n p = some q := by
  induction n with
  | zero => intro p q h; simp [canonN] at h
  | succ n ih =>
    intro p q h
    simp only [canonN] at h ⊢
    exact canonStep_mono he _ _ ih _ _ h

theorem canon_mono {fs fs1 : FS} (he : Ext fs fs1) (p q : Path) (h : canon fs p = some q) :
    canon fs1 p = some q := canonN_mono he _ p q h

theorem lloc_mono {fs fs1 : FS} (he : Ext fs fs1) (p q : Path) (h : lloc fs p = some q) :
    lloc fs1 p = some q := by
  unfold lloc at h ⊢
  split
  · rename_i hl; simp only [hl] at h; exact h
  · rename_i l hl
    simp only [hl] at h
    cases hc : canon fs p.dropLast with
    | none => simp [hc] at h
    | some d =>
      rw [hc] at h
      rw [canon_mono he _ _ hc]
      simp only at h ⊢
      split at h
      · rename_i hdir
        rw [if_pos (isDirNode_ext he d hdir)]
        exact h
      · cases h

/-- resolving `a ++ rest` when `a` resolves to `ca` and every `ca ++ rest.take i` is a real directory -/
theorem canon_through_dirs (fs : FS) (rest : List Name) :
    ∀ (a ca : Path), canon fs a = some ca → isDirNode (node fs ca) = true →
      (∀ i, 0 < i → i ≤ rest.length → fs.get (ca ++ rest.take i) = some .dir) →
      canon fs (a ++ rest) = some (ca ++ rest) ∧ isDirNode (node fs (ca ++ rest)) = true := by
  induction rest with
  | nil => intro a ca h1 h2 _; simpa using ⟨h1, h2⟩
  | cons r rest ih =>
    intro a ca h1 h2 h3
    have hr : fs.get (ca ++ [r]) = some .dir := by simpa using h3 1 (by omega) (by simp)
    have hstep : canon fs (a ++ [r]) = some (ca ++ [r]) := by
      rw [canon_snoc, h1]; simp [h2, hr]
    have hdir : isDirNode (node fs (ca ++ [r])) = true := by simp [node, hr, isDirNode]
    have := ih (a ++ [r]) (ca ++ [r]) hstep hdir (by
      intro i hi hle
      have := h3 (i + 1) (by omega) (by simp; omega)
      simpa using this)
    simpa using this

/-- **After `create_dir_all(parent)`**: the parent now resolves below the old closest ancestor, the
entry to be written / renamed onto is inside the project and is not a link, and nothing that
resolved before resolves differently. -/
theorem Resolved.after_mkdirAll {fs fs1 : FS} {root : Path} {par : List Name} {l : Name}
    {made : List Path} (h : Resolved fs root (par ++ [l])) (hwf : WF fs)
    (hpar : ∀ c ∈ par, isHiddenName c = false) (hl : isHiddenName l = false)
    (hm : mkdirAll fs (root ++ par) = some (fs1, made)) :
    Ext fs fs1 ∧
    ∀ q, lloc fs1 (root ++ (par ++ [l])) = some q →
      Under (canonRoot fs root) q ∧ isLinkNode (node fs1 q) = false := by
  have hroot := pexists_of_pisDir _ _ h.rootDir
  have hmade := h.mkdirAll_parent hpar hm
  unfold mkdirAll at hm
  simp only at hm
  obtain ⟨a_pre, ha_pre⟩ := closestExisting_prefix fs (root ++ par).length (root ++ par)
  obtain ⟨s, hs⟩ := closestExisting_above fs (root ++ par).length root (root ++ par) hroot
    (List.prefix_append _ _)
  obtain ⟨ca', hca', hu⟩ := h.anc
  have hP : (root ++ (par ++ [l])).dropLast = root ++ par := by
    rw [← List.append_assoc, List.dropLast_concat]
  rw [hP] at hca'
  generalize closestExisting fs (root ++ par).length (root ++ par) = a at hm ha_pre hs hca'
  split at hm
  · rename_i ca hst
    -- `a` resolves to the directory `ca`
    have hca : canon fs a = some ca ∧ isDirNode (node fs ca) = true := by
      unfold stat at hst
      split at hst
      · cases hst
      · rename_i q0 hq0
        split at hst
        · cases hst
        · rename_i nd hnd
          simp only [Option.some.injEq, Prod.mk.injEq] at hst
          obtain ⟨rfl, rfl⟩ := hst
          exact ⟨hq0, by simp [hnd, isDirNode]⟩
    split at hm
    · -- nothing to create: the parent exists
      rename_i hdrop
      cases hm
      refine ⟨fun _ _ hg => hg, ?_⟩
      intro q hq
      exact h.lloc_loc hl q hq
    · rename_i r rest hdrop
      split at hm
      · cases hm
      · rename_i hfree
        simp only [Option.some.injEq] at hm
        have hfs1 : fs1 = (mkdirs fs ca (r :: rest) []).1 := by rw [hm]
        have hmd : made = (mkdirs fs ca (r :: rest) []).2 := by rw [hm]
        have hfree' : fs.get (ca ++ [r]) = none := by
          cases hg : fs.get (ca ++ [r]) with
          | none => rfl
          | some x => simp [hg] at hfree
        have habsent := hwf.absent_below (ca ++ [r]) (by simp) hfree'
        -- the created keys were absent, so `fs1` extends `fs`
        have hmade_abs : ∀ q ∈ made, fs.get q = none := by
          intro q hq
          rw [hmd] at hq
          obtain ⟨k, hk0, hk, rfl⟩ := mkdirs_made fs ca (r :: rest) [] q hq
          obtain ⟨k', rfl⟩ : ∃ k', k = k' + 1 := ⟨k - 1, by omega⟩
          have := habsent (rest.take k')
          simpa using this
        have hext : Ext fs fs1 := by
          intro k n hg
          by_cases hk : k ∈ made
          · rw [hmade_abs k hk] at hg; cases hg
          · rw [hfs1, mkdirs_get_other _ _ _ _ _ (by rw [← hmd]; exact hk)]; exact hg
        refine ⟨hext, ?_⟩
        -- the parent in `fs1`
        have hdrop' : a_pre = r :: rest := by
          have := hdrop
          rw [← ha_pre, List.drop_left] at this
          exact this
        have hcreated : ∀ i, 0 < i → i ≤ (r :: rest).length →
            fs1.get (ca ++ (r :: rest).take i) = some .dir := by
          intro i hi hle
          rw [hfs1]
          apply mkdirs_get_made
          -- `ca ++ take i` is one of the created directories
          have : ∀ (fs : FS) (acc : Path) (rs : List Name) (i : Nat), 0 < i → i ≤ rs.length →
              ca ++ acc ++ rs.take i ∈ (mkdirs fs ca rs acc).2 := by
            intro fs acc rs
            induction rs generalizing fs acc with
            | nil => intro i hi hle; simp at hle; omega
            | cons x xs ihx =>
              intro i hi hle
              obtain ⟨i', rfl⟩ : ∃ i', i = i' + 1 := ⟨i - 1, by omega⟩
              simp only [mkdirs, List.take_succ_cons, List.mem_cons]
              by_cases hi' : i' = 0
              · subst hi'; left; simp
              · right
                have := ihx (fs.set (ca ++ acc ++ [x]) .dir) (acc ++ [x]) i' (by omega)
                  (by simp at hle; omega)
                simpa using this
          simpa using this fs [] (r :: rest) i hi hle
        have hcanon := canon_through_dirs fs1 (r :: rest) a ca
          (canon_mono hext _ _ hca.1) (isDirNode_ext hext _ hca.2) hcreated
        rw [← hdrop', ha_pre] at hcanon
        intro q hq
        rw [← List.append_assoc, lloc_snoc, hcanon.1] at hq
        simp only [hcanon.2, if_true, Option.some.injEq] at hq
        subst hq
        rw [hca.1] at hca'
        have hcc : ca = ca' := Option.some.inj hca'
        subst hcc
        refine ⟨(hu.append a_pre ?_).snoc l hl, ?_⟩
        · -- the created components are components of `par`
          intro c hc
          apply hpar c
          have : par = s ++ a_pre := by
            have h2 : root ++ (s ++ a_pre) = root ++ par := by
              rw [← List.append_assoc, hs, ha_pre]
            exact (List.append_cancel_left h2).symm
          rw [this]; simp [hc]
        · -- the new entry: nothing was there (well-formedness), so certainly not a link
          have hnot : ca ++ a_pre ++ [l] ∉ made := by
            intro hin
            rw [hmd] at hin
            obtain ⟨k, _, hk, hkeq⟩ := mkdirs_made fs ca (r :: rest) [] _ hin
            have hlen := congrArg List.length hkeq
            simp [hdrop'] at hlen hk
            omega
          rw [node_snoc, hfs1, mkdirs_get_other _ _ _ _ _ (by rw [← hmd]; exact hnot)]
          have := habsent (rest ++ [l])
          rw [hdrop']
          have h3 : ca ++ (r :: rest) ++ [l] = ca ++ [r] ++ (rest ++ [l]) := by simp
          rw [h3, this]
          rfl
  · cases hm

theorem lloc_of_pexists (fs : FS) (p : Path) (l : Name) (h : pexists fs (p ++ [l]) = true) :
    ∃ q, lloc fs (p ++ [l]) = some q := by
  unfold pexists at h
  rw [canon_snoc] at h
  rw [lloc_snoc]
  cases hc : canon fs p with
  | none => simp [hc] at h
  | some d =>
    simp only [hc] at h ⊢
    split
    · exact ⟨_, rfl⟩
    · rename_i hdir; simp [hdir] at h

theorem confined_single {cr : Path} (e : Effect) (h : ∀ q ∈ e.paths, Under cr q) :
    ∀ x ∈ [e], x.Confined cr := by
  intro x hx
  simp only [List.mem_singleton] at hx
  subst hx
  exact h

theorem confined_append {cr : Path} {a b : List Effect} (ha : ∀ e ∈ a, e.Confined cr)
    (hb : ∀ e ∈ b, e.Confined cr) : ∀ e ∈ a ++ b, e.Confined cr := by
  intro e he
  simp only [List.mem_append] at he
  rcases he with he | he
  · exact ha e he
  · exact hb e he

theorem createEntry_confined (w : World) (hwf : WF w.fs) (tok : Nat) (path : List Char) (isDir : Bool)
    (content : Option (List Char)) (we : Bool) :
    ∀ e ∈ (createEntry w tok path isDir content we).effects, e.Confined (canonRoot w.fs w.root) := by
  unfold createEntry
  split
  · simp [fail]
  · split
    · simp [fail]
    · rename_i parts hn
      split
      · simp [fail]
      · rename_i joined hr
        obtain ⟨par, l, rfl, hres, hpar, hl⟩ := accepted_of hn hr
        have hP : (w.root ++ (par ++ [l])).dropLast = w.root ++ par := by
          rw [← List.append_assoc, List.dropLast_concat]
        split
        · simp [fail]
        · rename_i hnex
          split
          · simp [fail]
          · split
            · -- directory
              split
              · simp [fail]
              · rename_i fs' made hm
                exact confined_mkdirs (hres.mkdirAll_self hpar hl (by simpa using hnex) hm)
            · -- file
              dsimp only
              split
              · simp [fail]
              · rw [hP]
                split
                · simp [fail]
                · rename_i fs1 made hm
                  have hmk := confined_mkdirs (hres.mkdirAll_parent hpar hm)
                  obtain ⟨_, hafter⟩ := hres.after_mkdirAll hwf hpar hl hm
                  split
                  · exact hmk
                  · rename_i fs2 q hw
                    obtain ⟨q0, hq0⟩ := writeFile_some_lloc hw
                    obtain ⟨hu, hnl⟩ := hafter q0 hq0
                    have hqq := writeFile_loc hq0 hnl hw
                    apply confined_append hmk
                    apply confined_single
                    intro x hx
                    simp only [Effect.paths, List.mem_singleton] at hx
                    rw [hx, hqq]
                    exact hu

theorem renameEntry_confined (w : World) (hwf : WF w.fs) (tok : Nat) (path newPath : List Char)
    (we : Bool) :
    ∀ e ∈ (renameEntry w tok path newPath we).effects, e.Confined (canonRoot w.fs w.root) := by
  unfold renameEntry
  split
  · simp [fail]
  · split
    · simp [fail]
    · rename_i oldParts hno
      split
      · simp [fail]
      · rename_i newParts hnn
        split
        · simp [fail]
        · rename_i oldJ hro
          have hacco := accepted_of hno hro
          dsimp only
          split
          · simp [fail]
          · rename_i newJ hrn
            obtain ⟨par, l, rfl, hres, hpar, hl⟩ := accepted_of hnn hrn
            have hP : (w.root ++ (par ++ [l])).dropLast = w.root ++ par := by
              rw [← List.append_assoc, List.dropLast_concat]
            split
            · simp [fail]
            · rename_i hoex
              split
              · simp [fail]
              · split
                · simp [fail]
                · rw [hP]
                  split
                  · simp [fail]
                  · rename_i fs1 made hm
                    have hmk := confined_mkdirs (hres.mkdirAll_parent hpar hm)
                    obtain ⟨hext, hafter⟩ := hres.after_mkdirAll hwf hpar hl hm
                    split
                    · exact hmk
                    · rename_i fs2 qo qn hren
                      obtain ⟨hlo, hln⟩ := renamePath_loc hren
                      have hun := (hafter qn hln).1
                      -- the source resolved before the directories were created, and still does
                      have huo : Under (canonRoot w.fs w.root) qo := by
                        obtain ⟨opar, ol, hoj, _, _, _⟩ := hacco
                        have hex : pexists w.fs oldJ = true := by simpa using hoex
                        rw [hoj, ← List.append_assoc] at hex
                        obtain ⟨q0, hq0⟩ := lloc_of_pexists _ _ _ hex
                        rw [List.append_assoc, ← hoj] at hq0
                        have h1 := lloc_mono hext _ _ hq0
                        rw [hlo] at h1
                        cases h1
                        exact (Accepted.lloc ⟨opar, ol, hoj, by assumption, by assumption, by assumption⟩ hq0).1
                      apply confined_append hmk
                      apply confined_single
                      intro x hx
                      simp only [Effect.paths, List.mem_cons, List.not_mem_nil, or_false] at hx
                      rcases hx with rfl | rfl
                      · exact huo
                      · exact hun

/-- decidable check of well-formedness -/
def wfCheck (fs : FS) : Bool := fs.all fun e => e.1 == [] || isDirNode (node fs e.1.dropLast)

theorem get_mem (fs : FS) (k : Path) (n : Node) (h : fs.get k = some n) : (k, n) ∈ fs := by
  induction fs with
  | nil => simp [FS.get] at h
  | cons e rest ih =>
    obtain ⟨k', n'⟩ := e
    simp only [FS.get] at h
    split at h
    · rename_i hk; subst hk; cases h; simp
    · exact List.mem_cons_of_mem _ (ih h)

theorem WF_of_check (fs : FS) (h : wfCheck fs = true) : WF fs := by
  intro k n hg hk
  have hm := get_mem fs k n hg
  have := List.all_eq_true.1 h (k, n) hm
  simpa [hk] using this

/-- all effects of every modelled operation are confined -/
theorem step_confined (w : World) (hwf : WF w.fs) (op : Op) :
    ∀ e ∈ (step w op).effects, e.Confined (canonRoot w.fs w.root) := by
  cases op with
  | createSession e =>
    simp only [step, createSession]
    split <;> simp [fail]
  | listSources t => exact listSources_confined w t
  | listTree t => exact listTree_confined w t
  | search t q l => exact workspaceSearch_confined w t q l
  | «open» t p => exact openSource_confined w t p
  | apply t p e c we => exact applySource_confined w t p e c we
  | create t p d c we => exact createEntry_confined w hwf t p d c we
  | rename t p n we => exact renameEntry_confined w hwf t p n we
  | delete t p we => exact deleteEntry_confined w t p we
  | format t p c => exact formatSource_confined w t p c
  | health t =>
    simp only [step, health, withSession]
    split <;> simp [fail]

/-! ### a small world for the non-vacuity examples -/

/-- project `p` next to an outside directory `o`; links out of the project (directory, file,
dangling), a link to the hidden directory, one ordinary file -/
def exFs : FS :=
  let p : Name := "p".toList
  [([p], .dir), (["o".toList], .dir), (["o".toList, "s.st".toList], .file "ZZ".toList),
   ([p, ".hid".toList], .dir), ([p, ".hid".toList, "s.st".toList], .file "ZZ".toList),
   ([p, "dout".toList], .link ["o".toList]),
   ([p, "f.st".toList], .link ["o".toList, "s.st".toList]),
   ([p, "d.st".toList], .link ["o".toList, "new.st".toList]),
   ([p, "vis".toList], .link [p, ".hid".toList]),
   ([p, "m.st".toList], .file "x".toList)]

/-- `exFs` with one editor session (token 0) -/
def exWorld : World := (step { fs := exFs, root := ["p".toList] } (.createSession true)).world

/-- the operation had no effect at all -/
def refused (w : World) (op : Op) : Bool :=
  decide ((step w op).effects = []) && decide ((step w op).world.fs = w.fs)

end TrustVerif.C19
